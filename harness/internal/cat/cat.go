// Package cat is the catalogue of template programs shared by the history / concurrency /
// fault properties (C09, C10, C11, C12): small file sets covering every directive, includes,
// slots, layouts, filters, front-matter, v-once and a family of failing programs with the
// failure placed early, late, inside a loop, an include or a layout.
package cat

import (
	"context"
	"errors"
	"fmt"
	"golang.org/x/net/html"
	"io"
	"io/fs"
	"sort"
	"strings"

	"github.com/titpetric/vuego"

	"verif/internal/memfs"
	"verif/internal/vals"
)

// Program is a file set with a page, data and an expectation.
type Program struct {
	Name     string            `json:"name"`
	Files    map[string]string `json:"files"` // "page.vuego" is the entry
	Data     map[string]vals.V `json:"data,omitempty"`
	Fails    bool              `json:"fails,omitempty"`     // every file entry point must return an error
	FileOnly bool              `json:"file_only,omitempty"` // needs front-matter/layout: not for string entries
	Opts     []string          `json:"opts,omitempty"`      // "components"
	Feat     []string          `json:"feat,omitempty"`
	Canary   string            `json:"canary,omitempty"` // a value only this program's data contains
	// Store: how the file set is presented to the engine (see Stores in store.go; "" = plain memfs).
	// Engine and NewVue mount a bare *memfs.FS accordingly; callers that build the engine
	// themselves use p.Mount(p.FS()).
	Store string `json:"store,omitempty"`
	// Alt: a second page of the same site ("" = none); callers that support it render it next to
	// page.vuego on the same engine (it lives in another directory and names the same layout).
	Alt string `json:"alt,omitempty"`
}

// Counter is a stateful node processor, as docs/nodeprocessor.md allows them ("New ensures that
// we can have render-scoped allocations"): PreProcess counts the elements of the template as it
// was decoded, PostProcess stamps that count (and the number of PreProcess calls this instance
// has seen) on the first element of the result. An instance that serves more than one render,
// or two renders that exchange instances, show in the output.
type Counter struct {
	pre, elems int
}

// New returns the render-scoped instance.
func (c *Counter) New() vuego.NodeProcessor { return &Counter{} }

func countElems(n *html.Node) int {
	k := 0
	if n.Type == html.ElementNode {
		k = 1
	}
	for c := n.FirstChild; c != nil; c = c.NextSibling {
		k += countElems(c)
	}
	return k
}

// PreProcess counts.
func (c *Counter) PreProcess(nodes []*html.Node) error {
	c.pre++
	for _, n := range nodes {
		c.elems += countElems(n)
	}
	return nil
}

// PostProcess stamps.
func (c *Counter) PostProcess(nodes []*html.Node) error {
	for _, n := range nodes {
		if n.Type == html.ElementNode {
			n.Attr = append(n.Attr, html.Attribute{Key: "data-pre", Val: fmt.Sprintf("%d/%d", c.pre, c.elems)})
			break
		}
	}
	return nil
}

// Entries lists the Template entry points.
var Entries = []string{"load", "file", "string", "byte", "reader"}

// FileEntries are those that go through front-matter and layouts.
var FileEntries = []string{"load", "file"}

// MoreEntries are further ways to the same file render: the View shim, Assign key by key instead
// of Fill, Fill before Load, and an engine put together with New(WithFS(..)) instead of NewFS.
var MoreEntries = []string{"view", "assign", "fillload", "withfs"}

// VueEntries are the lower-level *Vue methods.
var VueEntries = []string{"vue", "frag"}

// NodesEntry is Vue.RenderNodes over nodes loaded with NewLoader(fs).LoadFragment (front matter
// stripped and not applied): run it with Program.Run.
const NodesEntry = "nodes"

// ErrBoom is returned by the registered function "boom".
var ErrBoom = errors.New("boom failed")

// Funcs is the function map registered for every program.
func Funcs() vuego.FuncMap {
	return vuego.FuncMap{
		"boom":  func(v any) (any, error) { return nil, ErrBoom },
		// failing functions that hand back a NON-ZERO value next to the error (strconv / io style): the
		// error still fails the render (docs/funcmap.md, Error Handling) whatever the first value is
		"partial": func(v any) (any, error) { return v, ErrBoom },
		"count3":  func(s string) (int, error) { return 3, ErrBoom },
		"half":    func(s string) (string, error) { return "half-" + s, ErrBoom },
		"shout": func(s string) string { return strings.ToUpper(s) + "!" },
		"add":   func(a, b int) int { return a + b },
		"repeat": func(s string, n int) string {
			if n < 0 || n > 100 {
				n = 0 // a panicking user function is the user's defect, not the engine's
			}
			return strings.Repeat(s, n)
		},
		"isBig": func(n int) bool { return n > 10 },
		"pad":   func(k, v string) string { return k + "=" + v },
		// functions that take the render context first and / or a variadic tail whose element
		// type differs from the last fixed parameter (all total: they never panic themselves)
		"joinn": func(ctx *vuego.VueContext, n int, parts ...string) string {
			return fmt.Sprintf("%d:%s", n, strings.Join(parts, "+"))
		},
		"sumall": func(label string, nums ...int) string {
			t := 0
			for _, x := range nums {
				t += x
			}
			return fmt.Sprintf("%s=%d", label, t)
		},
		"ctxonly": func(ctx *vuego.VueContext, v any) string { return fmt.Sprint(v) },
	}
}

// GoData builds the typed data map.
func (p Program) GoData() map[string]any {
	m := map[string]any{}
	for k, v := range p.Data {
		m[k] = v.Go()
	}
	return m
}

// FS builds a fresh in-memory filesystem for the program.
func (p Program) FS() *memfs.FS { return memfs.FromMap(p.Files) }

// Engine creates a fresh root template over fsys.
func (p Program) Engine(fsys fs.FS) vuego.Template {
	opts := []vuego.LoadOption{vuego.WithFuncs(Funcs())}
	for _, o := range p.Opts {
		if o == "components" {
			opts = append(opts, vuego.WithComponents())
		}
		if o == "counter" {
			opts = append(opts, vuego.WithProcessor(&Counter{}))
		}
	}
	return vuego.NewFS(p.mounted(fsys), opts...)
}

// Reachable reports whether rendering page.vuego reads file f (files next to the Alt page
// belong to that page alone).
func (p Program) Reachable(f string) bool {
	if p.Alt == "" {
		return true
	}
	if i := strings.LastIndex(p.Alt, "/"); i >= 0 {
		return !strings.HasPrefix(f, p.Alt[:i+1])
	}
	return f != p.Alt
}

// Applicable reports whether the program can be run through the entry point.
func (p Program) Applicable(entry string) bool {
	switch entry {
	case "string", "byte", "reader":
		return !p.FileOnly
	case "vue", "frag", "nodes":
		// the *Vue methods parse front-matter but know nothing about layouts or options
		return !strings.Contains(strings.Join(p.Opts, " "), "components") && !strings.Contains(strings.Join(p.Feat, " "), "layout")
	}
	return true
}

// pageBody strips a front-matter block (string entries do not parse front-matter).
func (p Program) pageBody() string {
	return p.Files["page.vuego"]
}

// RunOn renders the program on an existing root template through entry.
func (p Program) RunOn(ctx context.Context, root vuego.Template, entry string, w io.Writer) error {
	d := p.GoData()
	switch entry {
	case "load":
		return root.Load("page.vuego").Fill(d).Render(ctx, w)
	case "file":
		return root.New().Fill(d).RenderFile(ctx, w, "page.vuego")
	case "string":
		return root.New().Fill(d).RenderString(ctx, w, p.pageBody())
	case "byte":
		return root.New().Fill(d).RenderByte(ctx, w, []byte(p.pageBody()))
	case "reader":
		return root.New().Fill(d).RenderReader(ctx, w, strings.NewReader(p.pageBody()))
	case "view", "withfs":
		return vuego.View(root, "page.vuego", d).Render(ctx, w)
	case "assign":
		t := root.Load("page.vuego")
		keys := make([]string, 0, len(d))
		for k := range d {
			keys = append(keys, k)
		}
		sort.Strings(keys)
		for _, k := range keys {
			t = t.Assign(k, d[k])
		}
		return t.Render(ctx, w)
	case "fillload":
		return root.New().Fill(d).Load("page.vuego").Fill(d).Render(ctx, w)
	}
	return fmt.Errorf("cat: unknown entry %q", entry)
}

// RunVue renders through the *Vue methods.
func (p Program) RunVue(v *vuego.Vue, entry string, w io.Writer) error {
	switch entry {
	case "vue":
		return v.Render(w, "page.vuego", p.GoData())
	case "frag":
		return v.RenderFragment(w, "page.vuego", p.GoData())
	}
	return fmt.Errorf("cat: unknown vue entry %q", entry)
}

// NewVue creates a fresh *Vue for the program.
func (p Program) NewVue(fsys fs.FS) *vuego.Vue {
	v := vuego.NewVue(p.mounted(fsys)).Funcs(Funcs())
	for _, o := range p.Opts {
		if o == "counter" {
			v.RegisterNodeProcessor(&Counter{})
		}
	}
	return v
}

// Run renders the program on a fresh engine over a fresh filesystem.
func (p Program) Run(ctx context.Context, entry string, w io.Writer) error {
	if entry == "vue" || entry == "frag" {
		return p.RunVue(p.NewVue(p.FS()), entry, w)
	}
	if entry == NodesEntry {
		fsys := p.FS()
		nodes, err := vuego.NewLoader(p.mounted(fsys)).LoadFragment("page.vuego")
		if err != nil {
			return err
		}
		return p.NewVue(fsys).RenderNodes(w, nodes, p.GoData())
	}
	if entry == "withfs" {
		opts := []vuego.LoadOption{vuego.WithFS(p.mounted(p.FS())), vuego.WithFuncs(Funcs())}
		for _, o := range p.Opts {
			if o == "components" {
				opts = append(opts, vuego.WithComponents())
			}
			if o == "counter" {
				opts = append(opts, vuego.WithProcessor(&Counter{}))
			}
		}
		return p.RunOn(ctx, vuego.New(opts...), entry, w)
	}
	return p.RunOn(ctx, p.Engine(p.FS()), entry, w)
}

func s(x string) vals.V { return vals.Str(x) }
func n(x int) vals.V    { return vals.Int(x) }

func list(items ...string) vals.V {
	l := make([]vals.V, len(items))
	for i, it := range items {
		l[i] = vals.Str(it)
	}
	return vals.V{K: "[]string", L: l}
}

func recs(names ...string) vals.V {
	l := make([]vals.V, len(names))
	for i, nm := range names {
		l[i] = vals.Map(map[string]vals.V{"name": s(nm), "n": n(i * 7), "on": vals.Bool(i%2 == 0)})
	}
	return vals.V{K: "[]any", L: l}
}

const end = `<i data-m="end">END</i>`

// All returns the catalogue. Every succeeding program ends with the END marker so that a
// complete document can be recognised.
func All() []Program {
	ps := []Program{
		{Name: "plain", Files: map[string]string{"page.vuego": `<div id="a" title="t {{ who }}"><p>Hello {{ who }}, n={{ num }}</p><span :data-n="num" :title="who">x</span></div>` + end},
			Data: map[string]vals.V{"who": s("plainWHO"), "num": n(41)}, Feat: []string{"interp", "bound"}},
		{Name: "cond-loop", Files: map[string]string{"page.vuego": `<ul><li v-for="(i, r) in rows" :data-i="i"><b v-if="r.on">{{ r.name }}</b><em v-else-if="r.n > 10">big {{ r.n }}</em><i v-else>off</i><span v-show="r.on">s</span></li></ul><p v-if="missing">no</p><p v-else>yes {{ who }}</p>` + end},
			Data: map[string]vals.V{"rows": recs("condA", "condB", "condC", "condD"), "who": s("condWHO")}, Feat: []string{"v-if", "v-for", "v-show", "expr"}},
		{Name: "attrs", Files: map[string]string{"page.vuego": `<p class="s" :class="{on: flag, off: !flag, big: num > 3}" style="color:red;margin:0" :style="{fontSize: size, color: col}" :a="who" :b="num" :c="flag" :d="who">x</p><p :class="cls" :style="sty" v-show="flag">y</p>` + end},
			Data: map[string]vals.V{"flag": vals.Bool(true), "num": n(5), "size": s("12px"), "col": s("blue"), "who": s("attrsWHO"), "cls": s("k1 k2"), "sty": s("top:1px")}, Feat: []string{"class", "style", "multi-bound"}},
		{Name: "include-slot", Files: map[string]string{
			"page.vuego":            `<section><template include="components/card.vuego" title="T {{ who }}" :count="num"><template v-slot:head="h"><h2>{{ h.label }} {{ who }}</h2></template><p>body {{ who }}</p></template><template include="components/card.vuego" title="second" :count="num"></template><p>after {{ who }}</p></section>` + end,
			"components/card.vuego": "---\nkind: card\n---\n" + `<template :required="title"><div class="card" :data-kind="kind"><header><slot name="head" :label="title"><b>default head {{ title }}</b></slot></header><main><slot><i>empty</i></slot></main><footer>{{ count }} {{ kind }}</footer><template include="components/leaf.vuego" :v="count"></template></div></template>`,
			"components/leaf.vuego": `<small>leaf {{ v }}</small>`,
		}, Data: map[string]vals.V{"who": s("incWHO"), "num": n(3)}, Feat: []string{"include", "slot", "scoped-slot", "required", "front-matter"}},
		{Name: "layout-chain", FileOnly: true, Files: map[string]string{
			"page.vuego":         "---\nlayout: post\ntitle: PageTitle\n---\n" + `<article><h1>{{ title }}</h1><p>{{ who }}</p></article>`,
			"layouts/post.vuego": "---\nlayout: base\nside: S1\n---\n" + `<div class="post"><aside>{{ side }} {{ title }}</aside><div v-html="content"></div></div>`,
			"layouts/base.vuego": `<html><head><title>{{ title }}</title></head><body><div v-html="content"></div><footer>{{ who }}</footer>` + end + `</body></html>`,
		}, Data: map[string]vals.V{"who": s("layWHO")}, Feat: []string{"layout", "front-matter", "v-html"}},
		{Name: "filters", Files: map[string]string{"page.vuego": `<p>{{ who | upper }} {{ who | shout | lower }} {{ num | add(2) }} {{ missing | default("dflt") }} {{ who | repeat(2) }} {{ len(rows) }}</p><p :title="who | upper" v-if="num > 2">{{ num + 1 }} {{ num > 3 ? 'big' : 'small' }}</p><pre v-text="who | shout"></pre>` + end},
			Data: map[string]vals.V{"who": s("filtWHO"), "num": n(4), "rows": list("a", "b", "c")}, Feat: []string{"pipe", "func", "expr", "v-text"}},
		{Name: "once", Files: map[string]string{
			"page.vuego": `<style v-once>.o{}</style><ul><li v-for="r in rows"><b v-once>first only {{ who }}</b><span>{{ r }}</span></li></ul><template include="c.vuego"></template><template include="c.vuego"></template>` + end,
			"c.vuego":    `<div><style v-once>.c{}</style><p>comp {{ who }}</p></div>`,
		}, Data: map[string]vals.V{"who": s("onceWHO"), "rows": list("r1", "r2", "r3")}, Feat: []string{"v-once", "include", "v-for"}},
		{Name: "paths", Files: map[string]string{"page.vuego": `<p>{{ user.name }} {{ user.tags[1] }} {{ rows[0].name }} {{ user.addr.city }}</p><p v-for="t in user.tags">{{ t }}</p><p v-if="user.addr.zip == 'Z9'">zip</p><template v-if="user.name"><b>{{ user.name }}</b></template><p v-pre>{{ raw }}</p>` + end},
			Data: map[string]vals.V{"user": vals.Map(map[string]vals.V{"name": s("pathWHO"), "tags": list("t1", "t2"), "addr": vals.Map(map[string]vals.V{"city": s("C1"), "zip": s("Z9")})}), "rows": recs("p1")}, Feat: []string{"paths", "template", "v-pre"}},
		{Name: "frontmatter", FileOnly: true, Files: map[string]string{
			"page.vuego": "---\nwho: fmWHO\nitems:\n  - i1\n  - i2\nnested:\n  k: v1\n---\n" + `<p>{{ who }} {{ nested.k }} {{ extra }}</p><i v-for="it in items">{{ it }}</i>` + end,
		}, Data: map[string]vals.V{"who": s("overridden"), "extra": s("fmEXTRA")}, Feat: []string{"front-matter"}},
		{Name: "shorthand", Opts: []string{"components"}, Files: map[string]string{
			"page.vuego":               `<div><my-badge label="L {{ who }}" :n="num"></my-badge><my-badge label="two"></my-badge></div>` + end,
			"components/MyBadge.vuego": `<span class="badge">{{ label }}:{{ n }}</span>`,
		}, Data: map[string]vals.V{"who": s("shWHO"), "num": n(9)}, Feat: []string{"shorthand", "include"}},
		// a document nested deeper than any fixed-size table in the serialiser (140 levels,
		// plus a recursive component 70 levels deep: two elements per level)
		{Name: "deep-nesting", Files: map[string]string{"page.vuego": strings.Repeat(`<div>`, 140) + `<p>bottom {{ who }}</p>` + strings.Repeat(`</div>`, 140) + end},
			Data: map[string]vals.V{"who": s("deepWHO")}, Feat: []string{"deep"}},
		{Name: "deep-recursion", Files: map[string]string{
			"page.vuego":   `<section><template include="thread.vuego" :node="tree"></template></section>` + end,
			"thread.vuego": `<ul><li><b>{{ node.name }}</b><template v-if="node.kid" include="thread.vuego" :node="node.kid"></template></li></ul>`,
		}, Data: deepTree(70), Feat: []string{"deep", "include"}},
		// slot templates a page hands to its layout, filled by <slot> elements in the layout file
		// (twice, and in a loop) and in a component the layout includes; the content binds a
		// variable and contains a nested <slot> that must show its fallback
		{Name: "layout-slot-handover", FileOnly: true, Files: map[string]string{
			"page.vuego":          "---\nlayout: shell\ntitle: HandTitle\n---\n" + `<template #head="hp"><b>{{ who }}</b><template :hx="who"></template><i>{{ hx }} {{ hp.n }}</i><slot name="inner">inner-fallback</slot></template><template v-slot:foot><em>foot {{ title }}</em></template><article>{{ who }}</article>`,
			"layouts/shell.vuego": `<html><head><title>{{ title }}</title></head><body><header><slot name="head" :n="1"></slot></header><ul><li v-for="k in rows"><slot name="head" :n="k"></slot></li></ul><div v-html="content"></div><template include="frame.vuego"></template><footer><slot name="foot">no foot</slot></footer>` + end + `</body></html>`,
			"frame.vuego":         `<section><slot name="foot">frame-fallback</slot><slot name="nope">nope-fallback</slot></section>`,
		}, Data: map[string]vals.V{"who": s("handWHO"), "rows": vals.List("[]any", vals.Int(2), vals.Int(3))}, Feat: []string{"layout", "front-matter", "slot", "handover"}},
		// a full document with a doctype, rendered without any layout (the doctype is a node of
		// its own in front of the document)
		{Name: "doc-plain", Files: map[string]string{
			"page.vuego": "<!DOCTYPE html>\n" + `<html lang="en"><head><title>{{ who }}</title><meta charset="utf-8"></head><body><p>{{ who }}</p><template include="c.vuego" :v="who"></template><ul><li v-for="r in rows">{{ r }}</li></ul>` + end + `</body></html>`,
			"c.vuego":    `<template :required="v"><div><b>{{ v }}</b></div></template>`,
		}, Data: map[string]vals.V{"who": s("docWHO"), "rows": list("a", "b")}, Feat: []string{"doctype", "document", "include", "required"}},
		{Name: "fail-doc-required", Fails: true, Files: map[string]string{
			"page.vuego": "<!DOCTYPE html>\n" + `<html><head><title>t</title></head><body><p>before</p><template include="c.vuego" a="1"></template></body></html>`,
			"c.vuego":    `<template :required="a,zzz"><p>{{ a }}</p></template>`,
		}, Feat: []string{"fail", "doctype", "required"}},
		// v-once elements in a page that goes through a layout, also inside the slot templates
		// the page hands to the layout
		{Name: "layout-once", FileOnly: true, Files: map[string]string{
			"page.vuego":          "---\nlayout: shell\ntitle: OnceTitle\n---\n" + `<template #head><style v-once>.h{}</style><b>{{ who }}</b></template><script v-once>var a = 1;</script><ul><li v-for="r in rows"><i v-once>once {{ who }}</i>{{ r }}</li></ul>`,
			"layouts/shell.vuego": `<html><head><title>{{ title }}</title></head><body><header><slot name="head">no head</slot></header><style v-once>.l{}</style><main v-html="content"></main>` + end + `</body></html>`,
		}, Data: map[string]vals.V{"who": s("lonceWHO"), "rows": list("r1", "r2")}, Feat: []string{"layout", "front-matter", "v-once", "slot", "handover"}},
		// two pages of one site whose expressions differ only in the blanks INSIDE a string literal
		// (compiled expressions are cached per engine)
		{Name: "expr-twins", Alt: "alt/page.vuego", Files: map[string]string{
			"page.vuego":     `<pre>{{ who + ":  " + who }}|{{ who == "a  b" ? "two" : "other" }}</pre><p :title="who + '  x'" v-if="who != 'twin  WHO'">{{ pad("k",   who) }}</p>` + end,
			"alt/page.vuego": `<pre>{{ who + ": " + who }}|{{ who == "a b" ? "two" : "other" }}</pre><p :title="who + ' x'" v-if="who != 'twin WHO'">{{ pad("k", who) }}</p>` + end,
		}, Data: map[string]vals.V{"who": s("twin WHO")}, Feat: []string{"expr", "string-literals", "sibling-page"}},
		// a layout whose last root-level node is text: the document does not end in a line break
		{Name: "layout-text-tail", FileOnly: true, Files: map[string]string{
			"page.vuego":         "---\nlayout: tail\n---\n" + `<p>{{ who }}</p>`,
			"layouts/tail.vuego": `<div v-html="content"></div>` + end + `(c) {{ who }} ACME`,
		}, Data: map[string]vals.V{"who": s("tailWHO")}, Feat: []string{"layout", "front-matter", "text-tail"}},
		// page files that start with a UTF-8 byte-order mark (some editors write one)
		{Name: "bom-plain", Files: map[string]string{
			"page.vuego": "\xef\xbb\xbf" + `<div><p>{{ who }}</p><template include="c.vuego" :v="who"></template></div>` + end,
			"c.vuego":    "\xef\xbb\xbf" + `<b>{{ v }}</b>`,
		}, Data: map[string]vals.V{"who": s("bomWHO")}, Feat: []string{"bom", "include"}},
		{Name: "bom-layout", FileOnly: true, Files: map[string]string{
			"page.vuego":         "\xef\xbb\xbf---\ntitle: BomTitle\n---\n" + `<p>{{ who }}</p>`,
			"layouts/base.vuego": "\xef\xbb\xbf" + `<html><head><title>{{ title }}</title></head><body><div v-html="content"></div>` + end + `</body></html>`,
		}, Data: map[string]vals.V{"who": s("bomLWHO")}, Feat: []string{"bom", "layout", "front-matter"}},
		{Name: "fail-bom-missing-include", Fails: true, Files: map[string]string{
			"page.vuego": "\xef\xbb\xbf" + `<p>before</p><template include="nope.vuego"></template><p>after</p>`,
		}, Feat: []string{"fail", "bom", "include"}},
		{Name: "fail-bom-in-layout", Fails: true, FileOnly: true, Files: map[string]string{
			"page.vuego":         "\xef\xbb\xbf" + `<p>{{ who | boom }}</p>`,
			"layouts/base.vuego": `<html><body><div v-html="content"></div></body></html>`,
		}, Data: map[string]vals.V{"who": s("fbWHO")}, Feat: []string{"fail", "bom", "layout"}},
		// a registered stateful node processor (render-scoped state via New)
		{Name: "proc-counter", Opts: []string{"counter"}, Files: map[string]string{
			"page.vuego": `<section><p v-for="r in rows">{{ r }} {{ who }}</p><template include="c.vuego" :v="who"></template></section>` + end,
			"c.vuego":    `<div><b>{{ v }}</b><i>c</i></div>`,
		}, Data: map[string]vals.V{"who": s("procWHO"), "rows": list("a", "b", "c")}, Feat: []string{"processor", "include"}},
		{Name: "proc-counter-layout", Opts: []string{"counter"}, FileOnly: true, Files: map[string]string{
			"page.vuego":          "---\nlayout: shell\ntitle: ProcTitle\n---\n" + `<article><p>{{ who }}</p><p>two</p></article>`,
			"layouts/shell.vuego": `<html><head><title>{{ title }}</title></head><body><main v-html="content"></main>` + end + `</body></html>`,
		}, Data: map[string]vals.V{"who": s("procLWHO")}, Feat: []string{"processor", "layout", "front-matter"}},
		// two pages in different directories name the same layout: the one next to a page wins
		// for that page only, the other page gets layouts/frame.vuego
		{Name: "layout-sibling", FileOnly: true, Alt: "sub/page.vuego", Files: map[string]string{
			"page.vuego":          "---\nlayout: frame\n---\n" + `<p>root page {{ who }}</p>`,
			"sub/page.vuego":      "---\nlayout: frame\n---\n" + `<p>sub page {{ who }}</p>`,
			"sub/frame.vuego":     `<html><body data-frame="sub"><div v-html="content"></div>` + end + `</body></html>`,
			"layouts/frame.vuego": `<html><body data-frame="layouts"><div v-html="content"></div>` + end + `</body></html>`,
		}, Data: map[string]vals.V{"who": s("sibWHO")}, Feat: []string{"layout", "front-matter", "sibling-layout"}},
		// front-matter plus writes into the page's root scope; rendered without any data the
		// root scope is (a copy of) the cached front-matter
		{Name: "fm-root-write", FileOnly: true, Files: map[string]string{
			"page.vuego": "---\nuser: fmUser\ngreeting: fmHello\nvisits: 1\n---\n" + `<template :user="user | default('guest')" :visits="visits + 1" note="n-{{ greeting }}"></template><p>{{ greeting }} {{ user }} {{ note }} {{ visits }}</p><ul><li v-for="i in tags">{{ i }}</li></ul>` + end,
		}, Data: map[string]vals.V{}, Feat: []string{"frontmatter", "root-write"}},
		{Name: "struct-data", Files: map[string]string{"page.vuego": `<p>{{ rec.Name }} {{ rec.title }} {{ rec.Kids[0].Name }}</p><b v-for="k in rec.Kids" :title="k.title">{{ k.Name }}</b><i v-if="rec.Flag">flag</i>` + end},
			Data: map[string]vals.V{"rec": {K: "*rec", M: map[string]vals.V{"Name": s("structWHO"), "Title": s("T"), "Flag": vals.Bool(true), "Kids": {K: "[]rec", L: []vals.V{{K: "rec", M: map[string]vals.V{"Name": s("kid1"), "Title": s("kt1")}}, {K: "rec", M: map[string]vals.V{"Name": s("kid2"), "Title": s("kt2")}}}}}}}, Feat: []string{"struct", "paths"}},

		// ---- failing programs
		{Name: "fail-unknown-filter-late", Fails: true, Files: map[string]string{"page.vuego": `<p>before {{ who }}</p><ul><li v-for="r in rows">{{ r }}</li></ul><p>{{ who | nosuchfilter }}</p>`},
			Data: map[string]vals.V{"who": s("f1WHO"), "rows": list("a", "b")}, Feat: []string{"fail", "late"}},
		{Name: "fail-func-error-early", Fails: true, Files: map[string]string{"page.vuego": `<p>{{ who | boom }}</p><p>after</p>`},
			Data: map[string]vals.V{"who": s("f2WHO")}, Feat: []string{"fail", "early"}},
		{Name: "fail-func-partial-value", Fails: true, Files: map[string]string{"page.vuego": `<p>before</p><p>{{ who | partial }}</p><p>after</p>`},
			Data: map[string]vals.V{"who": s("f2pWHO")}, Feat: []string{"fail", "early", "partial-value"}},
		{Name: "fail-func-partial-int", Fails: true, Files: map[string]string{"page.vuego": `<p>before {{ who }}</p><p :title="who | half">reserved {{ who | count3 }}</p><p>after</p>`},
			Data: map[string]vals.V{"who": s("f2qWHO")}, Feat: []string{"fail", "late", "partial-value"}},
		{Name: "fail-func-partial-call", Fails: true, Files: map[string]string{"page.vuego": `<p>before</p><p v-if="count3(who) > 1">{{ half(who) }}</p><p>after</p>`},
			Data: map[string]vals.V{"who": s("f2rWHO")}, Feat: []string{"fail", "early", "partial-value"}},
		{Name: "fail-in-loop", Fails: true, Files: map[string]string{"page.vuego": `<p>before</p><ul><li v-for="r in rows"><b v-if="r.n > 10">{{ r.name | boom }}</b><i v-else>{{ r.name }}</i></li></ul>`},
			Data: map[string]vals.V{"rows": recs("l1", "l2", "l3")}, Feat: []string{"fail", "loop"}},
		// (the same failure with the collection spelled as a typed slice, an array, a slice of
		// structs: the loop's error must surface whatever the collection's Go type)
		{Name: "fail-in-loop-strings", Fails: true, Files: map[string]string{"page.vuego": `<p>before</p><ul><li v-for="r in rows"><b v-if="r == 'l2'">{{ r | boom }}</b><i v-else>{{ r }}</i></li></ul><p>after</p>`},
			Data: map[string]vals.V{"rows": list("l1", "l2", "l3")}, Feat: []string{"fail", "loop", "typed-collection"}},
		{Name: "fail-in-loop-array", Fails: true, Files: map[string]string{"page.vuego": `<p>before</p><ul><li v-for="r in rows"><b v-if="r == 'l2'">{{ r | boom }}</b><i v-else>{{ r }}</i></li></ul><p>after</p>`},
			Data: map[string]vals.V{"rows": {K: "[2]string", L: []vals.V{s("l1"), s("l2")}}}, Feat: []string{"fail", "loop", "typed-collection"}},
		{Name: "fail-in-loop-ints", Fails: true, Files: map[string]string{"page.vuego": `<p>before</p><ul><li v-for="r in rows"><b v-if="r == 2">{{ r | boom }}</b><i v-else>{{ r }}</i></li></ul><p>after</p>`},
			Data: map[string]vals.V{"rows": {K: "[]int", L: []vals.V{n(1), n(2), n(3)}}}, Feat: []string{"fail", "loop", "typed-collection"}},
		{Name: "fail-in-loop-structs", Fails: true, Files: map[string]string{"page.vuego": `<p>before</p><ul><li v-for="r in rows"><b v-if="r.Name == 'kid2'">{{ r.Name | boom }}</b><i v-else>{{ r.Name }}</i></li></ul><p>after</p>`},
			Data: map[string]vals.V{"rows": {K: "[]rec", L: []vals.V{{K: "rec", M: map[string]vals.V{"Name": s("kid1")}}, {K: "rec", M: map[string]vals.V{"Name": s("kid2")}}}}}, Feat: []string{"fail", "loop", "typed-collection"}},
		{Name: "fail-include-in-typed-loop", Fails: true, Files: map[string]string{"page.vuego": `<p>before</p><div v-for="r in rows"><template v-if="r == 'l2'" include="nope.vuego"></template><i v-else>{{ r }}</i></div><p>after</p>`},
			Data: map[string]vals.V{"rows": list("l1", "l2")}, Feat: []string{"fail", "loop", "typed-collection", "include"}},
		{Name: "fail-require-short", Fails: true, Files: map[string]string{
			"page.vuego": `<p>before</p><template include="c.vuego" a="1"></template>`,
			"c.vuego":    `<template :require="a,zzz"><p>{{ a }}</p></template>`,
		}, Feat: []string{"fail", "required"}},
		{Name: "fail-required-spaced", Fails: true, Files: map[string]string{
			"page.vuego": `<p>before</p><template include="c.vuego" a="1"></template>`,
			"c.vuego":    "<template :required=\"a ,\n  zzz\"><p>{{ a }}</p></template>",
		}, Feat: []string{"fail", "required"}},
		{Name: "fail-missing-include", Fails: true, Files: map[string]string{"page.vuego": `<p>before</p><template include="nope.vuego"></template><p>after</p>`},
			Feat: []string{"fail", "include"}},
		{Name: "fail-required", Fails: true, Files: map[string]string{
			"page.vuego": `<p>before</p><template include="c.vuego" a="1"></template>`,
			"c.vuego":    `<template :required="a,zzz"><p>{{ a }}</p></template>`,
		}, Feat: []string{"fail", "required"}},
		{Name: "fail-in-include", Fails: true, Files: map[string]string{
			"page.vuego": `<p>before</p><template include="c.vuego"></template>`,
			"c.vuego":    `<div><p>c before</p><p>{{ who | boom }}</p></div>`,
		}, Data: map[string]vals.V{"who": s("f6WHO")}, Feat: []string{"fail", "include"}},
		{Name: "fail-bad-frontmatter", Fails: true, FileOnly: true, Files: map[string]string{"page.vuego": "---\na: [unclosed\n  b: : :\n---\n<p>x</p>"},
			Feat: []string{"fail", "front-matter"}},
		{Name: "fail-in-layout", Fails: true, FileOnly: true, Files: map[string]string{
			"page.vuego":        "---\nlayout: bad\n---\n<p>page ok</p>",
			"layouts/bad.vuego": `<div><div v-html="content"></div><p>{{ who | boom }}</p></div>`,
		}, Data: map[string]vals.V{"who": s("f8WHO")}, Feat: []string{"fail", "layout"}},
		{Name: "fail-missing-layout", Fails: true, FileOnly: true, Files: map[string]string{
			"page.vuego": "---\nlayout: ghost\n---\n<p>page ok</p>",
		}, Feat: []string{"fail", "layout"}},
		{Name: "fail-page-under-layout", Fails: true, FileOnly: true, Files: map[string]string{
			"page.vuego":       "---\nlayout: ok\n---\n<p>{{ who | boom }}</p>",
			"layouts/ok.vuego": `<div v-html="content"></div>`,
		}, Data: map[string]vals.V{"who": s("f10WHO")}, Feat: []string{"fail", "layout"}},
		{Name: "fail-wrong-arity", Fails: true, Files: map[string]string{"page.vuego": `<p>ok</p><p :title="who | add(1, 2, 3)">x</p>`},
			Data: map[string]vals.V{"who": s("f11WHO")}, Feat: []string{"fail", "bound"}},
	}
	for i := range ps {
		for _, v := range ps[i].Data {
			if v.K == "string" && strings.HasSuffix(v.S, "WHO") {
				ps[i].Canary = v.S
			}
		}
	}
	sort.SliceStable(ps, func(i, j int) bool { return !ps[i].Fails && ps[j].Fails })
	return ps
}

// ByName finds a program.
func ByName(name string) (Program, bool) {
	for _, p := range All() {
		if p.Name == name {
			return p, true
		}
	}
	return Program{}, false
}

// Names lists the catalogue.
func Names() []string {
	var out []string
	for _, p := range All() {
		out = append(out, p.Name)
	}
	return out
}

// deepTree is page data {who, tree}: tree is a chain of n nested {name, kid} maps.
func deepTree(n int) map[string]vals.V {
	node := vals.Map(map[string]vals.V{"name": vals.Str("leaf")})
	for i := n - 1; i > 0; i-- {
		node = vals.Map(map[string]vals.V{"name": vals.Str(fmt.Sprintf("n%d", i)), "kid": node})
	}
	return map[string]vals.V{"who": vals.Str("World"), "tree": node}
}
