package cat

import (
	"io/fs"
	"sort"
	"testing"
	"time"

	"verif/internal/memfs"
)

// Every store presents exactly the described file set: same names, same contents, live writes.
func TestMountPresentsTheFileSet(t *testing.T) {
	files := map[string]string{
		"page.vuego":              "PAGE",
		"components/KOne.vuego":   "ONE",
		"components/KTwo.vuego":   "TWO",
		"components/KThree.vuego": "THREE",
		"layouts/x.vuego":         "LAYOUT",
	}
	for _, store := range Stores {
		m := memfs.FromMap(files)
		fsys := Mount(store, m)
		var seen []string
		err := fs.WalkDir(fsys, ".", func(p string, d fs.DirEntry, err error) error {
			if err != nil {
				return err
			}
			if !d.IsDir() {
				seen = append(seen, p)
			}
			return nil
		})
		if err != nil {
			t.Fatalf("%q: walk: %v", store, err)
		}
		sort.Strings(seen)
		if len(seen) != len(files) {
			t.Fatalf("%q: walk lists %v", store, seen)
		}
		for name, want := range files {
			b, err := fs.ReadFile(fsys, name)
			if err != nil || string(b) != want {
				t.Fatalf("%q: %s reads %q, %v", store, name, b, err)
			}
		}
		if _, err := fs.ReadFile(fsys, "components/None.vuego"); err == nil {
			t.Fatalf("%q: missing file opens", store)
		}
		m.Write("components/KTwo.vuego", "TWO-2", time.Unix(2000, 0))
		m.Write("components/New.vuego", "NEW", time.Unix(2000, 0))
		for name, want := range map[string]string{"components/KTwo.vuego": "TWO-2", "components/New.vuego": "NEW"} {
			if b, err := fs.ReadFile(fsys, name); err != nil || string(b) != want {
				t.Fatalf("%q: after write %s reads %q, %v", store, name, b, err)
			}
		}
		if _, ok := fsys.(fs.ReadDirFS); ok && store == "openonly" {
			t.Fatalf("openonly exposes ReadDir")
		}
	}
	// the stale copy really sits in the lowest layer of overlay3
	m := memfs.FromMap(files)
	_ = Mount("overlay3", m)
	low := view{m: m, set: map[string]bool{"components/KThree.vuego": true, "components/KTwo.vuego": true}, extra: memfs.FromMap(map[string]string{"components/KOne.vuego": StaleSource})}
	if b, _ := fs.ReadFile(low, "components/KOne.vuego"); string(b) != StaleSource {
		t.Fatalf("lowest layer serves %q for the shadowed component", b)
	}
	if _, err := fs.ReadFile(low, "page.vuego"); err == nil {
		t.Fatalf("lowest layer serves the page")
	}
}
