// Package ev records what a check run actually covered (evaluations, distinct
// non-trivial cases, class histogram, samples, exclusions, failures) and writes it as a
// "part" file that the driver merges into /verif/evidence/<id>.json.
package ev

import (
	"encoding/json"
	"fmt"
	"hash/fnv"
	"os"
	"path/filepath"
	"sort"
	"strconv"
	"sync"
	"time"
)

// Failure is one failing case, kept so the driver can turn it into a replay file.
type Failure struct {
	Kind string          `json:"kind"`
	Case json.RawMessage `json:"case"`
	Msg  string          `json:"msg"`
}

// Part is what one test process reports.
type Part struct {
	Property    string            `json:"property_id"`
	Tier        string            `json:"tier"`
	Seed        int               `json:"seed"`
	Shard       int               `json:"shard"`
	Evaluations int               `json:"evaluations"`
	Hashes      []uint64          `json:"hashes"`
	Classes     map[string]int    `json:"classes"`
	Excluded    map[string]int    `json:"excluded_by_known_finding"`
	Samples     []json.RawMessage `json:"samples"`
	Exhaustive  map[string]bool   `json:"exhaustive"`
	Notes       []string          `json:"notes"`
	Known       []string          `json:"known_findings_reproduced"`
	Failures    []Failure         `json:"failures"`
	Replays     []string          `json:"replays"`
	WallS       float64           `json:"wall_s"`
}

type sample struct {
	h   uint64
	raw json.RawMessage
}

// Rec is a concurrency-safe recorder for one property in one process.
type Rec struct {
	mu       sync.Mutex
	prop     string
	start    time.Time
	evals    int
	hashes   map[uint64]struct{}
	classes  map[string]int
	excluded map[string]int
	first    []json.RawMessage
	bottom   []sample // bottom-k by hash: a deterministic pseudo-random sample
	exh      map[string]bool
	notes    []string
	known    []string
	lastFail map[string]*Failure // per kind: last failing case (rapid re-runs the shrunk case last)
	failN    int
	replays  []string
}

// New creates a recorder for property id.
func New(prop string) *Rec {
	return &Rec{
		prop:     prop,
		start:    time.Now(),
		hashes:   map[uint64]struct{}{},
		classes:  map[string]int{},
		excluded: map[string]int{},
		exh:      map[string]bool{},
		lastFail: map[string]*Failure{},
	}
}

func hashBytes(b []byte) uint64 {
	h := fnv.New64a()
	_, _ = h.Write(b)
	return h.Sum64()
}

// Case counts one evaluation of the check function on case c. If nontrivial, the canonical
// JSON of c is hashed into the distinct set. classes label the case for the histogram.
func (r *Rec) Case(c any, nontrivial bool, classes ...string) {
	raw, err := json.Marshal(c)
	if err != nil {
		raw = []byte(strconv.Quote(fmt.Sprintf("%#v", c)))
	}
	h := hashBytes(raw)
	r.mu.Lock()
	defer r.mu.Unlock()
	r.evals++
	for _, cl := range classes {
		r.classes[cl]++
	}
	if !nontrivial {
		r.classes["trivial"]++
		return
	}
	if _, dup := r.hashes[h]; dup {
		return
	}
	r.hashes[h] = struct{}{}
	if len(raw) > 6000 {
		return // do not keep huge samples
	}
	if len(r.first) < 2 {
		r.first = append(r.first, raw)
		return
	}
	const k = 4
	r.bottom = append(r.bottom, sample{h, raw})
	sort.Slice(r.bottom, func(i, j int) bool { return r.bottom[i].h < r.bottom[j].h })
	if len(r.bottom) > k {
		r.bottom = r.bottom[:k]
	}
}

// Count adds n evaluations that are not individually recorded (e.g. inner renders).
func (r *Rec) Count(class string, n int) {
	r.mu.Lock()
	r.classes[class] += n
	r.mu.Unlock()
}

// Excluded counts a generated case that was skipped because it lies in the region of an
// open known finding.
func (r *Rec) Excluded(id string) {
	r.mu.Lock()
	r.excluded[id]++
	r.mu.Unlock()
}

// Exhaustive marks that the named bounded enumeration ran to completion.
func (r *Rec) Exhaustive(name string) {
	r.mu.Lock()
	r.exh[name] = true
	r.mu.Unlock()
}

// Note attaches free text to the evidence.
func (r *Rec) Note(format string, a ...any) {
	r.mu.Lock()
	r.notes = append(r.notes, fmt.Sprintf(format, a...))
	r.mu.Unlock()
}

// Known records that an open known finding was reproduced by its witness.
func (r *Rec) Known(line string) {
	r.mu.Lock()
	r.known = append(r.known, line)
	r.mu.Unlock()
}

// Fail remembers a failing case under kind. The last failure per kind wins, which under
// rapid is the shrunk one.
func (r *Rec) Fail(kind string, c any, err error) {
	raw, jerr := json.Marshal(c)
	if jerr != nil {
		raw = []byte(strconv.Quote(fmt.Sprintf("%#v", c)))
	}
	r.mu.Lock()
	r.lastFail[kind] = &Failure{Kind: kind, Case: raw, Msg: err.Error()}
	r.failN++
	r.mu.Unlock()
}

// Failed reports whether any failure was recorded.
func (r *Rec) Failed() bool {
	r.mu.Lock()
	defer r.mu.Unlock()
	return len(r.lastFail) > 0
}

// Replay is the on-disk format of a replay file.
type Replay struct {
	Property string          `json:"property"`
	Kind     string          `json:"kind"`
	Case     json.RawMessage `json:"case"`
	Msg      string          `json:"msg,omitempty"`
}

// Finish writes replay files for failures, prints VIOLATION lines, and writes the part file
// named by $VERIF_PART (if set). It returns the number of violations.
func (r *Rec) Finish() int {
	r.mu.Lock()
	defer r.mu.Unlock()
	tier := os.Getenv("VERIF_TIER")
	if tier == "" {
		tier = "quick"
	}
	seed, _ := strconv.Atoi(os.Getenv("VERIF_SEED"))
	shard, _ := strconv.Atoi(os.Getenv("VERIF_SHARD"))
	p := Part{
		Property:    r.prop,
		Tier:        tier,
		Seed:        seed,
		Shard:       shard,
		Evaluations: r.evals,
		Classes:     r.classes,
		Excluded:    r.excluded,
		Exhaustive:  r.exh,
		Notes:       r.notes,
		Known:       r.known,
		WallS:       time.Since(r.start).Seconds(),
	}
	for h := range r.hashes {
		p.Hashes = append(p.Hashes, h)
	}
	sort.Slice(p.Hashes, func(i, j int) bool { return p.Hashes[i] < p.Hashes[j] })
	p.Samples = append(p.Samples, r.first...)
	for _, s := range r.bottom {
		p.Samples = append(p.Samples, s.raw)
	}
	dir := os.Getenv("VERIF_REPLAY_DIR")
	if dir == "" {
		dir = os.TempDir()
	}
	kinds := make([]string, 0, len(r.lastFail))
	for k := range r.lastFail {
		kinds = append(kinds, k)
	}
	sort.Strings(kinds)
	for _, k := range kinds {
		f := r.lastFail[k]
		p.Failures = append(p.Failures, *f)
		rp := Replay{Property: r.prop, Kind: f.Kind, Case: f.Case, Msg: f.Msg}
		b, _ := json.MarshalIndent(rp, "", " ")
		name := fmt.Sprintf("%s-%s-%016x.json", r.prop, k, hashBytes(f.Case))
		path := filepath.Join(dir, name)
		_ = os.MkdirAll(dir, 0o755)
		if err := os.WriteFile(path, b, 0o644); err != nil {
			path = "unwritable:" + err.Error()
		}
		p.Replays = append(p.Replays, path)
		msg := f.Msg
		if len(msg) > 600 {
			msg = msg[:600] + "…"
		}
		fmt.Printf("FAILURE-DETAIL property=%s kind=%s %s\n", r.prop, k, oneLine(msg))
		fmt.Printf("VIOLATION property=%s replay=%s\n", r.prop, path)
	}
	if part := os.Getenv("VERIF_PART"); part != "" {
		b, _ := json.Marshal(p)
		_ = os.WriteFile(part, b, 0o644)
	}
	return len(kinds)
}

func oneLine(s string) string {
	out := make([]rune, 0, len(s))
	for _, c := range s {
		if c == '\n' || c == '\r' {
			out = append(out, ' ', '⏎', ' ')
			continue
		}
		out = append(out, c)
	}
	return string(out)
}
