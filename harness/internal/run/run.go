// Package run is the glue shared by all property packages: tier/seed access, panic-safe
// check invocation, rapid wrapper that records cases, replay of saved cases, known-finding
// witnesses and regression replays.
package run

import (
	"encoding/json"
	"fmt"
	"os"
	"path/filepath"
	"runtime/debug"
	"sort"
	"strconv"
	"strings"
	"testing"

	"pgregory.net/rapid"

	"verif/internal/ev"
	"verif/internal/kf"
)

// Tier returns "quick" or "thorough".
func Tier() string {
	if os.Getenv("VERIF_TIER") == "thorough" {
		return "thorough"
	}
	return "quick"
}

// Thorough reports whether the thorough tier is running.
func Thorough() bool { return Tier() == "thorough" }

// Shard returns this process's shard index and the shard count.
func Shard() (int, int) {
	i, _ := strconv.Atoi(os.Getenv("VERIF_SHARD"))
	n, _ := strconv.Atoi(os.Getenv("VERIF_SHARDS"))
	if n <= 0 {
		n = 1
	}
	return i, n
}

// First reports whether this is shard 0, which alone runs the deterministic parts
// (enumerations, witnesses, regressions).
func First() bool { i, _ := Shard(); return i == 0 }

// Pick chooses by tier.
func Pick[T any](quick, thorough T) T {
	if Thorough() {
		return thorough
	}
	return quick
}

// Inflight records the case about to be checked in $VERIF_INFLIGHT (if set), so that the driver
// can attribute a fatal, unrecoverable crash of the process (stack overflow, concurrent map
// write) to the case in flight and turn it into a replay file.
func Inflight(prop, kind string, c any) {
	path := os.Getenv("VERIF_INFLIGHT")
	if path == "" {
		return
	}
	raw, err := json.Marshal(c)
	if err != nil {
		return
	}
	b, _ := json.Marshal(ev.Replay{Property: prop, Kind: kind, Case: raw, Msg: "process died while this case was in flight"})
	_ = os.WriteFile(path, b, 0o644)
}

// Safe runs f and converts a panic into an error carrying the stack.
func Safe(f func() error) (err error) {
	defer func() {
		if r := recover(); r != nil {
			st := string(debug.Stack())
			if len(st) > 3000 {
				st = st[:3000]
			}
			err = fmt.Errorf("PANIC: %v\n%s", r, st)
		}
	}()
	return f()
}

// ReplayFn decodes a saved case of the given kind and runs the check on it.
type ReplayFn func(kind string, raw json.RawMessage) error

// Decode is a helper to write ReplayFn bodies.
func Decode[C any](raw json.RawMessage, check func(C) error) error {
	var c C
	if err := json.Unmarshal(raw, &c); err != nil {
		return fmt.Errorf("cannot decode case: %w", err)
	}
	return Safe(func() error { return check(c) })
}

// Each evaluates check on one enumerated case and records it. It returns false when the
// check failed (the failure is recorded; enumeration may continue or stop).
func Each[C any](rec *ev.Rec, kind string, c C, nontrivial bool, classes []string, check func(C) error) bool {
	rec.Case(c, nontrivial, classes...)
	if err := Safe(func() error { return check(c) }); err != nil {
		rec.Fail(kind, c, err)
		return false
	}
	return true
}

// Rapid runs a rapid property as subtest kind: gen draws a case (pure data), classify says
// whether it is non-trivial and labels it, check decides. The failing case seen last (rapid
// re-runs the minimal one last) is what ends up in the replay file.
func Rapid[C any](t *testing.T, rec *ev.Rec, kind string, gen func(*rapid.T) C, classify func(C) (bool, []string), check func(C) error) {
	t.Helper()
	t.Run(kind, func(t *testing.T) {
		defer func() {
			// rapid ends a failed check with FailNow; keep the panic path quiet too.
			_ = recover()
		}()
		rapid.Check(t, func(rt *rapid.T) {
			c := gen(rt)
			nt, classes := classify(c)
			rec.Case(c, nt, classes...)
			if err := Safe(func() error { return check(c) }); err != nil {
				rec.Fail(kind, c, err)
				rt.Fatalf("%s: %v", kind, err)
			}
		})
	})
}

// LoadReplay reads a replay file.
func LoadReplay(path string) (ev.Replay, error) {
	var rp ev.Replay
	b, err := os.ReadFile(path)
	if err != nil {
		return rp, err
	}
	err = json.Unmarshal(b, &rp)
	return rp, err
}

// Witnesses replays, on shard 0, every known-finding witness and every regression replay of
// the property: an open finding that still fails prints a KNOWN-FINDING line; a fixed
// finding or a regression replay that fails is a violation.
func Witnesses(rec *ev.Rec, prop string, fn ReplayFn) {
	if !First() {
		return
	}
	file := kf.Load()
	for _, x := range file.For(prop) {
		rp, err := LoadReplay(file.WitnessPath(x))
		if err != nil {
			rec.Note("known finding %s: witness unreadable: %v", x.ID, err)
			continue
		}
		cerr := fn(rp.Kind, rp.Case)
		switch x.Status {
		case "open":
			if cerr != nil {
				line := fmt.Sprintf("KNOWN-FINDING: property=%s %s: %s", prop, x.ID, x.What)
				fmt.Println(line)
				rec.Known(line)
			} else {
				rec.Note("open known finding %s no longer reproduces on this tree", x.ID)
			}
		case "fixed":
			rec.Count("fixed-witness-replayed", 1)
			if cerr != nil {
				var c any
				_ = json.Unmarshal(rp.Case, &c)
				rec.Fail("fixed-"+x.ID+"-"+rp.Kind, c, fmt.Errorf("fixed finding %s is back: %w", x.ID, cerr))
			}
		}
	}
	// regression replays: shrunk failures found during development / seeded changes
	dir := filepath.Join(kf.Root(), "replays", "regress")
	ents, _ := os.ReadDir(dir)
	var names []string
	for _, e := range ents {
		if strings.HasPrefix(e.Name(), prop+"-") && strings.HasSuffix(e.Name(), ".json") {
			names = append(names, e.Name())
		}
	}
	sort.Strings(names)
	for _, n := range names {
		rp, err := LoadReplay(filepath.Join(dir, n))
		if err != nil {
			continue
		}
		rec.Count("regression-replayed", 1)
		if cerr := fn(rp.Kind, rp.Case); cerr != nil {
			var c any
			_ = json.Unmarshal(rp.Case, &c)
			rec.Fail("regress-"+strings.TrimSuffix(n, ".json"), c, cerr)
		}
	}
}

// ReplayMain implements `./check <id> --replay <file>`: it runs the check on the saved case
// and reports a violation if it still fails.
func ReplayMain(t *testing.T, prop string, fn ReplayFn) {
	path := os.Getenv("VERIF_REPLAY_FILE")
	if path == "" {
		t.Skip("no VERIF_REPLAY_FILE")
	}
	rp, err := LoadReplay(path)
	if err != nil {
		fmt.Printf("REPLAY-ERROR %v\n", err)
		t.Fatalf("cannot load %s: %v", path, err)
	}
	if cerr := fn(rp.Kind, rp.Case); cerr != nil {
		fmt.Printf("FAILURE-DETAIL property=%s kind=%s %s\n", prop, rp.Kind, strings.ReplaceAll(cerr.Error(), "\n", " ⏎ "))
		fmt.Printf("VIOLATION property=%s replay=%s\n", prop, path)
		t.Fail()
		return
	}
	fmt.Printf("REPLAY-PASS property=%s replay=%s\n", prop, path)
}

// Finish finalises the recorder and fails the test if there were violations.
func Finish(t *testing.T, rec *ev.Rec) {
	if n := rec.Finish(); n > 0 {
		t.Errorf("%d violation(s)", n)
	}
}
