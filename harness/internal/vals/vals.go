// Package vals describes Go values of every kind a template caller can pass, as JSON-
// serialisable descriptions (so cases replay exactly), and builds the real typed values.
package vals

import (
	"errors"
	"fmt"
	"math/big"
	"net/url"
	"sort"
	"strconv"
	"time"

	"pgregory.net/rapid"
)

// V is a value description.
type V struct {
	K string       `json:"k"`           // kind, see Go()
	S string       `json:"s,omitempty"` // scalar text
	L []V          `json:"l,omitempty"` // elements / pointee in L[0]
	M map[string]V `json:"m,omitempty"` // map entries / struct fields
}

// Rec is the struct type used for struct-shaped data. It has a plain field, a JSON-tagged
// field, a numeric field, a nested struct pointer, a slice, and an unexported field.
type Rec struct {
	Name  string `json:"-"`
	Title string `json:"title"`
	Count int    `json:"count,omitempty"`
	Flag  bool
	Kids  []Rec
	Next  *Rec
	Tags  map[string]string
	priv  string
}

// Inner / Outer: embedded struct.
type Inner struct{ Deep string }
type Outer struct {
	Inner
	Top string
}

func itoa(s string, bits int) int64 {
	n, _ := strconv.ParseInt(s, 10, bits)
	return n
}
func utoa(s string, bits int) uint64 {
	n, _ := strconv.ParseUint(s, 10, bits)
	return n
}

// Go builds the typed Go value.
func (v V) Go() any {
	switch v.K {
	case "nil", "missing":
		return nil
	case "bool":
		return v.S == "true"
	case "int":
		return int(itoa(v.S, 64))
	case "int8":
		return int8(itoa(v.S, 8))
	case "int16":
		return int16(itoa(v.S, 16))
	case "int32":
		return int32(itoa(v.S, 32))
	case "int64":
		return itoa(v.S, 64)
	case "uint":
		return uint(utoa(v.S, 64))
	case "uint8":
		return uint8(utoa(v.S, 8))
	case "uint16":
		return uint16(utoa(v.S, 16))
	case "uint32":
		return uint32(utoa(v.S, 32))
	case "uint64":
		return utoa(v.S, 64)
	case "float32":
		f, _ := strconv.ParseFloat(v.S, 32)
		return float32(f)
	case "float64":
		f, _ := strconv.ParseFloat(v.S, 64)
		return f
	case "string":
		return v.S
	case "[]any":
		out := make([]any, len(v.L))
		for i, e := range v.L {
			out[i] = e.Go()
		}
		return out
	case "[]string":
		out := make([]string, len(v.L))
		for i, e := range v.L {
			out[i] = e.S
		}
		return out
	case "[]int":
		out := make([]int, len(v.L))
		for i, e := range v.L {
			out[i] = int(itoa(e.S, 64))
		}
		return out
	case "[]float64":
		out := make([]float64, len(v.L))
		for i, e := range v.L {
			out[i], _ = strconv.ParseFloat(e.S, 64)
		}
		return out
	case "[]bool":
		out := make([]bool, len(v.L))
		for i, e := range v.L {
			out[i] = e.S == "true"
		}
		return out
	case "[3]int":
		var out [3]int
		for i, e := range v.L {
			if i < 3 {
				out[i] = int(itoa(e.S, 64))
			}
		}
		return out
	case "[2]string":
		var out [2]string
		for i, e := range v.L {
			if i < 2 {
				out[i] = e.S
			}
		}
		return out
	case "[]map":
		out := make([]map[string]any, len(v.L))
		for i, e := range v.L {
			out[i], _ = e.Go().(map[string]any)
		}
		return out
	case "[]rec":
		out := make([]Rec, len(v.L))
		for i, e := range v.L {
			out[i] = e.rec()
		}
		return out
	case "[]*rec":
		out := make([]*Rec, len(v.L))
		for i, e := range v.L {
			r := e.rec()
			out[i] = &r
		}
		return out
	case "nil[]any":
		return []any(nil)
	case "nil[]string":
		return []string(nil)
	case "map":
		out := make(map[string]any, len(v.M))
		for k, e := range v.M {
			if e.K == "missing" {
				continue
			}
			out[k] = e.Go()
		}
		return out
	case "mapss":
		out := make(map[string]string, len(v.M))
		for k, e := range v.M {
			out[k] = e.S
		}
		return out
	case "mapint":
		out := make(map[int]string, len(v.M))
		for k, e := range v.M {
			n, _ := strconv.Atoi(k)
			out[n] = e.S
		}
		return out
	case "nilmap":
		return map[string]any(nil)
	case "rec":
		return v.rec()
	case "*rec":
		r := v.rec()
		return &r
	case "nil*rec":
		return (*Rec)(nil)
	case "outer":
		return Outer{Inner: Inner{Deep: v.M["Deep"].S}, Top: v.M["Top"].S}
	case "*int":
		n := int(itoa(v.S, 64))
		return &n
	case "*string":
		s := v.S
		return &s
	case "nil*int":
		return (*int)(nil)
	case "time":
		n := itoa(v.S, 64)
		return time.Unix(n, 0).UTC()
	case "func":
		return func() {}
	case "chan":
		return make(chan int)
	// values whose string form comes from a method with a POINTER receiver (or an interface)
	case "url":
		u, err := url.Parse(v.S)
		if err != nil {
			u = &url.URL{Path: v.S}
		}
		return u
	case "bigint":
		n, ok := new(big.Int).SetString(v.S, 10)
		if !ok {
			n = big.NewInt(0)
		}
		return n
	case "err":
		return errors.New(v.S)
	case "map*url":
		out := make(map[string]*url.URL, len(v.M))
		for k, e := range v.M {
			out[k] = V{K: "url", S: e.S}.Go().(*url.URL)
		}
		return out
	case "maperr":
		out := make(map[string]error, len(v.M))
		for k, e := range v.M {
			out[k] = errors.New(e.S)
		}
		return out
	case "map*big":
		out := make(map[string]*big.Int, len(v.M))
		for k, e := range v.M {
			out[k] = V{K: "bigint", S: e.S}.Go().(*big.Int)
		}
		return out
	case "[]*url":
		out := make([]*url.URL, len(v.L))
		for i, e := range v.L {
			out[i] = V{K: "url", S: e.S}.Go().(*url.URL)
		}
		return out
	case "[]err":
		out := make([]error, len(v.L))
		for i, e := range v.L {
			out[i] = errors.New(e.S)
		}
		return out
	}
	panic("vals: unknown kind " + v.K)
}

func (v V) rec() Rec {
	r := Rec{Name: v.M["Name"].S, Title: v.M["Title"].S, Flag: v.M["Flag"].S == "true", priv: v.M["priv"].S}
	if c, ok := v.M["Count"]; ok {
		r.Count = int(itoa(c.S, 64))
	}
	if k, ok := v.M["Kids"]; ok {
		for _, e := range k.L {
			r.Kids = append(r.Kids, e.rec())
		}
	}
	if n, ok := v.M["Next"]; ok && n.K != "nil" {
		nr := n.rec()
		r.Next = &nr
	}
	if tg, ok := v.M["Tags"]; ok {
		r.Tags = map[string]string{}
		for k, e := range tg.M {
			r.Tags[k] = e.S
		}
	}
	return r
}

// Constructors.
func Str(s string) V    { return V{K: "string", S: s} }
func Int(n int) V       { return V{K: "int", S: strconv.Itoa(n)} }
func Bool(b bool) V     { return V{K: "bool", S: strconv.FormatBool(b)} }
func Nil() V            { return V{K: "nil"} }
func Missing() V        { return V{K: "missing"} }
func Num(k, s string) V { return V{K: k, S: s} }
func List(k string, l ...V) V {
	return V{K: k, L: l}
}
func Map(m map[string]V) V { return V{K: "map", M: m} }

// String renders a short description.
func (v V) String() string {
	switch {
	case v.L != nil:
		return fmt.Sprintf("%s%v", v.K, v.L)
	case v.M != nil:
		keys := make([]string, 0, len(v.M))
		for k := range v.M {
			keys = append(keys, k)
		}
		sort.Strings(keys)
		s := v.K + "{"
		for _, k := range keys {
			s += k + ":" + v.M[k].String() + " "
		}
		return s + "}"
	}
	return v.K + "(" + v.S + ")"
}

// NumericKinds lists every numeric kind.
var NumericKinds = []string{"int", "int8", "int16", "int32", "int64", "uint", "uint8", "uint16", "uint32", "uint64", "float32", "float64"}

// Truthy returns the documented truthiness of v and whether the documentation settles it.
// Documented: false, zero of any numeric type, "", nil and undefined are falsy; everything
// else truthy. Left unspecified here: the string "false" (the implementation's comment treats
// it as falsy), typed nil pointers/slices/maps, NaN.
func (v V) Truthy() (truthy bool, specified bool) {
	switch v.K {
	case "nil", "missing":
		return false, true
	case "bool":
		return v.S == "true", true
	case "string":
		if v.S == "false" {
			return false, false
		}
		return v.S != "", true
	case "float32", "float64":
		f, _ := strconv.ParseFloat(v.S, 64)
		if f != f {
			return true, false
		}
		return f != 0, true
	case "int", "int8", "int16", "int32", "int64", "uint", "uint8", "uint16", "uint32", "uint64":
		return v.S != "0" && v.S != "-0", true
	case "nil[]any", "nil[]string", "nilmap", "nil*rec", "nil*int":
		return false, false
	}
	return true, true
}

// Scalars is a fixed table of scalar values of every kind with both truthiness values.
func Scalars() []V {
	out := []V{Bool(true), Bool(false), Nil(), Missing(), Str(""), Str("x"), Str("0"), Str(" "), Str("false"), Str("true")}
	for _, k := range NumericKinds {
		out = append(out, Num(k, "0"), Num(k, "1"), Num(k, "7"))
	}
	out = append(out, Num("int", "-3"), Num("int8", "-1"), Num("float64", "0.5"), Num("float32", "0.25"), Num("float64", "-0"))
	// boundary values (round 16): extremes of the widths, values beyond 2^53, floats that print with an
	// exponent, the smallest denormals - all non-zero, hence truthy.
	out = append(out, Num("int64", "9223372036854775807"), Num("int64", "-9223372036854775808"), Num("uint64", "18446744073709551615"),
		Num("int8", "-128"), Num("uint8", "255"), Num("int64", "9007199254740993"), Num("float64", "1e21"), Num("float64", "1e-7"),
		Num("float64", "5e-324"), Num("float32", "1e-45"), Num("float64", "-1e-300"), Num("int32", "-2147483648"))
	return out
}

// Containers is a fixed table of non-scalar values.
func Containers() []V {
	rec := V{K: "rec", M: map[string]V{"Name": Str("n"), "Title": Str("t")}}
	return []V{
		List("[]any"), List("[]any", Int(1)), List("[]string", Str("a")), List("[]int", Int(0)),
		{K: "nil[]any"}, {K: "nil[]string"}, {K: "nilmap"}, {K: "nil*rec"}, {K: "nil*int"},
		Map(map[string]V{}), Map(map[string]V{"a": Int(1)}), {K: "mapss", M: map[string]V{"a": Str("b")}},
		rec, {K: "*rec", M: rec.M}, {K: "*int", S: "0"}, {K: "*int", S: "5"}, {K: "*string", S: ""}, {K: "time", S: "86400"},
		List("[3]int", Int(1), Int(2), Int(3)),
	}
}

// GenScalar draws a scalar of any kind.
func GenScalar() *rapid.Generator[V] {
	return rapid.Custom(func(t *rapid.T) V {
		switch rapid.IntRange(0, 5).Draw(t, "sk") {
		case 0:
			return Bool(rapid.Bool().Draw(t, "b"))
		case 1:
			return Str(rapid.SampledFrom([]string{"", "x", "0", "hello", "a b", "false", "1"}).Draw(t, "s"))
		case 2:
			k := rapid.SampledFrom(NumericKinds).Draw(t, "nk")
			n := rapid.SampledFrom([]string{"0", "1", "2", "42", "100"}).Draw(t, "n")
			return Num(k, n)
		case 3:
			return Num(rapid.SampledFrom([]string{"float32", "float64"}).Draw(t, "fk"), rapid.SampledFrom([]string{"0", "0.5", "1.5", "-2.25", "3"}).Draw(t, "f"))
		case 4:
			return Nil()
		default:
			return Int(rapid.IntRange(-5, 50).Draw(t, "i"))
		}
	})
}
