// Package kf loads /verif/known_findings.json: genuine defects of titpetric/vuego that were
// either repaired ("fixed", the witness must pass) or recorded ("open", the witness is
// expected to fail and its input region is excluded from the main search by construction).
// Nothing is ever written to the file at run time.
package kf

import (
	"encoding/json"
	"os"
	"path/filepath"
)

// Finding is one entry.
type Finding struct {
	ID       string `json:"id"`
	Property string `json:"property"`
	Status   string `json:"status"` // "open" | "fixed"
	Commit   string `json:"commit,omitempty"`
	What     string `json:"what"`
	Witness  string `json:"witness"` // path relative to /verif
	Line     string `json:"line"`    // the textual record the interface asks for
}

// File is the parsed known-findings file.
type File struct {
	Findings []Finding `json:"findings"`
	root     string
}

// Root returns the /verif directory (from $VERIF_ROOT, default /verif).
func Root() string {
	if r := os.Getenv("VERIF_ROOT"); r != "" {
		return r
	}
	return "/verif"
}

// Load reads the file; a missing file is an empty list.
func Load() *File {
	f := &File{root: Root()}
	b, err := os.ReadFile(filepath.Join(f.root, "known_findings.json"))
	if err != nil {
		f.loadDir()
		return f
	}
	_ = json.Unmarshal(b, f)
	f.loadDir()
	return f
}

// loadDir also reads findings.d/*.json (proposals written while a check is being developed;
// merged into known_findings.json before they are committed).
func (f *File) loadDir() {
	names, _ := filepath.Glob(filepath.Join(f.root, "findings.d", "*.json"))
	for _, n := range names {
		b, err := os.ReadFile(n)
		if err != nil {
			continue
		}
		var g File
		if json.Unmarshal(b, &g) == nil {
			f.Findings = append(f.Findings, g.Findings...)
		}
	}
}

// Open reports whether finding id is listed as open.
func (f *File) Open(id string) bool {
	for _, x := range f.Findings {
		if x.ID == id && x.Status == "open" {
			return true
		}
	}
	return false
}

// For returns the findings of one property.
func (f *File) For(prop string) []Finding {
	var out []Finding
	for _, x := range f.Findings {
		if x.Property == prop {
			out = append(out, x)
		}
	}
	return out
}

// WitnessPath returns the absolute path of a finding's witness file.
func (f *File) WitnessPath(x Finding) string {
	if filepath.IsAbs(x.Witness) {
		return x.Witness
	}
	return filepath.Join(f.root, x.Witness)
}
