// Package c02 decides C02: rendering is faithful — static content and values survive an HTML
// round trip. Oracle: HTML5 parse of the output == HTML5 parse of the template source (with
// holes textually replaced by the escaped string form of their values), normal form of hx.
package c02

import (
	"bytes"
	"context"
	"encoding/json"
	"fmt"
	"io"
	"regexp"
	"sort"
	"strconv"
	"strings"
	"testing"
	"unicode/utf8"
	"verif/internal/after"

	"github.com/titpetric/vuego"
	xhtml "golang.org/x/net/html"
	"pgregory.net/rapid"

	"verif/internal/ev"
	"verif/internal/hx"
	"verif/internal/kf"
	"verif/internal/memfs"
	"verif/internal/run"
	"verif/internal/vals"
)

const prop = "C02"

// Case: a template source with optional holes. Holes are written {{ hN }} in text / static
// attributes and :attr="hN" for bound attributes; VHtml holes are v-html="hN".
type Case struct {
	Source string            `json:"source"`
	Doc    bool              `json:"doc,omitempty"`
	Entry  string            `json:"entry"`
	Data   map[string]vals.V `json:"data,omitempty"`
	Bound  map[string]string `json:"bound,omitempty"` // hole -> attribute name for :attr="hN"
	VHtml  []string          `json:"vhtml,omitempty"` // holes used with v-html
	// Paths: hole -> path suffix (".home", "[1]", ".0"): the hole is written {{ hN.home }} and reads
	// an ELEMENT of a typed map / slice whose string form comes from a pointer-receiver or
	// interface method (*url.URL, *big.Int, error).
	Paths map[string]string `json:"paths,omitempty"`
	// Opt: engine option door - "" none, "less" (LESS processor registered; a fragment is wrapped
	// together with a leading text/css+less style element, which must be compiled in place and
	// leave everything after it alone), "components" (WithComponents over a components folder the
	// source does not use), "proc" (a registered processor that changes nothing).
	Opt string `json:"opt,omitempty"`
	// FM: the file starts with a front-matter block defining a key nothing reads (file doors).
	FM bool `json:"fm,omitempty"`
}

// (the LESS library compiles rules written over several lines; one-line rules come out empty)
const lessStyle = "<style type=\"text/css+less\">\n@c: red;\n.zq {\n  color: @c;\n}\n</style>"

var lessOut = regexp.MustCompile(`<style type="text/css">([^<]*)</style>`)

// idle is a node processor that changes nothing.
type idle struct{}

func (idle) New() vuego.NodeProcessor        { return idle{} }
func (idle) PreProcess([]*xhtml.Node) error  { return nil }
func (idle) PostProcess([]*xhtml.Node) error { return nil }

// element returns the description of the element a path hole reads.
func element(v vals.V, suffix string) vals.V {
	// JSON-tagged struct fields, read by tag in dotted and bracket spelling
	switch v.K {
	case "rec", "*rec":
		return vals.Str(v.M["Title"].S)
	case "[]rec", "[]*rec":
		i := 0
		if strings.HasPrefix(suffix, "[1]") || strings.HasPrefix(suffix, ".1") {
			i = 1
		}
		return vals.Str(v.L[i].M["Title"].S)
	}
	kind := map[string]string{"map*url": "url", "[]*url": "url", "maperr": "err", "[]err": "err", "map*big": "bigint"}[v.K]
	key := strings.Trim(suffix, ".[]'\"")
	if v.M != nil {
		return vals.V{K: kind, S: v.M[key].S}
	}
	i, _ := strconv.Atoi(key)
	if i < len(v.L) {
		return vals.V{K: kind, S: v.L[i].S}
	}
	return vals.Nil()
}

var entriesFrag = []string{"string", "byte", "reader", "load", "file", "vue", "frag", "view", "assign", "nodes-load", "nodes-frag", "withfs"}
var entriesDoc = []string{"load", "file", "vue", "frag", "view", "assign", "nodes-load", "nodes-frag", "withfs"}

func goData(c Case) map[string]any {
	m := map[string]any{}
	for k, v := range c.Data {
		m[k] = v.Go()
	}
	return m
}

// poison runs a render that fails half-way through an interpolated text and attribute, right
// before the render under test: whatever the failed render left in process-global pools must
// not show up in the next document.
func poison() {
	_ = vuego.New().Fill(map[string]any{"n": "x"}).RenderString(context.Background(), io.Discard,
		`<p title="POISONATTR {{ n | nosuchfilter }}">POISONTEXT {{ n }} {{ n | nosuchfilter }}</p>`)
}

func render(c Case) (string, error) {
	poison()
	var buf bytes.Buffer
	ctx := context.Background()
	d := goData(c)
	// what failed or aborted calls leave behind must not show in the render under test: in a
	// part of the cases such calls run first - in the process (pools) and on the very template
	// object that is then rendered (its stack, its remembered error, its buffers)
	var names []string
	for n := range c.Data {
		names = append(names, n)
	}
	sort.Strings(names)
	dirty := (len(c.Source)+len(names))%3 == 0
	if dirty {
		after.Poison(names)
	}
	fail := func(t vuego.Template) vuego.Template {
		if dirty {
			after.FailOn(t, names)
		}
		return t
	}
	var err error
	src := c.Source
	if c.FM {
		src = "---\nzzunused: 1\n---\n" + src
	}
	files := map[string]string{"p.vuego": src}
	var opts []vuego.LoadOption
	switch c.Opt {
	case "less":
		opts = append(opts, vuego.WithLessProcessor())
	case "components":
		files["components/ZqCard.vuego"] = `<div class="zq"><slot></slot></div>`
		opts = append(opts, vuego.WithComponents())
	case "proc":
		opts = append(opts, vuego.WithProcessor(idle{}))
	}
	fsys := memfs.FromMap(files)
	newVue := func() *vuego.Vue {
		v := vuego.NewVue(fsys)
		switch c.Opt {
		case "less":
			v.RegisterNodeProcessor(vuego.NewLessProcessor(fsys))
		case "components":
			v.RegisterComponent("zq-card", "components/ZqCard.vuego")
		case "proc":
			v.RegisterNodeProcessor(idle{})
		}
		return v
	}
	// (an engine without a file system cannot take WithComponents: it walks the components folder)
	inlineEngine := func() vuego.Template {
		if c.Opt == "components" {
			return vuego.NewFS(fsys, opts...)
		}
		return vuego.New(opts...)
	}
	switch c.Entry {
	case "string":
		err = fail(inlineEngine().Fill(d)).RenderString(ctx, &buf, c.Source)
	case "byte":
		err = fail(inlineEngine().Fill(d)).RenderByte(ctx, &buf, []byte(c.Source))
	case "reader":
		err = fail(inlineEngine().Fill(d)).RenderReader(ctx, &buf, strings.NewReader(c.Source))
	case "load":
		err = fail(vuego.NewFS(fsys, opts...).Load("p.vuego").Fill(d)).Render(ctx, &buf)
	case "file":
		err = fail(vuego.NewFS(fsys, opts...).Fill(d)).RenderFile(ctx, &buf, "p.vuego")
	case "withfs":
		err = fail(vuego.New(append([]vuego.LoadOption{vuego.WithFS(fsys)}, opts...)...).Load("p.vuego").Fill(d)).Render(ctx, &buf)
	case "view":
		err = fail(vuego.View(vuego.NewFS(fsys, opts...), "p.vuego", d)).Render(ctx, &buf)
	case "assign":
		t := vuego.NewFS(fsys, opts...).Load("p.vuego")
		for _, n := range names {
			t = t.Assign(n, d[n])
		}
		err = fail(t).Render(ctx, &buf)
	case "vue":
		err = newVue().Render(&buf, "p.vuego", d)
	case "frag":
		err = newVue().RenderFragment(&buf, "p.vuego", d)
	case "nodes-load", "nodes-frag":
		var nodes []*xhtml.Node
		if c.Entry == "nodes-load" {
			nodes, err = vuego.NewLoader(fsys).Load("p.vuego")
		} else {
			nodes, err = vuego.NewLoader(fsys).LoadFragment("p.vuego")
		}
		if err == nil {
			err = newVue().RenderNodes(&buf, nodes, d)
		}
	default:
		return "", fmt.Errorf("unknown entry %q", c.Entry)
	}
	return buf.String(), err
}

// expectedSource substitutes the holes textually with escaped string forms.
func expectedSource(c Case) string {
	s := c.Source
	for name, v := range c.Data {
		str := fmt.Sprint(v.Go())
		if suffix, ok := c.Paths[name]; ok {
			str = fmt.Sprint(element(v, suffix).Go())
			s = strings.ReplaceAll(s, "{{ "+name+suffix+" }}", "{{ "+name+" }}")
		}
		esc := xhtml.EscapeString(str) // x/net: also spells CR as &#13; (a raw CR would be normalised to LF)
		if attr, ok := c.Bound[name]; ok {
			s = strings.ReplaceAll(s, ` :`+attr+`="`+name+`"`, ` `+attr+`="`+esc+`"`)
			s = strings.ReplaceAll(s, ` v-bind:`+attr+`="`+name+`"`, ` `+attr+`="`+esc+`"`)
		}
		if strings.HasPrefix(esc, "\n") {
			// directly after <pre> / <textarea> a parser drops one newline: the expected
			// text is neighbours + value, so the expectation spells the value's newline twice
			s = preHole(name).ReplaceAllString(s, "${1}\n{{ "+name+" }}")
		}
		s = strings.ReplaceAll(s, "{{ "+name+" }}", esc)
		s = strings.ReplaceAll(s, "{{"+name+"}}", esc)
		s = strings.ReplaceAll(s, "{{\n  "+name+"\n}}", esc)
	}
	return s
}

func preHole(name string) *regexp.Regexp {
	// (attribute values are quoted and may contain '>'; tag names in either letter case)
	return regexp.MustCompile(`(?i)(<(?:pre|textarea)(?:\s(?:[^>"']|"[^"]*"|'[^']*')*)?>)\{\{ ` + name + ` \}\}`)
}

func parse(s string, doc bool) ([]*hx.N, error) {
	if doc {
		return hx.Doc(s, hx.Collapse)
	}
	return hx.Frag(s, hx.Collapse)
}

// stable: the reference tree survives serialisation by the trusted x/net/html renderer.
func stable(src string, doc bool) bool {
	var nodes []*xhtml.Node
	var err error
	if doc {
		nodes, err = hx.ParseDoc(src)
	} else {
		nodes, err = hx.ParseFragment(src)
	}
	if err != nil {
		return false
	}
	var sb strings.Builder
	for _, n := range nodes {
		if xhtml.Render(&sb, n) != nil {
			return false
		}
	}
	a, err1 := parse(src, doc)
	b, err2 := parse(sb.String(), doc)
	// (the trusted renderer writes an empty doctype identifier like a missing one; that is its
	// own shortcut, not instability of the tree: doctype identifiers are left out here)
	for _, l := range [][]*hx.N{a, b} {
		for _, n := range l {
			if n.Doctype {
				n.Attrs = nil
			}
		}
	}
	return err1 == nil && err2 == nil && hx.Diff(a, b, hx.Options{}) == ""
}

func attrEq(tag, key, a, b string) bool {
	// leading/trailing whitespace of attribute values is treated as insignificant here
	// (static values are trimmed by the engine; C14 owns "static attributes pass unchanged")
	return strings.TrimSpace(a) == strings.TrimSpace(b)
}

func check(c Case) error {
	src := c.Source
	vh := map[string]bool{}
	for _, h := range c.VHtml {
		vh[h] = true
	}
	exp := expectedSource(c)
	// v-html: expected = the element with the raw value as its content
	for _, h := range c.VHtml {
		val := fmt.Sprint(c.Data[h].Go())
		exp = strings.ReplaceAll(exp, ` v-html="`+h+`"></div>`, `>`+val+`</div>`)
		exp = strings.ReplaceAll(exp, ` v-html="`+h+`"></DIV>`, `>`+val+`</DIV>`)
	}
	want, err := parse(exp, c.Doc)
	if err != nil {
		return fmt.Errorf("harness: expected source does not parse: %v", err)
	}
	opt := c.Opt
	if opt == "less" && c.Doc {
		opt = "" // (a full document cannot be wrapped)
	}
	if opt == "less" {
		src = `<div class="lesswrap">` + lessStyle + src + `</div>`
		exp = `<div class="lesswrap"><style type="text/css">LESSCSS</style>` + exp + `</div>`
		if want, err = parse(exp, c.Doc); err != nil {
			return fmt.Errorf("harness: expected source does not parse: %v", err)
		}
	}
	inline := c.Entry == "string" || c.Entry == "byte" || c.Entry == "reader"
	out, err := render(Case{Source: src, Doc: c.Doc, Entry: c.Entry, Data: c.Data, Opt: opt, FM: c.FM && !inline})
	if err != nil {
		return fmt.Errorf("render failed [entry %s opt %q fm %v]: %v", c.Entry, opt, c.FM, err)
	}
	if opt == "less" {
		m := lessOut.FindStringSubmatch(out)
		if m == nil || !strings.Contains(strings.Join(strings.Fields(m[1]), " "), "color: red") {
			return fmt.Errorf("the text/css+less style element was not compiled in place into <style type=\"text/css\"> with `color: red` [entry %s]\n--- output:\n%s", c.Entry, out)
		}
		out = strings.Replace(out, m[0], `<style type="text/css">LESSCSS</style>`, 1)
	}
	if m := after.Leaked(out); m != "" && !strings.Contains(src, m) {
		return fmt.Errorf("the output shows %q: text or a value of an EARLIER, failed render (or of a failed call on the same template object) [entry %s]\n--- output:\n%s", m, c.Entry, out)
	}
	got, err := parse(out, c.Doc)
	if err != nil {
		return fmt.Errorf("output does not parse: %v", err)
	}
	if d := hx.Diff(want, got, hx.Options{AttrEq: attrEq}); d != "" {
		return fmt.Errorf("parse(output) != parse(template) [entry %s]: %s\n--- template:\n%s\n--- output:\n%s", c.Entry, d, exp, out)
	}
	for _, h := range c.VHtml {
		val := fmt.Sprint(c.Data[h].Go())
		if !strings.Contains(out, val) {
			return fmt.Errorf("v-html output does not contain its value verbatim: %q not in\n%s", val, out)
		}
	}
	return nil
}

// ---------------------------------------------------------------- generator

// attrAtoms: additionally, control characters that only matter inside attribute values (text is
// compared with whitespace collapsed).
var attrAtoms = []string{"line one\r\nline two", "a\rb", "x\ny", "t\tu", "\r\n"}

var textAtoms = []string{"a", "b c", "x", "1 < 2", "&", "<", ">", `"`, "'", ";", "&amp;", "&lt;", "&#38;", "&nbsp;", "&amp;amp;", " ", "é", "a & b;", "x;y", "&lt;b&gt;", "</p>", "&#", "& ", "&x;", "tom&jerry", "-->", "<!--", "1 &lt; 2 &amp; 3;",
	// closing braces are ordinary text, also in front of a mustache of the same run / value
	"}}", "} }}", `{"a": {"b": 1}}`, "}",
	// text beyond ASCII
	"日本語", "😀", "İstanbul", "Straße", "\u00a0", "a\u00a0b", "\u2028", "\u3000", "e\u0301", "\u200f", "＜b＞", "naïve & café", "Ω<", "\U0001F468\u200d\U0001F469\u200d\U0001F467"}

type gctx struct {
	t      *rapid.T
	n      int // node budget
	noBr   bool
	holes  *Case
	withH  bool
	inA    bool
	nholes int
}

func (g *gctx) pick(label string, opts ...string) string {
	return rapid.SampledFrom(opts).Draw(g.t, label)
}

func (g *gctx) decoded(label string) string {
	n := rapid.IntRange(1, 3).Draw(g.t, label+"n")
	var sb strings.Builder
	for i := 0; i < n; i++ {
		sb.WriteString(rapid.SampledFrom(textAtoms).Draw(g.t, label))
	}
	return sb.String()
}

// decodedAttr is decoded() for attribute values: sometimes with a CR / LF / TAB inside.
func (g *gctx) decodedAttr(label string) string {
	s := g.decoded(label)
	if rapid.IntRange(0, 4).Draw(g.t, label+"ctl") == 0 {
		s = "k" + s + rapid.SampledFrom(attrAtoms).Draw(g.t, label+"ctlv") + "z"
	}
	return s
}

// escText spells decoded text as template source, choosing among equivalent spellings.
func (g *gctx) escText(s string, attr bool) string {
	var sb strings.Builder
	for _, r := range s {
		switch r {
		case '\r':
			// a literal CR in the source is normalised to LF by the tokenizer: only the
			// character reference spells a CR
			sb.WriteString(g.pick("cr", "&#13;", "&#xD;"))
		case '\n':
			sb.WriteString(g.pick("lf", "\n", "&#10;"))
		case '\t':
			sb.WriteString(g.pick("tab", "\t", "&#9;"))
		case '&':
			sb.WriteString(g.pick("amp", "&amp;", "&#38;", "&#x26;", "&amp;"))
		case '<':
			sb.WriteString(g.pick("lt", "&lt;", "&#60;", "&lt;"))
		case '>':
			sb.WriteString(g.pick("gt", "&gt;", ">", "&#62;"))
		case '"':
			if attr {
				sb.WriteString(g.pick("qt", "&quot;", "&#34;"))
			} else {
				sb.WriteString(g.pick("qt2", `"`, "&quot;"))
			}
		case ' ':
			sb.WriteString(g.pick("nb", "&nbsp;", " ", "&#160;"))
		default:
			sb.WriteRune(r)
		}
	}
	return sb.String()
}

func (g *gctx) hole() (string, bool) {
	if !g.withH || g.nholes >= 3 || rapid.IntRange(0, 2).Draw(g.t, "hole?") != 0 {
		return "", false
	}
	g.nholes++
	name := fmt.Sprintf("h%d", g.nholes)
	return name, true
}

func (g *gctx) scalar() vals.V {
	vk := rapid.IntRange(0, 40).Draw(g.t, "vk")
	if vk > 5 {
		vk = vk % 5
	}
	switch vk {
	case 0:
		return vals.Str(g.decoded("hv"))
	case 1:
		return vals.Num(rapid.SampledFrom(vals.NumericKinds).Draw(g.t, "nk"), rapid.SampledFrom([]string{"1", "7", "42", "100"}).Draw(g.t, "nv"))
	case 2:
		return vals.Num(rapid.SampledFrom([]string{"float64", "float64", "float32"}).Draw(g.t, "fk"), rapid.SampledFrom([]string{"1.5", "0.25", "3", "-2.5", "1000000", "1e21", "0.00001", "123456789.5", "2.5e-7", "100000", "1e6", "16777216"}).Draw(g.t, "fv"))
	case 3:
		return vals.Bool(true)
	case 5:
		// a value longer than the 4 KiB blocks writers and escapers like to work in
		n := rapid.SampledFrom([]int{4095, 4096, 4097, 5000, 9000, 70000}).Draw(g.t, "bign")
		return vals.Str(strings.Repeat("ab c", n/4) + rapid.SampledFrom([]string{"", "<b>&\"'", " tail"}).Draw(g.t, "bigtail"))
	default:
		return vals.Str(rapid.SampledFrom([]string{"<script>alert(1)</script>", `"><img src=x>`, "a&b", "&lt;", "{{ x }}", "plain", "it's", "line one\r\nline two", "a\rb", "tab\there", "", ""}).Draw(g.t, "hs"))
	}
}

// elementHole returns a value description and the path suffix of one of its elements.
func (g *gctx) elementHole() (vals.V, string) {
	e := func(s string) vals.V { return vals.V{S: s} }
	rec := func(title string) vals.V {
		return vals.V{K: "rec", M: map[string]vals.V{"Title": e(title), "Name": e("n")}}
	}
	switch rapid.IntRange(0, 7).Draw(g.t, "ek") {
	case 7:
		// a list longer than one byte / small buffer can count, read near its boundaries (round 16):
		// every element is distinct, so an index that wraps or is cut short shows another row
		n := rapid.SampledFrom([]int{255, 256, 257, 300, 1000}).Draw(g.t, "longn")
		l := make([]vals.V, n)
		for i := range l {
			l[i] = e("row " + strconv.Itoa(i) + " <&> of " + strconv.Itoa(n))
		}
		idx := []int{n - 1, n - 2, 254, 99}
		if n > 256 {
			idx = append(idx, 255, 256, n-1, n-1)
		}
		i := rapid.SampledFrom(idx).Draw(g.t, "longi")
		suffix := "[" + strconv.Itoa(i) + "]"
		if rapid.Bool().Draw(g.t, "longdot") {
			suffix = "." + strconv.Itoa(i)
		}
		return vals.V{K: "[]err", L: l}, suffix
	case 5:
		v := rec("War & Peace <1869>")
		v.K = rapid.SampledFrom([]string{"rec", "*rec"}).Draw(g.t, "reck")
		return v, rapid.SampledFrom([]string{".title", "['title']"}).Draw(g.t, "ep")
	case 6:
		return vals.V{K: rapid.SampledFrom([]string{"[]rec", "[]*rec"}).Draw(g.t, "reck"), L: []vals.V{rec("first & last"), rec("it's <b>")}}, rapid.SampledFrom([]string{"[0].title", ".0.title", "[1]['title']", "[1].title", ".1['title']"}).Draw(g.t, "ep")
	case 0:
		return vals.V{K: "map*url", M: map[string]vals.V{"home": e("https://example.com/docs/start?lang=en&v=2#top"), "rel": e("/a b/<c>")}}, rapid.SampledFrom([]string{".home", ".rel", "['home']"}).Draw(g.t, "ep")
	case 1:
		return vals.V{K: "[]*url", L: []vals.V{e("mailto:a@b.c"), e("http://h/p?q=1&r=2")}}, rapid.SampledFrom([]string{"[0]", "[1]", ".1"}).Draw(g.t, "ep")
	case 2:
		return vals.V{K: "maperr", M: map[string]vals.V{"disk": e("disk full"), "net": e("dial <tcp>: refused & closed")}}, rapid.SampledFrom([]string{".disk", ".net"}).Draw(g.t, "ep")
	case 3:
		return vals.V{K: "[]err", L: []vals.V{e("first"), e("second \"quoted\"")}}, rapid.SampledFrom([]string{"[0]", "[1]"}).Draw(g.t, "ep")
	default:
		return vals.V{K: "map*big", M: map[string]vals.V{"n": e("340282366920938463463374607431768211456"), "neg": e("-18446744073709551616")}}, rapid.SampledFrom([]string{".n", ".neg"}).Draw(g.t, "ep")
	}
}

func (g *gctx) text() string {
	if name, ok := g.hole(); ok {
		if rapid.IntRange(0, 7).Draw(g.t, "elem?") == 0 {
			v, suffix := g.elementHole()
			g.holes.Data[name] = v
			if g.holes.Paths == nil {
				g.holes.Paths = map[string]string{}
			}
			g.holes.Paths[name] = suffix
			return "{{ " + name + suffix + " }}"
		}
		g.holes.Data[name] = g.scalar()
		l, r := "", ""
		if rapid.Bool().Draw(g.t, "l") {
			l = g.escText(g.decoded("L"), false) + " "
		}
		if rapid.Bool().Draw(g.t, "r") {
			r = " " + g.escText(g.decoded("R"), false)
		}
		return l + "{{ " + name + " }}" + r
	}
	return g.escText(g.decoded("t"), false)
}

func (g *gctx) attrs() string {
	// (names with a colon, an underscore or a dot inside are plain attribute names, not bindings)
	names := []string{"id", "class", "title", "lang", "data-a", "data-b", "style", "hidden", "dir", "xml:lang", "hx-on:click", "data-x:y", "aria-label", "data_u", "x.y"}
	n := rapid.IntRange(0, 3).Draw(g.t, "na")
	used := map[string]bool{}
	var sb strings.Builder
	for i := 0; i < n; i++ {
		name := rapid.SampledFrom(names).Draw(g.t, "an")
		if used[name] {
			continue
		}
		used[name] = true
		switch name {
		case "hidden":
			sb.WriteString(g.pick("bool", ` hidden`, ` hidden=""`))
			continue
		case "style":
			sb.WriteString(` style="` + g.pick("st", "color:red", "color: red; margin:0", "a:b;c:d;") + `"`)
			continue
		}
		if h, ok := g.hole(); ok {
			v := g.scalar()
			g.holes.Data[h] = v
			if rapid.Bool().Draw(g.t, "bound") {
				if tr, _ := v.Truthy(); tr && strings.TrimSpace(fmt.Sprint(v.Go())) == fmt.Sprint(v.Go()) {
					g.holes.Bound[h] = name
					sb.WriteString(" " + g.pick("bsyn", ":", "v-bind:") + name + `="` + h + `"`)
					continue
				}
			}
			// (an attribute made of the mustache alone stays an attribute when the value is
			// empty: alt="" and a missing alt are different documents)
			lead := ""
			if rapid.IntRange(0, 2).Draw(g.t, "alead") != 0 {
				lead = g.escText(g.decodedAttr("aL"), true)
			}
			sb.WriteString(" " + name + `="` + lead + "{{ " + h + " }}" + `"`)
			continue
		}
		sb.WriteString(" " + name + `="` + g.escText(g.decodedAttr("av"), true) + `"`)
	}
	return sb.String()
}

func (g *gctx) inline(depth int) string {
	g.n--
	if depth <= 0 || g.n <= 0 {
		return g.text()
	}
	tags := []string{"span", "b", "em", "code", "i", "strong", "small"}
	if !g.inA {
		tags = append(tags, "a")
	}
	switch rapid.IntRange(0, 5).Draw(g.t, "ik") {
	case 0, 1:
		return g.text()
	case 2:
		v := []string{"img", "wbr", "input"}
		if !g.noBr {
			v = append(v, "br")
		}
		tag := rapid.SampledFrom(v).Draw(g.t, "void")
		extra := ""
		if tag == "img" {
			extra = ` src="` + g.escText(g.pick("src", "a.png", "/i?a=1&b=2", "x y.png"), true) + `" alt="` + g.escText(g.decodedAttr("alt"), true) + `"`
		}
		if tag == "input" {
			extra = ` value="` + g.escText(g.decodedAttr("val"), true) + `"` + g.pick("dis", "", " disabled", ` type="text"`)
		}
		return "<" + tag + extra + ">"
	default:
		tag := rapid.SampledFrom(tags).Draw(g.t, "itag")
		wasA := g.inA
		extra := ""
		if tag == "a" {
			g.inA = true
			extra = ` href="` + g.escText(g.pick("href", "/x", "/q?a=1&b=2", "#f", "http://e.com/?x=<y>"), true) + `"`
		}
		var sb strings.Builder
		sb.WriteString("<" + tag + extra + g.attrs() + ">")
		k := rapid.IntRange(0, 3).Draw(g.t, "ikids")
		for i := 0; i < k; i++ {
			sb.WriteString(g.inline(depth - 1))
		}
		sb.WriteString("</" + tag + ">")
		g.inA = wasA
		return sb.String()
	}
}

func (g *gctx) block(depth int) string {
	g.n--
	if depth <= 0 || g.n <= 0 {
		return "<p>" + g.text() + "</p>"
	}
	switch rapid.IntRange(0, 9).Draw(g.t, "bk") {
	case 0, 1:
		var sb strings.Builder
		sb.WriteString("<p" + g.attrs() + ">")
		k := rapid.IntRange(0, 3).Draw(g.t, "pk")
		for i := 0; i < k; i++ {
			sb.WriteString(g.inline(depth - 1))
		}
		sb.WriteString("</p>")
		return sb.String()
	case 2, 3:
		tag := g.pick("btag", "div", "section", "article", "h1", "h2", "blockquote")
		var sb strings.Builder
		sb.WriteString("<" + tag + g.attrs() + ">")
		k := rapid.IntRange(0, 3).Draw(g.t, "bkids")
		for i := 0; i < k; i++ {
			if tag == "h1" || tag == "h2" || rapid.Bool().Draw(g.t, "inl") {
				sb.WriteString(g.inline(depth - 1))
			} else {
				sb.WriteString(g.block(depth - 1))
			}
		}
		sb.WriteString("</" + tag + ">")
		return sb.String()
	case 4:
		var sb strings.Builder
		lt := g.pick("lt", "ul", "ol")
		sb.WriteString("<" + lt + g.attrs() + ">")
		k := rapid.IntRange(1, 3).Draw(g.t, "li")
		for i := 0; i < k; i++ {
			sb.WriteString("<li>" + g.inline(depth-1) + "</li>")
		}
		sb.WriteString("</" + lt + ">")
		return sb.String()
	case 5:
		var sb strings.Builder
		sb.WriteString("<table" + g.attrs() + ">")
		if rapid.Bool().Draw(g.t, "thead") {
			sb.WriteString("<thead><tr><th>" + g.text() + "</th><th>" + g.text() + "</th></tr></thead>")
		}
		sb.WriteString("<tbody>")
		rows := rapid.IntRange(1, 2).Draw(g.t, "rows")
		for i := 0; i < rows; i++ {
			sb.WriteString("<tr><td" + g.attrs() + ">" + g.inline(depth-1) + "</td><td>" + g.text() + "</td></tr>")
		}
		sb.WriteString("</tbody></table>")
		return sb.String()
	case 6:
		return "<hr" + g.attrs() + ">"
	case 7:
		// raw text / RCDATA / pre: a single text child
		switch g.pick("raw", "pre", "textarea", "script", "style", "xmp", "rawish", "noscript") {
		case "xmp":
			// raw text that is shown: character references are not decoded, markup is text
			return "<xmp>" + g.pick("xmp", "<b>bold</b> &amp; x", "a < b && c > d", "  two  spaces &lt;", `<img src="x.png">`, "plain") + "</xmp>"
		case "rawish":
			// raw text elements whose body is fallback content
			tag := g.pick("rawtag", "iframe", "noembed", "noframes")
			return "<" + tag + ">" + g.pick("rawbody", "<p>fallback &amp; more</p>", `<a href="/x?a=1&b=2">link</a>`, "a < b", "plain", "&lt;") + "</" + tag + ">"
		case "noscript":
			// markup when scripting is off (how hx parses): fallback elements inside
			return "<noscript>" + g.inline(depth-1) + g.pick("nsx", "", `<img src="p.gif?a=1&amp;b=2" alt="">`, "<p>no js</p>") + "</noscript>"
		case "pre":
			if rapid.Bool().Draw(g.t, "prerich") {
				// preformatted text with inline elements: every blank and line break is content
				var sb strings.Builder
				sb.WriteString("<pre" + g.attrs() + ">")
				sb.WriteString(g.pick("prelead", "", "", "\n", "\n\n", "  "))
				k := rapid.IntRange(1, 5).Draw(g.t, "prek")
				for i := 0; i < k; i++ {
					switch rapid.IntRange(0, 5).Draw(g.t, "prepart") {
					case 0:
						sb.WriteString(g.pick("prews", " ", "\n", "\n  ", "  ", "\t", "\n\n"))
					case 1:
						sb.WriteString(g.pick("pretxt", "a  b", "x &lt; y", "line1\nline2", "if (a &amp;&amp; b) { x", "} "))
					case 2:
						sb.WriteString("<span class=\"k\">" + g.pick("prekw", "func", "return  x", "a\n  b") + "</span>")
					case 3:
						sb.WriteString("<code>" + g.pick("precode", "x\n  y", "<b>z</b> w", " ") + "</code>")
					case 4:
						if rapid.Bool().Draw(g.t, "pretanest") {
							// a <textarea> nested in the <pre>: its own first newline matters too
							sb.WriteString("<textarea>" + g.pick("pretalead", "", "\n", "\n\n") + g.pick("pretatxt", "t", "a  b\n c", "") + "</textarea>")
						} else {
							sb.WriteString("<b>" + g.pick("preb", "d", " d ", "") + "</b><i>e</i>")
						}
					default:
						if name, ok := g.hole(); ok {
							g.holes.Data[name] = vals.Str(g.pick("prehv", "v1", "\nline", "two\n  lines", " <x> ", "a&b"))
							sb.WriteString("{{ " + name + " }}")
						} else {
							sb.WriteString("<em><strong>n</strong> m</em>")
						}
					}
				}
				sb.WriteString("</pre>")
				return sb.String()
			}
			return "<pre>" + g.pick("pre", "a  b", "  indented\n    more", "x &lt; y", "line1\nline2", "tab\there", "\n\nblank first line", "\nfirst") + "</pre>"
		case "textarea":
			return `<textarea name="t">` + g.pick("ta", "a  b", "x &lt; y &amp; z", "line1\n  line2", "&lt;/textarea&gt;", "\n\nblank first line", "\nfirst") + "</textarea>"
		case "script":
			return "<script>" + g.pick("js", "var a = 1 < 2 && 3 > 2;", `var s = "<b>&amp;</b>";`, "if (a<b) { x = '&'; }", "let x = 1;\n  let y = 2;") + "</script>"
		default:
			return "<style>" + g.pick("css", "a > b { color: red }", `a::before { content: "<&>" }`, ".x{margin:0}\n.y{margin:1px}") + "</style>"
		}
	case 8:
		// a comment directly before an element (a comment between two text runs would make
		// "whitespace between the runs" ambiguous, which the statement calls insignificant)
		return "<!-- " + g.pick("cm", "comment", "a -- b", "<b>") + " --><div>" + g.inline(depth-1) + "</div>"
	default:
		return g.inline(depth)
	}
}

func genCase(withHoles bool) func(t *rapid.T) Case {
	noBr := kf.Load().Open("C02-br-end-tag")
	return func(t *rapid.T) Case {
		c := Case{Data: map[string]vals.V{}, Bound: map[string]string{}}
		g := &gctx{t: t, n: rapid.IntRange(3, 25).Draw(t, "budget"), noBr: noBr, holes: &c, withH: withHoles}
		c.Doc = rapid.IntRange(0, 3).Draw(t, "doc") == 0
		var sb strings.Builder
		k := rapid.IntRange(1, 4).Draw(t, "top")
		for i := 0; i < k; i++ {
			sb.WriteString(g.block(3))
			if rapid.Bool().Draw(t, "nl") {
				sb.WriteString("\n")
			}
		}
		body := sb.String()
		if withHoles && rapid.IntRange(0, 3).Draw(t, "vh") == 0 {
			h := fmt.Sprintf("h%d", g.nholes+1)
			g.nholes++
			c.Data[h] = vals.Str(rapid.SampledFrom([]string{"<b>bold</b> &amp; <i>it</i>", "<ul><li>1</li><li>2 &lt; 3</li></ul>", "plain text", "<p>a</p><p>b</p>", `<a href="/x?a=1&amp;b=2">l</a>`,
				"Fish &amp; Chips &copy; 2024", "a &lt; b &amp;&amp; c", "x > y", "it's &quot;quoted&quot;", "&#169; &nbsp; done",
				// values of several lines (markup rendered elsewhere: a page handed to its layout,
				// markdown output): every line, and the inside of <pre> / <textarea>, stays as it is
				"<p>one</p>\n<p>two</p>", "<h1>t</h1>\n\n<p>a\nb</p>\n<ul>\n  <li>1</li>\n  <li>2</li>\n</ul>", "<pre>line 1\nline 2\n  indented</pre>",
				"<div>\n<pre><code>a\n\tb\n\nc</code></pre>\n</div>", "<textarea>x\ny</textarea>\n<p>z</p>", "first line\nsecond line", "<p>a</p>\r\n<p>b</p>"}).Draw(t, "vhv"))
			c.VHtml = append(c.VHtml, h)
			// at the top level or nested in other elements (written at a deeper indentation)
			w := rapid.SampledFrom([][2]string{{"", ""}, {"", ""}, {"<section><div>", "</div></section>"}, {"<main><article><section>", "<p>after</p></section></article></main>"}, {"<ul><li>", "</li></ul>"}, {"<table><tbody><tr><td>", "</td></tr></tbody></table>"}}).Draw(t, "vhwrap")
			body += w[0] + `<div v-html="` + h + `"></div>` + w[1]
		}
		if c.Doc {
			dt := rapid.SampledFrom([]string{"<!DOCTYPE html>", "<!doctype html>", "", "<!DOCTYPE html>\n",
				`<!DOCTYPE html PUBLIC "-//W3C//DTD XHTML 1.0 Strict//EN" "http://www.w3.org/TR/xhtml1/DTD/xhtml1-strict.dtd">`,
				`<!DOCTYPE HTML PUBLIC "-//W3C//DTD HTML 4.01 Transitional//EN">`,
				`<!DOCTYPE html SYSTEM "about:legacy-compat">`,
				`<!DOCTYPE html PUBLIC "-//W3C//DTD HTML 4.01//EN" "http://www.w3.org/TR/html4/strict.dtd">`,
				// identifiers written as empty strings are recorded (differently from missing ones)
				`<!DOCTYPE html PUBLIC "-//W3C//DTD HTML 4.01 Transitional//EN" "">`,
				`<!DOCTYPE html PUBLIC "" "http://www.w3.org/TR/html4/loose.dtd">`,
				`<!DOCTYPE html SYSTEM "">`, `<!DOCTYPE html PUBLIC "">`}).Draw(t, "doctype")
			head := "<head><title>" + g.escText(g.decoded("title"), false) + "</title>" + rapid.SampledFrom([]string{"", `<meta charset="utf-8">`, `<link rel="stylesheet" href="/a.css?x=1&amp;y=2">`, `<meta name="d" content="a &amp; b">`}).Draw(t, "headx") + "</head>"
			// what follows the closing tag: nothing, a line break, a long banner comment, many
			// blank lines (the document / fragment decision must not depend on it)
			trailer := rapid.SampledFrom([]string{"", "", "\n", "\n<!-- generated by the site builder on 2026-01-01 from templates/base; do not edit by hand -->\n",
				strings.Repeat("\n", 80), "\n\n<!-- " + strings.Repeat("x", 200) + " -->"}).Draw(t, "trailer")
			c.Source = dt + `<html lang="en">` + head + "<body" + g.attrs() + ">" + body + "</body></html>" + trailer
			c.Entry = rapid.SampledFrom(entriesDoc).Draw(t, "entry")
		} else {
			c.Source = body
			c.Entry = rapid.SampledFrom(entriesFrag).Draw(t, "entry")
		}
		if len(c.Data) == 0 {
			c.Data, c.Bound = nil, nil
		}
		c.Opt = rapid.SampledFrom([]string{"", "", "", "less", "components", "proc"}).Draw(t, "opt")
		c.FM = rapid.IntRange(0, 3).Draw(t, "fm") == 0
		return c
	}
}

func classify(c Case) (bool, []string) {
	cls := []string{"entry=" + c.Entry}
	if c.Opt != "" {
		cls = append(cls, "engine-option="+c.Opt)
	}
	if c.FM {
		cls = append(cls, "front-matter-block")
	}
	nt := false
	mark := func(cond bool, name string) {
		if cond {
			cls = append(cls, name)
			nt = true
		}
	}
	s := c.Source
	mark(strings.Contains(s, "&"), "char-reference")
	mark(strings.Contains(s, "&amp;amp;") || strings.Contains(s, "&amp;lt;") || strings.Contains(s, "&#38;"), "double-escaped-looking")
	mark(strings.Contains(s, "<img") || strings.Contains(s, "<hr") || strings.Contains(s, "<input") || strings.Contains(s, "<wbr") || strings.Contains(s, "<br"), "void-element")
	mark(strings.Contains(s, "<script") || strings.Contains(s, "<style") || strings.Contains(s, "<textarea") || strings.Contains(s, "<pre"), "raw-text-element")
	mark(strings.Contains(s, "<pre") && (strings.Contains(s, "<span class=\"k\">") || strings.Contains(s, "<code>")), "pre-with-elements")
	mark(strings.Contains(s, "<pre>\n") || strings.Contains(s, "<textarea name=\"t\">\n"), "pre-leading-newline")
	mark(strings.Contains(s, " xml:lang=") || strings.Contains(s, " hx-on:click=") || strings.Contains(s, " data-x:y="), "attribute-name-with-colon")
	mark(strings.Contains(s, "<table"), "table")
	mark(c.Doc, "document")
	mark(c.Doc && len(s)-strings.LastIndex(s, "</html>") > 64, "document-with-long-trailer")
	mark(strings.Contains(strings.ToLower(s), "<!doctype"), "doctype")
	mark(strings.Contains(s, " PUBLIC ") || strings.Contains(s, " SYSTEM "), "legacy-doctype")
	mark(strings.Contains(s, "<xmp") || strings.Contains(s, "<iframe") || strings.Contains(s, "<noembed") || strings.Contains(s, "<noframes"), "rawtext-fallback-element")
	mark(strings.Contains(s, "<noscript"), "noscript")
	mark(strings.Contains(s, "&#13;") || strings.Contains(s, "&#xD;") || strings.Contains(s, "&#10;") || strings.Contains(s, "&#9;"), "control-char-reference")
	mark(len(c.Data) > 0, "interpolated")
	mark(len(c.Bound) > 0, "bound-attr")
	mark(len(c.VHtml) > 0, "v-html")
	if !stable(expectedSource(Case{Source: strings.ReplaceAll(s, ` v-html="`, ` data-vh="`), Data: c.Data, Bound: c.Bound}), c.Doc) {
		return false, append(cls, "rejected-not-parser-stable")
	}
	return nt, cls
}

var tagNameRe = regexp.MustCompile(`<(/?)([a-z][a-z0-9]*)`)

// respell writes the source in another spelling HTML treats as the same document: upper-case
// tag names, CRLF line ends. Which one is decided by the source text (Spell 0), so a replay is
// exact; the expectation is derived from the respelled source.
func respell(c Case) Case {
	h := 0
	for i := 0; i < len(c.Source); i++ {
		h = h*31 + int(c.Source[i])
	}
	if h < 0 {
		h = -h
	}
	switch h % 7 {
	case 1:
		if !strings.Contains(c.Source, "<svg") && !strings.Contains(c.Source, "<math") {
			c.Source = tagNameRe.ReplaceAllStringFunc(c.Source, strings.ToUpper)
		}
	case 2:
		c.Source = strings.ReplaceAll(strings.ReplaceAll(c.Source, "\r\n", "\n"), "\n", "\r\n")
	case 3, 4:
		// the mustaches of the holes written tight, or spread over several lines
		for name := range c.Data {
			if _, path := c.Paths[name]; path {
				continue
			}
			if str := fmt.Sprint(c.Data[name].Go()); strings.HasPrefix(str, "\n") || strings.HasPrefix(str, "\r") {
				continue // (the expectation for a leading line break right after <pre> knows one spelling)
			}
			if h%7 == 3 {
				c.Source = strings.ReplaceAll(c.Source, "{{ "+name+" }}", "{{"+name+"}}")
			} else {
				c.Source = strings.ReplaceAll(c.Source, "{{ "+name+" }}", "{{\n  "+name+"\n}}")
			}
		}
	}
	return c
}

func checkStable(c Case) error {
	c = respell(c)
	// only parser-stable sources are in the property's domain
	if !stable(expectedSource(Case{Source: strings.ReplaceAll(c.Source, ` v-html="`, ` data-vh="`), Data: c.Data, Bound: c.Bound}), c.Doc) {
		return nil
	}
	return check(c)
}

func replay(kind string, raw json.RawMessage) error { return run.Decode(raw, checkStable) }

// fixed corpus of hand-written edge cases (always run, shard 0)
var corpus = []Case{
	{Source: `<p>&amp;lt; and &amp;amp;</p>`, Entry: "string"},
	{Source: `<p title="a &amp;amp; b">1 &lt; 2 &amp; 3;</p>`, Entry: "string"},
	{Source: `<p>&lt;img src=x&gt; {{ h1 }}</p>`, Entry: "string", Data: map[string]vals.V{"h1": vals.Str("a&b")}},
	{Source: `<!DOCTYPE html><html><head><title>t &amp; u</title></head><body><p>x</p></body></html>`, Doc: true, Entry: "load"},
	{Source: `<!DOCTYPE html><html><head><title>t</title></head><body><p>x</p></body></html>`, Doc: true, Entry: "vue"},
	{Source: `<!DOCTYPE html><html lang="en" class="k"><head><title>t</title></head><body class="b"><p>x</p></body></html>` + "\n<!-- generated by the site builder on 2026-01-01 from templates/base; do not edit by hand -->\n", Doc: true, Entry: "load"},
	{Source: `<!DOCTYPE html><html lang="en"><head><title>t</title></head><body><p>x</p></body></html>` + strings.Repeat("\n", 80), Doc: true, Entry: "file"},
	{Source: `<div><hr><img src="a.png" alt=""><input value="x" disabled><p>a<wbr>b</p></div>`, Entry: "file"},
	{Source: `<pre>  keep
   this</pre><textarea name="t">a  b</textarea>`, Entry: "string"},
	{Source: `<script>if (a<b && c>d) { s = "&amp;"; }</script><style>a > b { content: "<" }</style>`, Entry: "string"},
	{Source: `<a href="/q?a=1&amp;b=2&amp;copy=3">x</a>`, Entry: "string"},
	{Source: `<p xml:lang="en" hx-on:click="go()" data-x:y="1" x.y="z" aria-label="a &amp; b">x</p><svg viewBox="0 0 1 1"><use xlink:href="#i"></use></svg>`, Entry: "string"},
	{Source: "<pre>a <span>b</span> c\n  <b>d</b><i>e</i>\nf</pre><div><pre><code>x\n  y</code> <em><strong>q</strong>r</em>s</pre></div>", Entry: "string"},
	{Source: "<pre>Edit:\n<textarea>\n\nline</textarea> <b>x</b></pre>", Entry: "string"},
	{Source: `<!DOCTYPE html PUBLIC "-//W3C//DTD HTML 4.01 Transitional//EN" ""><html><head><title>t</title></head><body><p>x</p></body></html>`, Doc: true, Entry: "load"},
	{Source: `<!DOCTYPE html SYSTEM ""><html><head><title>t</title></head><body><p>x</p></body></html>`, Doc: true, Entry: "file"},
	{Source: "<pre>\n\nblank first</pre><textarea name=\"t\">\n\nblank first</textarea><pre>{{ h1 }}</pre>", Entry: "string", Data: map[string]vals.V{"h1": vals.Str("\nline")}},
	{Source: `<noscript><img src="x.png" alt=""><p>enable &amp; reload</p></noscript><xmp><b>bold</b> &amp; x</xmp><iframe src="/f"><p>fallback</p></iframe>`, Entry: "string"},
	{Source: `<input placeholder="line one&#13;&#10;line &quot;two&quot;" title="a&#9;b"><p title="v: {{ h1 }}">x</p>`, Entry: "string", Data: map[string]vals.V{"h1": vals.Str("one\r\ntwo")}},
	{Source: `<!DOCTYPE html PUBLIC "-//W3C//DTD XHTML 1.0 Strict//EN" "http://www.w3.org/TR/xhtml1/DTD/xhtml1-strict.dtd"><html><head><title>t</title></head><body><p>x</p></body></html>`, Doc: true, Entry: "load"},
	{Source: `<!DOCTYPE html SYSTEM "about:legacy-compat"><html><head><title>t</title><noscript><link rel="stylesheet" href="/n.css"></noscript></head><body><p>x</p></body></html>`, Doc: true, Entry: "vue"},
	{Source: `<p title="[{{ h1 }}]" :lang="h1">v={{ h1 }};</p>`, Entry: "string", Data: map[string]vals.V{"h1": vals.Num("float64", "1e6")}, Bound: map[string]string{"h1": "lang"}},
	{Source: `<p title="[{{ h1 }}]" :lang="h1">v={{ h1 }};</p>`, Entry: "string", Data: map[string]vals.V{"h1": vals.Num("float64", "0.00001")}, Bound: map[string]string{"h1": "lang"}},
	{Source: `<p title="[{{ h1 }}]" :lang="h1">v={{ h1 }};</p>`, Entry: "string", Data: map[string]vals.V{"h1": vals.Num("float32", "16777216")}, Bound: map[string]string{"h1": "lang"}},
	{Source: `<p title="[{{ h1 }}]" :lang="h1">v={{ h1 }};</p>`, Entry: "string", Data: map[string]vals.V{"h1": vals.Num("uint64", "18446744073709551615")}, Bound: map[string]string{"h1": "lang"}},
	{Source: `<p title="[{{ h1 }}]" :lang="h1">v={{ h1 }};</p>`, Entry: "string", Data: map[string]vals.V{"h1": vals.Num("int64", "-9223372036854775808")}, Bound: map[string]string{"h1": "lang"}},
}

func TestProp(t *testing.T) {
	rec := ev.New(prop)
	defer run.Finish(t, rec)
	run.Witnesses(rec, prop, replay)
	if run.First() {
		for _, c := range corpus {
			for _, e := range entriesFrag {
				cc := c
				if c.Doc && (e == "string" || e == "byte" || e == "reader") {
					continue
				}
				cc.Entry = e
				nt, cls := classify(cc)
				run.Each(rec, "corpus", cc, nt, cls, checkStable)
				for _, o := range []string{"less", "components", "proc"} {
					cc.Opt, cc.FM = o, o != "less"
					nt, cls := classify(cc)
					run.Each(rec, "corpus", cc, nt, cls, checkStable)
				}
			}
		}
	}
	run.Rapid(t, rec, "static", genCase(false), classify, checkStable)
	run.Rapid(t, rec, "values", genCase(true), classify, checkStable)
}

func TestReplay(t *testing.T) { run.ReplayMain(t, prop, replay) }

// directiveFree: the source, as the HTML5 parser reads it, has no directive, binding, mustache,
// component, slot or template element - the domain of the static part of the property.
func directiveFree(src string, doc bool) bool {
	if strings.Contains(src, "{{") || strings.HasPrefix(strings.TrimSpace(src), "---") {
		return false
	}
	var nodes []*xhtml.Node
	var err error
	if doc {
		nodes, err = hx.ParseDoc(src)
	} else {
		nodes, err = hx.ParseFragment(src)
	}
	if err != nil {
		return false
	}
	ok := true
	var walk func(n *xhtml.Node)
	walk = func(n *xhtml.Node) {
		if n.Type == xhtml.ElementNode {
			switch n.Data {
			case "template", "slot", "plaintext", "frameset", "frame":
				ok = false
			}
			switch n.Data {
			case "xmp", "iframe", "noembed", "noframes", "script", "style", "textarea", "title":
				// a raw text body that contains "</" only arises from a template that ends
				// inside an unterminated end tag; not a document anyone writes
				for c := n.FirstChild; c != nil; c = c.NextSibling {
					if c.Type == xhtml.TextNode && strings.Contains(c.Data, "</") {
						ok = false
					}
				}
			}
			if strings.Contains(n.Data, "-") || n.Namespace != "" {
				ok = false // custom elements may be component shorthands; foreign content is not in the vocabulary
			}
			for _, a := range n.Attr {
				if strings.HasPrefix(a.Key, "v-") || strings.HasPrefix(a.Key, ":") || strings.HasPrefix(a.Key, "@") || strings.HasPrefix(a.Key, "#") || strings.HasPrefix(a.Key, "[") || a.Key == "include" {
					ok = false
				}
			}
		}
		for c := n.FirstChild; c != nil && ok; c = c.NextSibling {
			walk(c)
		}
	}
	// a comment between two text runs makes "whitespace between the runs" ambiguous (the
	// statement calls whitespace and comments insignificant): not generated either
	var scan func(list []*xhtml.Node)
	scan = func(list []*xhtml.Node) {
		for i, c := range list {
			if c.Type == xhtml.CommentNode {
				p, q := i-1, i+1
				for p >= 0 && list[p].Type == xhtml.CommentNode {
					p--
				}
				for q < len(list) && list[q].Type == xhtml.CommentNode {
					q++
				}
				if p >= 0 && list[p].Type == xhtml.TextNode && q < len(list) && list[q].Type == xhtml.TextNode {
					ok = false
				}
			}
			var kids []*xhtml.Node
			for k := c.FirstChild; k != nil; k = k.NextSibling {
				kids = append(kids, k)
			}
			scan(kids)
		}
	}
	for _, n := range nodes {
		walk(n)
	}
	scan(nodes)
	return ok
}

// FuzzFaithful: native coverage-guided fuzzing of directive-free template source (thorough tier).
func FuzzFaithful(f *testing.F) {
	for i, c := range corpus {
		if len(c.Data) == 0 {
			f.Add(c.Source, uint8(i))
		}
	}
	f.Add(`<table><caption>c &amp; d</caption><colgroup><col span="2"></colgroup><tr><td>1<td>2</table>`, uint8(0))
	f.Add(`<select name="s"><optgroup label="g &quot;1&quot;"><option value="a&amp;b" selected>A</option></optgroup></select>`, uint8(1))
	f.Add(`<dl><dt>t<dd>d</dl><details open><summary>s</summary>x</details><p>a<span>b</span> c <em> d </em>e</p>`, uint8(2))
	f.Add(`<ul><li>1<li>2<ul><li>3</ul></ul><form action="/a?b=1&amp;c=2"><label for="i">l</label><input id="i" value="&lt;v&gt;"><button type="submit">go</button></form>`, uint8(3))
	noBr := kf.Load().Open("C02-br-end-tag")
	rec := ev.New(prop)
	f.Fuzz(func(t *testing.T, src string, sel uint8) {
		if !utf8.ValidString(src) || strings.ContainsAny(src, "\x00\r\f") || len(src) > 400 {
			t.Skip()
		}
		doc := strings.Contains(src, "</html>")
		if noBr && strings.Contains(strings.ToLower(src), "<br") || strings.Contains(strings.ToLower(src), "</br") {
			t.Skip()
		}
		if !directiveFree(src, doc) {
			t.Skip()
		}
		c := Case{Source: src, Doc: doc}
		if doc {
			c.Entry = entriesDoc[int(sel)%len(entriesDoc)]
		} else {
			c.Entry = entriesFrag[int(sel)%len(entriesFrag)]
		}
		if err := run.Safe(func() error { return checkStable(c) }); err != nil {
			rec.Fail("fuzz", c, err)
			rec.Finish()
			t.Fatalf("%+v: %v", c, err)
		}
	})
}
