package c05

import (
	"bytes"
	"context"
	"fmt"
	"testing"
	"testing/fstest"

	"github.com/titpetric/vuego"
)

func rend(files map[string]string, data map[string]any, short bool) string {
	m := fstest.MapFS{}
	for k, v := range files {
		m[k] = &fstest.MapFile{Data: []byte(v)}
	}
	var opts []vuego.LoadOption
	if short {
		opts = append(opts, vuego.WithComponents())
	}
	tpl := vuego.NewFS(m, opts...)
	var buf bytes.Buffer
	err := tpl.Load("page.vuego").Fill(data).Render(context.Background(), &buf)
	return fmt.Sprintf("%s\nERR=%v\n", buf.String(), err)
}

func pr(n string, names ...string) string {
	s := ""
	for _, x := range names {
		s += fmt.Sprintf(`<i data-m="%s.%s" data-t="{{ %s | type }}">{{ %s | json }}</i>`, n, x, x, x)
	}
	return s
}

func TestP(t *testing.T) {
	names := []string{"va1", "vb2", "vc3", "u0"}
	compB := "---\nvb2: [1, two]\n---\n<template :require=\"va1\" :require=\"vc3\">" + pr("B", names...) + "</template>"
	compA := "---\nvc3: {k: 1.5}\n---\n<template :required=\"va1\"><div>" + pr("A", names...) + `<template include="components/ui/BoxB.vuego" :va1="vb2" vc3="x"></template>` + pr("A2", names...) + "</div></template>"
	page := `<div>` + pr("P", names...) + `<template include="components/CardA.vuego" va1="" :vb2="m" ></template>` + pr("P2", names...) + `</div>`
	files := map[string]string{"page.vuego": page, "components/CardA.vuego": compA, "components/ui/BoxB.vuego": compB}
	data := map[string]any{"m": map[string]any{"z": 1, "a": "q"}, "vc3": 2.5}
	fmt.Println(rend(files, data, false))
	// missing second repeated
	page = `<div><template include="components/ui/BoxB.vuego" va1="1"></template></div>`
	files["page.vuego"] = page
	fmt.Println(rend(files, map[string]any{}, false))
	// shorthand nested
	compA2 := "<div>" + pr("A", names...) + `<ui-box-b :va1="vb2" vc3="x"></ui-box-b>` + pr("A2", names...) + "</div>"
	files["components/CardA.vuego"] = compA2
	files["page.vuego"] = `<div><card-a va1="s" :vb2="m"></card-a><ui-box-b va1="1" vc3="2"></ui-box-b></div>`
	fmt.Println(rend(files, data, true))
}
