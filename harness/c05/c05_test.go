// Package c05 decides C05: components receive exactly their props; front-matter wins; nothing
// leaks back; :required fails iff a name was not provided; a shorthand tag equals the explicit
// <template include>.
//
// A case is a structured description of a file set (page + up to 5 component files) and the page
// data; the template text is derived from it deterministically (files()). The oracle is a small
// scope model (model()) that never calls vuego:
//
//	component scope = includer scope (+) props (+) component front-matter
//	content following an include sees the includer scope only
//	error  <=>  some :required name is in none of {props, front-matter, includer scope}
//
// Every observation point is a block of <i data-m="FILE.POS:NAME" data-t="{{ NAME | type }}">
// {{ NAME | json }}</i> elements, one per name; blocks stand at the start of every file and after
// every include. The expected block sequence is the model's walk of the include tree. A name the
// model says is not visible must print exactly like the never-defined control name u0 of the same
// block (how an undefined name prints is not asserted).
//
// Besides standing directly in a file body, an include tag is also placed (type Place) inside a
// v-for, as slot content of a wrapper component that renders its slot several times, and as a
// member of a v-if / v-else-if / v-else chain: every evaluation must deliver the props per the
// model, a member that is not chosen renders nothing, and nothing is visible afterwards.
//
// Component files stand directly in components/ or in sub-folders; the shorthand tag is the
// documented mapping (directory names + file name, kebab-case, joined by "-").
//
// Deliberately not asserted (unspecified): a :required name that only the includer's scope
// provides; partial output of a failed render; the wording of errors beyond "contains a missing
// name"; the Go type of values read from YAML front-matter; interpolated or bound strings that
// are whole JSON documents (decoding is documented for static values: those ARE asserted to
// arrive decoded, every other string starting with { or [ must arrive verbatim as a string);
// containers / whole floats inside "{{ }}" attribute interpolation, a literal { directly before
// {{, blanks around a value that starts with { or [ and bound paths that do not resolve (never generated;
// a replayed case containing them is only checked for shorthand == explicit).
package c05

import (
	"bytes"
	"context"
	"encoding/json"
	"fmt"
	"html"
	"regexp"
	"sort"
	"strconv"
	"strings"
	"testing"
	"testing/fstest"

	"github.com/titpetric/vuego"
	xhtml "golang.org/x/net/html"
	"pgregory.net/rapid"

	"verif/internal/compose"
	"verif/internal/ev"
	"verif/internal/fw"
	"verif/internal/hx"
	"verif/internal/kf"
	"verif/internal/run"
	"verif/internal/vals"
)

const prop = "C05"

// Known findings (open): input regions the generators avoid by construction while they are open.
const (
	kfFalsy   = "C05-falsy-bound-prop-dropped"                // :p="x" with x in {0, 0.0, false, "", "false"}
	kfNested  = "C05-shorthand-inside-component"              // <kebab-tag> written inside a component file
	kfLiteral = "C05-literal-bound-prop-dropped"              // :p="true" / "7" / "1.5" / "'s'" (a literal instead of a variable path)
	kfBraces  = "C05-mustache-ignored-next-to-closing-braces" // attribute text with mustaches AND a further }} (nested JSON objects closing)
)

// ---------------------------------------------------------------------------------------------
// Case
// ---------------------------------------------------------------------------------------------

// Prop is one attribute of an include.
//
//	static: NAME="Text"            interp: NAME="Text{{ Path }}Post"
//	bind:   :NAME="Path"           vbind:  v-bind:NAME="Path"
//	json:   NAME='Text'  where Text is a JSON object / array written in the template, with
//	        {{ path }} mustaches inside its string values (decoded after interpolation)
type Prop struct {
	Name string `json:"name"`
	Mode string `json:"mode"`
	Text string `json:"text,omitempty"`
	Path string `json:"path,omitempty"`
	Post string `json:"post,omitempty"`
}

// Inc is one <template include="components/<Comps[Comp].Name>.vuego" …props…></template>.
type Inc struct {
	Comp  int    `json:"comp"`
	Props []Prop `json:"props,omitempty"`
	Place *Place `json:"place,omitempty"` // nil: the tag stands directly in the file body
	// Fill: slot templates written inside the include tag. They declare slot variables (which may
	// be named like props of this very include, front-matter keys or includer variables) for the
	// component's <slot> elements, which bind NO props: the variables belong to the supplied
	// content only and must not disturb what the component reads after its <slot>.
	Fill []Fill `json:"fill,omitempty"`
}

// Place puts the include tag somewhere else than directly in the file body.
//
// Evaluated once per element of the page variable rows (slot-twice: once for w1, once for w2):
//
//	loop               <div v-for="Var in rows"> block, tag </div>   or  v-for="(Idx, Var) in rows"
//	slot-loop-named    slot content of components/ListW.vuego  (<li v-for="x9 in rows"><slot name="row" :n="x9">)
//	slot-loop-default  slot content of components/ListD.vuego  (<li v-for="x9 in rows"><slot :n="x9">)
//	slot-twice         slot content of components/TwiceW.vuego (<slot :n="w1"> … <slot :n="w2">)
//
// Form says how slot content is supplied: "var" (<template v-slot:row="r"> / v-slot="r", the
// element is r.n), "hash" (<template #row="r">, named slot only), "destructure" ("{ n }", the
// element is n), "plain" (plain children, default slot only; the element is n).
// The wrapper components have no props and no front-matter and use names that collide with
// nothing (rows, w1, w2, x9, r, n), so that the scope in which the supplied content is evaluated
// is the includer's scope plus the slot binding under every reading of "includer scope".
// Var (default x9) and Idx may be names of the case: the loop variable then shadows the
// includer's variable inside the loop and must be gone after it.
//
// Evaluated at most once:
//
//	chain   the tag is a member of a v-if / v-else-if / v-else chain; Role = if | elseif | else.
//	        Cond (Role if / elseif) and Pre are page variables holding a bool. Unless Joined, a
//	        Role elseif / else tag follows a dummy <b v-if="Pre">; a Role if / elseif tag is followed
//	        by a dummy <b v-else> unless Form is "open" or the next include is Joined.
//	        Joined: the tag continues the chain of the include before it (no block in between).
type Place struct {
	Kind   string `json:"kind"`
	Form   string `json:"form,omitempty"`
	Var    string `json:"var,omitempty"`
	Idx    string `json:"idx,omitempty"`
	Role   string `json:"role,omitempty"`
	Cond   string `json:"cond,omitempty"`
	Pre    string `json:"pre,omitempty"`
	Joined bool   `json:"joined,omitempty"`
}

const (
	loopVar  = "x9"
	rowsVar  = "rows"
	slotVar  = "r"
	slotProp = "n"
)

var wrappers = map[string]struct{ name, text string }{
	"slot-loop-named":   {"ListW", `<ul><li v-for="x9 in rows"><slot name="row" :n="x9"></slot></li></ul>` + "\n"},
	"slot-loop-default": {"ListD", `<ul><li v-for="x9 in rows"><slot :n="x9"></slot></li></ul>` + "\n"},
	"slot-twice":        {"TwiceW", `<div><slot :n="w1"></slot><hr><slot :n="w2"></slot></div>` + "\n"},
}

func (p *Place) loopVar() string {
	if p.Var != "" {
		return p.Var
	}
	return loopVar
}

// elemPath is the path under which the include tag sees the current element ("" for chains).
func (p *Place) elemPath() string {
	switch {
	case p == nil || p.Kind == "chain":
		return ""
	case p.Kind == "ctx":
		if p.Form == "svg-loop" {
			return loopVar
		}
		return ""
	case p.Kind == "loop":
		return p.loopVar()
	case p.Form == "var" || p.Form == "hash":
		return slotVar + "." + slotProp
	}
	return slotProp
}

func isIdent(s string) bool {
	if s == "" {
		return false
	}
	for i, r := range s {
		if !(r >= 'a' && r <= 'z' || r >= 'A' && r <= 'Z' || r > 127 || i > 0 && (r >= '0' && r <= '9' || r == '_')) {
			return false
		}
	}
	return true
}

// valid reports whether the fields combine (incs[j] is the include carrying p).
func (p *Place) valid(incs []Inc, j int) bool {
	switch p.Kind {
	case "ctx": // the tag stands inside foreign content or a table: <svg><g>, <math><mrow>, <table><tr><td>, <svg><g v-for>
		return p.Form == "svg" || p.Form == "math" || p.Form == "table" || p.Form == "svg-loop"
	case "loop":
		return p.Form == "" && (p.Var == "" || isIdent(p.Var)) && (p.Idx == "" || isIdent(p.Idx)) && p.Idx != p.loopVar()
	case "slot-loop-named":
		return p.Form == "var" || p.Form == "hash" || p.Form == "destructure"
	case "slot-loop-default", "slot-twice":
		return p.Form == "var" || p.Form == "destructure" || p.Form == "plain"
	case "chain":
		if p.Role != "if" && p.Role != "elseif" && p.Role != "else" {
			return false
		}
		if p.Joined {
			if p.Role == "if" || j == 0 || incs[j-1].Place == nil || incs[j-1].Place.Kind != "chain" || incs[j-1].Place.Role == "else" {
				return false
			}
		}
		return (p.Role == "else" || isIdent(p.Cond)) && (p.Role == "if" || p.Joined || isIdent(p.Pre))
	}
	return false
}

func nextJoined(incs []Inc, j int) bool {
	return j+1 < len(incs) && incs[j+1].Place != nil && incs[j+1].Place.Kind == "chain" && incs[j+1].Place.Joined
}

// directive is the attribute the include tag itself carries.
func (p *Place) directive() string {
	if p == nil || p.Kind != "chain" {
		return ""
	}
	switch p.Role {
	case "if":
		return `v-if="` + p.Cond + `"`
	case "elseif":
		return `v-else-if="` + p.Cond + `"`
	}
	return "v-else"
}

// wrap returns the text around (and including) the include tag.
func (p *Place) wrap(tag, blk string, incs []Inc, j int, short bool) string {
	switch p.Kind {
	case "ctx":
		switch p.Form {
		case "svg":
			return "<svg><g>\n" + tag + "</g></svg>\n"
		case "math":
			return "<math><mrow>\n" + tag + "</mrow></math>\n"
		case "table":
			return "<table><tr><td>\n" + tag + "</td></tr></table>\n"
		}
		return `<svg><g v-for="` + loopVar + ` in ` + rowsVar + `">` + "\n" + tag + "</g></svg>\n"
	case "loop":
		v := p.loopVar()
		if p.Idx != "" {
			v = "(" + p.Idx + ", " + v + ")"
		}
		return `<div v-for="` + v + ` in ` + rowsVar + `">` + "\n" + blk + tag + "</div>\n"
	case "chain":
		out := tag
		if !p.Joined && p.Role != "if" {
			out = `<b v-if="` + p.Pre + `">pre</b>` + "\n" + out
		}
		if p.Role != "else" && p.Form != "open" && !nextJoined(incs, j) {
			out += "<b v-else>else</b>\n"
		}
		return out
	}
	w := wrappers[p.Kind]
	var o, c string
	if short {
		o, c = "<"+kebab(w.name)+">\n", "</"+kebab(w.name)+">\n"
	} else {
		o, c = `<template include="components/`+w.name+`.vuego">`+"\n", "</template>\n"
	}
	named := p.Kind == "slot-loop-named"
	switch p.Form {
	case "var":
		if named {
			o += `<template v-slot:row="r">` + "\n"
		} else {
			o += `<template v-slot="r">` + "\n"
		}
		c = "</template>\n" + c
	case "hash":
		o += `<template #row="r">` + "\n"
		c = "</template>\n" + c
	case "destructure":
		if named {
			o += `<template #row="{ n }">` + "\n"
		} else {
			o += `<template v-slot="{ n }">` + "\n"
		}
		c = "</template>\n" + c
	}
	return o + tag + c
}

// Fill is one <template v-slot…>F</template> child of an include tag. Named: for the component's
// <slot name="s1"> (spelled #s1 when Hash), else for its default slot. Destructure: the value is
// "{ A, B }" (Vars), else the single name Vars[0]; no Vars = no value. The content is constant
// text: in which scope supplied content reads names is a matter of the slot property.
type Fill struct {
	Named       bool     `json:"named,omitempty"`
	Hash        bool     `json:"hash,omitempty"`
	Destructure bool     `json:"destructure,omitempty"`
	Vars        []string `json:"vars,omitempty"`
}

func (f Fill) text() string {
	attr := "v-slot"
	switch {
	case f.Named && f.Hash:
		attr = "#s1"
	case f.Named:
		attr = "v-slot:s1"
	}
	switch {
	case len(f.Vars) == 0:
	case f.Destructure:
		attr += `="{ ` + strings.Join(f.Vars, ", ") + ` }"`
	default:
		attr += `="` + f.Vars[0] + `"`
	}
	return "<template " + attr + ">F</template>\n"
}

// Req is one :required / :require attribute on the component's root <template>; CSV is its raw value.
type Req struct {
	Key string `json:"key"`
	CSV string `json:"csv"`
}

// Comp is one component file components/<Name>.vuego.
type Comp struct {
	Name string            `json:"name"`           // PascalCase base name, e.g. CardA -> <card-a>
	Dir  string            `json:"dir,omitempty"`  // sub-folder below components/, e.g. "cards" -> <cards-card-a>, "forms/inputs" -> <forms-inputs-card-a>
	FM   map[string]vals.V `json:"fm,omitempty"`   // front-matter
	Wrap bool              `json:"wrap,omitempty"` // body wrapped in a root <template> (forced when Req is set)
	// NullAs: how a null front-matter value (vals kind "nil") is spelled: "" = `key: null`,
	// "empty" = `key:`, "tilde" = `key: ~`.
	NullAs string `json:"null_as,omitempty"`
	// Slot: the component has <slot> elements that bind no props, after its first block and
	// followed by a second block (id C<i>.s): "default" (<slot>), "named" (<slot name="s1">), "both".
	Slot string `json:"slot,omitempty"`
	// RootAttrs: further attributes on the component's root <template> (they set variables for
	// the component's content; names zr0, zr1 collide with nothing). What they set is not part of
	// the model; asserted is only that the spellings :name="path" and v-bind:name="path" give the
	// same output (docs/syntax.md: ":attr is equivalent to v-bind:attr"). Forces the root template.
	RootAttrs []Prop `json:"root_attrs,omitempty"`
	// File-level spelling: EOL "crlf" = the whole file has CRLF line endings; Fence = blanks after
	// the front-matter fences: "" none, "open", "close", "both" (two spaces).
	EOL   string `json:"eol,omitempty"`
	Fence string `json:"fence,omitempty"`
	// FMStyle "plain": front-matter strings that are safe as YAML plain scalars are written
	// unquoted (title: Specials --- today only), lists of such strings in block style (- a---b).
	FMStyle string `json:"fm_style,omitempty"`
	Req     []Req  `json:"req,omitempty"`
	Incs    []Inc  `json:"incs,omitempty"`
}

// Case is a file set plus page data.
type Case struct {
	Names []string `json:"names"`           // the names every block prints (besides u0)
	Print []string `json:"print,omitempty"` // further includer variables every block prints (never shadowed)
	// Reads: further expressions the first block of every component prints: "NAME.key", "NAME[i]"
	// (also chained: NAME.key[0]) and "NAME|len". Asserted where the model has a container
	// (for len: also an ASCII string) under NAME, left open elsewhere.
	Reads []string `json:"reads,omitempty"`
	// Entry: how the page is rendered: "" = Template API (NewFS(...).Load(page).Fill(data).Render),
	// "vue-render" = NewVue(fs).Render(w, page, data), "vue-fragment" = NewVue(fs).RenderFragment.
	// Root: the Go shape of the page data: "" = map[string]any, "mapss" = map[string]string (every
	// value a string), "mapsl" = map[string][]string, "embed" = a struct with an embedded struct,
	// "embedptr" = pointer to a struct with an embedded struct pointer (fields author, Count, title,
	// Tags; see rootOuter). A typed root is also compared with the same case on a map[string]any root.
	Entry string `json:"entry,omitempty"`
	Root  string `json:"root,omitempty"`
	// Further doors (Entry): "file" RenderFile, "string" / "byte" / "reader" the inline renders of
	// the page text, "view" View(tpl, page, data), "assign" Load + Assign per key,
	// "vue-nodes-loader" Vue.RenderNodes with NewLoader(fs).LoadFragment(page), "vue-nodes-built"
	// Vue.RenderNodes with a node tree built in Go (Data set, DataAtom zero).
	// Reg: how the shorthand tags are registered: "" WithComponents, "manual" RegisterComponent per
	// tag, "both". Proc: "with" / "register" - the page is rendered a third time with its includes
	// spelled as custom tags <xinc-TAG …> that a pre-processing NodeProcessor (attached through
	// WithProcessor / RegisterNodeProcessor) rewrites into <template include>.
	Reg  string `json:"reg,omitempty"`
	Proc string `json:"proc,omitempty"`
	// Spelling of include / shorthand tags (equivalent in HTML): Quote "single" = attribute values
	// in single quotes; Upper = tag and attribute NAMES in upper case (<TEMPLATE INCLUDE=… VA1=…>,
	// <CARD-A>); Lines = one attribute per line with blanks around "=".
	Quote string `json:"quote,omitempty"`
	Upper bool   `json:"upper,omitempty"`
	Lines bool   `json:"lines,omitempty"`
	// After: the case is additionally rendered right after a FAILING render of a stale twin of
	// itself (same templates and names, every value recognisably different, failure injected at
	// the end of the page) and must meet the model all the same:
	//   "fresh"         failing render on a fresh engine, then the case on a fresh engine (process-wide pools)
	//   "engine"        both on one engine (NewFS once)
	//   "object-fill"   both on one loaded Template object: Fill(stale data without okz).Render fails on
	//                   the guard component at the end of the page, then Fill(data).Render
	//   "object-assign" one loaded Template object: Fill(data without okz).Render fails, Assign("okz").Render
	//   "writer"        successful stale render into a writer that fails after a few bytes, then the case (same engine)
	//   "load"          Load of a missing file, Assign / Render on what it returns, then the case on the base template
	After string `json:"after,omitempty"`
	// PageCRLF: page.vuego is written with CRLF line endings.
	PageCRLF bool              `json:"page_crlf,omitempty"`
	Data     map[string]vals.V `json:"data,omitempty"`
	Comps    []Comp            `json:"comps"`
	Page     []Inc             `json:"page"`
	// NestedShort: in the shorthand spelling, includes inside component files are written as
	// shorthand tags too (otherwise only the page's includes are).
	NestedShort bool `json:"nested_short,omitempty"`
}

const undefName = "u0" // never defined anywhere: the in-render reference for "not visible"

func (c Case) printed() []string {
	out := append([]string(nil), c.Names...)
	out = append(out, undefName)
	for _, k := range c.Print {
		if !contains(out, k) {
			out = append(out, k)
		}
	}
	return out
}

func contains(l []string, s string) bool {
	for _, x := range l {
		if x == s {
			return true
		}
	}
	return false
}

// ---------------------------------------------------------------------------------------------
// Template text
// ---------------------------------------------------------------------------------------------

// kebab is the documented mapping of docs/components.md: PascalCase file name -> kebab-case tag.
func kebab(s string) string {
	var b strings.Builder
	for i, r := range s {
		if r >= 'A' && r <= 'Z' {
			if i > 0 {
				b.WriteByte('-')
			}
			r += 'a' - 'A'
		}
		b.WriteRune(r)
	}
	return b.String()
}

func compPath(cp Comp) string {
	if cp.Dir != "" {
		return "components/" + cp.Dir + "/" + cp.Name + ".vuego"
	}
	return "components/" + cp.Name + ".vuego"
}

// compTag is the documented mapping (docs/api.md WithComponents, docs/components.md): the
// directory names below components/ and the file name, each in kebab-case, joined with "-".
func compTag(cp Comp) string {
	var parts []string
	if cp.Dir != "" {
		for _, d := range strings.Split(cp.Dir, "/") {
			parts = append(parts, kebab(d))
		}
	}
	return strings.Join(append(parts, kebab(cp.Name)), "-")
}

// richBlock: the first block of a component file reads every name in three ways - {{ }}, a bound
// attribute and v-if - since those go through different lookups of the scope.
func richBlock(id string) bool {
	return strings.HasPrefix(id, "C") && (strings.HasSuffix(id, ".in") || strings.HasSuffix(id, ".s"))
}

func preBlock(id string) bool { return strings.HasPrefix(id, "C") && strings.HasSuffix(id, ".in") }

func slotText(kind string) string {
	switch kind {
	case "default":
		return "<slot>-</slot>\n"
	case "named":
		return `<slot name="s1">-</slot>` + "\n"
	case "both":
		return `<slot name="s1">-</slot>` + "\n<slot>-</slot>\n"
	}
	return ""
}

func readText(expr string) (typ, val string) {
	if base, isLen := strings.CutSuffix(expr, "|len"); isLen {
		return "", "{{ " + base + " | len }}"
	}
	return "{{ " + expr + " | type }}", "{{ " + expr + " | json }}"
}

func block(id string, names []string, reads ...string) string {
	var b strings.Builder
	for _, n := range names {
		if richBlock(id) {
			fmt.Fprintf(&b, `<i data-m="%s:%s" data-t="{{ %s | type }}" data-j="{{ %s | json }}" :data-a="%s">{{ %s | json }}<u v-if="%s">T</u></i>`+"\n", id, n, n, n, n, n, n)
			continue
		}
		fmt.Fprintf(&b, `<i data-m="%s:%s" data-t="{{ %s | type }}">{{ %s | json }}</i>`+"\n", id, n, n, n)
	}
	if preBlock(id) {
		// the same values once more inside <pre>, one per line: white space is significant there
		var lines []string
		for _, n := range names {
			lines = append(lines, "{{ "+n+" | json }}")
		}
		fmt.Fprintf(&b, `<pre data-m="%s:~pre">%s</pre>`+"\n", id, strings.Join(lines, "\n"))
	}
	if richBlock(id) {
		for _, e := range reads {
			typ, val := readText(e)
			fmt.Fprintf(&b, `<i data-m="%s:=%s" data-t="%s">%s</i>`+"\n", id, e, typ, val)
		}
	}
	return b.String()
}

// attr writes one attribute in the case's spelling.
func (c Case) attr(name, val string) string {
	q, esc := `"`, html.EscapeString(val)
	if c.Quote == "single" {
		q, esc = "'", strings.ReplaceAll(strings.ReplaceAll(strings.ReplaceAll(strings.ReplaceAll(val, "&", "&amp;"), "<", "&lt;"), ">", "&gt;"), "'", "&#39;")
	}
	if c.Upper {
		name = upperASCII(name)
	}
	if c.Lines {
		return name + " = " + q + esc + q
	}
	return name + "=" + q + esc + q
}

func (c Case) propAttr(p Prop) string {
	switch p.Mode {
	case "static", "json":
		return c.attr(p.Name, p.Text)
	case "interp":
		return c.attr(p.Name, p.Text+"{{ "+p.Path+" }}"+p.Post)
	case "bind":
		return c.attr(":"+p.Name, p.Path)
	case "vbind":
		return c.attr("v-bind:"+p.Name, p.Path)
	}
	return ""
}

func incTag(c Case, inc Inc, short bool) string {
	if inc.Comp < 0 || inc.Comp >= len(c.Comps) {
		return ""
	}
	cp := c.Comps[inc.Comp]
	var attrs []string
	for _, p := range inc.Props {
		attrs = append(attrs, c.propAttr(p))
	}
	sepA := " "
	if c.Lines {
		sepA = "\n    "
	}
	a := strings.Join(attrs, sepA)
	if a != "" {
		a = sepA + a
	}
	d := inc.Place.directive()
	if d != "" {
		d = " " + d
	}
	kids := ""
	for _, f := range inc.Fill {
		kids += f.text()
	}
	if kids != "" {
		kids = "\n" + kids
	}
	if short {
		tag := compTag(cp)
		if c.Upper {
			tag = upperASCII(tag)
		}
		return fmt.Sprintf("<%s%s%s>%s</%s>\n", tag, d, a, kids, tag)
	}
	tt := "template"
	if c.Upper {
		tt = "TEMPLATE"
	}
	return fmt.Sprintf("<%s%s%s%s%s>%s</%s>\n", tt, d, sepA, c.attr("include", compPath(cp)), a, kids, tt)
}

func body(c Case, id string, incs []Inc, short bool, slot string) string {
	names := c.printed()
	var b strings.Builder
	b.WriteString(block(id+".in", names, c.Reads...))
	if st := slotText(slot); st != "" {
		b.WriteString(st)
		b.WriteString(block(id+".s", names, c.Reads...))
	}
	for j, inc := range incs {
		if inc.Place == nil {
			b.WriteString(incTag(c, inc, short))
		} else {
			b.WriteString(inc.Place.wrap(incTag(c, inc, short), block(fmt.Sprintf("%s.l%d", id, j), names), incs, j, short))
		}
		if nextJoined(incs, j) {
			continue // the chain goes on: no block between its members
		}
		b.WriteString(block(fmt.Sprintf("%s.a%d", id, j), names))
	}
	return b.String()
}

var plainScalarRe = regexp.MustCompile(`^[A-Za-z][A-Za-z0-9 -]*[A-Za-z0-9-]$`)

func plainScalar(s string) bool {
	switch strings.ToLower(s) {
	case "true", "false", "null", "yes", "no", "on", "off", "y", "n":
		return false
	}
	return plainScalarRe.MatchString(s) && !strings.Contains(s, " - ")
}

// plainYAML returns " text" for a string that is safe as a YAML plain scalar, a block list for a
// non-empty list of such strings, "" otherwise (the value is then written as JSON).
func plainYAML(v any) string {
	switch x := v.(type) {
	case string:
		if plainScalar(x) {
			return " " + x
		}
	case []any:
		out := ""
		for _, e := range x {
			s, isStr := e.(string)
			if !isStr || !plainScalar(s) {
				return ""
			}
			out += "\n  - " + s
		}
		return out
	}
	return ""
}

func usedWrappers(c Case) []string {
	used := map[string]bool{}
	note := func(incs []Inc) {
		for _, inc := range incs {
			if inc.Place != nil {
				if _, ok := wrappers[inc.Place.Kind]; ok {
					used[inc.Place.Kind] = true
				}
			}
		}
	}
	note(c.Page)
	for _, cp := range c.Comps {
		note(cp.Incs)
	}
	var out []string
	for k := range used {
		out = append(out, k)
	}
	sort.Strings(out)
	return out
}

func jsonOf(v any) string {
	b, err := json.Marshal(v)
	if err != nil {
		return "!" + err.Error()
	}
	return string(b)
}

// files derives the file set. short selects the shorthand spelling.
func files(c Case, short bool) map[string]string {
	out := map[string]string{}
	out["page.vuego"] = "<div>\n" + body(c, "P", c.Page, short, "") + "</div>\n"
	for _, k := range usedWrappers(c) {
		out["components/"+wrappers[k].name+".vuego"] = wrappers[k].text
	}
	for i, cp := range c.Comps {
		var b strings.Builder
		if len(cp.FM) > 0 {
			// YAML is a superset of JSON: every value is written as a JSON flow value.
			keys := make([]string, 0, len(cp.FM))
			for k := range cp.FM {
				keys = append(keys, k)
			}
			sort.Strings(keys)
			fence := func(which string) string {
				if cp.Fence == which || cp.Fence == "both" {
					return "---  \n"
				}
				return "---\n"
			}
			b.WriteString(fence("open"))
			for _, k := range keys {
				v := cp.FM[k].Go()
				switch {
				case v == nil && cp.NullAs == "empty":
					fmt.Fprintf(&b, "%s:\n", k)
				case v == nil && cp.NullAs == "tilde":
					fmt.Fprintf(&b, "%s: ~\n", k)
				case cp.FMStyle == "qkeys":
					fmt.Fprintf(&b, "%q: %s\n", k, jsonOf(v))
				case cp.FMStyle == "plain" && plainYAML(v) != "":
					fmt.Fprintf(&b, "%s:%s\n", k, plainYAML(v))
				default:
					fmt.Fprintf(&b, "%s: %s\n", k, jsonOf(v))
				}
			}
			b.WriteString(fence("close"))
		}
		inner := body(c, fmt.Sprintf("C%d", i), cp.Incs, short && c.NestedShort, cp.Slot)
		if cp.Wrap || len(cp.Req) > 0 || len(cp.RootAttrs) > 0 {
			b.WriteString("<template")
			for _, r := range cp.Req {
				fmt.Fprintf(&b, ` %s="%s"`, r.Key, r.CSV)
			}
			for _, ra := range cp.RootAttrs {
				b.WriteString(" " + Case{}.propAttr(ra))
			}
			b.WriteString(">\n" + inner + "</template>\n")
		} else {
			b.WriteString(inner)
		}
		txt := b.String()
		if cp.EOL == "crlf" {
			txt = strings.ReplaceAll(txt, "\n", "\r\n")
		}
		out[compPath(cp)] = txt
	}
	if c.PageCRLF {
		out["page.vuego"] = strings.ReplaceAll(out["page.vuego"], "\n", "\r\n")
	}
	return out
}

// Root data shapes that cannot be flattened into a map[string]any up front: the variables are
// reached through the original value (by json tag, or by Go name for untagged fields).
type rootInner struct {
	Author string `json:"author"`
	Count  int
}
type rootOuter struct {
	rootInner
	Title string `json:"title"`
	Tags  []string
}
type rootOuterP struct {
	*rootInner
	Title string `json:"title"`
	Tags  []string
}

var structRootNames = []string{"author", "Count", "title", "Tags"}

// buildRoot builds the page data in the shape root; ok=false when the case's data do not fit it.
func buildRoot(c Case, root string) (any, bool) {
	switch root {
	case "":
		data := map[string]any{}
		for k, v := range c.Data {
			data[k] = v.Go()
		}
		return data, true
	case "mapss":
		data := map[string]string{}
		for k, v := range c.Data {
			s, isStr := v.Go().(string)
			if !isStr {
				return nil, false
			}
			data[k] = s
		}
		return data, true
	case "mapsl":
		data := map[string][]string{}
		for k, v := range c.Data {
			l, isList := v.Go().([]string)
			if !isList {
				return nil, false
			}
			data[k] = l
		}
		return data, true
	case "embed", "embedptr":
		if len(c.Data) != len(structRootNames) {
			return nil, false
		}
		a, ok1 := c.Data["author"].Go().(string)
		n, ok2 := c.Data["Count"].Go().(int)
		ti, ok3 := c.Data["title"].Go().(string)
		tg, ok4 := c.Data["Tags"].Go().([]string)
		if !ok1 || !ok2 || !ok3 || !ok4 {
			return nil, false
		}
		if root == "embed" {
			return rootOuter{rootInner{a, n}, ti, tg}, true
		}
		return &rootOuterP{&rootInner{a, n}, ti, tg}, true
	}
	return nil, false
}

func render(c Case, short bool) (string, error) { return renderAs(c, short, c.Root) }

func renderAs(c Case, short bool, root string) (string, error) {
	spell := ""
	if short {
		spell = "short"
	}
	return renderX(c, spell, root)
}

// entries are the public doors a page can come in through.
var entries = []string{"", "file", "string", "byte", "reader", "view", "assign",
	"vue-render", "vue-fragment", "vue-nodes-loader", "vue-nodes-built"}

// tagPaths maps every shorthand tag of the case (components and the wrappers in use) to its file.
func tagPaths(c Case) ([]string, map[string]string) {
	m := map[string]string{}
	for _, cp := range c.Comps {
		m[compTag(cp)] = compPath(cp)
	}
	for _, k := range usedWrappers(c) {
		m[kebab(wrappers[k].name)] = "components/" + wrappers[k].name + ".vuego"
	}
	tags := make([]string, 0, len(m))
	for t := range m {
		tags = append(tags, t)
	}
	sort.Strings(tags)
	return tags, m
}

const procPrefix = "xinc-"

// incProc is a pre-processing NodeProcessor in the idiom of docs/nodeprocessor.md: it rewrites
// the custom tags <xinc-TAG …> in place into <template include="FILE" …> by setting Data and
// appending the include attribute (the node's DataAtom stays what the parser gave the custom tag).
type incProc struct{ paths map[string]string }

func (p *incProc) New() vuego.NodeProcessor        { return p }
func (p *incProc) PostProcess([]*xhtml.Node) error { return nil }
func (p *incProc) PreProcess(nodes []*xhtml.Node) error {
	var walk func(n *xhtml.Node)
	walk = func(n *xhtml.Node) {
		if n.Type == xhtml.ElementNode {
			if file, ok := p.paths[strings.TrimPrefix(n.Data, procPrefix)]; ok && strings.HasPrefix(n.Data, procPrefix) {
				n.Data = "template"
				n.Attr = append(n.Attr, xhtml.Attribute{Key: "include", Val: file})
			}
		}
		for k := n.FirstChild; k != nil; k = k.NextSibling {
			walk(k)
		}
	}
	for _, n := range nodes {
		walk(n)
	}
	return nil
}

// filesFor: spelling "" = <template include>, "short" = shorthand tags, "proc" = the page's
// includes as custom tags <xinc-TAG …> for incProc (component files keep <template include>).
func filesFor(c Case, spell string) map[string]string {
	if spell != "proc" {
		return files(c, spell == "short")
	}
	fl := files(c, false)
	page := files(c, true)["page.vuego"]
	tags, _ := tagPaths(c)
	for _, t := range tags {
		re := regexp.MustCompile(`(?i)<(/?)(` + regexp.QuoteMeta(t) + `)([\s>])`)
		page = re.ReplaceAllString(page, "<${1}"+procPrefix+"${2}${3}")
	}
	fl["page.vuego"] = page
	return fl
}

// builtNodes parses text and rebuilds the tree the way Go code constructing nodes by hand would:
// Type, Data and Attr set, DataAtom left zero.
func builtNodes(text string) ([]*xhtml.Node, error) {
	parsed, err := hx.ParseFragment(text)
	if err != nil {
		return nil, err
	}
	var clone func(n *xhtml.Node) *xhtml.Node
	clone = func(n *xhtml.Node) *xhtml.Node {
		out := &xhtml.Node{Type: n.Type, Data: n.Data, Namespace: n.Namespace, Attr: append([]xhtml.Attribute(nil), n.Attr...)}
		for k := n.FirstChild; k != nil; k = k.NextSibling {
			out.AppendChild(clone(k))
		}
		return out
	}
	var out []*xhtml.Node
	for _, n := range parsed {
		out = append(out, clone(n))
	}
	return out, nil
}

func renderX(c Case, spell, root string) (string, error) {
	m := fstest.MapFS{}
	fl := filesFor(c, spell)
	for k, v := range fl {
		m[k] = &fstest.MapFile{Data: []byte(v)}
	}
	data, ok := buildRoot(c, root)
	if !ok {
		return "", fmt.Errorf("malformed case: data do not fit root shape %q", root)
	}
	tags, paths := tagPaths(c)
	var opts []vuego.LoadOption
	switch spell {
	case "short":
		manual := vuego.LoadOption(func(v *vuego.Vue) {
			for _, t := range tags {
				v.RegisterComponent(t, paths[t])
			}
		})
		switch c.Reg {
		case "manual":
			opts = append(opts, manual)
		case "both":
			opts = append(opts, vuego.WithComponents(), manual)
		default:
			opts = append(opts, vuego.WithComponents())
		}
	case "proc":
		p := &incProc{paths: paths}
		if c.Proc == "register" {
			opts = append(opts, vuego.LoadOption(func(v *vuego.Vue) { v.RegisterNodeProcessor(p) }))
		} else {
			opts = append(opts, vuego.WithProcessor(p))
		}
	}
	ctx := context.Background()
	var buf bytes.Buffer
	var err error
	switch c.Entry {
	case "vue-render", "vue-fragment", "vue-nodes-loader", "vue-nodes-built":
		vue := vuego.NewVue(m)
		for _, o := range opts {
			o(vue)
		}
		switch c.Entry {
		case "vue-render":
			err = vue.Render(&buf, "page.vuego", data)
		case "vue-fragment":
			err = vue.RenderFragment(&buf, "page.vuego", data)
		case "vue-nodes-loader":
			nodes, lerr := vuego.NewLoader(m).LoadFragment("page.vuego")
			if lerr != nil {
				return "", lerr
			}
			err = vue.RenderNodes(&buf, nodes, data)
		default:
			nodes, berr := builtNodes(fl["page.vuego"])
			if berr != nil {
				return "", berr
			}
			err = vue.RenderNodes(&buf, nodes, data)
		}
		return buf.String(), err
	}
	tpl := vuego.NewFS(m, opts...)
	switch c.Entry {
	case "file":
		err = tpl.New().Fill(data).RenderFile(ctx, &buf, "page.vuego")
	case "string":
		err = tpl.New().Fill(data).RenderString(ctx, &buf, fl["page.vuego"])
	case "byte":
		err = tpl.New().Fill(data).RenderByte(ctx, &buf, []byte(fl["page.vuego"]))
	case "reader":
		err = tpl.New().Fill(data).RenderReader(ctx, &buf, strings.NewReader(fl["page.vuego"]))
	case "view":
		err = vuego.View(tpl, "page.vuego", data).Render(ctx, &buf)
	case "assign":
		t := tpl.Load("page.vuego")
		if dm, isMap := data.(map[string]any); isMap {
			keys := make([]string, 0, len(dm))
			for k := range dm {
				keys = append(keys, k)
			}
			sort.Strings(keys)
			for _, k := range keys {
				t.Assign(k, dm[k])
			}
		} else {
			t.Fill(data)
		}
		err = t.Render(ctx, &buf)
	default:
		err = tpl.Load("page.vuego").Fill(data).Render(ctx, &buf)
	}
	return buf.String(), err
}

// ---------------------------------------------------------------------------------------------
// Model
// ---------------------------------------------------------------------------------------------

// mv is a model value. typed is false for values that came out of YAML front-matter: their JSON
// rendering is asserted, their Go type is not (the statement only fixes the type of bound values).
type mv struct {
	v     any
	typed bool
}

type scope map[string]mv

func (s scope) with() scope {
	o := make(scope, len(s)+4)
	for k, v := range s {
		o[k] = v
	}
	return o
}

// resolve follows a dotted path through map[string]any values.
var (
	intLit   = regexp.MustCompile(`^-?[0-9]+$`)
	floatLit = regexp.MustCompile(`^-?[0-9]+\.[0-9]+$`)
	strLit   = regexp.MustCompile(`^'[^'\\]*'$`)
)

// literalOf: a bound prop may hold a literal instead of a variable path (":prop=\"expression\"").
func literalOf(expr string) (any, bool) {
	switch {
	case expr == "true":
		return true, true
	case expr == "false":
		return false, true
	case expr == "null":
		return nil, true
	case intLit.MatchString(expr):
		n, _ := strconv.Atoi(expr)
		return n, true
	case floatLit.MatchString(expr):
		f, _ := strconv.ParseFloat(expr, 64)
		return f, true
	case strLit.MatchString(expr):
		return expr[1 : len(expr)-1], true
	}
	return nil, false
}

func (s scope) resolve(path string) (mv, bool) {
	if v, isLit := literalOf(path); isLit {
		return mv{v, true}, true
	}
	parts := strings.Split(path, ".")
	cur, ok := s[parts[0]]
	if !ok {
		return mv{}, false
	}
	for _, p := range parts[1:] {
		m, isMap := cur.v.(map[string]any)
		if !isMap {
			return mv{}, false
		}
		v, has := m[p]
		if !has {
			return mv{}, false
		}
		cur = mv{v, cur.typed}
	}
	return cur, true
}

// scalarText is the text of a scalar inside "{{ }}"; ok=false where the rendering is not obvious
// (containers, whole floats), such interpolations make the case unasserted.
func scalarText(v any) (string, bool) {
	switch x := v.(type) {
	case string:
		return x, true
	case int:
		return strconv.Itoa(x), true
	case bool:
		return strconv.FormatBool(x), true
	case float64:
		if x == float64(int64(x)) {
			return "", false
		}
		return strconv.FormatFloat(x, 'f', -1, 64), true
	}
	return "", false
}

// falsy is the region of the open finding kfFalsy.
func falsy(v any) bool {
	switch x := v.(type) {
	case nil:
		return true
	case bool:
		return !x
	case string:
		return x == "" || x == "false"
	case int:
		return x == 0
	case float64:
		return x == 0
	}
	return false
}

type expMarker struct {
	id    string // FILE.POS:NAME
	block string // FILE.POS
	name  string
	undef bool   // not visible: must render exactly like u0 of the same block
	typ   string // "" = not asserted
	json  string
	pre   []preLine // a <pre> marker: one line per printed name
	read  bool      // a Reads expression
	skip  bool      // Reads: value left open (only the marker's position is checked)
	// rich blocks only
	rich    bool
	attr    string // expected :data-a text when attrSet
	attrSet bool   // asserted only for truthy scalars (how falsy values / containers render as attributes is not documented)
	vif     int    // v-if="NAME": 1 rendered, 0 not rendered, -1 not asserted ("false", empty containers)
}

type preLine struct {
	name  string
	undef bool
	json  string
}

// vifOf is the documented truthiness (docs/syntax.md: false, 0, "" and nil are falsey, any other
// value is truthy); the string "false" and empty containers are left open.
func vifOf(v any) int {
	switch x := v.(type) {
	case nil:
		return 0
	case bool:
		if x {
			return 1
		}
		return 0
	case string:
		switch x {
		case "":
			return 0
		case "false":
			return -1
		}
		return 1
	case int:
		if x == 0 {
			return 0
		}
		return 1
	case float64:
		if x == 0 {
			return 0
		}
		return 1
	case []any:
		if len(x) == 0 {
			return -1
		}
		return 1
	case map[string]any:
		if len(x) == 0 {
			return -1
		}
		return 1
	}
	return -1
}

type stats struct {
	instances, maxDepth, maxFan       int
	modes                             map[string]int
	boundKinds                        map[string]int
	collPropIncluder, collPropFM      int
	collFMIncluder, collAll3          int
	sameCompMulti                     bool
	reqProp, reqFM, reqScope, reqMiss int
	reqCSV, reqRepeated, reqBothKeys  bool
	falsyBound, nestedInc             int
	wrap, nowrap, leakWatch, passThru int
	omitted                           int
	jsonDocStatic                     int
	blankProps                        map[string]int // static / interpolated props with leading or trailing white space
	literalBound, dashFM, plainFM     int
	fills                             map[string]int // slot templates on include tags (slot variable name collisions)
	jsonTpl                           map[int]int    // json props by number of mustaches
	readsAsserted, unbalanced         int
	strayBraces, closeBeforeOpen      int
	crlf, fenceBlanks                 int
	jsonDocKept                       map[string]int // interpolated / bound strings that are JSON documents (stay strings)
	nullFM, zeroFM, caseNames         int
	reqNullFM                         int
	places                            map[string]int // placements of include tags (loop, slot content, chain member)
	bracketText                       map[string]int // string props starting with { or [ that are not JSON documents, per mode
}

func newStats() stats {
	return stats{modes: map[string]int{}, boundKinds: map[string]int{}, bracketText: map[string]int{}, places: map[string]int{}, jsonDocKept: map[string]int{}, jsonTpl: map[int]int{}, fills: map[string]int{}, blankProps: map[string]int{}}
}

type result struct {
	exp       []expMarker
	missing   []string // required names provided by nothing (error expected, naming one of them)
	scopeOnly []string // required names satisfied only by the includer's scope (unspecified)
	vague     string   // non-empty: the case leaves the asserted domain; only shorthand == explicit is checked
	st        stats
}

func reqNames(cp Comp) []string {
	var out []string
	for _, r := range cp.Req {
		for _, f := range strings.Split(r.CSV, ",") {
			if f = strings.TrimSpace(f); f != "" {
				out = append(out, f)
			}
		}
	}
	return out
}

func kindOf(v any) string {
	switch v.(type) {
	case string:
		return "string"
	case int:
		return "int"
	case float64:
		return "float"
	case bool:
		return "bool"
	case []any:
		return "list"
	case map[string]any:
		return "map"
	}
	return fmt.Sprintf("%T", v)
}

// dirOK: sub-folders are lower-case words separated by "/".
func dirOK(d string) bool {
	if d == "" {
		return true
	}
	for _, part := range strings.Split(d, "/") {
		if part == "" {
			return false
		}
		for _, r := range part {
			if r < 'a' || r > 'z' {
				return false
			}
		}
	}
	return true
}

// looksJSON: the value begins with { or [ (the trigger of the documented JSON auto-decoding).
func looksJSON(s string) bool { return strings.HasPrefix(s, "{") || strings.HasPrefix(s, "[") }

// jsonDoc decodes s if the whole of s is one JSON document ("[1] Introduction" is not).
func jsonDoc(s string) (any, bool) {
	var out any
	if err := json.Unmarshal([]byte(s), &out); err != nil {
		return nil, false
	}
	return out, true
}

// evals returns the scopes in which the tag incs[j] is evaluated, in order, when the body of its
// file runs in scope sc. vague is non-empty when the placement leaves the asserted domain.
func evals(incs []Inc, j int, sc scope) (out []scope, vague string) {
	p := incs[j].Place
	if p == nil {
		return []scope{sc}, ""
	}
	if !p.valid(incs, j) {
		return nil, "malformed placement"
	}
	truth := func(name string) (bool, bool) {
		v, ok := sc[name]
		if !ok {
			return false, false
		}
		b, isBool := v.v.(bool)
		return b, isBool
	}
	switch p.Kind {
	case "chain":
		taken := false
		// members before this one, back to the start of the chain
		start := j
		for start > 0 && incs[start].Place != nil && incs[start].Place.Kind == "chain" && incs[start].Place.Joined {
			start--
		}
		for k := start; k <= j; k++ {
			q := incs[k].Place
			if k == start && q.Role != "if" {
				b, ok := truth(q.Pre)
				if !ok {
					return nil, "chain condition is not a visible bool"
				}
				taken = b
			}
			chosen := !taken
			if q.Role != "else" {
				b, ok := truth(q.Cond)
				if !ok {
					return nil, "chain condition is not a visible bool"
				}
				chosen = chosen && b
			}
			if k == j {
				if chosen {
					return []scope{sc}, ""
				}
				return nil, ""
			}
			taken = taken || chosen
		}
		return nil, ""
	case "ctx":
		if p.Form != "svg-loop" {
			return []scope{sc}, ""
		}
	case "slot-twice":
		for _, w := range []string{"w1", "w2"} {
			v, ok := sc[w]
			if !ok || v.v == nil {
				return nil, "w1 / w2 missing"
			}
			out = append(out, bindElem(p, sc, v, 0))
		}
		return out, ""
	}
	rv, ok := sc[rowsVar]
	if !ok {
		return nil, "rows missing"
	}
	rows, isList := rv.v.([]any)
	if !isList {
		return nil, "rows is not a list"
	}
	for i, row := range rows {
		if row == nil {
			return nil, "nil element"
		}
		out = append(out, bindElem(p, sc, mv{row, rv.typed}, i))
	}
	return out, ""
}

func bindElem(p *Place, sc scope, el mv, i int) scope {
	e := sc.with()
	switch {
	case p.Kind == "ctx":
		e[loopVar] = el
	case p.Kind == "loop":
		e[p.loopVar()] = el
		if p.Idx != "" {
			e[p.Idx] = mv{i, true}
		}
	case p.Form == "var" || p.Form == "hash":
		e[slotVar] = mv{map[string]any{slotProp: el.v}, el.typed}
	default:
		e[slotProp] = el
	}
	return e
}

var mustacheRe = regexp.MustCompile(`\{\{\s*([^{}|]+?)\s*\}\}`)

// plainText: text that can stand inside a JSON string literal as it is.
func plainText(s string) bool {
	for _, r := range s {
		if !(r == ' ' || r == '.' || r == '-' || r >= '0' && r <= '9' || r >= 'a' && r <= 'z' || r >= 'A' && r <= 'Z') {
			return false
		}
	}
	return true
}

// substMustaches replaces every {{ path }} of text by the text of the scalar found under path.
func substMustaches(text string, sc scope) (out string, why string) {
	out = mustacheRe.ReplaceAllStringFunc(text, func(m string) string {
		path := mustacheRe.FindStringSubmatch(m)[1]
		v, ok := sc.resolve(path)
		if !ok {
			why = "mustache inside a json prop refers to a name that is not visible"
			return ""
		}
		txt, ok := scalarText(v.v)
		if !ok || !plainText(txt) {
			why = "mustache inside a json prop renders something that cannot stand inside a JSON string as it is"
			return ""
		}
		return txt
	})
	if strings.Contains(out, "{{") {
		why = "unsupported mustache inside a json prop"
	}
	return out, why
}

// unbalanced is the region of the finding kfBraces: besides its mustaches the attribute text has
// further "{{" or "}}" (a JSON literal whose nested objects close with "}}").
func unbalanced(text string) bool {
	rest := mustacheRe.ReplaceAllString(text, "")
	return mustacheRe.MatchString(text) && (strings.Contains(rest, "}}") || strings.Contains(rest, "{{"))
}

// avoidBraces rewrites every json prop of the case out of the region of kfBraces (a blank between
// the closing braces keeps the same JSON document) and returns the number of rewrites.
func avoidBraces(c *Case) int {
	n := 0
	fix := func(incs []Inc) {
		for i := range incs {
			for j := range incs[i].Props {
				p := &incs[i].Props[j]
				if p.Mode != "json" || !unbalanced(p.Text) {
					continue
				}
				var ms []string
				t := mustacheRe.ReplaceAllStringFunc(p.Text, func(m string) string { ms = append(ms, m); return "\x00" })
				for strings.Contains(t, "}}") {
					t = strings.ReplaceAll(t, "}}", "} }")
				}
				for strings.Contains(t, "{{") {
					t = strings.ReplaceAll(t, "{{", "{ {")
				}
				for _, m := range ms {
					t = strings.Replace(t, "\x00", m, 1)
				}
				p.Text = t
				n++
			}
		}
	}
	fix(c.Page)
	for i := range c.Comps {
		fix(c.Comps[i].Incs)
	}
	return n
}

// avoidLiterals rewrites every bound prop that holds a literal to a variable path (region of
// the finding kfLiteral) and returns the number of rewrites.
func avoidLiterals(c *Case) int {
	n := 0
	fix := func(incs []Inc) {
		for i := range incs {
			for j := range incs[i].Props {
				p := &incs[i].Props[j]
				if p.Mode != "bind" && p.Mode != "vbind" {
					continue
				}
				if _, isLit := literalOf(p.Path); isLit {
					p.Path = "d0"
					n++
				}
			}
		}
	}
	fix(c.Page)
	for i := range c.Comps {
		fix(c.Comps[i].Incs)
	}
	return n
}

// readExpr evaluates a Reads expression in sc; ok=false where the result is left open.
func readExpr(expr string, sc scope) (val any, typed, ok bool) {
	base, isLen := strings.CutSuffix(expr, "|len")
	name := base
	if i := strings.IndexAny(base, ".["); i >= 0 {
		name = base[:i]
	}
	cur, has := sc[name]
	if !has || cur.v == nil {
		return nil, false, false
	}
	v := cur.v
	rest := base[len(name):]
	for rest != "" {
		switch {
		case rest[0] == '.':
			end := strings.IndexAny(rest[1:], ".[")
			if end < 0 {
				end = len(rest) - 1
			}
			key := rest[1 : 1+end]
			rest = rest[1+end:]
			m, isMap := v.(map[string]any)
			if !isMap {
				return nil, false, false
			}
			if v, has = m[key]; !has || v == nil {
				return nil, false, false
			}
		case rest[0] == '[':
			end := strings.IndexByte(rest, ']')
			if end < 0 {
				return nil, false, false
			}
			idx, err := strconv.Atoi(rest[1:end])
			rest = rest[end+1:]
			l, isList := v.([]any)
			if err != nil || !isList || idx < 0 || idx >= len(l) || l[idx] == nil {
				return nil, false, false
			}
			v = l[idx]
		default:
			return nil, false, false
		}
	}
	if !isLen {
		return v, cur.typed, true
	}
	switch x := v.(type) {
	case []any:
		return len(x), true, true
	case map[string]any:
		return len(x), true, true
	case string:
		if plainText(x) {
			return len(x), true, true
		}
	}
	return nil, false, false
}

// evalProps evaluates an include's attributes in the includer scope.
func evalProps(props []Prop, sc scope, r *result) map[string]mv {
	out := map[string]mv{}
	for _, p := range props {
		if _, dup := out[p.Name]; dup {
			r.vague = "the same prop is given twice on one include"
		}
		switch p.Mode {
		case "static":
			if p.Text != strings.TrimSpace(p.Text) {
				// props arrive as written, blanks included; left open: blanks around a JSON literal
				r.st.blankProps["static"]++
				if looksJSON(strings.TrimSpace(p.Text)) {
					r.vague = "static prop value with blanks around text that starts with { or ["
				}
			}
			if looksJSON(p.Text) {
				// documented mechanism (docs: `data="{...}"` or `[...]`): a static value that IS a
				// JSON document arrives decoded; one that merely starts with { or [ stays text
				if dec, isDoc := jsonDoc(p.Text); isDoc {
					r.st.jsonDocStatic++
					out[p.Name] = mv{dec, true}
					break
				}
				r.st.bracketText["static"]++
			}
			out[p.Name] = mv{p.Text, true}
		case "json":
			// a JSON object / array written in the template (text starting with { or [, not with
			// {{) is decoded after its mustaches have been interpolated
			full, why := substMustaches(p.Text, sc)
			dec, isDoc := jsonDoc(full)
			switch {
			case why != "":
				r.vague = why
			case !looksJSON(p.Text) || strings.HasPrefix(p.Text, "{{") || p.Text != strings.TrimSpace(p.Text):
				r.vague = "json prop whose text does not start with a literal { or ["
			case !isDoc:
				r.vague = "json prop that is not a JSON document after interpolation"
			default:
				r.st.jsonTpl[len(mustacheRe.FindAllString(p.Text, -1))]++
				if unbalanced(p.Text) {
					r.st.unbalanced++
				}
				if i, j := strings.Index(p.Text, "}}"), strings.Index(p.Text, "{{"); i >= 0 && j > i {
					r.st.closeBeforeOpen++
				}
				out[p.Name] = mv{dec, true}
			}
		case "interp":
			v, ok := sc.resolve(p.Path)
			if !ok {
				r.vague = "interpolated prop refers to a name that is not visible"
				continue
			}
			s, ok := scalarText(v.v)
			if !ok {
				r.vague = "interpolated prop renders a container or a whole float"
				continue
			}
			full := p.Text + s + p.Post
			if full != strings.TrimSpace(full) {
				r.st.blankProps["interp"]++
				if looksJSON(strings.TrimSpace(full)) {
					r.vague = "interpolated prop value with blanks around text that starts with { or ["
				}
			}
			if strings.HasSuffix(p.Text, "{") {
				r.vague = "literal { directly before {{ (ambiguous template syntax)"
			}
			if looksJSON(full) {
				// only JSON written literally in the template is decoded: a value that arrives
				// through "{{ v }}" stays the string it is. Left open: literal text that starts
				// with { or [ and becomes a JSON document only through the interpolated part.
				if _, isDoc := jsonDoc(full); isDoc {
					if looksJSON(p.Text) {
						r.vague = "literal { or [ completed to a JSON document by an interpolation (not asserted)"
					}
					r.st.jsonDocKept["interp"]++
				} else {
					r.st.bracketText["interp"]++
				}
			}
			if strings.Contains(p.Text, "}}") || strings.Contains(p.Post, "{{") || strings.Contains(p.Post, "}}") {
				r.st.strayBraces++
			}
			out[p.Name] = mv{full, true}
		case "bind", "vbind":
			v, ok := sc.resolve(p.Path)
			if !ok {
				r.vague = "bound prop refers to a name that is not visible"
				continue
			}
			if falsy(v.v) {
				r.st.falsyBound++
			}
			if _, isLit := literalOf(p.Path); isLit {
				r.st.literalBound++
			}
			if v.v == nil {
				r.vague = "bound prop whose value is null (not asserted)"
			}
			if str, isStr := v.v.(string); isStr && looksJSON(str) {
				// a bound value keeps its type: a string stays a string even if it is a JSON document
				if _, isDoc := jsonDoc(str); isDoc {
					r.st.jsonDocKept["bound"]++
				} else {
					r.st.bracketText["bound"]++
				}
			}
			r.st.boundKinds[kindOf(v.v)]++
			if p.Path == p.Name {
				r.st.passThru++
			}
			out[p.Name] = v
		default:
			r.vague = "unknown prop mode " + p.Mode
		}
		r.st.modes[p.Mode]++
	}
	return out
}

func model(c Case) result {
	r := result{st: newStats()}
	root := scope{}
	for k, v := range c.Data {
		root[k] = mv{v.Go(), true}
	}
	names := c.printed()
	emit := func(blk string, sc scope) {
		for _, n := range names {
			e := expMarker{id: blk + ":" + n, block: blk, name: n, rich: richBlock(blk), vif: -1}
			if v, ok := sc[n]; ok && v.v != nil {
				e.json = jsonOf(v.v)
				if v.typed {
					e.typ = fmt.Sprintf("%T", v.v)
				}
				e.vif = vifOf(v.v)
				if txt, isScalar := scalarText(v.v); isScalar && e.vif == 1 {
					if _, isBool := v.v.(bool); !isBool && txt == strings.TrimSpace(txt) {
						e.attr, e.attrSet = txt, true
					}
				}
			} else {
				// not visible, or null (front-matter `key:` / `key: ~` / `key: null` overriding a
				// prop or an includer variable): reads like a name that was never defined
				e.undef = true
			}
			r.exp = append(r.exp, e)
		}
		if preBlock(blk) {
			e := expMarker{id: blk + ":~pre", block: blk, name: "~pre", vif: -1}
			for _, n := range names {
				l := preLine{name: n}
				if v, ok := sc[n]; ok && v.v != nil {
					l.json = jsonOf(v.v)
				} else {
					l.undef = true
				}
				e.pre = append(e.pre, l)
			}
			r.exp = append(r.exp, e)
		}
		if richBlock(blk) {
			for _, ex := range c.Reads {
				e := expMarker{id: blk + ":=" + ex, block: blk, name: ex, read: true, vif: -1}
				v, typed, ok := readExpr(ex, sc)
				switch {
				case !ok:
					e.skip = true
				case strings.HasSuffix(ex, "|len"):
					e.json = strconv.Itoa(v.(int))
					r.st.readsAsserted++
				default:
					e.json = jsonOf(v)
					if typed {
						e.typ = fmt.Sprintf("%T", v)
					}
					r.st.readsAsserted++
				}
				r.exp = append(r.exp, e)
			}
		}
	}
	seenInc := map[int][]string{}
	var walk func(id string, incs []Inc, sc scope, depth int, slot string)
	walk = func(id string, incs []Inc, sc scope, depth int, slot string) {
		if depth > r.st.maxDepth {
			r.st.maxDepth = depth
		}
		if len(incs) > r.st.maxFan {
			r.st.maxFan = len(incs)
		}
		if depth > 8 {
			r.vague = "include chain deeper than 8"
			return
		}
		emit(id+".in", sc)
		if slotText(slot) != "" {
			// the component's <slot> binds nothing; whatever the includer's slot template
			// declares belongs to the supplied content: the component reads on as before
			emit(id+".s", sc)
		}
		prevBig := false
		for j, inc := range incs {
			if inc.Comp < 0 || inc.Comp >= len(c.Comps) {
				r.vague = "include of an unknown component"
				continue
			}
			cp := c.Comps[inc.Comp]
			r.st.instances++
			if depth >= 1 {
				r.st.nestedInc++
			}
			if cp.Dir != "" {
				r.st.places["component-in-subfolder"]++
				if strings.Contains(cp.Dir, "/") {
					r.st.places["component-in-nested-subfolder"]++
				}
			}
			for _, fv := range cp.FM {
				if strings.Contains(jsonOf(fv.Go()), "---") {
					r.st.dashFM++
				}
				if cp.FMStyle == "plain" && plainYAML(fv.Go()) != "" {
					r.st.plainFM++
				}
			}
			if cp.EOL == "crlf" && len(cp.FM) > 0 {
				r.st.crlf++
			}
			if cp.Fence != "" && len(cp.FM) > 0 {
				r.st.fenceBlanks++
			}
			if cp.Wrap || len(cp.Req) > 0 {
				r.st.wrap++
			} else {
				r.st.nowrap++
			}
			scs, vg := evals(incs, j, sc)
			if vg != "" {
				r.vague = vg
			}
			if pl := inc.Place; pl != nil {
				r.st.places[pl.Kind]++
				if pl.Form != "" {
					r.st.places[pl.Kind+"/"+pl.Form]++
				}
				if pl.Kind == "chain" {
					r.st.places[fmt.Sprintf("chain/%s/chosen=%v", pl.Role, len(scs) > 0)]++
					if pl.Joined {
						r.st.places["chain/joined"]++
					}
				}
				if pl.Kind == "loop" && contains(c.Names, pl.loopVar()) {
					r.st.places["loop/var-is-a-name"]++
				}
				if pl.Idx != "" {
					r.st.places["loop/index"]++
				}
				for _, pr := range inc.Props {
					if ep := pl.elemPath(); ep != "" && pr.Path == ep && pr.Mode != "static" {
						r.st.places["prop-from-element/"+pr.Mode]++
						if pl.Kind == "loop" && pr.Name == pl.loopVar() {
							r.st.places["loop/prop-named-like-loop-var"]++
						}
					}
					if pl.Idx != "" && pr.Path == pl.Idx && pr.Mode != "static" {
						r.st.places["loop/prop-from-index"]++
					}
				}
				if len(cp.FM)+len(inc.Props) > 8 {
					r.st.places["placed-big"]++
				}
				if prevBig && pl.Kind != "chain" {
					r.st.places["after-big-component"]++
				}
			}
			prevBig = len(cp.FM)+len(inc.Props) > 8
			if prevBig {
				r.st.places["big-component(>8 bindings)"]++
			}
			for _, e := range scs {
				if inc.Place != nil && inc.Place.Kind == "loop" {
					emit(fmt.Sprintf("%s.l%d", id, j), e)
				}
				props := evalProps(inc.Props, e, &r)
				seenInc[inc.Comp] = append(seenInc[inc.Comp], jsonOf(inc.Props))
				for _, f := range inc.Fill {
					used := (f.Named && (cp.Slot == "named" || cp.Slot == "both")) || (!f.Named && (cp.Slot == "default" || cp.Slot == "both"))
					if !used {
						continue
					}
					r.st.fills["used"]++
					for _, fv := range f.Vars {
						_, inP := props[fv]
						_, inF := cp.FM[fv]
						_, inS := e[fv]
						if inP {
							r.st.fills["var-named-like-prop"]++
						}
						if inF {
							r.st.fills["var-named-like-frontmatter"]++
						}
						if inS {
							r.st.fills["var-named-like-includer-variable"]++
						}
						if f.Destructure {
							r.st.fills["destructured"]++
						} else {
							r.st.fills["named-variable"]++
						}
					}
				}
				child := e.with()
				for k, v := range props {
					child[k] = v
				}
				for k, v := range cp.FM {
					child[k] = mv{v.Go(), false}
				}
				for _, n := range c.Names {
					_, inP := props[n]
					_, inF := cp.FM[n]
					_, inS := e[n]
					switch {
					case inP && inF && inS:
						r.st.collAll3++
					case inP && inF:
						r.st.collPropFM++
					case inP && inS:
						r.st.collPropIncluder++
					case inF && inS:
						r.st.collFMIncluder++
					}
					if !inP {
						r.st.omitted++
					}
					if (inP || inF) && !inS {
						r.st.leakWatch++ // a binding the following block must not see
					}
				}
				for k, v := range cp.FM {
					if contains(c.Names, k) {
						switch g := v.Go(); {
						case g == nil:
							r.st.nullFM++
						case vifOf(g) != 1:
							r.st.zeroFM++
						}
					}
				}
				for _, n := range reqNames(cp) {
					_, inP := props[n]
					fv, inF := cp.FM[n]
					_, inS := e[n]
					if n != strings.ToLower(n) {
						r.st.caseNames++
					}
					switch {
					case inP:
						r.st.reqProp++
					case inF && fv.Go() == nil:
						// declared with a null value: whether that provides the name is left open
						r.st.reqNullFM++
						r.scopeOnly = append(r.scopeOnly, n)
					case inF:
						r.st.reqFM++
					case inS:
						r.st.reqScope++
						r.scopeOnly = append(r.scopeOnly, n)
					default:
						r.st.reqMiss++
						r.missing = append(r.missing, n)
					}
				}
				if len(cp.Req) == 1 && strings.Contains(cp.Req[0].CSV, ",") {
					r.st.reqCSV = true
				}
				if len(cp.Req) > 1 {
					r.st.reqRepeated = true
					for _, q := range cp.Req[1:] {
						if q.Key != cp.Req[0].Key {
							r.st.reqBothKeys = true
						}
					}
				}
				walk(fmt.Sprintf("C%d", inc.Comp), cp.Incs, child, depth+1, cp.Slot)
			}
			if !nextJoined(incs, j) {
				emit(fmt.Sprintf("%s.a%d", id, j), sc)
			}
		}
	}
	walk("P", c.Page, root, 0, "")
	for _, l := range seenInc {
		for i := 1; i < len(l); i++ {
			if l[i] != l[0] {
				r.st.sameCompMulti = true
			}
		}
	}
	if _, fits := buildRoot(c, c.Root); !fits {
		r.vague = "page data do not fit the root shape"
	}
	for _, cp := range c.Comps {
		if cp.Name == "" || strings.ContainsAny(cp.Name, "/. -") || !dirOK(cp.Dir) {
			r.vague = "component name outside the documented PascalCase scheme"
		}
	}
	return r
}

// ---------------------------------------------------------------------------------------------
// Check
// ---------------------------------------------------------------------------------------------

func namesIn(text string, names []string) bool {
	for _, n := range names {
		if strings.Contains(text, n) {
			return true
		}
	}
	return false
}

// judge compares one rendering with the model.
func judge(what string, out string, err error, m result) error {
	switch {
	case len(m.missing) > 0:
		if err == nil {
			return fmt.Errorf("%s: required name(s) %v are in none of {props, front-matter, includer scope} but the render succeeded", what, m.missing)
		}
		// the first failing include decides which name is reported; a name that only the
		// includer's scope has may legitimately be the one (unspecified whether it satisfies)
		if !namesIn(err.Error(), m.missing) && !namesIn(err.Error(), m.scopeOnly) {
			return fmt.Errorf("%s: the error does not name a missing required name %v: %q", what, m.missing, err.Error())
		}
		return nil
	case len(m.scopeOnly) > 0:
		// unspecified: a required name that only the includer's scope provides
		if err != nil {
			if !namesIn(err.Error(), m.scopeOnly) {
				return fmt.Errorf("%s: render failed although every required name is provided (only %v depend on the includer's scope): %q", what, m.scopeOnly, err.Error())
			}
			return nil
		}
	default:
		if err != nil {
			return fmt.Errorf("%s: every required name is provided by props or front-matter, yet the render failed: %q", what, err.Error())
		}
	}
	forest, perr := hx.Frag(out, hx.Collapse)
	if perr != nil {
		return fmt.Errorf("%s: output does not parse: %v", what, perr)
	}
	got := hx.Markers(forest)
	// reference rendering of "not visible" per block
	ref := map[string]hx.Marker{}
	for _, g := range got {
		if strings.HasSuffix(g.ID, ":"+undefName) {
			ref[strings.TrimSuffix(g.ID, ":"+undefName)] = g
		}
	}
	for i := 0; i < len(got) || i < len(m.exp); i++ {
		if i >= len(got) {
			return fmt.Errorf("%s: output ends before marker #%d %s (have %d of %d markers)", what, i, m.exp[i].id, len(got), len(m.exp))
		}
		if i >= len(m.exp) {
			return fmt.Errorf("%s: unexpected extra marker #%d %s", what, i, got[i].ID)
		}
		g, e := got[i], m.exp[i]
		if g.ID != e.id {
			return fmt.Errorf("%s: marker #%d is %s, want %s (include tree rendered differently)", what, i, g.ID, e.id)
		}
		if e.skip {
			continue
		}
		if e.pre != nil {
			lines := strings.Split(g.Text, "\n")
			if len(lines) != len(e.pre) {
				return fmt.Errorf("%s: %s: <pre> holds %d lines, want %d: %q", what, e.id, len(lines), len(e.pre), g.Text)
			}
			uLine := ""
			for k, l := range e.pre {
				if l.name == undefName {
					uLine = lines[k]
				}
			}
			for k, l := range e.pre {
				switch {
				case l.name == undefName:
				case l.undef && lines[k] != uLine:
					return fmt.Errorf("%s: %s: name %q must not be visible here / is null here, but inside <pre> it prints %q (never-defined name: %q)", what, e.id, l.name, lines[k], uLine)
				case !l.undef && lines[k] != l.json:
					return fmt.Errorf("%s: %s: inside <pre> %s prints %q, want exactly %q", what, e.id, l.name, lines[k], l.json)
				}
			}
			continue
		}
		if e.undef {
			if e.name == undefName {
				continue
			}
			u := ref[e.block]
			if g.Text != u.Text || g.Attrs["data-t"] != u.Attrs["data-t"] {
				return fmt.Errorf("%s: %s: name %q must not be visible here / is null here (never-defined name prints %s type %q) but it prints %s type %q", what, e.id, e.name, u.Text, u.Attrs["data-t"], g.Text, g.Attrs["data-t"])
			}
			if e.rich && g.Attrs["data-j"] != u.Attrs["data-j"] {
				return fmt.Errorf("%s: %s: name %q must not be visible here / is null here, but data-j prints %q (never-defined name: %q)", what, e.id, e.name, g.Attrs["data-j"], u.Attrs["data-j"])
			}
			if e.rich {
				ga, gHas := g.Attrs["data-a"]
				ua, uHas := u.Attrs["data-a"]
				if gHas != uHas || ga != ua {
					return fmt.Errorf("%s: %s: name %q must not be visible here / is null here, but :data-a=%q renders %q (present=%v); a never-defined name renders %q (present=%v)", what, e.id, e.name, e.name, ga, gHas, ua, uHas)
				}
				if hasKid(g.Node, "u") != hasKid(u.Node, "u") {
					return fmt.Errorf("%s: %s: name %q must not be visible here / is null here, but v-if=%q rendered=%v unlike a never-defined name", what, e.id, e.name, e.name, hasKid(g.Node, "u"))
				}
			}
			continue
		}
		if e.rich && !e.read && g.Attrs["data-j"] != e.json {
			// attribute values are compared exactly: white space of a prop arrives as written
			return fmt.Errorf("%s: %s: data-j=\"{{ %s | json }}\" prints %q, want exactly %q", what, e.id, e.name, g.Attrs["data-j"], e.json)
		}
		if e.rich {
			if e.attrSet {
				if ga, has := g.Attrs["data-a"]; !has || ga != e.attr {
					return fmt.Errorf("%s: %s: :data-a=%q renders %q (present=%v), want %q - {{ %s | json }} prints %s, want %s", what, e.id, e.name, ga, has, e.attr, e.name, g.Text, e.json)
				}
			}
			if e.vif >= 0 && hasKid(g.Node, "u") != (e.vif == 1) {
				return fmt.Errorf("%s: %s: v-if=%q rendered=%v, want %v (value %s) - {{ %s | json }} prints %s", what, e.id, e.name, hasKid(g.Node, "u"), e.vif == 1, e.json, e.name, g.Text)
			}
		}
		// hx collapses runs of whitespace inside text; the printed JSON may contain such runs
		if g.Text != strings.Join(strings.Fields(e.json), " ") {
			return fmt.Errorf("%s: %s: %s prints %s (type %q), want %s (type %q)", what, e.id, e.name, g.Text, g.Attrs["data-t"], e.json, e.typ)
		}
		if e.typ != "" && g.Attrs["data-t"] != e.typ {
			return fmt.Errorf("%s: %s: %s has type %q, want %q (value %s)", what, e.id, e.name, g.Attrs["data-t"], e.typ, e.json)
		}
	}
	return nil
}

// upperASCII: HTML folds the case of ASCII letters only.
func upperASCII(s string) string {
	return strings.Map(func(r rune) rune {
		if r >= 'a' && r <= 'z' {
			return r - 32
		}
		return r
	}, s)
}

func isASCII(s string) bool {
	for _, r := range s {
		if r > 127 {
			return false
		}
	}
	return true
}

func hasRootAttrs(c Case) bool {
	for _, cp := range c.Comps {
		if len(cp.RootAttrs) > 0 {
			return true
		}
	}
	return false
}

// rootSpelling returns the case with every bound root-template attribute spelled mode.
func rootSpelling(c Case, mode string) Case {
	out := c
	out.Comps = append([]Comp(nil), c.Comps...)
	for i := range out.Comps {
		ra := append([]Prop(nil), out.Comps[i].RootAttrs...)
		for j := range ra {
			if ra[j].Mode == "bind" || ra[j].Mode == "vbind" {
				ra[j].Mode = mode
			}
		}
		out.Comps[i].RootAttrs = ra
	}
	return out
}

func hasKid(n *hx.N, tag string) bool {
	if n == nil {
		return false
	}
	for _, k := range n.Kids {
		if k.Tag == tag {
			return true
		}
	}
	return false
}

func describe(c Case) string {
	f := files(c, false)
	keys := make([]string, 0, len(f))
	for k := range f {
		keys = append(keys, k)
	}
	sort.Strings(keys)
	var b strings.Builder
	for _, k := range keys {
		s := f[k]
		// drop the print blocks' noise: keep include lines, front-matter and template tags
		var keep []string
		for _, line := range strings.Split(s, "\n") {
			if strings.HasPrefix(line, "<i data-m=") || strings.HasPrefix(line, "<pre data-m=") || strings.HasPrefix(line, "{{ ") || line == "" {
				continue
			}
			keep = append(keep, line)
		}
		fmt.Fprintf(&b, "\n  %s: %s", k, strings.Join(keep, " ⏎ "))
	}
	d := map[string]string{}
	for k, v := range c.Data {
		d[k] = jsonOf(v.Go())
	}
	fmt.Fprintf(&b, "\n  data: %v", d)
	s := b.String()
	if len(s) > 2500 {
		s = s[:2500] + "…"
	}
	return s
}

func check(c Case) error {
	if len(c.Page) == 0 {
		return nil
	}
	m := model(c)
	outE, errE := render(c, false)
	outS, errS := render(c, true)
	wrap := func(e error) error { return fmt.Errorf("%w%s", e, describe(c)) }
	if m.vague == "" {
		if e := judge("<template include>", outE, errE, m); e != nil {
			return wrap(e)
		}
	}
	// A registered shorthand tag behaves exactly like the equivalent <template include>.
	if (errE == nil) != (errS == nil) {
		return wrap(fmt.Errorf("shorthand tags and <template include> disagree: include error=%v, shorthand error=%v", errE, errS))
	}
	if errE == nil {
		a, e1 := hx.Frag(outE, hx.Collapse)
		b, e2 := hx.Frag(outS, hx.Collapse)
		if e1 != nil || e2 != nil {
			return wrap(fmt.Errorf("output does not parse: %v %v", e1, e2))
		}
		if d := hx.Diff(a, b, hx.Options{}); d != "" {
			return wrap(fmt.Errorf("shorthand tags render differently from <template include> (left=include, right=shorthand): %s", d))
		}
	}
	if m.vague == "" {
		if e := judge("shorthand tag", outS, errS, m); e != nil {
			return wrap(e)
		}
	}
	// :name and v-bind:name are the same attribute: also on a component's root <template>.
	if hasRootAttrs(c) {
		o1, e1 := renderX(rootSpelling(c, "bind"), "", c.Root)
		o2, e2 := renderX(rootSpelling(c, "vbind"), "", c.Root)
		if (e1 == nil) != (e2 == nil) {
			return wrap(fmt.Errorf("root <template> attributes spelled :name and v-bind:name disagree: :name error=%v, v-bind:name error=%v", e1, e2))
		}
		if e1 == nil {
			a, p1 := hx.Frag(o1, hx.Collapse)
			b, p2 := hx.Frag(o2, hx.Collapse)
			if p1 != nil || p2 != nil {
				return wrap(fmt.Errorf("output does not parse: %v %v", p1, p2))
			}
			if d := hx.Diff(a, b, hx.Options{}); d != "" {
				return wrap(fmt.Errorf("a component whose root <template> sets variables with :name=\"path\" renders differently when the same attributes are spelled v-bind:name=\"path\" (left = :name, right = v-bind:name): %s", d))
			}
		}
	}
	// Includes produced by a pre-processing NodeProcessor (custom tags rewritten in place into
	// <template include>) are includes like any other.
	if c.Proc != "" {
		outP, errP := renderX(c, "proc", c.Root)
		if (errE == nil) != (errP == nil) {
			return wrap(fmt.Errorf("custom tags rewritten by a NodeProcessor (%s) and <template include> disagree: include error=%v, processor error=%v", c.Proc, errE, errP))
		}
		if errE == nil {
			a, e1 := hx.Frag(outE, hx.Collapse)
			b, e2 := hx.Frag(outP, hx.Collapse)
			if e1 != nil || e2 != nil {
				return wrap(fmt.Errorf("output does not parse: %v %v", e1, e2))
			}
			if d := hx.Diff(a, b, hx.Options{}); d != "" {
				return wrap(fmt.Errorf("custom tags rewritten into <template include> by a NodeProcessor (%s) render differently from <template include> written out (left=include, right=processor): %s", c.Proc, d))
			}
		}
		if m.vague == "" {
			if e := judge("include produced by a NodeProcessor ("+c.Proc+")", outP, errP, m); e != nil {
				return wrap(e)
			}
		}
	}
	// What a failed (or cut short) render leaves behind must not show in the next one.
	if m.vague == "" {
		if outA, errA, ran, _ := afterFailure(c); ran {
			if e := judge("<template include> rendered right after a failing render of a stale twin ("+c.After+")", outA, errA, m); e != nil {
				return wrap(e)
			}
		}
	}
	// The shape in which the caller hands over the page data makes no difference: the includer's
	// variables are visible to components - and count for :required - exactly as they do when the
	// same data come as a map[string]any (whichever way a name that only the includer has counts).
	if c.Root != "" {
		outR, errR := renderAs(c, false, "")
		if (errE == nil) != (errR == nil) {
			return wrap(fmt.Errorf("root data as %s and as map[string]any disagree (entry %q): %s error=%v, map[string]any error=%v", c.Root, c.Entry, c.Root, errE, errR))
		}
		if errE == nil {
			a, e1 := hx.Frag(outE, hx.Collapse)
			b, e2 := hx.Frag(outR, hx.Collapse)
			if e1 != nil || e2 != nil {
				return wrap(fmt.Errorf("output does not parse: %v %v", e1, e2))
			}
			if d := hx.Diff(a, b, hx.Options{}); d != "" {
				return wrap(fmt.Errorf("root data as %s renders differently from the same data as map[string]any (left=%s, right=map): %s", c.Root, c.Root, d))
			}
		}
	}
	return nil
}

// ---------------------------------------------------------------------------------------------
// After-failure dimension
// ---------------------------------------------------------------------------------------------

var afterKinds = []string{"fresh", "engine", "object-fill", "object-assign", "writer", "load"}

// staleVal: the same shape, every leaf recognisably different.
func staleVal(v any) any {
	switch x := v.(type) {
	case string:
		return x + "-STALE"
	case int:
		return x + 1000
	case float64:
		return x + 1000
	case bool:
		return !x
	case []any:
		out := []any{"STALE"}
		for _, e := range x {
			out = append(out, staleVal(e))
		}
		return out
	case []string:
		out := []string{"STALE"}
		for _, e := range x {
			out = append(out, e+"-STALE")
		}
		return out
	case map[string]any:
		out := map[string]any{"stale": "STALE"}
		for k, e := range x {
			out[k] = staleVal(e)
		}
		return out
	}
	return v
}

// failTail is appended to the page of the failing twin: includes of a component file that does
// not exist, carrying the case's prop names with stale values, inside a v-for when there is
// something to loop over.
func failTail(c Case) string {
	var attrs []string
	for _, n := range c.Names {
		if propName(n) {
			attrs = append(attrs, fmt.Sprintf(`%s="STALE-%s"`, n, n))
		}
	}
	attrs = append(attrs, `:zq9="d0"`, `level="7"`)
	tag := `<template include="components/GoneZ.vuego" ` + strings.Join(attrs, " ") + `></template>` + "\n"
	isList := false
	if rv, has := c.Data[rowsVar]; has {
		_, isList = rv.Go().([]any)
	}
	if isList {
		return `<div v-for="` + loopVar + ` in ` + rowsVar + `">` + "\n<b>{{ " + loopVar + " }}</b>\n" + tag + "</div>\n"
	}
	return tag
}

const guardTail = `<template include="components/GuardZ.vuego" :okz="okz"></template>` + "\n"
const guardFile = `<template :required="okz"></template>` + "\n"

// afterFailure runs the failing twin and then the case; it returns the output and error of the
// case's (second) render, ran=false when the dimension does not apply or the twin did not fail.
func afterFailure(c Case) (out string, err error, ran bool, note string) {
	if c.After == "" || c.Root != "" {
		return "", nil, false, ""
	}
	fsys := fstest.MapFS{}
	fl := files(c, false)
	for k, v := range fl {
		fsys[k] = &fstest.MapFile{Data: []byte(v)}
	}
	page := strings.TrimSuffix(strings.ReplaceAll(fl["page.vuego"], "\r\n", "\n"), "</div>\n")
	fsys["fail.vuego"] = &fstest.MapFile{Data: []byte(page + failTail(c) + "</div>\n")}
	fsys["pagez.vuego"] = &fstest.MapFile{Data: []byte(page + guardTail + "</div>\n")}
	fsys["components/GuardZ.vuego"] = &fstest.MapFile{Data: []byte(guardFile)}
	data, stale := map[string]any{}, map[string]any{}
	for k, v := range c.Data {
		data[k] = v.Go()
		stale[k] = staleVal(v.Go())
	}
	for _, n := range c.Names { // the stale twin binds every name of the case
		if _, has := stale[n]; !has {
			stale[n] = "STALE-" + n
		}
	}
	ctx := context.Background()
	var sink, buf bytes.Buffer
	switch c.After {
	case "fresh":
		if e := vuego.NewFS(fsys).Load("fail.vuego").Fill(stale).Render(ctx, &sink); e == nil {
			return "", nil, false, "the failing twin did not fail"
		}
		o, e := render(c, false)
		return o, e, true, ""
	case "engine":
		tpl := vuego.NewFS(fsys)
		if e := tpl.Load("fail.vuego").Fill(stale).Render(ctx, &sink); e == nil {
			return "", nil, false, "the failing twin did not fail"
		}
		e := tpl.Load("page.vuego").Fill(data).Render(ctx, &buf)
		return buf.String(), e, true, ""
	case "object-fill", "object-assign":
		tpl := vuego.NewFS(fsys)
		t := tpl.Load("pagez.vuego")
		first := data
		if c.After == "object-fill" {
			first = stale
		}
		if e := t.Fill(first).Render(ctx, &sink); e == nil {
			return "", nil, false, "the failing twin did not fail"
		}
		if c.After == "object-fill" {
			withOK := map[string]any{"okz": 1}
			for k, v := range data {
				withOK[k] = v
			}
			t.Fill(withOK)
		} else {
			t.Assign("okz", 1)
		}
		e := t.Render(ctx, &buf)
		return buf.String(), e, true, ""
	case "writer":
		tpl := vuego.NewFS(fsys)
		w := &fw.FailAt{K: 40 + len(c.Names)}
		_ = tpl.Load("page.vuego").Fill(stale).Render(ctx, w)
		e := tpl.Load("page.vuego").Fill(data).Render(ctx, &buf)
		return buf.String(), e, true, ""
	case "load":
		tpl := vuego.NewFS(fsys)
		bad := tpl.Load("components/GoneZ.vuego")
		for _, n := range c.Names {
			bad.Assign(n, "STALE-"+n)
		}
		if e := bad.Render(ctx, &sink); e == nil {
			return "", nil, false, "Render of a missing file did not fail"
		}
		e := tpl.Load("page.vuego").Fill(data).Render(ctx, &buf)
		return buf.String(), e, true, ""
	}
	return "", nil, false, "unknown after kind"
}

func classify(c Case) (bool, []string) {
	m := model(c)
	s := m.st
	var cls []string
	add := func(cond bool, name string) {
		if cond {
			cls = append(cls, name)
		}
	}
	add(true, fmt.Sprintf("depth=%d", s.maxDepth))
	add(true, fmt.Sprintf("fanout-max=%d", s.maxFan))
	add(s.instances >= 6, "instances>=6")
	add(s.sameCompMulti, "same-component-different-props")
	for _, md := range []string{"static", "interp", "bind", "vbind"} {
		add(s.modes[md] > 0, "prop-"+md)
	}
	add(s.omitted > 0, "prop-omitted")
	for k, n := range s.boundKinds {
		add(n > 0, "bound-"+k)
	}
	add(s.passThru > 0, "bound-pass-through")
	for _, md := range []string{"static", "interp", "bound"} {
		add(s.bracketText[md] > 0, "bracket-text-not-json-"+md)
	}
	add(s.jsonDocStatic > 0, "static-json-document")
	for _, md := range []string{"interp", "bound"} {
		add(s.jsonDocKept[md] > 0, "json-document-string-kept-"+md)
	}
	for k, n := range s.jsonTpl {
		add(n > 0, fmt.Sprintf("json-literal-prop-with-%d-mustaches", k))
	}
	for k, n := range s.fills {
		add(n > 0, "slot-fill:"+k)
	}
	for k, n := range s.blankProps {
		add(n > 0, "prop-with-surrounding-blanks-"+k)
	}
	add(s.literalBound > 0, "bound-literal")
	add(s.readsAsserted > 0, "path/len-read-asserted")
	add(s.unbalanced > 0, "json-literal-with-mustaches-and-closing-}}")
	add(s.closeBeforeOpen > 0, "json-literal-}}-before-first-mustache")
	add(s.strayBraces > 0, "interpolated-prop-with-stray-braces")
	add(s.crlf > 0, "frontmatter-file-crlf")
	add(s.fenceBlanks > 0, "frontmatter-fence-trailing-blanks")
	add(c.PageCRLF, "page-crlf")
	add(c.After != "" && c.Root == "", "after-failure:"+c.After)
	add(c.Entry != "", "entry:"+c.Entry)
	add(c.Entry == "", "entry:load-fill-render")
	add(hasRootAttrs(c), "spelling:root-template-attributes(:name vs v-bind:name)")
	for _, n := range c.Names {
		if !isASCII(n) {
			add(true, "non-ascii-name")
			break
		}
	}
	for _, cp := range c.Comps {
		if !isASCII(cp.Name) {
			add(true, "non-ascii-component-file-name")
			break
		}
	}
	add(c.Quote != "", "spelling:single-quoted-attributes")
	add(c.Upper, "spelling:upper-case-tag-and-attribute-names")
	add(c.Lines, "spelling:one-attribute-per-line")
	add(c.Reg != "", "registration:"+c.Reg)
	add(c.Proc != "", "node-processor:"+c.Proc)
	add(c.Root != "", "root-data:"+c.Root)
	add(c.Root != "" && s.reqScope > 0, "root-data-typed+required-by-includer-scope-only")
	add(s.dashFM > 0, "frontmatter-value-with-dash-run")
	add(s.plainFM > 0, "frontmatter-plain-yaml-style")
	add(s.nullFM > 0, "frontmatter-null")
	add(s.zeroFM > 0, "frontmatter-zeroish")
	add(s.caseNames > 0, "required-name-with-uppercase")
	add(s.reqNullFM > 0, "required-null-frontmatter(unasserted)")
	for k, n := range s.places {
		add(n > 0, "place:"+k)
	}
	add(s.falsyBound > 0, "bound-falsy")
	add(s.collPropIncluder > 0, "collide-prop-includer")
	add(s.collPropFM > 0, "collide-prop-frontmatter")
	add(s.collFMIncluder > 0, "collide-frontmatter-includer")
	add(s.collAll3 > 0, "collide-all-three")
	add(s.leakWatch > 0, "binding-absent-in-includer")
	add(s.reqProp > 0, "required-by-prop")
	add(s.reqFM > 0, "required-by-frontmatter")
	add(s.reqScope > 0, "required-by-includer-scope-only(unasserted)")
	add(s.reqMiss > 0, "required-missing")
	add(s.reqCSV, "required-csv")
	add(s.reqRepeated, "required-repeated-attr")
	add(s.reqBothKeys, "required+require-mixed")
	add(s.wrap > 0, "component-root-template")
	add(s.nowrap > 0, "component-no-root-template")
	add(s.nestedInc > 0 && c.NestedShort, "shorthand-inside-component")
	add(m.vague != "", "vague(only-shorthand-equivalence)")
	switch {
	case len(m.missing) > 0:
		add(true, "expect-error")
	case len(m.scopeOnly) > 0:
		add(true, "expect-unspecified")
	default:
		add(true, "expect-ok")
	}
	sort.Strings(cls)
	coll := s.collPropIncluder+s.collPropFM+s.collFMIncluder+s.collAll3 > 0
	return coll || s.reqMiss > 0 || s.maxDepth >= 2, cls
}

// ---------------------------------------------------------------------------------------------
// Generator
// ---------------------------------------------------------------------------------------------

var universe = []string{"va1", "vb2", "vc3", "vd4"}

// caseNames have upper-case letters. HTML lower-cases attribute names, so they are never props:
// they reach a component through the includer's data or the component's front-matter, and they
// are written in :required lists, where the error must name them exactly as written.
var caseNames = []string{"pageTitle", "UserName", "MAXLEN", "item_2Count", "x_Y"}

func propName(n string) bool { return n == strings.ToLower(n) }

// Text beyond ASCII: names of props / front-matter keys / :required entries, component file names
// (starting with an ASCII letter, as HTML tag names must; their non-ASCII letters lower-case, since
// neither HTML nor the documented kebab rule folds those) and values.
var uniNames = []string{"größe", "título", "価格", "цена"}
var uniCompNames = []string{"MenüKarte", "TítuloBox", "GrößeC", "Ab価格", "RowКарта"}
var uniTexts = []string{"groß ü", "дом и сад", "価格¥100", "café — naïve", "ñ"}

// compDirs: sub-folders of components/. Many start with, or consist of, letters of the word
// "components/" itself (a prefix must be cut off as a prefix, not as a set of characters).
var compDirs = []string{"cards", "common", "core", "menus", "posts", "nest/ed/deep", "seo", "tests", "components", "c", "sect/ions",
	"ui", "widgets", "forms/inputs", "buttons", "layout"}

var compNames = []string{"CardA", "BoxB", "Badge", "PanelItemD", "RowE"}

// levelOf spreads n components over include levels 1..3; a component only includes components of
// a strictly greater level, so chains have length <= 3 and there are no cycles.
func levelOf(i, n int) int {
	if n <= 3 {
		return i + 1
	}
	return 1 + i*3/n
}

type valGen struct{ n int }

// next draws a JSON-like value made of harmless alphanumerics; all non-falsy values of a case are
// pairwise different so that the source of a printed value is unambiguous.
func (g *valGen) next(t *rapid.T, label string, allowFalsy, scalarOnly bool) vals.V {
	g.n++
	k := 10 + g.n
	hi := 12
	if !allowFalsy {
		hi = 8
	}
	for {
		switch rapid.IntRange(0, hi).Draw(t, label) {
		case 0:
			if k%5 == 1 { // multi-byte text
				return vals.Str(uniTexts[(k/5)%len(uniTexts)])
			}
			if k%4 == 0 { // dash runs inside a value
				return vals.Str(dashTexts[(k/4)%len(dashTexts)])
			}
			return vals.Str(fmt.Sprintf("s%d", k))
		case 1:
			if k%3 == 0 { // includer variables / front-matter values that merely start with [ or {
				return vals.Str(bracketTexts[k%len(bracketTexts)])
			}
			return vals.Str(fmt.Sprintf("s%d", k))
		case 2:
			return vals.Int(k)
		case 3:
			return vals.Num("float64", fmt.Sprintf("%d.5", k))
		case 4:
			return vals.Bool(true)
		case 5:
			if scalarOnly {
				return vals.Str(fmt.Sprintf("w%d", k))
			}
			return vals.Num("float64", strconv.Itoa(k)) // whole float: JSON "k", type float64
		case 6:
			if scalarOnly {
				return vals.Int(k + 100)
			}
			return vals.List("[]any", vals.Int(k), vals.Str(fmt.Sprintf("e%d", k)))
		case 7:
			if scalarOnly {
				return vals.Str(fmt.Sprintf("x%d", k))
			}
			return vals.Map(map[string]vals.V{"k": vals.Int(k), "w": vals.Str(fmt.Sprintf("m%d", k))})
		case 8:
			if scalarOnly {
				return vals.Num("float64", fmt.Sprintf("%d.25", k))
			}
			if k%2 == 0 {
				return vals.List("[]any")
			}
			return vals.Map(map[string]vals.V{})
		case 9:
			return vals.Int(0)
		case 10:
			return vals.Bool(false)
		case 11:
			return vals.Str("")
		default:
			if k%2 == 0 {
				return vals.Str("false")
			}
			return vals.Num("float64", "0")
		}
	}
}

var bindSources = []string{"d0", "d1", "d2", "d3", "dm", "dm.k", "dm.j", "db", "db", "dj"}
var interpSources = []string{"d2", "d3", "dm.k", "db", "dj"}

// bracketTexts start with { or [ but are not JSON documents: with a complete JSON value as a
// prefix followed by more text, and without. As props they must arrive verbatim, as strings.
var bracketTexts = []string{
	"[1] Introduction", "{} is empty", `["a"] b`, `{"k":1}x`, "[1,2]]", `{"k":"v"} {"k":"w"}`, "[]x", "{}{}",
	"[draft] x", "{curly", "[", "{", "[a]b", "{x}", "[1,2", `{"k":}`,
}

// jsonDocs are whole JSON documents: as static props they arrive decoded (documented).
var jsonDocs = []string{"[1,2]", `{"k":"v"}`, "[]", "{}", `[1,"a",{"z":[true]}]`, `{"n":{"m":[1.5,"x"]},"b":false}`, `["s"]`}

// interpolation prefixes that make the whole value start with [ or {; the trailing letter keeps the
// value from ever being a JSON document, whatever is interpolated
var bracketPrefixes = []string{"[1] n", "{} c", "[w ", "{c", `{"k":1}x`, "[d"}

func genProps(t *rapid.T, g *valGen, names []string, label string, pl *Place) []Prop {
	var out []Prop
	for _, n := range names {
		if !propName(n) {
			continue
		}
		l := label + "." + n
		src := func(base []string) string {
			// where the tag is evaluated per element: mostly the element (same name as the loop
			// variable, another name) or the index
			if ep := pl.elemPath(); ep != "" {
				switch x := rapid.IntRange(0, 9).Draw(t, l+".elem"); {
				case x < 5 || (x < 8 && n == ep):
					return ep
				case x < 7 && pl.Idx != "":
					return pl.Idx
				}
			}
			// half of the time a universe name (pass-through / renaming), else a d-variable
			if rapid.IntRange(0, 1).Draw(t, l+".srcKind") == 0 {
				return rapid.SampledFrom(names).Draw(t, l+".srcName")
			}
			return rapid.SampledFrom(base).Draw(t, l+".src")
		}
		switch m := rapid.IntRange(0, 19).Draw(t, l+".mode"); {
		case m < 7: // omitted
		case m < 10:
			g.n++
			txt := rapid.SampledFrom([]string{fmt.Sprintf("t%d", 10+g.n), fmt.Sprintf("t%d", 10+g.n), "", "0", "false", "true", "12", "1.5", "[", "[", "{"}).Draw(t, l+".text")
			if rapid.IntRange(0, 4).Draw(t, l+".blank") == 0 {
				txt = rapid.SampledFrom(blankTexts).Draw(t, l+".blanktext")
			}
			switch txt {
			case "[": // text that merely starts with [ or {
				txt = rapid.SampledFrom(bracketTexts).Draw(t, l+".bracket")
			case "{": // a JSON document
				txt = rapid.SampledFrom(jsonDocs).Draw(t, l+".jsondoc")
			}
			if rapid.IntRange(0, 3).Draw(t, l+".jsontpl") == 0 {
				// a JSON literal with mustaches inside its string values
				jt := rapid.SampledFrom(jsonTemplates).Draw(t, l+".tpl")
				txt = strings.ReplaceAll(jt.text, "{{ P }}", "{{ "+src(interpSources)+" }}")
				txt = strings.ReplaceAll(txt, "{{ Q }}", "{{ "+src(interpSources)+" }}")
				out = append(out, Prop{Name: n, Mode: "json", Text: txt})
				break
			}
			out = append(out, Prop{Name: n, Mode: "static", Text: txt})
		case m < 13:
			g.n++
			pre := rapid.SampledFrom([]string{"", "", fmt.Sprintf("p%d", 10+g.n), fmt.Sprintf("p%d", 10+g.n), "[", "}", " "}).Draw(t, l+".pre")
			post := rapid.SampledFrom([]string{"", "q"}).Draw(t, l+".post")
			switch pre {
			case "[":
				pre = rapid.SampledFrom(bracketPrefixes).Draw(t, l+".bracketpre")
			case " ": // blanks around the mustache
				pre = rapid.SampledFrom(append([]string{""}, blankPre...)).Draw(t, l+".blankpre")
				post = rapid.SampledFrom(blankPost).Draw(t, l+".blankpost")
			case "}": // stray braces around the mustache
				pre = rapid.SampledFrom(strayPre).Draw(t, l+".straypre")
				post = rapid.SampledFrom(strayPost).Draw(t, l+".straypost")
			}
			out = append(out, Prop{Name: n, Mode: "interp", Text: pre, Path: src(interpSources), Post: post})
		case m < 17:
			out = append(out, Prop{Name: n, Mode: "bind", Path: src(bindSources)})
		default:
			out = append(out, Prop{Name: n, Mode: "vbind", Path: src(bindSources)})
		}
		if k := len(out) - 1; k >= 0 && out[k].Name == n && (out[k].Mode == "bind" || out[k].Mode == "vbind") && rapid.IntRange(0, 7).Draw(t, l+".lit") == 0 {
			out[k].Path = rapid.SampledFrom(boundLiterals).Draw(t, l+".literal") // a literal instead of a path
		}
	}
	// attribute order on the tag is varied too
	if len(out) > 1 && rapid.Bool().Draw(t, label+".rev") {
		for i, j := 0, len(out)-1; i < j; i, j = i+1, j-1 {
			out[i], out[j] = out[j], out[i]
		}
	}
	return out
}

// jsonTemplates: JSON objects / arrays written in the template with 0..2 mustaches (P, Q) inside
// string values, and the reads that look into the decoded value.
var jsonTemplates = []struct {
	text  string
	reads []string
}{
	{`{"name": "{{ P }}", "age": 7}`, []string{".name", ".age", "|len"}},
	{`["a", "{{ P }}"]`, []string{"[1]", "[0]", "|len"}},
	{`{"tags": ["x{{ P }}", "{{ Q }}"], "n": {"m": 1.5}}`, []string{".tags[0]", ".tags[1]", ".n.m", ".tags|len"}},
	{`["{{ P }}{{ Q }}", 2, true]`, []string{"[0]", "[1]", "|len"}},
	{`[{"z": "p{{ P }}q"}]`, []string{"[0].z", "|len"}},
	{`{"k": "plain", "l": [1, 2, 3]}`, []string{".k", ".l[2]", ".l|len"}},
	// nested objects that close ("}}") BEFORE the first mustache, and on both sides of it
	{`{"n": {"m": {"k": 1}}, "who": "{{ P }}"}`, []string{".who", ".n.m.k", "|len"}},
	{`[{"a": {"b": 1}}, "{{ P }}", {"c": {"d": "x{{ Q }}"}}]`, []string{"[1]", "[2].c.d", "[0].a.b", "|len"}},
}

// strayPre / strayPost: plain text with stray braces around a well-formed mustache - "}}" before
// the first "{{", a lone "{{" after it: the mustache is interpolated all the same.
// dashTexts hold runs of dashes inside a line: front-matter ends at the first LINE that starts
// with ---, not at the first --- anywhere.
var dashTexts = []string{"Specials --- today only", "-----", "a---b", "x ---", "--- y", "a --- b --- c", "---"}

// boundLiterals: literals in place of a variable path in a bound prop.
var boundLiterals = []string{"true", "false", "0", "7", "-3", "1.5", "''", "'s'", "'two words'"}

// blankTexts: static prop values with leading, trailing and inner runs of blanks, tabs, newlines.
var blankTexts = []string{"  two  words  ", " lead", "trail ", "\ttab\t", " \n nl \n ", "   ", "a  b", " x"}

// blankPre / blankPost: the same around a mustache.
var blankPre = []string{" ", "  p ", "\t", " \n", "a  "}
var blankPost = []string{" ", " - ", "\t", "  z  ", "\n "}

var strayPre = []string{"}} ", "a } }} ", "}}", "} ", "x }} y "}
var strayPost = []string{"", " {{", " }} b", "}}", " {", " {{ x"}

var slotForms = map[string][]string{
	"slot-loop-named":   {"var", "hash", "destructure"},
	"slot-loop-default": {"var", "destructure", "plain"},
	"slot-twice":        {"var", "destructure", "plain"},
}

// genPlace draws where the include tag stands. rate is the share (of 20) of placed tags; prev is
// the placement of the include before it (a chain can be continued).
func genPlace(t *rapid.T, names []string, label string, rate int, multiOnly bool, prev *Place) *Place {
	if rapid.IntRange(0, 19).Draw(t, label+".placed") >= rate {
		return nil
	}
	hi := 11
	if multiOnly {
		hi = 6
	}
	switch k := rapid.IntRange(0, hi).Draw(t, label+".kind"); {
	case k < 3:
		p := &Place{Kind: "loop"}
		if rapid.Bool().Draw(t, label+".ownvar") {
			p.Var = rapid.SampledFrom(names).Draw(t, label+".var")
		}
		switch rapid.IntRange(0, 4).Draw(t, label+".idx") {
		case 0:
			p.Idx = "i9"
		case 1:
			if idx := rapid.SampledFrom(names).Draw(t, label+".idxname"); idx != p.Var {
				p.Idx = idx
			}
		}
		return p
	case k < 7:
		kind := []string{"slot-loop-named", "slot-loop-default", "slot-twice", "slot-loop-named"}[k-3]
		return &Place{Kind: kind, Form: rapid.SampledFrom(slotForms[kind]).Draw(t, label+".form")}
	case k >= 10:
		return &Place{Kind: "ctx", Form: rapid.SampledFrom([]string{"svg", "math", "table", "svg-loop"}).Draw(t, label+".ctx")}
	}
	conds := []string{"ct", "cf"}
	p := &Place{Kind: "chain", Role: rapid.SampledFrom([]string{"if", "if", "elseif", "else"}).Draw(t, label+".role")}
	if prev != nil && prev.Kind == "chain" && prev.Role != "else" && rapid.Bool().Draw(t, label+".joined") {
		p.Joined = true
		p.Role = rapid.SampledFrom([]string{"elseif", "else"}).Draw(t, label+".jrole")
	}
	if p.Role != "else" {
		p.Cond = rapid.SampledFrom(conds).Draw(t, label+".cond")
		if rapid.IntRange(0, 2).Draw(t, label+".open") == 0 {
			p.Form = "open"
		}
	}
	if p.Role != "if" && !p.Joined {
		p.Pre = rapid.SampledFrom(conds).Draw(t, label+".pre")
	}
	return p
}

// genFill draws the slot templates written inside an include tag; their slot variables are names
// of the case, so that they collide with props, front-matter keys and includer variables.
func genFill(t *rapid.T, names []string, label string, pl *Place, rate int) []Fill {
	if pl != nil && pl.Kind != "loop" && pl.Kind != "chain" {
		return nil
	}
	if rapid.IntRange(0, 9).Draw(t, label+".fill") >= rate {
		return nil
	}
	var out []Fill
	for k, nf := 0, rapid.IntRange(1, 2).Draw(t, label+".fills"); k < nf; k++ {
		l := fmt.Sprintf("%s.fill%d", label, k)
		f := Fill{Named: rapid.Bool().Draw(t, l+".named"), Destructure: rapid.Bool().Draw(t, l+".destr")}
		if k == 1 {
			f.Named = !out[0].Named // one template per slot
		}
		if f.Named {
			f.Hash = rapid.Bool().Draw(t, l+".hash")
		}
		nv := 1
		if f.Destructure {
			nv = rapid.IntRange(1, 2).Draw(t, l+".nvars")
		}
		for v := 0; v < nv; v++ {
			if nm := rapid.SampledFrom(names).Draw(t, fmt.Sprintf("%s.var%d", l, v)); !contains(f.Vars, nm) {
				f.Vars = append(f.Vars, nm)
			}
		}
		out = append(out, f)
	}
	return out
}

// nameStatus of a (component, name) over all instances of the component.
type nameStatus struct{ provided, scopeOnly, missing int }

// repair makes every bound / interpolated prop well-defined in every scope its file is
// instantiated in (by construction: an unsuitable source path is replaced by a d-variable), keeps
// bound props out of the region of the open finding kfFalsy, and returns, per component and name,
// how the name is provided over the component's instances. excluded counts kfFalsy rewrites.
func repair(c *Case, avoidFalsy bool) (status []map[string]*nameStatus, excluded int) {
	root := scope{}
	for k, v := range c.Data {
		root[k] = mv{v.Go(), true}
	}
	inst := make([][]scope, len(c.Comps)+1) // index 0 = page, i+1 = component i
	inst[0] = []scope{root}
	status = make([]map[string]*nameStatus, len(c.Comps))
	for i := range status {
		status[i] = map[string]*nameStatus{}
		for _, n := range c.Names {
			status[i][n] = &nameStatus{}
		}
	}
	for f := 0; f <= len(c.Comps); f++ {
		var incs []Inc
		if f == 0 {
			incs = c.Page
		} else {
			incs = c.Comps[f-1].Incs
		}
		// every scope in which each tag of this file is evaluated
		at := make([][]scope, len(incs))
		for j := range incs {
			for _, sc0 := range inst[f] {
				scs, _ := evals(incs, j, sc0)
				at[j] = append(at[j], scs...)
			}
		}
		for j := range incs {
			for pi := range incs[j].Props {
				p := &incs[j].Props[pi]
				for _, sc := range at[j] {
					switch p.Mode {
					case "interp":
						v, ok := sc.resolve(p.Path)
						if ok {
							_, ok = scalarText(v.v)
						}
						if !ok {
							p.Path = "d3"
						} else if strings.HasSuffix(p.Text, "{") {
							p.Text += "c" // "{{{" is ambiguous template syntax
						}
						if v, ok := sc.resolve(p.Path); ok {
							if txt, ok := scalarText(v.v); ok {
								full := p.Text + txt + p.Post
								if full != strings.TrimSpace(full) && looksJSON(strings.TrimSpace(full)) {
									p.Text = "p" + p.Text // blanks around text starting with { or [: not asserted
								}
								if _, isDoc := jsonDoc(p.Text + txt + p.Post); isDoc && looksJSON(p.Text) {
									p.Text = "p" + p.Text // literal [ or { completed to a JSON document: not asserted
								}
							}
						}
					case "json":
						// every mustache must yield plain text in every scope, else it reads ds
						p.Text = mustacheRe.ReplaceAllStringFunc(p.Text, func(m string) string {
							path := mustacheRe.FindStringSubmatch(m)[1]
							if v, ok := sc.resolve(path); ok {
								if txt, ok := scalarText(v.v); ok && plainText(txt) {
									return m
								}
							}
							return "{{ ds }}"
						})
					case "bind", "vbind":
						v, ok := sc.resolve(p.Path)
						if !ok {
							p.Path = "d0"
						} else if avoidFalsy && falsy(v.v) {
							p.Path = "d0"
							excluded++
						} else if v.v == nil {
							p.Path = "d0" // bound to a null front-matter value: not asserted
						}
					}
				}
			}
		}
		for j, inc := range incs {
			cp := c.Comps[inc.Comp]
			for _, sc := range at[j] {
				var r result
				r.st = newStats()
				props := evalProps(inc.Props, sc, &r)
				child := sc.with()
				for k, v := range props {
					child[k] = v
				}
				for k, v := range cp.FM {
					child[k] = mv{v.Go(), false}
				}
				for _, n := range c.Names {
					_, inP := props[n]
					_, inF := cp.FM[n]
					_, inS := sc[n]
					st := status[inc.Comp][n]
					fv := cp.FM[n]
					switch {
					case !inP && inF && fv.Go() == nil:
						st.scopeOnly++ // null front-matter value: left open
					case inP || inF:
						st.provided++
					case inS:
						st.scopeOnly++
					default:
						st.missing++
					}
				}
				inst[inc.Comp+1] = append(inst[inc.Comp+1], child)
			}
		}
	}
	return status, excluded
}

func genReq(t *rapid.T, names []string, label string) []Req {
	if len(names) == 0 {
		return nil
	}
	key := func(i int) string {
		return rapid.SampledFrom([]string{":required", ":require"}).Draw(t, fmt.Sprintf("%s.key%d", label, i))
	}
	switch rapid.IntRange(0, 2).Draw(t, label+".shape") {
	case 0: // one CSV attribute
		sep := rapid.SampledFrom([]string{",", ", ", " , ", " ,", ",\n    ", "\n,", ",\t"}).Draw(t, label+".sep")
		return []Req{{Key: key(0), CSV: strings.Join(names, sep)}}
	case 1: // one attribute per name (the same key may repeat, as in docs/components.md)
		var out []Req
		for i, n := range names {
			out = append(out, Req{Key: key(i), CSV: n})
		}
		return out
	default: // first name alone, rest as CSV
		if len(names) == 1 {
			return []Req{{Key: key(0), CSV: " " + names[0] + " "}}
		}
		return []Req{{Key: key(0), CSV: names[0]}, {Key: key(1), CSV: strings.Join(names[1:], ",")}}
	}
}

func genCase(rec *ev.Rec, known *kf.File) func(t *rapid.T) Case {
	avoidFalsy := known.Open(kfFalsy)
	avoidNested := known.Open(kfNested)
	return func(t *rapid.T) Case {
		g := &valGen{}
		c := Case{Names: append([]string(nil), universe[:rapid.IntRange(2, 4).Draw(t, "names")]...), Print: []string{"d1", "dm"}, Data: map[string]vals.V{}}
		// names beyond ASCII (0-2 of them; they can be props, front-matter keys and :required entries)
		for i, nu := 0, rapid.IntRange(0, 3).Draw(t, "uninames"); i < nu && i < 2; i++ {
			if un := rapid.SampledFrom(uniNames).Draw(t, fmt.Sprintf("uniname%d", i)); !contains(c.Names, un) {
				c.Names = append(c.Names, un)
			}
		}
		// names with upper-case letters (0-2 of them)
		for i, nc := 0, rapid.IntRange(0, 3).Draw(t, "casenames"); i < nc && i < 2; i++ {
			if cn := rapid.SampledFrom(caseNames).Draw(t, fmt.Sprintf("casename%d", i)); !contains(c.Names, cn) {
				c.Names = append(c.Names, cn)
			}
		}
		for _, n := range c.Names {
			if rapid.Bool().Draw(t, "data."+n) {
				c.Data[n] = g.next(t, "dataval."+n, true, false)
			}
		}
		c.Data["d0"] = g.next(t, "d0", false, false)
		c.Data["d1"] = g.next(t, "d1", true, false)
		c.Data["d2"] = g.next(t, "d2", true, true)
		c.Data["d3"] = g.next(t, "d3", false, true)
		c.Data["db"] = vals.Str(rapid.SampledFrom(bracketTexts).Draw(t, "db"))
		g.n++
		c.Data["ds"] = vals.Str(fmt.Sprintf("s%d", 10+g.n)) // always a plain string
		c.PageCRLF = rapid.IntRange(0, 4).Draw(t, "pagecrlf") == 0
		c.Data["dj"] = vals.Str(rapid.SampledFrom(jsonDocs).Draw(t, "dj")) // a string that is a JSON document: stays a string when bound / interpolated
		// what placed include tags iterate over / test
		var rows []vals.V
		for i, nRows := 0, rapid.IntRange(2, 4).Draw(t, "rows"); i < nRows; i++ {
			rows = append(rows, g.next(t, fmt.Sprintf("row%d", i), true, rapid.IntRange(0, 3).Draw(t, fmt.Sprintf("row%d.scalar", i)) > 0))
		}
		c.Data[rowsVar] = vals.List("[]any", rows...)
		c.Data["w1"] = g.next(t, "w1", true, true)
		c.Data["w2"] = g.next(t, "w2", true, false)
		c.Data["ct"] = vals.Bool(true)
		c.Data["cf"] = vals.Bool(false)
		// pool: big components (more than 8 bindings) alternate with tags that are evaluated
		// under freshly pushed scopes (loop iterations, slot content)
		pool := rapid.IntRange(0, 3).Draw(t, "pool") == 0
		c.Data["dm"] = vals.Map(map[string]vals.V{"k": g.next(t, "dm.k", false, true), "j": g.next(t, "dm.j", true, false)})

		n := rapid.IntRange(1, 5).Draw(t, "comps")
		for i := 0; i < n; i++ {
			cp := Comp{Name: compNames[i], Wrap: rapid.Bool().Draw(t, fmt.Sprintf("c%d.wrap", i))}
			if rapid.IntRange(0, 3).Draw(t, fmt.Sprintf("c%d.uniname", i)) == 0 {
				cp.Name = uniCompNames[i]
			}
			for _, nm := range c.Names {
				if rapid.IntRange(0, 9).Draw(t, fmt.Sprintf("c%d.fm.%s", i, nm)) < 3 {
					if cp.FM == nil {
						cp.FM = map[string]vals.V{}
					}
					switch rapid.IntRange(0, 9).Draw(t, fmt.Sprintf("c%d.fmnull.%s", i, nm)) {
					case 0, 1:
						cp.FM[nm] = vals.Nil() // `key:` / `key: ~` / `key: null`
					case 2:
						cp.FM[nm] = vals.List("[]any", vals.Str("a---b"), vals.Str(rapid.SampledFrom(dashTexts).Draw(t, fmt.Sprintf("c%d.fmdash.%s", i, nm))), vals.Str("c"))
					case 3:
						cp.FM[nm] = vals.Str(rapid.SampledFrom(dashTexts).Draw(t, fmt.Sprintf("c%d.fmdash.%s", i, nm)))
					default:
						cp.FM[nm] = g.next(t, fmt.Sprintf("c%d.fmval.%s", i, nm), true, false)
					}
				}
			}
			cp.NullAs = rapid.SampledFrom([]string{"", "empty", "tilde"}).Draw(t, fmt.Sprintf("c%d.nullas", i))
			if rapid.Bool().Draw(t, fmt.Sprintf("c%d.indir", i)) {
				cp.Dir = rapid.SampledFrom(compDirs).Draw(t, fmt.Sprintf("c%d.dir", i))
			}
			cp.FMStyle = rapid.SampledFrom([]string{"", "plain", "qkeys"}).Draw(t, fmt.Sprintf("c%d.fmstyle", i))
			if rapid.IntRange(0, 7).Draw(t, fmt.Sprintf("c%d.rootattrs", i)) == 0 {
				cp.RootAttrs = []Prop{{Name: "zr0", Mode: rapid.SampledFrom([]string{"bind", "vbind"}).Draw(t, fmt.Sprintf("c%d.zr0", i)), Path: rapid.SampledFrom([]string{"d0", "d1", "dm.k", "7", "'s'"}).Draw(t, fmt.Sprintf("c%d.zr0path", i))},
					{Name: "zr1", Mode: "static", Text: "rs"}}
				if !contains(c.Reads, "zr0") {
					c.Reads = append(c.Reads, "zr0", "zr1")
				}
			}
			cp.Slot = rapid.SampledFrom([]string{"", "", "", "default", "named", "both"}).Draw(t, fmt.Sprintf("c%d.slot", i))
			cp.EOL = rapid.SampledFrom([]string{"", "", "crlf"}).Draw(t, fmt.Sprintf("c%d.eol", i))
			cp.Fence = rapid.SampledFrom([]string{"", "", "", "open", "close", "both"}).Draw(t, fmt.Sprintf("c%d.fence", i))
			if (pool && i == 0) || rapid.IntRange(0, 5).Draw(t, fmt.Sprintf("c%d.big", i)) == 0 {
				if cp.FM == nil {
					cp.FM = map[string]vals.V{}
				}
				for b, nb := 0, rapid.IntRange(6, 10).Draw(t, fmt.Sprintf("c%d.bulk", i)); b < nb; b++ {
					cp.FM[fmt.Sprintf("zf%d", b)] = vals.Int(900 + b)
				}
			}
			c.Comps = append(c.Comps, cp)
		}
		for i := 0; i < n; i++ {
			var cand []int
			for j := i + 1; j < n; j++ {
				if levelOf(j, n) > levelOf(i, n) {
					cand = append(cand, j)
				}
			}
			if len(cand) == 0 {
				continue
			}
			k := rapid.IntRange(0, 3).Draw(t, fmt.Sprintf("c%d.fan", i))
			for j := 0; j < k; j++ {
				l := fmt.Sprintf("c%d.inc%d", i, j)
				var prev *Place
				if j > 0 {
					prev = c.Comps[i].Incs[j-1].Place
				}
				pl := genPlace(t, c.Names, l, 5, false, prev)
				target := rapid.SampledFrom(cand).Draw(t, l+".comp")
				rate := 1
				if c.Comps[target].Slot != "" {
					rate = 5
				}
				c.Comps[i].Incs = append(c.Comps[i].Incs, Inc{Comp: target, Place: pl, Props: genProps(t, g, c.Names, l, pl), Fill: genFill(t, c.Names, l, pl, rate)})
			}
		}
		k := rapid.IntRange(1, 3).Draw(t, "page.fan")
		if pool {
			k = 4
		}
		for j := 0; j < k; j++ {
			l := fmt.Sprintf("page.inc%d", j)
			if pool {
				inc := Inc{Comp: 0}
				if j%2 == 1 {
					if n > 1 {
						inc.Comp = rapid.IntRange(0, n-1).Draw(t, l+".comp")
					}
					inc.Place = genPlace(t, c.Names, l, 20, true, nil)
				}
				inc.Props = genProps(t, g, c.Names, l, inc.Place)
				inc.Fill = genFill(t, c.Names, l, inc.Place, 2)
				c.Page = append(c.Page, inc)
				continue
			}
			var prev *Place
			if j > 0 {
				prev = c.Page[j-1].Place
			}
			pl := genPlace(t, c.Names, l, 9, false, prev)
			// the page mostly includes first-level components so that chains get long
			comp := 0
			if rapid.IntRange(0, 2).Draw(t, l+".any") == 0 {
				comp = rapid.IntRange(0, n-1).Draw(t, l+".comp")
			} else if j > 0 && rapid.Bool().Draw(t, l+".again") {
				comp = c.Page[0].Comp // the same component again, with other props
			}
			rate := 1
			if c.Comps[comp].Slot != "" {
				rate = 5
			}
			c.Page = append(c.Page, Inc{Comp: comp, Place: pl, Props: genProps(t, g, c.Names, l, pl), Fill: genFill(t, c.Names, l, pl, rate)})
		}

		// entry point and shape of the page data. A map[string]string root needs string data only:
		// every other value becomes a string and the placements (which need the list rows and the
		// bools ct / cf) go; repair() then rebinds the paths that no longer resolve.
		c.Entry = rapid.SampledFrom(entries).Draw(t, "entry")
		c.Quote = rapid.SampledFrom([]string{"", "", "single"}).Draw(t, "quote")
		c.Upper = rapid.IntRange(0, 3).Draw(t, "upper") == 0
		c.Lines = rapid.IntRange(0, 3).Draw(t, "lines") == 0
		c.Reg = rapid.SampledFrom([]string{"", "", "manual", "both"}).Draw(t, "reg")
		c.Proc = rapid.SampledFrom([]string{"", "", "", "with", "register"}).Draw(t, "proc")
		if rapid.IntRange(0, run.Pick(2, 1)).Draw(t, "afterfailure") == 0 {
			c.After = rapid.SampledFrom(afterKinds).Draw(t, "after")
		}
		if rapid.IntRange(0, 7).Draw(t, "typedroot") == 0 {
			c.Root = "mapss"
			keys := make([]string, 0, len(c.Data))
			for k := range c.Data {
				keys = append(keys, k)
			}
			sort.Strings(keys)
			for i, k := range keys {
				if _, isStr := c.Data[k].Go().(string); !isStr {
					c.Data[k] = vals.Str(fmt.Sprintf("r%d", i))
				}
			}
			strip := func(incs []Inc) {
				for i := range incs {
					incs[i].Place = nil
				}
			}
			strip(c.Page)
			for i := range c.Comps {
				strip(c.Comps[i].Incs)
			}
		}
		if known.Open(kfBraces) {
			for i, nb := 0, avoidBraces(&c); i < nb; i++ {
				rec.Excluded(kfBraces)
			}
		}
		if known.Open(kfLiteral) {
			for i, nb := 0, avoidLiterals(&c); i < nb; i++ {
				rec.Excluded(kfLiteral)
			}
		}
		addReads := func(incs []Inc) {
			for _, inc := range incs {
				for _, p := range inc.Props {
					if p.Mode != "json" {
						continue
					}
					for _, jt := range jsonTemplates {
						if strings.ReplaceAll(mustacheRe.ReplaceAllString(jt.text, ""), " ", "") != strings.ReplaceAll(mustacheRe.ReplaceAllString(p.Text, ""), " ", "") {
							continue
						}
						for _, rd := range jt.reads {
							if e := p.Name + rd; len(c.Reads) < 6 && !contains(c.Reads, e) {
								c.Reads = append(c.Reads, e)
							}
						}
					}
				}
			}
		}
		addReads(c.Page)
		for i := range c.Comps {
			addReads(c.Comps[i].Incs)
		}

		// bound the size of the render: nested multi-evaluation placements multiply
		if len(model(c).exp) > 500 {
			for i := range c.Comps {
				for j := range c.Comps[i].Incs {
					if pl := c.Comps[i].Incs[j].Place; pl != nil && pl.Kind != "chain" {
						c.Comps[i].Incs[j].Place = nil
					}
				}
			}
		}

		status, excluded := repair(&c, avoidFalsy)
		for i := 0; i < excluded; i++ {
			rec.Excluded(kfFalsy)
		}

		// :required lists. mode 0: only names provided in every instance (fully asserted case);
		// 1: may also name something missing in some instance (error expected);
		// 2: may also name something only the includer's scope has (unspecified, unasserted).
		mode := 0
		switch x := rapid.IntRange(0, 99).Draw(t, "reqmode"); {
		case x >= 90:
			mode = 2
		case x >= 55:
			mode = 1
		}
		for i := range c.Comps {
			var pool []string
			for _, nm := range c.Names {
				st := status[i][nm]
				switch {
				case st.provided+st.scopeOnly+st.missing == 0: // never instantiated
				case st.missing == 0 && st.scopeOnly == 0:
					pool = append(pool, nm)
				case st.missing > 0 && mode == 1:
					pool = append(pool, nm)
				case st.missing == 0 && st.scopeOnly > 0 && mode == 2:
					pool = append(pool, nm)
				}
			}
			var req []string
			for _, nm := range pool {
				st := status[i][nm]
				limit := 5
				if st.missing > 0 || st.scopeOnly > 0 {
					limit = 8 // the mode asked for these
				}
				if rapid.IntRange(0, 9).Draw(t, fmt.Sprintf("c%d.req.%s", i, nm)) < limit {
					req = append(req, nm)
				}
			}
			c.Comps[i].Req = genReq(t, req, fmt.Sprintf("c%d.req", i))
			if len(c.Comps[i].Req) > 0 {
				c.Comps[i].Wrap = true
			}
		}

		nested := false
		for _, cp := range c.Comps {
			if len(cp.Incs) > 0 {
				nested = true
			}
		}
		if avoidNested {
			if nested {
				rec.Excluded(kfNested)
			}
		} else {
			c.NestedShort = rapid.IntRange(0, 3).Draw(t, "nestedshort") > 0
		}
		return c
	}
}

// ---------------------------------------------------------------------------------------------
// Exhaustive cores
// ---------------------------------------------------------------------------------------------

func fixedData() map[string]vals.V {
	return map[string]vals.V{
		"d0": vals.Int(70), "d1": vals.Str("s71"), "d2": vals.Int(72), "d3": vals.Str("s73"),
		"dm": vals.Map(map[string]vals.V{"k": vals.Str("s74"), "j": vals.List("[]any", vals.Int(75))}),
	}
}

var propModes = []string{"omit", "static", "interp", "bind", "vbind"}

// enumFlat: one component, two names; per name every combination of
// {omitted, static, interpolated, :bound, v-bind:bound} x {in front-matter or not} x
// {includer has the name or not} x {required or not}.
func enumFlat(nNames int, yield func(Case) bool) (done, total int) {
	names := universe[:nNames]
	per := len(propModes) * 2 * 2 * 2
	total = 1
	for range names {
		total *= per
	}
	for x := 0; x < total; x++ {
		c := Case{Names: names, Print: []string{"d1"}, Data: fixedData(), Comps: []Comp{{Name: "CardA", Wrap: x%2 == 0}}, NestedShort: true}
		inc := Inc{Comp: 0}
		var req []string
		y := x
		for ni, n := range names {
			z := y % per
			y /= per
			mode := propModes[z%5]
			z /= 5
			inFM, inData, isReq := z&1 != 0, z&2 != 0, z&4 != 0
			if inData {
				c.Data[n] = vals.Str(fmt.Sprintf("inc%d", ni))
			}
			if inFM {
				if c.Comps[0].FM == nil {
					c.Comps[0].FM = map[string]vals.V{}
				}
				c.Comps[0].FM[n] = vals.Int(500 + ni)
			}
			if isReq {
				req = append(req, n)
			}
			switch mode {
			case "static":
				inc.Props = append(inc.Props, Prop{Name: n, Mode: "static", Text: fmt.Sprintf("st%d", ni)})
			case "interp":
				inc.Props = append(inc.Props, Prop{Name: n, Mode: "interp", Text: "p", Path: "d2"})
			case "bind":
				inc.Props = append(inc.Props, Prop{Name: n, Mode: "bind", Path: "dm"})
			case "vbind":
				inc.Props = append(inc.Props, Prop{Name: n, Mode: "vbind", Path: "d0"})
			}
		}
		keys := []string{":required", ":require"}
		switch {
		case len(req) == 1:
			c.Comps[0].Req = []Req{{keys[x%2], req[0]}}
		case len(req) > 1 && x%3 == 0: // one CSV attribute
			c.Comps[0].Req = []Req{{":required", strings.Join(req, ", ")}}
		case len(req) > 1 && x%3 == 1: // the same attribute repeated, one name each
			for _, r := range req {
				c.Comps[0].Req = append(c.Comps[0].Req, Req{":require", r})
			}
		case len(req) > 1: // both spellings, last name first
			c.Comps[0].Req = []Req{{":required", req[len(req)-1]}, {":require", strings.Join(req[:len(req)-1], ",")}}
		}
		c.Page = []Inc{inc}
		if !yield(c) {
			return x, total
		}
	}
	return total, total
}

// enumTwice: the same component included twice with every pair of prop-mode assignments for two
// names; the second include must not see anything of the first.
func enumTwice(yield func(Case) bool) int {
	names := []string{"va1", "vb2"}
	n := 0
	for x := 0; x < 625*4; x++ {
		y := x
		c := Case{Names: names, Print: []string{"dm"}, Data: fixedData(), Comps: []Comp{{Name: "Badge", Wrap: x%2 == 1}}, NestedShort: true}
		incs := []Inc{{Comp: 0}, {Comp: 0}}
		for k := range incs {
			for ni, nm := range names {
				mode := propModes[y%5]
				y /= 5
				tag := fmt.Sprintf("%d%d", k, ni)
				switch mode {
				case "static":
					incs[k].Props = append(incs[k].Props, Prop{Name: nm, Mode: "static", Text: "st" + tag})
				case "interp":
					incs[k].Props = append(incs[k].Props, Prop{Name: nm, Mode: "interp", Path: "d3", Post: "q" + tag})
				case "bind":
					incs[k].Props = append(incs[k].Props, Prop{Name: nm, Mode: "bind", Path: []string{"d0", "dm.j"}[k]})
				case "vbind":
					incs[k].Props = append(incs[k].Props, Prop{Name: nm, Mode: "vbind", Path: []string{"dm.k", "d2"}[k]})
				}
			}
		}
		if y&1 != 0 {
			c.Comps[0].FM = map[string]vals.V{"va1": vals.Str("fm1")}
		}
		if y&2 != 0 {
			c.Data["va1"] = vals.Num("float64", "8.5")
			c.Data["vb2"] = vals.Bool(true)
		}
		c.Page = incs
		n++
		if !yield(c) {
			return n
		}
	}
	return n
}

// enumChain: page -> CardA -> BoxB -> Badge for one name: includer has it or not, and per level
// {omitted, static, interpolated from itself, bound to itself, bound to a d-variable} x
// {front-matter or not}; the leaf requires the name or not. Self-references to a name that is not
// visible at that point are not part of the domain and are skipped.
func enumChain(yield func(Case) bool) int {
	const nm = "va1"
	lv := []string{"omit", "static", "interp-self", "bind-self", "bind-d"}
	n := 0
	for x := 0; x < 2*10*10*10*2; x++ {
		y := x
		c := Case{Names: []string{nm, "vb2"}, Print: []string{"d1"}, Data: fixedData(), NestedShort: true}
		visible := y&1 != 0
		y /= 2
		if visible {
			c.Data[nm] = vals.Int(900)
		}
		ok := true
		incs := make([]Inc, 3)
		comps := []Comp{{Name: "CardA", Wrap: true}, {Name: "BoxB"}, {Name: "Badge", Wrap: true}}
		for l := 0; l < 3; l++ {
			z := y % 10
			y /= 10
			mode, inFM := lv[z%5], z >= 5
			incs[l] = Inc{Comp: l}
			provided := true
			switch mode {
			case "omit":
				provided = false
			case "static":
				incs[l].Props = []Prop{{Name: nm, Mode: "static", Text: fmt.Sprintf("st%d", l)}}
			case "interp-self":
				ok = ok && visible
				incs[l].Props = []Prop{{Name: nm, Mode: "interp", Text: fmt.Sprintf("i%d", l), Path: nm}}
			case "bind-self":
				ok = ok && visible
				incs[l].Props = []Prop{{Name: nm, Mode: "bind", Path: nm}}
			case "bind-d":
				incs[l].Props = []Prop{{Name: nm, Mode: "vbind", Path: []string{"d0", "d1", "dm"}[l]}, {Name: "vb2", Mode: "bind", Path: "d3"}}
			}
			if inFM {
				comps[l].FM = map[string]vals.V{nm: vals.Int(600 + l)}
			}
			visible = visible || provided || inFM
		}
		if y&1 != 0 {
			comps[2].Req = []Req{{":required", nm}}
		}
		if !ok {
			continue
		}
		comps[0].Incs = []Inc{incs[1]}
		comps[1].Incs = []Inc{incs[2]}
		c.Comps = comps
		c.Page = []Inc{incs[0]}
		n++
		if !yield(c) {
			return n
		}
	}
	return n
}

// enumTypes: one prop, every way of passing it x every value kind x includer collision or not.
func enumTypes(includeFalsy bool, yield func(Case) bool) (n, skipped int) {
	kinds := []vals.V{
		vals.Str("s1"), vals.Str("12"), vals.Int(7), vals.Int(-3), vals.Num("float64", "2.5"), vals.Num("float64", "4"),
		vals.Bool(true), vals.List("[]any", vals.Int(1), vals.Str("two")), vals.List("[]any"),
		vals.Map(map[string]vals.V{"a": vals.Int(1), "b": vals.Str("z")}), vals.Map(map[string]vals.V{}),
		vals.Map(map[string]vals.V{"in": vals.Map(map[string]vals.V{"x": vals.List("[]any", vals.Bool(false))})}),
	}
	for _, b := range bracketTexts {
		kinds = append(kinds, vals.Str(b))
	}
	fal := []vals.V{vals.Int(0), vals.Bool(false), vals.Str(""), vals.Str("false"), vals.Num("float64", "0")}
	all := append(append([]vals.V(nil), kinds...), fal...)
	for vi, v := range all {
		isFalsy := vi >= len(kinds)
		for _, mode := range []string{"static", "interp", "interp-split", "bind", "vbind"} {
			for coll := 0; coll < 4; coll++ { // bit0: includer has va1, bit1: component front-matter has vb2 (not the prop)
				if (mode == "bind" || mode == "vbind") && isFalsy && !includeFalsy {
					skipped++
					continue
				}
				c := Case{Names: []string{"va1", "vb2"}, Print: []string{"src", "d0"}, Data: fixedData(), Comps: []Comp{{Name: "PanelItemD", Wrap: coll&2 != 0, Req: []Req{{":required", "va1"}}}}, NestedShort: true}
				c.Data["src"] = v
				if coll&1 != 0 {
					c.Data["va1"] = vals.Str("incl")
				}
				if coll&2 != 0 {
					c.Comps[0].FM = map[string]vals.V{"vb2": v}
				}
				p := Prop{Name: "va1", Mode: mode, Path: "src"}
				switch mode {
				case "static":
					s, ok := scalarText(v.Go())
					if !ok {
						continue
					}
					p = Prop{Name: "va1", Mode: "static", Text: s}
				case "interp":
					if _, ok := scalarText(v.Go()); !ok {
						continue
					}
				case "interp-split": // literal head + interpolated tail, for the texts starting with [ or {
					s, isStr := v.Go().(string)
					if !isStr || !looksJSON(s) || len(s) < 3 {
						continue
					}
					c.Data["tail"] = vals.Str(s[2:])
					p = Prop{Name: "va1", Mode: "interp", Text: s[:2], Path: "tail"}
				}
				c.Page = []Inc{{Comp: 0, Props: []Prop{p}}}
				n++
				if !yield(c) {
					return n, skipped
				}
			}
		}
	}
	// whole JSON documents as static props: documented to arrive decoded
	for _, doc := range jsonDocs {
		for coll := 0; coll < 4; coll++ {
			c := Case{Names: []string{"va1", "vb2"}, Print: []string{"d0"}, Data: fixedData(), Comps: []Comp{{Name: "PanelItemD", Wrap: coll&2 != 0, Req: []Req{{":required", "va1"}}}}, NestedShort: true}
			if coll&1 != 0 {
				c.Data["va1"] = vals.Str("incl")
			}
			props := []Prop{{Name: "va1", Mode: "static", Text: doc}}
			if coll&2 != 0 { // a second prop of the other kind next to it
				props = append(props, Prop{Name: "vb2", Mode: "static", Text: bracketTexts[(coll+len(doc))%len(bracketTexts)]})
			}
			c.Page = []Inc{{Comp: 0, Props: props}}
			n++
			if !yield(c) {
				return n, skipped
			}
		}
	}
	return n, skipped
}

func placeData(scalarRows bool) map[string]vals.V {
	d := fixedData()
	rows := []vals.V{vals.Int(7), vals.Int(0), vals.Str("s"), vals.Str(""), vals.Bool(false), vals.Num("float64", "2.5")}
	if !scalarRows {
		rows = append(rows, vals.List("[]any", vals.Int(1)), vals.Map(map[string]vals.V{"k": vals.Int(1)}), vals.Str("[1] x"))
	}
	d[rowsVar] = vals.List("[]any", rows...)
	d["w1"] = vals.Int(0)
	d["w2"] = vals.Str("zz")
	d["ct"] = vals.Bool(true)
	d["cf"] = vals.Bool(false)
	return d
}

// enumPlace: one include in every placement (loop with / without own variable name and index;
// slot content of the three wrappers in every form; member of a v-if chain in every role, chosen
// and not) x how va1 is passed (omitted, static, interpolated / bound from the element, bound to
// an includer variable) x front-matter x includer collision x required.
func enumPlace(yield func(Case) bool) int {
	var places [][]Place // each entry: the placements of the page's includes (1 or a joined chain)
	for _, v := range []string{"", "va1"} {
		for _, ix := range []string{"", "i9", "vb2"} {
			places = append(places, []Place{{Kind: "loop", Var: v, Idx: ix}})
		}
	}
	for _, k := range []string{"slot-loop-named", "slot-loop-default", "slot-twice"} {
		for _, f := range slotForms[k] {
			places = append(places, []Place{{Kind: k, Form: f}})
		}
	}
	for _, f := range []string{"svg", "math", "table", "svg-loop"} {
		places = append(places, []Place{{Kind: "ctx", Form: f}})
	}
	for _, c1 := range []string{"ct", "cf"} {
		places = append(places, []Place{{Kind: "chain", Role: "if", Cond: c1}}, []Place{{Kind: "chain", Role: "if", Cond: c1, Form: "open"}},
			[]Place{{Kind: "chain", Role: "else", Pre: c1}})
		for _, c2 := range []string{"ct", "cf"} {
			places = append(places, []Place{{Kind: "chain", Role: "elseif", Pre: c1, Cond: c2}},
				[]Place{{Kind: "chain", Role: "if", Cond: c1}, {Kind: "chain", Role: "elseif", Cond: c2, Joined: true}, {Kind: "chain", Role: "else", Joined: true}},
				[]Place{{Kind: "chain", Role: "elseif", Pre: c1, Cond: c2, Form: "open"}, {Kind: "chain", Role: "else", Joined: true}})
		}
	}
	modes := []string{"omit", "static", "interp-elem", "bind-elem", "vbind-elem", "bind-d"}
	n := 0
	for pi, pls := range places {
		for _, mode := range modes {
			for z := 0; z < 8; z++ {
				inFM, inData, isReq := z&1 != 0, z&2 != 0, z&4 != 0
				c := Case{Names: []string{"va1", "vb2"}, Print: []string{"d1"}, Data: placeData(mode == "interp-elem"), NestedShort: true,
					Comps: []Comp{{Name: "CardA", Wrap: (pi+z)%2 == 0}, {Name: "BoxB"}}}
				if inData {
					c.Data["va1"] = vals.Str("incl")
				}
				if inFM {
					c.Comps[0].FM = map[string]vals.V{"va1": vals.Int(500)}
				}
				if isReq {
					c.Comps[0].Req = []Req{{":required", "va1"}}
				}
				for k := range pls {
					pl := pls[k]
					inc := Inc{Comp: 0, Place: &pl}
					if k > 0 {
						inc.Comp = k % 2 // the members of a joined chain alternate between two components
					}
					ep := pl.elemPath()
					if ep == "" {
						ep = "w1" // chains: bound to an includer variable that is falsy
					}
					switch mode {
					case "static":
						inc.Props = []Prop{{Name: "va1", Mode: "static", Text: fmt.Sprintf("st%d", k)}}
					case "interp-elem":
						inc.Props = []Prop{{Name: "va1", Mode: "interp", Text: "p", Path: ep}}
					case "bind-elem":
						inc.Props = []Prop{{Name: "va1", Mode: "bind", Path: ep}}
					case "vbind-elem":
						inc.Props = []Prop{{Name: "va1", Mode: "vbind", Path: ep}}
					case "bind-d":
						inc.Props = []Prop{{Name: "va1", Mode: "bind", Path: "dm"}}
					}
					if pl.Idx != "" && mode != "omit" {
						inc.Props = append(inc.Props, Prop{Name: "vb2", Mode: "bind", Path: pl.Idx})
					}
					c.Page = append(c.Page, inc)
				}
				n++
				if !yield(c) {
					return n
				}
			}
		}
	}
	return n
}

// enumPool: a component with 9..12 bindings (props + front-matter) is followed by a tag that is
// evaluated under freshly pushed scopes (loop iterations / slot content) whose blocks and whose
// component print the names the big component bound; the pattern stands twice in the page. The
// second component requires va1 or not; the includer has va1 or not.
func enumPool(yield func(Case) bool) int {
	after := []Place{{Kind: "loop"}, {Kind: "loop", Var: "vb2", Idx: "i9"}, {Kind: "slot-loop-named", Form: "var"}, {Kind: "slot-loop-named", Form: "destructure"},
		{Kind: "slot-loop-default", Form: "plain"}, {Kind: "slot-twice", Form: "var"}, {Kind: "slot-twice", Form: "plain"}}
	n := 0
	for size := 9; size <= 12; size++ {
		for _, pl := range after {
			for z := 0; z < 8; z++ {
				isReq, inData, propsHeavy := z&1 != 0, z&2 != 0, z&4 != 0
				c := Case{Names: []string{"va1", "vb2"}, Print: []string{"d1"}, Data: placeData(false), NestedShort: true,
					Comps: []Comp{{Name: "CardA", Wrap: size%2 == 0, FM: map[string]vals.V{}}, {Name: "BoxB"}}}
				if inData {
					c.Data["va1"] = vals.Str("incl")
				}
				if isReq {
					c.Comps[1].Req = []Req{{":require", "va1"}}
				}
				big := Inc{Comp: 0, Props: []Prop{{Name: "va1", Mode: "static", Text: "bigA"}, {Name: "vb2", Mode: "bind", Path: "d0"}}}
				for b := 0; len(big.Props)+len(c.Comps[0].FM) < size; b++ {
					if propsHeavy && b%2 == 0 {
						big.Props = append(big.Props, Prop{Name: fmt.Sprintf("zp%d", b), Mode: "static", Text: fmt.Sprintf("b%d", b)})
					} else {
						c.Comps[0].FM[fmt.Sprintf("zf%d", b)] = vals.Int(900 + b)
					}
				}
				p1, p2 := pl, pl
				c.Page = []Inc{big, {Comp: 1, Place: &p1}, big, {Comp: 1, Place: &p2, Props: []Prop{{Name: "vb2", Mode: "static", Text: "own"}}}}
				n++
				if !yield(c) {
					return n
				}
			}
		}
	}
	return n
}

// enumCase: a required name with upper-case letters (never a prop: HTML lower-cases attribute
// names) provided by the component's front-matter, by the includer's data, by both or by nothing,
// in every spelling of the :required list; the error must name it exactly as written.
func enumCase(yield func(Case) bool) int {
	n := 0
	for ci, cn := range caseNames {
		for z := 0; z < 4; z++ {
			inFM, inData := z&1 != 0, z&2 != 0
			for shape := 0; shape < 4; shape++ {
				c := Case{Names: []string{"va1", cn}, Print: []string{"d1"}, Data: fixedData(), NestedShort: true,
					Comps: []Comp{{Name: "CardA", Wrap: true}, {Name: "BoxB"}}}
				if inData {
					c.Data[cn] = vals.Str("incl")
				}
				if inFM {
					c.Comps[0].FM = map[string]vals.V{cn: vals.Int(500 + ci)}
				}
				switch shape {
				case 0:
					c.Comps[0].Req = []Req{{":required", cn}}
				case 1:
					c.Comps[0].Req = []Req{{":require", "va1, " + cn}}
				case 2:
					c.Comps[0].Req = []Req{{":require", cn}, {":require", "va1"}}
				case 3: // required one level down: the leaf gets the name from the outer component's scope or front-matter
					c.Comps[1].Req = []Req{{":required", cn + ",va1"}}
					c.Comps[1].FM = c.Comps[0].FM
					c.Comps[0].FM = nil
					c.Comps[0].Incs = []Inc{{Comp: 1, Props: []Prop{{Name: "va1", Mode: "bind", Path: "va1"}}}}
				}
				// a lower-case twin of the name as a prop must not satisfy (or disturb) it
				props := []Prop{{Name: "va1", Mode: "static", Text: "st"}}
				if shape == 2 {
					props = append(props, Prop{Name: strings.ToLower(cn), Mode: "static", Text: "twin"})
				}
				c.Page = []Inc{{Comp: 0, Props: props}}
				n++
				if !yield(c) {
					return n
				}
			}
		}
	}
	return n
}

// enumFMZero: a front-matter value that is null (in the three YAML spellings) or zero-ish
// ("", 0, 0.0, false, "false", [], {}) still overrides a prop and an includer variable of the
// same name: the component reads it through {{ }}, a bound attribute and v-if.
func enumFMZero(yield func(Case) bool) int {
	type fmv struct {
		v      vals.V
		nullAs string
	}
	list := []fmv{{vals.Nil(), ""}, {vals.Nil(), "empty"}, {vals.Nil(), "tilde"}, {vals.Str(""), ""}, {vals.Int(0), ""}, {vals.Num("float64", "0"), ""},
		{vals.Bool(false), ""}, {vals.Str("false"), ""}, {vals.List("[]any"), ""}, {vals.Map(map[string]vals.V{}), ""}}
	n := 0
	for _, f := range list {
		for _, mode := range []string{"omit", "static", "interp", "bind", "vbind"} {
			for z := 0; z < 8; z++ {
				inData, wrap, nested := z&1 != 0, z&2 != 0, z&4 != 0
				c := Case{Names: []string{"va1", "vb2"}, Print: []string{"d1"}, Data: fixedData(), NestedShort: true,
					Comps: []Comp{{Name: "CardA", Wrap: wrap, NullAs: f.nullAs, FM: map[string]vals.V{"va1": f.v, "vb2": vals.Str("fm2")}}, {Name: "BoxB"}}}
				if inData {
					c.Data["va1"] = vals.Str("incl")
				}
				var props []Prop
				switch mode {
				case "static":
					props = []Prop{{Name: "va1", Mode: "static", Text: "st"}}
				case "interp":
					props = []Prop{{Name: "va1", Mode: "interp", Text: "p", Path: "d2"}}
				case "bind":
					props = []Prop{{Name: "va1", Mode: "bind", Path: "d0"}}
				case "vbind":
					props = []Prop{{Name: "va1", Mode: "vbind", Path: "dm"}}
				}
				if nested { // the component with the front-matter sits one level down
					c.Comps[1].Incs = nil
					c.Comps = []Comp{{Name: "BoxB", Incs: []Inc{{Comp: 1, Props: props}}}, c.Comps[0]}
					c.Page = []Inc{{Comp: 0, Props: []Prop{{Name: "va1", Mode: "static", Text: "outer"}}}}
				} else {
					c.Page = []Inc{{Comp: 0, Props: props}}
				}
				n++
				if !yield(c) {
					return n
				}
			}
		}
	}
	return n
}

// enumJSONTpl: every JSON-literal template (0..2 mustaches inside string values) x what the
// mustaches read (a plain string, an int, a name of the includer) x front-matter / includer
// collisions of the prop's name; the component reads the decoded value as a whole and through
// paths and len.
func enumJSONTpl(yield func(Case) bool) int {
	n := 0
	srcs := [][2]string{{"d1", "d2"}, {"d2", "d1"}, {"vb2", "d1"}}
	for ti, jt := range jsonTemplates {
		for _, sr := range srcs {
			for z := 0; z < 8; z++ {
				inData, inFM, nested := z&1 != 0, z&2 != 0, z&4 != 0
				c := Case{Names: []string{"va1", "vb2"}, Print: []string{"d1"}, Data: fixedData(), NestedShort: true, PageCRLF: (ti+z)%3 == 0,
					Comps: []Comp{{Name: "CardA", Wrap: z%2 == 0}, {Name: "BoxB"}}}
				c.Data["vb2"] = vals.Str("who")
				if inData {
					c.Data["va1"] = vals.Str("incl")
				}
				if inFM {
					c.Comps[0].FM = map[string]vals.V{"vb2": vals.Str("fm2")}
				}
				for _, rd := range jt.reads {
					c.Reads = append(c.Reads, "va1"+rd)
				}
				txt := strings.ReplaceAll(strings.ReplaceAll(jt.text, "{{ P }}", "{{ "+sr[0]+" }}"), "{{ Q }}", "{{ "+sr[1]+" }}")
				props := []Prop{{Name: "va1", Mode: "json", Text: txt}}
				if nested {
					c.Comps[1].Incs = []Inc{{Comp: 0, Props: props}}
					c.Comps[0], c.Comps[1] = c.Comps[1], c.Comps[0] // BoxB (outer) first
					c.Comps[0].Incs[0].Comp = 1
					c.Page = []Inc{{Comp: 0, Props: []Prop{{Name: "vb2", Mode: "static", Text: "outer"}}}}
				} else {
					c.Page = []Inc{{Comp: 0, Props: props}}
				}
				n++
				if !yield(c) {
					return n
				}
			}
		}
	}
	return n
}

// enumSpell: file-level spelling of a component with front-matter: LF / CRLF line endings
// throughout, blanks after the opening / closing fence; the front-matter must still win over a
// colliding prop and includer variable, and front-matter-only keys must be defined.
func enumSpell(yield func(Case) bool) int {
	n := 0
	for _, eol := range []string{"", "crlf"} {
		for _, fence := range []string{"", "open", "close", "both"} {
			for mi, mode := range []string{"omit", "static", "bind"} {
				{
					for z := 0; z < 8; z++ {
						nullAs := []string{"", "empty", "tilde"}[(mi+z+len(fence))%3]
						inData, wrap, pageCRLF := z&1 != 0, z&2 != 0, z&4 != 0
						c := Case{Names: []string{"va1", "vb2", "vc3"}, Print: []string{"d1"}, Data: fixedData(), NestedShort: true, PageCRLF: pageCRLF,
							Comps: []Comp{{Name: "CardA", Wrap: wrap, EOL: eol, Fence: fence, NullAs: nullAs,
								FM: map[string]vals.V{"va1": vals.Int(500), "vb2": vals.Nil(), "vc3": vals.Str("only fm")}, Req: nil}}}
						if wrap {
							c.Comps[0].Req = []Req{{":required", "va1, vc3"}}
						}
						if z%2 == 0 {
							c.Comps[0].RootAttrs = []Prop{{Name: "zr0", Mode: []string{"bind", "vbind"}[mi%2], Path: "d0"}, {Name: "zr1", Mode: "vbind", Path: "dm.k"}}
							c.Reads = []string{"zr0", "zr1"}
						}
						if inData {
							c.Data["va1"] = vals.Str("incl")
							c.Data["vb2"] = vals.Str("incl2")
						}
						var props []Prop
						switch mode {
						case "static":
							props = []Prop{{Name: "va1", Mode: "static", Text: "st"}, {Name: "vb2", Mode: "static", Text: "st2"}}
						case "bind":
							props = []Prop{{Name: "va1", Mode: "bind", Path: "d0"}, {Name: "vb2", Mode: "vbind", Path: "dm"}}
						}
						c.Page = []Inc{{Comp: 0, Props: props}}
						n++
						if !yield(c) {
							return n
						}
					}
				}
			}
		}
	}
	return n
}

// enumFill: the include tag carries slot templates whose declared slot variables are named like a
// prop of the same include (va1), a front-matter key (vb2) and / or an includer variable; the
// component's <slot> elements bind nothing and the component reads the names again after them.
func enumFill(yield func(Case) bool) int {
	fills := [][]Fill{
		{{Destructure: true, Vars: []string{"va1"}}},
		{{Vars: []string{"va1"}}},
		{{Named: true, Destructure: true, Vars: []string{"va1", "vb2"}}},
		{{Named: true, Hash: true, Vars: []string{"vb2"}}},
		{{Named: true, Vars: []string{"va1"}}, {Destructure: true, Vars: []string{"vb2", "vc3"}}},
		{{Named: true, Hash: true, Destructure: true, Vars: []string{"vc3"}}, {Vars: []string{"va1"}}},
		{{Named: true}, {}},
	}
	n := 0
	for _, slot := range []string{"default", "named", "both"} {
		for fi, fl := range fills {
			for _, mode := range []string{"static", "bind", "json", "omit"} {
				for z := 0; z < 8; z++ {
					inData, wrap, nested := z&1 != 0, z&2 != 0, z&4 != 0
					c := Case{Names: []string{"va1", "vb2", "vc3"}, Print: []string{"d1"}, Data: fixedData(), NestedShort: true,
						Comps: []Comp{{Name: "CardA", Wrap: wrap, Slot: slot, FM: map[string]vals.V{"vb2": vals.Str("fm2")}}, {Name: "BoxB", Slot: []string{"", "default"}[fi%2]}}}
					if inData {
						c.Data["va1"] = vals.Str("incl")
						c.Data["vc3"] = vals.Int(33)
					}
					if wrap {
						c.Comps[0].Req = []Req{{":required", "va1"}}
					}
					var props []Prop
					switch mode {
					case "static":
						props = []Prop{{Name: "va1", Mode: "static", Text: "Settings"}}
					case "bind":
						props = []Prop{{Name: "va1", Mode: "bind", Path: "d0"}, {Name: "vc3", Mode: "vbind", Path: "dm"}}
					case "json":
						props = []Prop{{Name: "va1", Mode: "json", Text: `{"name": "{{ d1 }}"}`}}
					}
					if mode == "omit" && wrap && !inData {
						c.Comps[0].Req = nil
					}
					inc := Inc{Comp: 0, Props: props, Fill: fl}
					if nested {
						c.Comps[1].Incs = []Inc{inc}
						c.Comps[0], c.Comps[1] = c.Comps[1], c.Comps[0]
						c.Comps[0].Incs[0].Comp = 1
						c.Page = []Inc{{Comp: 0, Props: []Prop{{Name: "vb2", Mode: "static", Text: "outer"}}, Fill: []Fill{{Destructure: true, Vars: []string{"vb2"}}}}}
					} else {
						c.Page = []Inc{inc, {Comp: 0, Fill: fl}}
					}
					n++
					if !yield(c) {
						return n
					}
				}
			}
		}
	}
	return n
}

// enumDirs: a component in every sub-folder of the vocabulary (and at top level) x three file
// names x required prop provided or not: the shorthand tag built from directory path + file name
// must behave exactly like the explicit include (props delivered, :required checked).
func enumDirs(yield func(Case) bool) int {
	n := 0
	for _, dir := range append([]string{""}, compDirs...) {
		for _, name := range []string{"CardHeader", "Alert", "TextField"} {
			for z := 0; z < 4; z++ {
				provided, nested := z&1 != 0, z&2 != 0
				c := Case{Names: []string{"va1", "vb2"}, Print: []string{"d1"}, Data: fixedData(), NestedShort: true,
					Comps: []Comp{{Name: name, Dir: dir, Req: []Req{{":required", "va1"}}, FM: map[string]vals.V{"vb2": vals.Str("fm2")}}, {Name: "BoxB", Dir: "common"}}}
				inc := Inc{Comp: 0, Props: []Prop{{Name: "vb2", Mode: "bind", Path: "d0"}}}
				if provided {
					inc.Props = append(inc.Props, Prop{Name: "va1", Mode: "static", Text: "L"})
				}
				if nested {
					c.Comps[1].Incs = []Inc{inc}
					c.Comps[0], c.Comps[1] = c.Comps[1], c.Comps[0]
					c.Comps[0].Incs[0].Comp = 1
					c.Page = []Inc{{Comp: 0}}
				} else {
					c.Page = []Inc{inc}
				}
				n++
				if !yield(c) {
					return n
				}
			}
		}
	}
	return n
}

// enumBraces: a plain interpolated prop with stray braces before / after its mustache, in every
// combination, x includer collision x nesting; every well-formed mustache is interpolated.
func enumBraces(yield func(Case) bool) int {
	n := 0
	for _, pre := range append([]string{""}, strayPre...) {
		for _, post := range strayPost {
			for z := 0; z < 4; z++ {
				inData, nested := z&1 != 0, z&2 != 0
				c := Case{Names: []string{"va1", "vb2"}, Print: []string{"d1"}, Data: fixedData(), NestedShort: true,
					Comps: []Comp{{Name: "CardA", Wrap: z%2 == 0, Req: []Req{{":required", "va1"}}}, {Name: "BoxB", Dir: "core"}}}
				if inData {
					c.Data["va1"] = vals.Str("incl")
				}
				inc := Inc{Comp: 0, Props: []Prop{{Name: "va1", Mode: "interp", Text: pre, Path: "d1", Post: post}, {Name: "vb2", Mode: "interp", Text: pre, Path: "d2", Post: "q"}}}
				if nested {
					c.Comps[1].Incs = []Inc{inc}
					c.Comps[0], c.Comps[1] = c.Comps[1], c.Comps[0]
					c.Comps[0].Incs[0].Comp = 1
					c.Page = []Inc{{Comp: 0}}
				} else {
					c.Page = []Inc{inc}
				}
				n++
				if !yield(c) {
					return n
				}
			}
		}
	}
	return n
}

// enumBlanks: static and interpolated props with leading / trailing / inner runs of blanks, tabs
// and newlines arrive exactly as written, in both spellings (read through an attribute, <pre>
// and text), x includer collision x nesting / inside v-for.
func enumBlanks(yield func(Case) bool) int {
	n := 0
	type pv struct{ text, post string }
	var list []pv
	for _, b := range blankTexts {
		list = append(list, pv{b, "\x00"})
	}
	for i, pre := range append([]string{""}, blankPre...) {
		list = append(list, pv{pre, blankPost[i%len(blankPost)]}, pv{pre, ""})
	}
	for _, v := range list {
		for z := 0; z < 8; z++ {
			inData, nested, loop := z&1 != 0, z&2 != 0, z&4 != 0
			c := Case{Names: []string{"va1", "vb2"}, Print: []string{"d1"}, Data: placeData(true), NestedShort: true,
				Comps: []Comp{{Name: "CardA", Wrap: z%2 == 0, EOL: []string{"", "crlf"}[z/4]}, {Name: "BoxB", Dir: "ui", EOL: []string{"crlf", ""}[z/4]}}}
			if inData {
				c.Data["va1"] = vals.Str(" incl ")
			}
			p := Prop{Name: "va1", Mode: "static", Text: v.text}
			if v.post != "\x00" {
				p = Prop{Name: "va1", Mode: "interp", Text: v.text, Path: "d1", Post: v.post}
			}
			inc := Inc{Comp: 0, Props: []Prop{p, {Name: "vb2", Mode: "static", Text: "x"}}}
			if loop {
				inc.Place = &Place{Kind: "loop"}
			}
			if nested {
				c.Comps[1].Incs = []Inc{inc}
				c.Comps[0], c.Comps[1] = c.Comps[1], c.Comps[0]
				c.Comps[0].Incs[0].Comp = 1
				c.Page = []Inc{{Comp: 0}}
			} else {
				c.Page = []Inc{inc}
			}
			n++
			if !yield(c) {
				return n
			}
		}
	}
	return n
}

// enumLiteral: a bound prop holding a literal (true, false, numbers, quoted strings) x :p / v-bind:p
// x includer collision x front-matter of another name x required.
func enumLiteral(yield func(Case) bool) int {
	n := 0
	for _, lit := range boundLiterals {
		for _, mode := range []string{"bind", "vbind"} {
			for z := 0; z < 8; z++ {
				inData, isReq, nested := z&1 != 0, z&2 != 0, z&4 != 0
				c := Case{Names: []string{"va1", "vb2"}, Print: []string{"d1"}, Data: fixedData(), NestedShort: true,
					Comps: []Comp{{Name: "CardA", Wrap: z%2 == 0, FM: map[string]vals.V{"vb2": vals.Str("fm2")}}, {Name: "BoxB"}}}
				if inData {
					c.Data["va1"] = vals.Str("incl")
				}
				if isReq {
					c.Comps[0].Req = []Req{{":required", "va1"}}
				}
				inc := Inc{Comp: 0, Props: []Prop{{Name: "va1", Mode: mode, Path: lit}}}
				if nested {
					c.Comps[1].Incs = []Inc{inc}
					c.Comps[0], c.Comps[1] = c.Comps[1], c.Comps[0]
					c.Comps[0].Incs[0].Comp = 1
					c.Page = []Inc{{Comp: 0}}
				} else {
					c.Page = []Inc{inc}
				}
				n++
				if !yield(c) {
					return n
				}
			}
		}
	}
	return n
}

// enumDash: a front-matter value with a run of dashes inside a line (plain scalar, quoted string,
// list item; JSON or plain YAML style; LF / CRLF) is followed by further keys that must still
// override a prop and an includer variable.
func enumDash(yield func(Case) bool) int {
	n := 0
	var values []vals.V
	for _, d := range dashTexts {
		values = append(values, vals.Str(d))
	}
	values = append(values, vals.List("[]any", vals.Str("a---b"), vals.Str("c")), vals.List("[]any", vals.Str("x"), vals.Str("-----"), vals.Str("Specials --- today")))
	for _, v := range values {
		for _, style := range []string{"", "plain"} {
			for z := 0; z < 8; z++ {
				inData, crlf, nested := z&1 != 0, z&2 != 0, z&4 != 0
				c := Case{Names: []string{"va1", "vb2", "vc3"}, Print: []string{"d1"}, Data: fixedData(), NestedShort: true,
					Comps: []Comp{{Name: "CardA", Wrap: z%2 == 0, FMStyle: style, FM: map[string]vals.V{"va1": v, "vb2": vals.Str("later key"), "vc3": vals.Int(3)},
						Req: []Req{{":required", "vb2, vc3"}}}, {Name: "BoxB", Dir: "posts"}}}
				if crlf {
					c.Comps[0].EOL = "crlf"
				}
				if inData {
					c.Data["vb2"] = vals.Str("incl")
				}
				inc := Inc{Comp: 0, Props: []Prop{{Name: "vb2", Mode: "static", Text: "prop2"}, {Name: "vc3", Mode: "bind", Path: "d0"}, {Name: "va1", Mode: "static", Text: "prop1"}}}
				if nested {
					c.Comps[1].Incs = []Inc{inc}
					c.Comps[0], c.Comps[1] = c.Comps[1], c.Comps[0]
					c.Comps[0].Incs[0].Comp = 1
					c.Page = []Inc{{Comp: 0}}
				} else {
					c.Page = []Inc{inc, {Comp: 0}}
				}
				n++
				if !yield(c) {
					return n
				}
			}
		}
	}
	return n
}

// enumRoot: the page data arrive as map[string]string, map[string][]string, a struct with an
// embedded struct or a pointer to a struct with an embedded pointer, through the Template API,
// Vue.Render and Vue.RenderFragment; a component (directly or one level down) requires nothing, a
// name only the root data supply, such a name plus a prop, or a name nobody supplies.
func enumRoot(yield func(Case) bool) int {
	n := 0
	type shape struct {
		root  string
		data  map[string]vals.V
		names []string // supplied by the root
	}
	ls := func(x ...string) vals.V {
		var l []vals.V
		for _, e := range x {
			l = append(l, vals.Str(e))
		}
		return vals.List("[]string", l...)
	}
	st := func() map[string]vals.V {
		return map[string]vals.V{"author": vals.Str("ann"), "Count": vals.Int(3), "title": vals.Str("T"), "Tags": ls("a", "b")}
	}
	shapes := []shape{
		{"mapss", map[string]vals.V{"author": vals.Str("ann"), "title": vals.Str("T"), "vb2": vals.Str("incl")}, []string{"author", "title"}},
		{"mapsl", map[string]vals.V{"Tags": ls("a"), "author": ls("x", "y"), "vb2": ls("v")}, []string{"Tags", "author"}},
		{"embed", st(), []string{"author", "Count", "title", "Tags"}},
		{"embedptr", st(), []string{"title", "Tags", "author", "Count"}},
	}
	for _, sh := range shapes {
		for _, entry := range []string{"", "vue-render", "vue-fragment"} {
			for reqKind := 0; reqKind < 4; reqKind++ {
				for z := 0; z < 4; z++ {
					withProp, nested := z&1 != 0, z&2 != 0
					c := Case{Names: append([]string{"va1", "vb2"}, sh.names...), Data: sh.data, Entry: entry, Root: sh.root, NestedShort: true,
						Comps: []Comp{{Name: "CardA", Wrap: true}, {Name: "BoxB", Dir: "common"}}}
					switch reqKind {
					case 1:
						c.Comps[0].Req = []Req{{":required", sh.names[0]}}
					case 2:
						c.Comps[0].Req = []Req{{":require", sh.names[1]}, {":required", "va1"}}
					case 3:
						c.Comps[0].Req = []Req{{":required", sh.names[0] + ", Nope"}}
					}
					inc := Inc{Comp: 0}
					if withProp || reqKind == 2 {
						inc.Props = []Prop{{Name: "va1", Mode: "static", Text: "st"}}
					}
					if withProp {
						inc.Props = append(inc.Props, Prop{Name: "vb2", Mode: "bind", Path: sh.names[0]})
					}
					if nested {
						c.Comps[1].Incs = []Inc{inc}
						c.Comps[0], c.Comps[1] = c.Comps[1], c.Comps[0]
						c.Comps[0].Incs[0].Comp = 1
						c.Page = []Inc{{Comp: 0}}
					} else {
						c.Page = []Inc{inc}
					}
					n++
					if !yield(c) {
						return n
					}
				}
			}
		}
	}
	return n
}

// enumUni: component files with non-ASCII names x a non-ASCII name as static / bound prop,
// front-matter key or nothing x required (present and missing) x nesting; values multi-byte.
func enumUni(yield func(Case) bool) int {
	n := 0
	for ci, cn := range uniCompNames {
		for ni, un := range uniNames {
			for z := 0; z < 16; z++ {
				mode, isReq, nested := z&3, z&4 != 0, z&8 != 0
				c := Case{Names: []string{"va1", un}, Print: []string{"d1"}, Data: fixedData(), NestedShort: true,
					Comps: []Comp{{Name: cn, Wrap: z%2 == 0}, {Name: "BoxB", Dir: "ui"}}}
				c.Data["d1"] = vals.Str(uniTexts[(ci+ni)%len(uniTexts)])
				if isReq {
					c.Comps[0].Req = []Req{{":required", "va1, " + un}}
				}
				inc := Inc{Comp: 0, Props: []Prop{{Name: "va1", Mode: "static", Text: uniTexts[ni%len(uniTexts)]}}}
				switch mode {
				case 1:
					inc.Props = append(inc.Props, Prop{Name: un, Mode: "static", Text: uniTexts[ci%len(uniTexts)]})
				case 2:
					inc.Props = append(inc.Props, Prop{Name: un, Mode: []string{"bind", "vbind"}[ni%2], Path: "d1"})
				case 3:
					c.Comps[0].FM = map[string]vals.V{un: vals.Str(uniTexts[(ci+1)%len(uniTexts)])}
				}
				if nested {
					c.Comps[1].Incs = []Inc{inc}
					c.Comps[0], c.Comps[1] = c.Comps[1], c.Comps[0]
					c.Comps[0].Incs[0].Comp = 1
					c.Page = []Inc{{Comp: 0}}
				} else {
					c.Page = []Inc{inc}
				}
				n++
				if !yield(c) {
					return n
				}
			}
		}
	}
	return n
}

// ---------------------------------------------------------------------------------------------
// Tests
// ---------------------------------------------------------------------------------------------

func replay(kind string, raw json.RawMessage) error {
	if kind == compose.Kind {
		return compose.Replay(raw)
	}
	return run.Decode(raw, check)
}

func TestProp(t *testing.T) {
	rec := ev.New(prop)
	defer run.Finish(t, rec)
	run.Witnesses(rec, prop, replay)
	// cross-feature compositions checked against the shared reference interpreter
	compose.Family(t, rec, "include", "prop", "shorthand", "collision")
	known := kf.Load()

	shard, shards := run.Shard()
	i := 0
	mine := func() bool { i++; return i%shards == shard }
	each := func(kind string) func(Case) bool {
		return func(c Case) bool {
			if !mine() {
				return true
			}
			if known.Open(kfNested) {
				c.NestedShort = false
			}
			// entry point, registration and processor dimensions rotate over every family
			if c.Entry == "" && c.Root == "" {
				c.Entry = entries[i%len(entries)]
			}
			c.Reg = []string{"", "manual", "both"}[(i/len(entries))%3]
			c.Quote = []string{"", "single", ""}[(i/2)%3]
			c.Upper = (i/3)%4 == 1
			c.Lines = (i/5)%4 == 2
			if i%4 == 1 {
				c.Proc = []string{"with", "register"}[(i/4)%2]
			}
			// after-failure dimension: every third enumerated case in quick, every case in thorough
			if every := run.Pick(3, 1); i%every == 0 {
				c.After = afterKinds[(i/every)%len(afterKinds)]
			}
			if known.Open(kfBraces) {
				for k, nb := 0, avoidBraces(&c); k < nb; k++ {
					rec.Excluded(kfBraces)
				}
			}
			if known.Open(kfLiteral) {
				for k, nb := 0, avoidLiterals(&c); k < nb; k++ {
					rec.Excluded(kfLiteral)
				}
			}
			nt, cls := classify(c)
			return run.Each(rec, kind, c, nt, cls, check)
		}
	}
	full := true
	n1, t1 := enumFlat(run.Pick(2, 3), each("enum-flat"))
	full = full && n1 == t1
	// the two largest cores run in full in the thorough tier, every second case of them in quick
	half := func(f func(Case) bool) func(Case) bool {
		k := 0
		return func(c Case) bool {
			k++
			if !run.Thorough() && k%2 == 0 {
				return true
			}
			return f(c)
		}
	}
	n2 := enumTwice(half(each("enum-twice")))
	full = full && n2 == 2500
	n3 := enumChain(half(each("enum-chain")))
	n4, skipped := enumTypes(!known.Open(kfFalsy), each("enum-types"))
	n5 := enumPlace(half(each("enum-place")))
	n6 := enumPool(each("enum-pool"))
	n7 := enumCase(each("enum-case"))
	n8 := enumFMZero(each("enum-fmzero"))
	n9 := enumJSONTpl(each("enum-jsontpl"))
	n10 := enumSpell(each("enum-spell"))
	n11 := enumFill(each("enum-fill"))
	n12 := enumDirs(each("enum-dirs"))
	n13 := enumBraces(each("enum-braces"))
	n14 := enumBlanks(each("enum-blanks"))
	n15 := enumLiteral(each("enum-literal"))
	n16 := enumDash(each("enum-dash"))
	n17 := enumRoot(each("enum-root"))
	n18 := enumUni(each("enum-uni"))
	if shard == 0 {
		for k := 0; k < skipped; k++ {
			rec.Excluded(kfFalsy)
		}
		if known.Open(kfNested) {
			for k := 0; k < n3; k++ {
				rec.Excluded(kfNested)
			}
		}
	}
	if full && !rec.Failed() {
		rec.Exhaustive(run.Pick("quick tier: every second case of twice / chain / place; ", "") + fmt.Sprintf("flat: %d names x {5 prop modes x front-matter x includer x required} (%d); twice: same component twice, 5^4 prop modes x front-matter x includer (%d); chain: depth-3 chain, one name, 10 states per level x includer x leaf required (%d); types: 33 values (16 of them texts starting with [ or { that are not JSON) x 5 modes x 4 collisions + 7 JSON documents as static props (%d); place: 43 placements (loop, slot content, chain member, inside svg / math / table) x 6 ways of passing va1 x front-matter x includer x required (%d); pool: component with 9..12 bindings followed by loop / slot placements, twice (%d); case: 5 names with upper-case letters x front-matter x includer x 4 :required spellings (%d); fmzero: 10 null / zero-ish front-matter values x 5 prop modes x includer x root template x nesting (%d); jsontpl: 8 JSON literals with 0..2 mustaches x 3 sources x includer x front-matter x nesting (%d); spell: LF/CRLF x fence blanks x prop mode (null spelling rotating) x includer x root template x page CRLF (%d); fill: 3 slot kinds (binding nothing) x 7 sets of slot templates declaring colliding variables x 4 prop modes x includer x root template x nesting (%d); dirs: 17 component folders x 3 file names x required prop provided or not x nesting (%d); braces: 6 texts before x 6 texts after a mustache (stray }} and {{) x includer x nesting (%d); blanks: 20 static / interpolated prop values with leading, trailing, inner blanks, tabs, newlines x includer x nesting x v-for (%d); literal: 9 literals in bound props x : / v-bind: x includer x required x nesting (%d, rewritten to variable paths while C05-literal-bound-prop-dropped is open)", run.Pick(2, 3), n1, n2, n3, n4, n5, n6, n7, n8, n9, n10, n11, n12, n13, n14, n15) + fmt.Sprintf("; dash: 9 front-matter values with dash runs x JSON / plain YAML x includer x CRLF x nesting (%d); root: 4 typed root data shapes x 3 entry points x 4 :required lists x prop x nesting (%d); uni: 5 non-ASCII component file names x 4 non-ASCII names x static / bound / front-matter / absent x required x nesting (%d)", n16, n17, n18))
	}

	run.Rapid(t, rec, "random", genCase(rec, known), classify, check)
}

func TestReplay(t *testing.T) { run.ReplayMain(t, prop, replay) }
