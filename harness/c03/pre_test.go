package c03

// Chains inside <pre>, where white-space-only text is content. The content of the <pre> element
// is compared exactly: every text run character for character, every marked element in place.
// Only the white space BETWEEN the members of one chain is left unasserted (it belongs to
// neither a branch nor the siblings around the chain): it is written as form feeds, which are
// removed from the observed content before comparing and never used anywhere else.

import (
	"fmt"
	"strings"

	"verif/internal/hx"
	"verif/internal/vals"
)

// PreItem is one child of the <pre> (or of a <template> member / the loop element inside it).
//
//	ws / text: S verbatim;  el: <b data-m=M>tM</b>
//	if / elif / else: a chain member: the same element carrying the directive, or with Tmpl a
//	<template> wrapper around Kids (white-space-only text at both ends included)
type PreItem struct {
	Kind string    `json:"kind"`
	S    string    `json:"s,omitempty"`
	M    string    `json:"m,omitempty"`
	Cond string    `json:"cond,omitempty"`
	Tmpl bool      `json:"tmpl,omitempty"`
	Kids []PreItem `json:"kids,omitempty"`
}

// PreCase is <pre data-m="P">k ITEMS z</pre>; with Loop the items sit in
// <span data-m="L" v-for="it1 in rows"> inside the <pre> and the conditions read it1.<var>.
type PreCase struct {
	Items []PreItem           `json:"items"`
	Vars  map[string]vals.V   `json:"vars,omitempty"`
	Rows  []map[string]vals.V `json:"rows,omitempty"`
	Loop  bool                `json:"loop,omitempty"`
	Entry string              `json:"entry,omitempty"`
}

const betweenWS = "\f" // white space between chain members: unasserted, see above

func preDirective(it *PreItem) string {
	switch it.Kind {
	case "if":
		return ` v-if="` + it.Cond + `"`
	case "elif":
		return ` v-else-if="` + it.Cond + `"`
	case "else":
		return ` v-else`
	}
	return ""
}

func writePre(sb *strings.Builder, items []PreItem) {
	for i := range items {
		it := &items[i]
		switch {
		case it.Kind == "ws" || it.Kind == "text":
			sb.WriteString(it.S)
		case it.Tmpl:
			sb.WriteString(`<template` + preDirective(it) + `>`)
			writePre(sb, it.Kids)
			sb.WriteString(`</template>`)
		default:
			fmt.Fprintf(sb, `<b data-m="%s"%s>t%s</b>`, it.M, preDirective(it), it.M)
		}
	}
}

func (c *PreCase) source() string {
	var sb strings.Builder
	sb.WriteString(`<pre data-m="P">k`)
	if c.Loop {
		sb.WriteString(`<span data-m="L" v-for="it1 in rows">`)
	}
	writePre(&sb, c.Items)
	if c.Loop {
		sb.WriteString(`</span>`)
	}
	sb.WriteString(`z</pre>`)
	return sb.String()
}

type preStats struct {
	chains, nothing, tmplChosen, wsAfterEmpty, wsInsideTmpl, adjacent int
	wsKinds                                                           map[string]bool
}

func isPreMember(k string) bool { return k == "elif" || k == "else" }

// expectPre predicts the exact content for one scope (vars: the values the conditions read).
func expectPre(items []PreItem, vars map[string]vals.V, st *preStats) string {
	var sb strings.Builder
	truthy := func(cond string) bool {
		if i := strings.IndexByte(cond, '.'); i >= 0 {
			cond = cond[i+1:]
		}
		v, ok := vars[cond]
		if !ok {
			return false
		}
		t, _ := valTruthy(v)
		return t
	}
	flat := func(it *PreItem) string {
		if it.Tmpl {
			st.tmplChosen++
			if len(it.Kids) > 0 && (it.Kids[0].Kind == "ws" || it.Kids[len(it.Kids)-1].Kind == "ws") {
				st.wsInsideTmpl++
			}
			return expectPre(it.Kids, vars, st)
		}
		return "<" + it.M + ">t" + it.M + "</" + it.M + ">"
	}
	prevEmptyChain, prevChain := false, false
	for i := 0; i < len(items); i++ {
		it := &items[i]
		switch it.Kind {
		case "ws", "text":
			if it.Kind == "ws" {
				st.wsKinds[it.S] = true
				if prevEmptyChain {
					st.wsAfterEmpty++
				}
			}
			sb.WriteString(it.S)
			prevEmptyChain = false
			// a chain directly after this white space still counts as adjacent to the previous one
			continue
		case "el":
			sb.WriteString(flat(it))
		case "if":
			st.chains++
			if prevChain {
				st.adjacent++
			}
			// members: following elif / else items, white space between them belongs to the chain
			end := i
			for j := i + 1; j < len(items); j++ {
				if items[j].Kind == "ws" && items[j].S == betweenWS && j+1 < len(items) && isPreMember(items[j+1].Kind) {
					continue
				}
				if !isPreMember(items[j].Kind) {
					break
				}
				end = j
				if items[j].Kind == "else" {
					break
				}
			}
			chosen := false
			for j := i; j <= end; j++ {
				m := &items[j]
				if m.Kind == "ws" {
					continue
				}
				if m.Kind == "else" || truthy(m.Cond) {
					sb.WriteString(flat(m))
					chosen = true
					break
				}
			}
			if !chosen {
				st.nothing++
			}
			i = end
			prevEmptyChain, prevChain = !chosen, true
			continue
		default:
			panic("c03: pre item kind " + it.Kind)
		}
		prevEmptyChain, prevChain = false, false
	}
	return sb.String()
}

func expectPreCase(c *PreCase) (string, *preStats) {
	st := &preStats{wsKinds: map[string]bool{}}
	var sb strings.Builder
	sb.WriteString("k")
	if c.Loop {
		for _, row := range c.Rows {
			sb.WriteString("<L>" + expectPre(c.Items, row, st) + "</L>")
		}
	} else {
		sb.WriteString(expectPre(c.Items, c.Vars, st))
	}
	sb.WriteString("z")
	return sb.String(), st
}

// flattenPre renders the observed children of the <pre> in the same notation.
func flattenPre(kids []*hx.N) string {
	var sb strings.Builder
	for _, n := range kids {
		switch {
		case n.Tag == "":
			sb.WriteString(n.Text)
		case n.Attrs["data-m"] != "":
			id := n.Attrs["data-m"]
			sb.WriteString("<" + id + ">" + flattenPre(n.Kids) + "</" + id + ">")
		default:
			sb.WriteString("<?" + n.Tag + ">" + flattenPre(n.Kids) + "</?>")
		}
	}
	return sb.String()
}

func checkPre(c PreCase) error {
	want, _ := expectPreCase(&c)
	src := c.source()
	data := map[string]any{}
	for k, v := range c.Vars {
		if v.K != "missing" {
			data[k] = valGo(v)
		}
	}
	if c.Loop {
		rows := make([]any, len(c.Rows))
		for i, r := range c.Rows {
			m := map[string]any{}
			for k, v := range r {
				if v.K != "missing" {
					m[k] = valGo(v)
				}
			}
			rows[i] = m
		}
		data["rows"] = rows
	}
	out, err := render(src, data, c.Entry)
	if err != nil {
		return fmt.Errorf("render failed: %v\ntemplate %q", err, src)
	}
	forest, err := hx.Frag(out, hx.Collapse)
	if err != nil {
		return fmt.Errorf("output does not parse: %v", err)
	}
	pres := hx.Find(forest, func(n *hx.N) bool { return n.Tag == "pre" && n.Attrs["data-m"] == "P" })
	if len(pres) != 1 {
		return fmt.Errorf("the <pre> element was rendered %d times\ntemplate %q\noutput %q", len(pres), src, out)
	}
	got := strings.ReplaceAll(flattenPre(pres[0].Kids), betweenWS, "")
	if got != want {
		return fmt.Errorf("content of <pre> differs (white space is content there)\nwant %q\ngot  %q\ntemplate %q\nvars %v rows %v\noutput %q", want, got, src, c.Vars, c.Rows, out)
	}
	return nil
}

func classifyPre(c PreCase) (bool, []string) {
	_, st := expectPreCase(&c)
	cls := []string{"pre:chain-in-pre"}
	add := func(ok bool, s string) {
		if ok {
			cls = append(cls, s)
		}
	}
	add(st.nothing > 0, "pre:chain-renders-nothing")
	add(st.wsAfterEmpty > 0, "pre:whitespace-directly-after-empty-chain")
	add(st.tmplChosen > 0, "pre:template-member-chosen")
	add(st.wsInsideTmpl > 0, "pre:whitespace-at-the-ends-inside-chosen-template")
	add(st.adjacent > 0, "pre:adjacent-chains")
	add(c.Loop, "pre:in-v-for")
	for w := range st.wsKinds {
		switch {
		case w == " ":
			add(true, "pre:ws=blank")
		case w == "\n":
			add(true, "pre:ws=newline")
		case w == "\t":
			add(true, "pre:ws=tab")
		case w != betweenWS:
			add(true, "pre:ws=run")
		}
	}
	return st.chains > 0, sortedCopy(cls)
}

// enumPre yields chains inside <pre>: shapes (0..1 v-else-if, optional v-else) x all assignments
// x members {all elements, all <template> wrappers, first / last member a wrapper} x the
// white-space kind W {blank, newline, tab, run} used before the chain, after it, between two
// adjacent chains and at both ends (and between the elements) inside the wrappers x {plain,
// second chain adjacent} x {directly in the <pre>, in a v-for inside it}.
func enumPre(yield func(PreCase) bool) {
	ws := func(s string) PreItem { return PreItem{Kind: "ws", S: s} }
	idx := 0
	for nElif := 0; nElif <= 1; nElif++ {
		for _, hasElse := range []bool{false, true} {
			n := 1 + nElif
			for assign := 0; assign < 1<<n; assign++ {
				for tm := 0; tm < 4; tm++ {
					for _, w := range []string{" ", "\n", "\t", " \n\t  "} {
						for _, adjacent := range []bool{false, true} {
							for _, loop := range []bool{false, true} {
								ref := func(v string) string {
									if loop {
										return "it1." + v
									}
									return v
								}
								member := func(kind, m, cond string, tmpl bool) PreItem {
									it := PreItem{Kind: kind, M: m, Cond: cond, Tmpl: tmpl}
									if tmpl {
										it.Kids = []PreItem{ws(w), {Kind: "el", M: m + "a"}, ws(w), {Kind: "el", M: m + "b"}, ws(w)}
									}
									return it
								}
								var chain []PreItem
								nm := n
								if hasElse {
									nm++
								}
								isT := func(k int) bool {
									switch tm {
									case 1:
										return true
									case 2:
										return k == 0
									case 3:
										return k == nm-1
									}
									return false
								}
								for k := 0; k < n; k++ {
									kind := "elif"
									if k == 0 {
										kind = "if"
									}
									if k > 0 {
										chain = append(chain, ws(betweenWS))
									}
									chain = append(chain, member(kind, fmt.Sprintf("m%d", k), ref(condNames[k]), isT(k)))
								}
								if hasElse {
									chain = append(chain, ws(betweenWS), member("else", "me", "", isT(nm-1)))
								}
								items := []PreItem{ws(w)}
								items = append(items, chain...)
								items = append(items, ws(w))
								vars := map[string]vals.V{}
								next := map[string]vals.V{}
								for k := 0; k < n; k++ {
									vars[condNames[k]] = vals.Bool(assign&(1<<k) != 0)
									next[condNames[k]] = vals.Bool((assign+1)&(1<<k) != 0)
								}
								if adjacent {
									// a second chain directly behind the separator: if(cg) / else-less
									items = append(items, PreItem{Kind: "if", M: "n0", Cond: ref("cg")}, ws(w))
									vars["cg"], next["cg"] = vals.Bool(assign%2 == 0), vals.Bool(assign%2 != 0)
								}
								items = append(items, PreItem{Kind: "el", M: "x"}, ws(w), PreItem{Kind: "text", S: "end"})
								c := PreCase{Items: items, Loop: loop}
								if loop {
									c.Rows = []map[string]vals.V{vars, next}
								} else {
									c.Vars = vars
								}
								idx++
								if idx%2 == 0 {
									c.Entry = "file"
								}
								if !yield(c) {
									return
								}
							}
						}
					}
				}
			}
		}
	}
}
