package c03

// Values of named (defined) types: the documented truthiness rule speaks of false, zero, "" and
// nil, not of Go's predeclared types, so a value whose type is declared as `type Flag bool` or
// `type Name string` is falsy exactly when the underlying value is. vals.V has no kinds for
// them (shared package), so they are described here: K is the type name, S the underlying value.

import (
	"strconv"
	"time"

	"verif/internal/vals"
)

type (
	Flag  bool
	Name  string
	Qty   int
	Ratio float32
)

func named(k, s string) vals.V { return vals.V{K: k, S: s} }

// namedValues is the part of the truthiness table that holds named types and pointers to them.
var namedValues = []vals.V{
	named("Flag", "false"), named("Flag", "true"),
	named("Name", ""), named("Name", "false"), named("Name", "x"),
	named("Qty", "0"), named("Qty", "3"),
	named("Ratio", "0"), named("Ratio", "0.5"),
	named("Duration", "0"), named("Duration", "5"),
	named("*Flag", "false"), named("*Name", ""), named("*Qty", "0"), named("*Duration", "0"),
}

// valGo builds the typed Go value of a description, named kinds included.
func valGo(v vals.V) any {
	switch v.K {
	case "Flag":
		return Flag(v.S == "true")
	case "Name":
		return Name(v.S)
	case "Qty":
		n, _ := strconv.Atoi(v.S)
		return Qty(n)
	case "Ratio":
		f, _ := strconv.ParseFloat(v.S, 32)
		return Ratio(f)
	case "Duration":
		n, _ := strconv.Atoi(v.S)
		return time.Duration(n)
	case "*Flag":
		x := Flag(v.S == "true")
		return &x
	case "*Name":
		x := Name(v.S)
		return &x
	case "*Qty":
		n, _ := strconv.Atoi(v.S)
		x := Qty(n)
		return &x
	case "*Duration":
		n, _ := strconv.Atoi(v.S)
		x := time.Duration(n)
		return &x
	}
	return v.Go()
}

// valTruthy is vals.V.Truthy extended to the named kinds: the truthiness of the underlying value;
// a non-nil pointer is truthy like the pointers of the shared table; Name("false") is left open
// like the string "false".
func valTruthy(v vals.V) (truthy, specified bool) {
	switch v.K {
	case "Flag":
		return v.S == "true", true
	case "Name":
		if v.S == "false" {
			return false, false
		}
		return v.S != "", true
	case "Qty", "Duration":
		return v.S != "0", true
	case "Ratio":
		f, _ := strconv.ParseFloat(v.S, 32)
		return f != 0, true
	case "*Flag", "*Name", "*Qty", "*Duration":
		return true, true
	}
	return v.Truthy()
}

// namedZeroRegion is the region of finding C03-named-bool-string-zero-truthy.
func namedZeroRegion(v vals.V) bool {
	return (v.K == "Flag" && v.S != "true") || (v.K == "Name" && v.S == "")
}

// namedZeroOpen is set by TestProp from the known findings: generators then stay out of the region.
var namedZeroOpen bool
