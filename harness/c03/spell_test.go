package c03

// Spelling dimension: one chain (v-if / v-else-if / v-else) plus a v-show / :class / :data-x
// probe, the two conditions written in documented-equivalent spellings and the chain marked up
// in equivalent ways. The expectation depends on the two booleans a and b only, never on the
// spelling.
//
// Data (for a; the same with suffix 2 for b): role = "admin" | "guest", n = 3 | 0, a = the bool,
// na = its negation, obj = {k: a}, items = [a], tt = true, ff = false.

import (
	"fmt"
	"sort"
	"strings"

	"verif/internal/hx"
)

// SpellCase is one combination; Spell / Spell2 name the spelling of the first / second condition.
type SpellCase struct {
	Markup string `json:"markup"`
	Spell  string `json:"spell"`
	Spell2 string `json:"spell2"`
	A      bool   `json:"a"`
	B      bool   `json:"b"`
	Entry  string `json:"entry,omitempty"`
}

// spellings: name -> condition text that holds exactly when a is true. {x} stands for the
// variable x of the first condition (x2 in the second).
var spellings = map[string]string{
	// == / != and their JS spellings === / !== (docs/expressions.md, docs/api.md), 1..4 occurrences
	"eq":          `{role} == 'admin'`,
	"seq":         `{role} === 'admin'`,
	"eq-compact":  `{role}=='admin'`,
	"seq-compact": `{role}==='admin'`,
	"ne":          `{role} != 'guest'`,
	"sne":         `{role} !== 'guest'`,
	"sne-compact": `{role}!=='guest'`,
	"eq-x2":       `{role} == 'root' || {role} == 'admin'`,
	"seq-x2":      `{role} === 'root' || {role} === 'admin'`,
	"eq-x3":       `{role} == 'root' || {role} == 'owner' || {role} == 'admin'`,
	"seq-x3":      `{role} === 'root' || {role} === 'owner' || {role} === 'admin'`,
	"seq-x4":      `{role} === 'root' || {role} === 'owner' || {role} === 'moderator' || {role} === 'admin'`,
	"ne-x3":       `{role} != 'guest' && {role} != 'anon' && {role} != 'nobody'`,
	"sne-x2":      `{role} !== 'guest' && {role} !== 'anon'`,
	"sne-x3":      `{role} !== 'guest' && {role} !== 'anon' && {role} !== 'nobody'`,
	"sne-x4":      `{role} !== 'guest' && {role} !== 'anon' && {role} !== 'nobody' && {role} !== 'x'`,
	"mixed-x3":    `{role} === 'root' || {role} == 'owner' || ({role} !== 'guest' && {role} !== 'anon')`,
	"seq-first":   `{role} === 'admin' || {role} === 'root' || {role} === 'owner'`,
	// numbers
	"gt":          `{n} > 0`,
	"gt-compact":  `{n}>0`,
	"num-ne":      `{n} != 0`,
	"num-sne":     `{n} !== 0`,
	"num-seq":     `{n} === 3`,
	"num-seq-cpt": `{n}===3`,
	// boolean operators, compact and spaced, negation with and without a blank
	"bool":        `{a}`,
	"and":         `{a} && tt`,
	"and-compact": `{a}&&tt`,
	"or":          `{a} || ff`,
	"or-compact":  `{a}||ff`,
	"not":         `!{na}`,
	"not-spaced":  `! {na}`,
	"not-paren":   `!({na})`,
	// paths: dot, bracket with either quote, index as bracket and as dotted step
	"dot":      `{obj}.k`,
	"br-sq":    `{obj}['k']`,
	"br-dq":    `{obj}["k"]`,
	"index-br": `{items}[0]`,
	"index-dt": `{items}.0`,
	// line breaks inside the condition
	"multiline":     "{role} == 'admin'\n      || {role} == 'root'",
	"multiline-seq": "{role} === 'admin'\n      || {role} === 'root'\n      || {role} === 'owner'",
}

func spellingNames() []string {
	names := make([]string, 0, len(spellings))
	for n := range spellings {
		names = append(names, n)
	}
	sort.Strings(names)
	return names
}

func spellText(name string, second bool) string {
	t := spellings[name]
	suffix := ""
	if second {
		suffix = "2"
	}
	for _, v := range []string{"role", "na", "n", "a", "obj", "items"} {
		t = strings.ReplaceAll(t, "{"+v+"}", v+suffix)
	}
	return t
}

// markups are equivalent ways of writing the chain itself.
var markups = []string{"elements", "attr-order", "templates", "uppercase", "single-quoted", "shorthand", "include"}

// attr writes name="value", in single quotes when the value holds a double quote or the markup
// asks for single quotes.
func spellAttr(name, value string, single bool) string {
	if single || strings.Contains(value, `"`) {
		return name + `='` + strings.ReplaceAll(value, `'`, `"`) + `'`
	}
	return name + `="` + value + `"`
}

func (c *SpellCase) source() string {
	c1, c2 := spellText(c.Spell, false), spellText(c.Spell2, true)
	single := c.Markup == "single-quoted"
	if single {
		// the condition's own quotes become double quotes inside a single-quoted attribute
		c1, c2 = strings.ReplaceAll(c1, `'`, `"`), strings.ReplaceAll(c2, `'`, `"`)
	}
	vif, velif := spellAttr("v-if", c1, single), spellAttr("v-else-if", c2, single)
	var sb strings.Builder
	sb.WriteString(`<p data-m="s0">ts0</p>`)
	switch c.Markup {
	case "attr-order":
		fmt.Fprintf(&sb, `<p %s data-m="m0" class="z">tm0</p><p class="z" %s data-m="m1">tm1</p><p v-else data-m="me">tme</p>`, vif, velif)
	case "templates":
		fmt.Fprintf(&sb, `<template %s><p data-m="m0">tm0</p></template><template %s><p data-m="m1">tm1</p></template><template v-else><p data-m="me">tme</p></template>`, vif, velif)
	case "uppercase":
		up := func(a string) string { i := strings.IndexByte(a, '='); return strings.ToUpper(a[:i]) + a[i:] }
		fmt.Fprintf(&sb, `<DIV DATA-M="m0" %s>tm0</DIV><DIV DATA-M="m1" %s>tm1</DIV><DIV DATA-M="me" V-ELSE>tme</DIV>`, up(vif), up(velif))
	case "shorthand":
		fmt.Fprintf(&sb, `<comp-leaf mk="m0" %s></comp-leaf><comp-leaf mk="m1" %s></comp-leaf><comp-leaf mk="me" v-else></comp-leaf>`, vif, velif)
	case "include":
		fmt.Fprintf(&sb, `<template include="components/CompLeaf.vuego" mk="m0" %s></template><template include="components/CompLeaf.vuego" mk="m1" %s></template><template include="components/CompLeaf.vuego" mk="me" v-else></template>`, vif, velif)
	default: // elements, single-quoted
		fmt.Fprintf(&sb, `<p data-m="m0" %s>tm0</p><p data-m="m1" %s>tm1</p><p data-m="me" v-else>tme</p>`, vif, velif)
	}
	// the other consumers of truthiness read the first condition in the same spelling
	fmt.Fprintf(&sb, `<p data-m="q" %s %s %s>tq</p><p data-m="s1">ts1</p>`,
		spellAttr("v-show", c1, single), spellAttr(":data-x", c1, single), spellAttr(":class", "{k: "+c1+"}", single))
	return sb.String()
}

func spellData(a, b bool) map[string]any {
	d := map[string]any{"tt": true, "ff": false}
	put := func(suffix string, v bool) {
		role, n := "guest", 0
		if v {
			role, n = "admin", 3
		}
		d["role"+suffix], d["n"+suffix], d["a"+suffix], d["na"+suffix] = role, n, v, !v
		d["obj"+suffix], d["items"+suffix] = map[string]any{"k": v}, []any{v}
	}
	put("", a)
	put("2", b)
	return d
}

func checkSpell(c SpellCase) error {
	if _, ok := spellings[c.Spell]; !ok {
		return fmt.Errorf("unknown spelling %q", c.Spell)
	}
	if _, ok := spellings[c.Spell2]; !ok {
		return fmt.Errorf("unknown spelling %q", c.Spell2)
	}
	src := c.source()
	entry := c.Entry
	if (c.Markup == "shorthand" || c.Markup == "include") && entry == "" {
		entry = "byte" // components come from the file system
	}
	out, err := render(src, spellData(c.A, c.B), entry)
	if err != nil {
		return fmt.Errorf("render failed: %v\ntemplate %s\na=%v b=%v door %q", err, src, c.A, c.B, entry)
	}
	forest, err := hx.Frag(out, hx.Collapse)
	if err != nil {
		return fmt.Errorf("output does not parse: %v", err)
	}
	chosen := "me"
	switch {
	case c.A:
		chosen = "m0"
	case c.B:
		chosen = "m1"
	}
	q := "tq+hidden"
	if c.A {
		q = "tq+attr+k"
	}
	want := fmt.Sprintf("s0[ts0] %s[t%s] q[%s] s1[ts1]", chosen, chosen, q)
	if got := outline(observed(forest, nil)); got != want {
		return fmt.Errorf("the spelling changed the outcome\nwant %s\ngot  %s\ntemplate %s\na=%v b=%v door %q\noutput %q", want, got, src, c.A, c.B, entry, out)
	}
	return nil
}

func classifySpell(c SpellCase) (bool, []string) {
	cls := []string{"spell:markup=" + c.Markup, "spell:" + c.Spell}
	if strings.Contains(spellings[c.Spell], "===") || strings.Contains(spellings[c.Spell], "!==") {
		cls = append(cls, fmt.Sprintf("spell:strict-operators-x%d", strings.Count(spellings[c.Spell], "==")))
	}
	return true, cls
}

// enumSpell: every spelling (as first condition, the second one written in the next spelling of
// the list) x {elements, templates} x 4 assignments, and every markup x a handful of spellings
// x 4 assignments; doors in turn.
func enumSpell(yield func(SpellCase) bool) {
	names := spellingNames()
	idx := 0
	emit := func(markup, s1, s2 string) bool {
		for ab := 0; ab < 4; ab++ {
			idx++
			if !yield(SpellCase{Markup: markup, Spell: s1, Spell2: s2, A: ab&1 != 0, B: ab&2 != 0, Entry: entryPoints[idx%len(entryPoints)]}) {
				return false
			}
		}
		return true
	}
	for i, s := range names {
		next := names[(i+1)%len(names)]
		for _, m := range []string{"elements", "templates"} {
			if !emit(m, s, next) {
				return
			}
		}
	}
	for _, m := range markups {
		for _, s := range []string{"eq", "seq-x3", "sne-x2", "not-spaced", "br-dq", "multiline-seq"} {
			if !emit(m, s, "seq-x2") {
				return
			}
		}
	}
}
