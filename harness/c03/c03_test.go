// Package c03 decides C03: among sibling elements forming a v-if / v-else-if / v-else chain
// exactly the first branch whose condition is truthy is rendered (the v-else branch when none is,
// nothing when there is none), exactly once, the siblings around the chain stay unchanged and in
// order; and one value has one truthiness in v-if, v-else-if, v-show, boolean attribute binding
// and :class objects (false, numeric zero of any width, "", nil, undefined falsy; rest truthy).
//
// Oracle: a reference model over the case description (model_test.go) for the chains, the
// documented table (vals.V.Truthy) plus pairwise agreement for the truthiness positions. vuego is
// only asked to render; its output is compared after HTML5 parsing (internal/hx) through the
// data-m marker outline (id, own text, nesting, multiplicity, order).
//
// Deliberately not asserted (docs/syntax.md is silent):
//   - what happens to an orphan v-else / v-else-if itself (only that its neighbours are intact);
//   - non-whitespace text between chain members, two v-else in one chain;
//   - v-if and v-for on the same element when the list is empty or has more than one item and the
//     member is the chain's first (Vue 2 and Vue 3 order the two directives differently; with a
//     one-item list both readings coincide, so that is what is generated); conditions of members
//     carrying v-for never depend on the member's own loop variable;
//   - the truthiness of the string "false", typed-nil pointers/slices/maps and NaN (uniformity only);
//   - the value printed for a bound attribute, leftover directive attributes, whitespace, comments.
package c03

import (
	"bytes"
	"context"
	"encoding/json"
	"errors"
	"fmt"
	"strings"
	"testing"

	"github.com/titpetric/vuego"

	"verif/internal/compose"
	"verif/internal/ev"
	"verif/internal/hx"
	"verif/internal/kf"
	"verif/internal/memfs"
	"verif/internal/run"
	"verif/internal/vals"
)

const prop = "C03"

// known-finding ids (see /verif/findings.d/c03.json)
const (
	fForElse     = "C03-vfor-on-else-member"                 // chosen v-else-if / v-else member carrying v-for renders nothing
	fForIf       = "C03-vfor-on-if-member"                   // falsy v-if member carrying v-for: following v-else-if (and its v-else) dropped
	fForSkip     = "C03-vfor-member-after-chosen-branch"     // v-else-if chosen; a later member with v-for runs as a loop of its own and lets the v-else render too
	fForIfPre    = "C03-vfor-on-if-member-vpre-tail"         // truthy v-if member carrying v-for: a later member with v-pre is emitted too
	fClassNot    = "C03-class-object-negation-no-fallback"   // :class="{k: !x}" has no negation workaround for non-bool / stack-only operands
	fBuiltinVar  = "C03-builtin-named-variable-next-to-call" // a variable named first / last / sum ... next to a template function call is read as the expr-lang built-in
	fClassSne    = "C03-class-object-strict-inequality"      // :class="{k: a !== b}" leaves k out where v-if="a !== b" holds
	fNamedZero   = "C03-named-bool-string-zero-truthy"       // Flag(false) / Name("") of named bool / string types are truthy everywhere
	fAttrOperand = "C03-bound-attr-nonpath-operand-unbound"  // :data-x="l[i]" / "m[key]" / "(x)" binds nothing
	fClassNil    = "C03-class-object-nil-adds-class"         // :class="{k: x}" adds k for nil / undefined x
	fClassStr    = "C03-class-object-string-reparsed"        // :class="{k: x}" drops k for strings like "0", " "
	fShowChain   = "C03-vshow-on-chain-member-ignored"       // v-show on an element that also carries v-if / v-else(-if) is ignored
)

var allFindings = []string{fClassSne, fNamedZero, fAttrOperand, fBuiltinVar, fClassNot, fForElse, fForIf, fForIfPre, fForSkip, fClassNil, fClassStr, fShowChain}

func openFindings() map[string]bool {
	f := kf.Load()
	open := map[string]bool{}
	for _, id := range allFindings {
		open[id] = f.Open(id)
	}
	return open
}

// testFuncs are registered on every engine: boom always fails (the late failure of the
// after-failure dimension), nok negates a bool and fails for the sentinel "ERR".
var testFuncs = vuego.FuncMap{
	"boom": func(v any) (any, error) { return nil, errors.New("boom: injected failure") },
	"nok": func(v any) (bool, error) {
		if v == "ERR" {
			return false, errors.New("nok: no value")
		}
		b, _ := v.(bool)
		return !b, nil
	},
}

// entryPoints are the public doors a page is rendered through; every one must give the same
// result. Inline doors get the page as text (components come from the file system), the others
// read page.vuego.
var entryPoints = []string{"", "file", "byte", "reader", "renderfile", "view", "assign", "vue", "fragment", "nodes"}

func inlineEntry(entry string) bool { return entry == "" || entry == "byte" || entry == "reader" }

// caseFiles is the in-memory file system of a case: the page, the components and extra files
// (a layout) of the case.
func caseFiles(tpl string, extra map[string]string) *memfs.FS {
	files := map[string]string{"page.vuego": tpl, "comp.vuego": componentSource}
	for name, src := range slotComponents {
		files[name] = src
	}
	for name, src := range compFiles {
		files[name] = src
	}
	for name, src := range extra {
		files[name] = src
	}
	return memfs.FromMap(files)
}

// extraFiles is set by check() for the case being rendered (a layout file); renders of one test
// process are sequential.
var extraFiles map[string]string

// newEngine builds a fresh engine; all doors but the plain RenderString one have the file system.
func newEngine(tpl, entry string) vuego.Template {
	if entry == "" && len(extraFiles) == 0 {
		return vuego.New(vuego.WithFuncs(testFuncs))
	}
	return vuego.NewFS(caseFiles(tpl, extraFiles), vuego.WithComponents(), vuego.WithFuncs(testFuncs))
}

// pageOf returns the Template object the real call is made on.
func pageOf(engine vuego.Template, entry string, data any) vuego.Template {
	switch entry {
	case "", "byte", "reader", "renderfile":
		return engine.New().Fill(data)
	case "view":
		return vuego.View(engine, "page.vuego", data)
	case "assign":
		t := engine.Load("page.vuego")
		if m, ok := data.(map[string]any); ok {
			for k, v := range m {
				t = t.Assign(k, v)
			}
			return t
		}
		return t.Fill(data)
	}
	return engine.Load("page.vuego").Fill(data)
}

func renderPage(page vuego.Template, tpl, entry string) (string, error) {
	var b bytes.Buffer
	var err error
	ctx := context.Background()
	switch entry {
	case "":
		err = page.RenderString(ctx, &b, tpl)
	case "byte":
		err = page.RenderByte(ctx, &b, []byte(tpl))
	case "reader":
		err = page.RenderReader(ctx, &b, strings.NewReader(tpl))
	case "renderfile":
		err = page.RenderFile(ctx, &b, "page.vuego")
	default:
		err = page.Render(ctx, &b)
	}
	return b.String(), err
}

// renderVue goes through the Vue type: Render, RenderFragment, and RenderNodes over the nodes a
// Loader reads from the file.
func renderVue(tpl string, data any, entry string) (string, error) {
	fsys := caseFiles(tpl, extraFiles)
	v := vuego.NewVue(fsys).Funcs(testFuncs)
	for name := range compFiles {
		base := strings.TrimSuffix(strings.TrimPrefix(name, "components/Comp"), ".vuego")
		v.RegisterComponent("comp-"+strings.ToLower(base), name)
	}
	var b bytes.Buffer
	var err error
	switch entry {
	case "vue":
		err = v.Render(&b, "page.vuego", data)
	case "fragment":
		err = v.RenderFragment(&b, "page.vuego", data)
	default:
		nodes, lerr := vuego.NewLoader(fsys).LoadFragment("page.vuego")
		if lerr != nil {
			return "", lerr
		}
		err = v.RenderNodes(&b, nodes, data)
	}
	return b.String(), err
}

// render asks vuego for the output of tpl over data through one of its doors, on a fresh engine.
func render(tpl string, data any, entry string) (string, error) {
	if entry == "vue" || entry == "fragment" || entry == "nodes" {
		return renderVue(tpl, data, entry)
	}
	return renderPage(pageOf(newEngine(tpl, entry), entry, data), tpl, entry)
}

// renderAfterFailure is the after-failure dimension: a failing variant of the page (failing, over
// stale data) is rendered first - on another fresh engine ("fresh": process-wide pools), on the
// same engine ("engine": engine caches and marks) or through RenderString on the very Template
// object of the real call ("template": its own stack) - then the real call is made; twice.
func renderAfterFailure(tpl string, data any, entry, after, failing string, stale any, verify func(out string, err error) error) error {
	for rep := 0; rep < 2; rep++ {
		engine := newEngine(tpl, entry)
		var page vuego.Template
		var ferr error
		var sink bytes.Buffer
		switch after {
		case "fresh":
			ferr = newEngine(tpl, entry).New().Fill(stale).RenderString(context.Background(), &sink, failing)
			page = pageOf(engine, entry, data)
		case "engine":
			ferr = engine.New().Fill(stale).RenderString(context.Background(), &sink, failing)
			page = pageOf(engine, entry, data)
		case "template":
			page = pageOf(engine, entry, data)
			ferr = page.RenderString(context.Background(), &sink, failing)
			if rep == 1 {
				page = page.Fill(data) // the second repetition fills the data in again
			}
		default:
			return fmt.Errorf("unknown after-failure variant %q", after)
		}
		if ferr == nil {
			return fmt.Errorf("harness: the failing variant did not fail (it calls boom(), which returns an error): %s", failing)
		}
		if err := verify(renderPage(page, tpl, entry)); err != nil {
			return fmt.Errorf("after a failing render (%s, repetition %d): %w", after, rep+1, err)
		}
	}
	return nil
}

// check renders the case on a fresh engine and compares the marker outline with the model's.
func check(c Case) error {
	want, st := expect(&c)
	if len(st.onceRepeat) > 0 {
		// out of this check's domain: a v-once chain member reached more than once in one render
		// (what the later arrivals render is C16's subject); the generators do not produce it
		return nil
	}
	src := c.source()
	entry := c.Entry
	if hasInclude(c.Nodes) && entry == "" {
		entry = "byte" // includes need a file system: the inline doors of an engine that has one
	}
	if c.Layout != "" && entry != "view" && entry != "assign" && entry != "renderfile" {
		entry = "file" // layouts apply to pages loaded through the Template doors
	}
	if c.After != "" && !inlineEntry(entry) {
		entry = "file" // the after-failure dimension knows the inline and the Load.Fill.Render doors
	}
	extraFiles = c.layoutFiles()
	defer func() { extraFiles = nil }()
	desc := func() string {
		v, _ := json.Marshal(c.Vars)
		l, _ := json.Marshal(c.Lists)
		vl, _ := json.Marshal(c.VLists)
		return fmt.Sprintf("template %s\nvars %s lists %s vlists %s form %q items %q after-failure %q", src, v, l, vl, c.Form, c.Items, c.After)
	}
	verify := func(out string, err error) error {
		if err != nil {
			return fmt.Errorf("render failed: %v\n%s", err, desc())
		}
		forest, err := hx.Frag(out, hx.Collapse)
		if err != nil {
			return fmt.Errorf("output does not parse: %v\n%s", err, desc())
		}
		got := observed(forest, st.ignore)
		if w, g := "ROOT["+st.rootText+"] "+outline(want), "ROOT["+rootText(forest)+"] "+outline(got); w != g {
			return fmt.Errorf("rendered markers differ from the chain model\nwant %s\ngot  %s\n%s\noutput %q", w, g, desc(), out)
		}
		return nil
	}
	if c.After != "" {
		return renderAfterFailure(src, c.data(), entry, c.After, c.failingSource(), c.staleData(), verify)
	}
	return verify(render(src, c.data(), entry))
}

func classify(c Case) (bool, []string) {
	_, st := expect(&c)
	var cls []string
	add := func(ok bool, s string) {
		if ok {
			cls = append(cls, s)
		}
	}
	add(st.chains > 0, fmt.Sprintf("members<=%d", st.maxMembers))
	for k, n := range st.chose {
		add(n > 0, "chose="+k)
	}
	for s := range st.seps {
		add(true, "sep="+map[string]string{"": "none", "w": "ws", "c": "comment", "wcw": "ws+comment+ws"}[s])
	}
	add(st.inLoop, "chain-in-loop")
	add(st.inChain, "chain-in-chain")
	add(st.inLoop && st.inChain, "chain-in-chain-in-loop")
	add(st.tmpl, "template-member")
	add(st.forMember, "member-with-v-for")
	add(st.orphans > 0, "orphan")
	add(st.adjacent, "adjacent-chains")
	add(st.nonBool, "non-bool-condition")
	add(st.negated, "negated-condition")
	add(st.sibBefore, "sibling-before")
	add(st.sibAfter, "sibling-after")
	add(st.loopEmpty, "empty-loop")
	add(st.texts > 0, "text-sibling")
	add(st.itexts > 0, "interpolated-text-sibling")
	add(st.textAfterChain, "text-directly-after-chain")
	add(st.textAfterFalseIf, "text-directly-after-chain-with-falsy-v-if")
	add(c.After != "", "after-failure:"+c.After)
	add(st.guard, "condition-over-failing-function")
	add(c.Form != "", "global-operands:"+c.Form)
	add(c.Items != "" && (st.inLoop || st.slotted > 0), "loop-items:"+c.Items)
	add(st.shadowed, "cond-on-loop-var-shadowing-global")
	add(st.shadowOpp, "shadowed-global-has-opposite-truthiness")
	add(st.shadowNil, "nil-item-shadows-truthy-global")
	add(st.comps > 0, "compact-template-root-component")
	add(st.compShort, "component-as-shorthand-tag")
	for v := range st.compVariants {
		add(true, "component-variant:"+v)
	}
	add(st.slotted > 0, "slot-content-used-k-times")
	add(st.slotChain, "chain-in-slot-content")
	add(st.slotTwice, "slot-used-twice-per-item")
	add(st.preMember, "member-with-v-pre")
	add(st.onceMember, "member-with-v-once")
	add(st.forOnce, "chosen-member-with-v-for-and-v-once")
	add(st.laterDeco, "unchosen-later-member-with-v-pre/v-once/v-for")
	add(st.includes > 0, fmt.Sprintf("include(props<=%d)", st.maxProps))
	add(st.probes > 0, "probe(v-show,:attr,:class)")
	add(st.propCond, "cond-names-undefined-prop")
	add(st.propInLoop && st.includes > 0, "undefined-prop-cond-in-loop-with-include")
	add(true, "entry="+map[bool]string{true: "string", false: c.Entry}[c.Entry == ""])
	add(c.Layout != "", "chain-in-layout:"+c.Layout)
	add(st.ctxs > 0, "chain-in-noscript/list/select/table")
	add(st.depth >= 3, "depth>=3")
	return st.maxMembers >= 2 || st.nonBool, sortedCopy(cls)
}

func sortedCopy(s []string) []string {
	out := append([]string(nil), s...)
	for i := 1; i < len(out); i++ {
		for j := i; j > 0 && out[j] < out[j-1]; j-- {
			out[j], out[j-1] = out[j-1], out[j]
		}
	}
	return out
}

func replay(kind string, raw json.RawMessage) error {
	if kind == compose.Kind {
		return compose.Replay(raw)
	}
	switch kind {
	case "pre":
		return run.Decode(raw, checkPre)
	case "spell":
		return run.Decode(raw, checkSpell)
	case "table", "value", "cache":
		return run.Decode(raw, checkTruth)
	default: // "shape", "slot", "scope", "comp", "after", "place", "nest"
		return run.Decode(raw, check)
	}
}

func TestProp(t *testing.T) {
	rec := ev.New(prop)
	defer run.Finish(t, rec)
	run.Witnesses(rec, prop, replay)
	// cross-feature compositions checked against the shared reference interpreter
	compose.Family(t, rec, "chain", "v-show")
	open := openFindings()
	shard, shards := run.Shard()

	// ---- Family B: the truthiness table, exhaustive over vals.Scalars() + vals.Containers()
	table := append(append(append(vals.Scalars(), vals.Containers()...), extraValues...), namedValues...)
	namedZeroOpen = open[fNamedZero]
	ok := true
	for i, v := range table {
		if i%shards != shard {
			continue
		}
		if open[fNamedZero] && namedZeroRegion(v) {
			rec.Excluded(fNamedZero)
			continue
		}
		c := TruthCase{Val: v, Entry: entryPoints[i%len(entryPoints)]}
		ex := excludedPositions(v, open)
		if !run.Thorough() && v.S == "7" {
			// quick tier: the third sample of every numeric kind runs the plain-name positions only
			for _, p := range positionNames()[basePositionCount:] {
				if _, out := ex[p]; !out {
					ex[p] = ""
				}
			}
		}
		if len(ex) > 0 {
			for _, p := range positionNames() {
				if id, out := ex[p]; out {
					if id != "" {
						rec.Excluded(id)
					}
				} else {
					c.Pos = append(c.Pos, p)
				}
			}
		}
		nt, cls := classifyTruth(c)
		rec.Count("B:position-renders", len(positions)-len(ex))
		if !run.Each(rec, "table", c, nt, cls, checkTruth) {
			ok = false
		}
	}
	if ok {
		rec.Exhaustive(fmt.Sprintf("truthiness table: %d values (every scalar kind and width, strings, nil, missing, pointers, slices, maps, structs, values of named bool / string / int / float32 types and time.Duration and pointers to them) x %d positions (%d on the plain name, up to 8 for each of %d operand forms: paths, promoted fields of embedded structs, a loop variable shadowing a root variable of the opposite truthiness, variables named like template functions, booleans written as === / !== / == / != comparisons)", len(table), len(positions), basePositionCount, len(allForms())))
	}

	// ---- the table again around a page that resolves 300 fresh paths (process-wide path / program caches)
	if run.First() {
		cok := true
		for _, v := range []vals.V{vals.Bool(true), vals.Bool(false), vals.Nil(), vals.Int(0), vals.Str("x"), vals.Str(""), vals.Missing()} {
			c := TruthCase{Val: v, Prelude: 300}
			nt, cls := classifyTruth(c)
			if !run.Each(rec, "cache", c, nt, append(cls, "B:positions-again-after-300-fresh-paths"), checkTruth) {
				cok = false
			}
		}
		if cok {
			rec.Exhaustive("truthiness positions rendered, then a page resolving 300 paths new to the process, then the positions again: 7 values x all positions")
		}
	}

	// ---- Family A: chain shapes x truth assignments x separators x siblings x placements x member decorations
	n, failed := 0, 0
	enumShapes(run.Thorough(), func(c Case) bool {
		n++
		if n%shards != shard {
			return true
		}
		_, st := expect(&c)
		if open[fForElse] && len(st.forElse) > 0 {
			rec.Excluded(fForElse)
			return true
		}
		if open[fForIf] && len(st.forIfElif) > 0 {
			rec.Excluded(fForIf)
			return true
		}
		if open[fForSkip] && len(st.forSkipped) > 0 {
			rec.Excluded(fForSkip)
			return true
		}
		if open[fForIfPre] && len(st.forIfPre) > 0 {
			rec.Excluded(fForIfPre)
			return true
		}
		if len(st.onceRepeat) > 0 {
			// the v-once member is chosen in more than one loop iteration: what happens the second
			// time is C16's subject, not asserted here
			rec.Count("not-generated:v-once-member-chosen-repeatedly(C16)", 1)
			return true
		}
		nt, cls := classify(c)
		if !run.Each(rec, "shape", c, nt, cls, check) {
			failed++
		}
		return failed < 20
	})
	if failed == 0 {
		bound := "0..3 v-else-if"
		if !run.Thorough() {
			bound = "0..2 v-else-if in the full product, 3 v-else-if with siblings on both sides only and without the adjacent-chain / orphan products"
		}
		rec.Exhaustive(fmt.Sprintf("chains: v-if + %s + optional v-else x all 2^n truth assignments x 4 separators x 4 sibling layouts x {top, div, v-for body} x {plain, all-template, one template member, one member with v-for, one later member with v-pre / v-once, one negated condition}, plus two adjacent chains and orphan v-else / v-else-if in 6 positions (%d cases)", bound, n))
	}

	// ---- chains in slot content that a component uses k times with per-use truth assignments
	nl, lfailed := 0, 0
	enumSlot(func(c Case) bool {
		nl++
		if nl%shards != shard {
			return true
		}
		_, st := expect(&c)
		if open[fForIf] && len(st.forIfElif) > 0 {
			rec.Excluded(fForIf)
			return true
		}
		if open[fForIfPre] && len(st.forIfPre) > 0 {
			rec.Excluded(fForIfPre)
			return true
		}
		nt, cls := classify(c)
		if !run.Each(rec, "slot", c, nt, cls, check) {
			lfailed++
		}
		return lfailed < 5
	})
	if lfailed == 0 {
		rec.Exhaustive(fmt.Sprintf("slot content: chain (0..2 v-else-if, optional v-else; plain, one member with v-for, one template member, one later member with v-pre) supplied to a component that uses its slot once / twice per item of a list holding all 2^n assignments ascending / descending, conditions on the scoped slot prop (%d cases)", nl))
	}

	// ---- after-failure: conditions over a function that can fail, after a failing render of the same page
	na, afailed := 0, 0
	enumAfter(func(c Case) bool {
		na++
		if na%shards != shard {
			return true
		}
		nt, cls := classify(c)
		if !run.Each(rec, "after", c, nt, cls, check) {
			afailed++
		}
		return afailed < 5
	})
	if afailed == 0 {
		rec.Exhaustive(fmt.Sprintf("after-failure: chain v-if / v-else-if / v-else + v-show / :attr / :class probes over ordered pairs of {!nok(a) && b, !nok(a) || b, !a && b, a, !b, undefined} x 4 assignments x {fresh engine, same engine, same Template object} x both entry points, each after a failing render of the same page over stale data (%d cases)", na))
	}

	// ---- chains handed to a layout slot, written into a layout file, and in other parsing contexts
	npl, plfailed := 0, 0
	enumPlace(func(c Case) bool {
		npl++
		if npl%shards != shard {
			return true
		}
		nt, cls := classify(c)
		if !run.Each(rec, "place", c, nt, cls, check) {
			plfailed++
		}
		return plfailed < 5
	})
	if plfailed == 0 {
		rec.Exhaustive(fmt.Sprintf("places: chain (0..2 v-else-if, optional v-else) x all assignments x {content of <template #side> handed by the page to its layout's named slot, written into the layout file, inside <noscript> / <ul> / <select> / <table><tbody> at top level and inside a div} x 2 separators, doors in turn (%d cases)", npl))
	}

	// ---- equivalent spellings of the conditions and of the chain markup
	nsp, spfailed := 0, 0
	enumSpell(func(c SpellCase) bool {
		nsp++
		if nsp%shards != shard {
			return true
		}
		nt, cls := classifySpell(c)
		if !run.Each(rec, "spell", c, nt, cls, checkSpell) {
			spfailed++
		}
		return spfailed < 8
	})
	if spfailed == 0 {
		rec.Exhaustive(fmt.Sprintf("spellings: %d spellings of a condition (== / != / === / !== with 1..4 occurrences, compact and spaced operators, negation with and without blank, a.b / a['b'] / a[\"b\"], items[0] / items.0, line breaks) x {elements, <template> wrappers} and 6 of them x {attribute order, upper-case tags and attributes, single-quoted attributes, shorthand component tags, <template include ... v-else>} x 4 assignments, chain + v-show / :data-x / :class probe, doors in turn (%d cases)", len(spellings), nsp))
	}

	// ---- components written compactly with a <template> root, as include and as shorthand tag
	nc, cfailed := 0, 0
	enumComp(func(c Case) bool {
		nc++
		if nc%shards != shard {
			return true
		}
		nt, cls := classify(c)
		if !run.Each(rec, "comp", c, nt, cls, check) {
			cfailed++
		}
		return cfailed < 5
	})
	if cfailed == 0 {
		rec.Exhaustive(fmt.Sprintf("components: {compact <template> root around a 3-member chain, the same with :require, with line breaks, without wrapper, around a 2-member chain, around one element} x {<template include>, shorthand tag} x 4 assignments of the two props x {top, div, v-for body} x 2 separators, each component used twice per case (%d cases)", nc))
	}

	// ---- chains inside <pre>: white-space-only text around the chain and inside wrapper members is content
	np, pfailed := 0, 0
	enumPre(func(c PreCase) bool {
		np++
		if np%shards != shard {
			return true
		}
		nt, cls := classifyPre(c)
		if !run.Each(rec, "pre", c, nt, cls, checkPre) {
			pfailed++
		}
		return pfailed < 5
	})
	if pfailed == 0 {
		rec.Exhaustive(fmt.Sprintf("chains inside <pre>: v-if + 0..1 v-else-if + optional v-else x all assignments x members {elements, all <template> wrappers, first / last member a wrapper} x white space {blank, newline, tab, run} before and after the chain, between two adjacent chains and at both ends inside the wrappers x {one chain, second chain adjacent} x {in the <pre>, in a v-for inside it}; <pre> content compared exactly (%d cases)", np))
	}

	// ---- stale-scope placements: chains / probes in a loop body that follows an include with 9..12 props
	ns, sfailed := 0, 0
	enumScope(func(c Case) bool {
		ns++
		if ns%shards != shard {
			return true
		}
		nt, cls := classify(c)
		if !run.Each(rec, "scope", c, nt, cls, check) {
			sfailed++
		}
		return sfailed < 5
	})
	if sfailed == 0 {
		rec.Exhaustive(fmt.Sprintf("stale scope: include with 9..12 props x {later sibling loop, later iteration, conditional include in the loop, nested} x chain shapes (0..2 v-else-if, optional v-else, conditions naming the props, one optionally true) + v-show/:attr/:class probes, pattern repeated 3 times (%d cases)", ns))
	}

	// ---- Family C: random deeper nestings; random values for the table
	run.Rapid(t, rec, "nest", genNest(rec, open), classify, check)
	run.Rapid(t, rec, "value", genValue(rec, open), classifyTruth, checkTruth)
}

func TestReplay(t *testing.T) { run.ReplayMain(t, prop, replay) }
