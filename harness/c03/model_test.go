package c03

// Reference model for conditional chains. It works on the case description only (never on
// vuego): it groups sibling nodes into chains, picks the first member whose condition is truthy
// per the documented table (vals.V.Truthy), else the v-else member, else nothing, and predicts
// the outline of data-m markers (id, own text, nesting, multiplicity, order).

import (
	"fmt"
	"strings"

	"verif/internal/hx"
	"verif/internal/vals"
)

// Node is one element of the generated template.
//
//	plain: <p|div data-m=M>tM kids</..>
//	loop : <div data-m=M v-for="Var in List">tM-{{ Var.id }} kids</div>
//	if / elif / else: the same element carrying v-if="Cond" / v-else-if="Cond" / v-else;
//	       Tmpl: the member is a <template> (no marker of its own, kids are spliced),
//	       For>0: the member also carries v-for="x in l<For>" (a list of For integers 1..For)
//	       and prints tM-{{ x }}.
//
//	include: <template include="comp.vuego" mk=M p0="s0" .. p<Props-1>="s.."></template>; the
//	       component prints <p data-m=M>tM</p> (through a v-if on its prop p0)
//	probe: <p data-m=M v-show=Cond :data-x=Cond :class="{k: Cond}">tM</p> - the other consumers
//	       of truthiness; its expected text is tM+attr+k (truthy) or tM+hidden (falsy)
//	slotted: <template include="slotfor.vuego" mk=M :items=List><template v-slot="{ Var }">kids
//	       </template></template>; the component renders <div data-m=M v-for="it in items">tM-{{ it.id }}
//	       <slot :Var="it"></slot></div> - the same slot content is used once per item (twice per
//	       item with Twice), each use with that item as slot prop, so the expected outline is that
//	       of a loop over List whose body is kids
//	comp : an include (Short: a shorthand component tag) of a component file written compactly, no
//	       whitespace between its tags, whose root is a <template> wrapper (docs/components.md: "always
//	       wrap components with <template>"): mk=M :c0=Cond :c1=Cond2 are passed as props. Variant
//	       chain / attr (<template :require="mk">) / spaced (with line breaks) / bare (no wrapper): a
//	       v-if="c0" / v-else-if="c1" / v-else chain of <p data-m=Ma|Mb|Me>; pair: v-if="c0" / v-else;
//	       single: one <div data-m=M> holding the pair
//	ctx  : a parsing context other than the ordinary flow, holding leaf kids (plain / chain members):
//	       Variant noscript (<noscript data-m=M>tM kids</noscript>), ul (kids are <li>), select (kids
//	       are <option>), table (<table data-m=M><tbody> kids as <tr data-m=K><td>tK</td></tr>)
//	text : a non-whitespace text sibling " wM " (Interp: " w{{ tw }}M " with tw="Z"), never placed
//	       between the members of a chain; it is part of the own text of the enclosing marker
//	       element (of the virtual root at top level)
//	vloop: <div data-m=M v-for="(vi, Var) in List">tM-{{ vi }} kids</div> over a list of plain
//	       values (VLists; nil allowed): the bare loop variable Var shadows the global of that name
//	Pre / Once on a later chain member: the member also carries v-pre / v-once; Once together with
//	       For (any member): the chosen member renders its first instance only
//
// An elif / else node that does not continue a chain is an orphan.
type Node struct {
	Kind    string `json:"kind"`
	M       string `json:"m"`
	Cond    string `json:"cond,omitempty"` // [!]name or [!]loopvar.name
	Tmpl    bool   `json:"tmpl,omitempty"`
	For     int    `json:"for,omitempty"`
	Sep     string `json:"sep,omitempty"` // what precedes the node: "" | "w" | "c" | "wcw"
	List    string `json:"list,omitempty"`
	Var     string `json:"var,omitempty"`
	Pre     bool   `json:"pre,omitempty"`     // member also carries v-pre (leaf members only)
	Once    bool   `json:"once,omitempty"`    // member also carries v-once
	Cond2   string `json:"cond2,omitempty"`   // comp: second condition
	Variant string `json:"variant,omitempty"` // comp: which component file
	Short   bool   `json:"short,omitempty"`   // comp: written as shorthand component tag
	Interp  bool   `json:"interp,omitempty"`  // text: contains an interpolation
	Twice   bool   `json:"twice,omitempty"`   // slotted: the component uses its slot twice per item
	Props   int    `json:"props,omitempty"`   // include: number of props p0.. passed to the component
	Kids    []Node `json:"kids,omitempty"`
}

// Case is a template (forest of nodes) plus its data.
type Case struct {
	Nodes []Node                         `json:"nodes"`
	Vars  map[string]vals.V              `json:"vars,omitempty"`
	Lists map[string][]map[string]vals.V `json:"lists,omitempty"` // loop lists: items are maps with an "id"
	Entry string                         `json:"entry,omitempty"` // "" = RenderString, "file" = NewFS().Load().Render
	// Form is how the global condition variables are written and stored: "" plain names (ca),
	// "hyphen" (g-ca), "dotidx" (gv.0), "bracket" (gv[0]), "nested" (gm.in.ca), "tag" (struct field
	// by JSON tag, gs.ca), "goname" (struct field by Go name, gs.Ca), "funcname" (the variables are
	// named like default template functions: title, len, default ...; every name is defined, a
	// missing one as nil), "cmp-seq" / "cmp-sne" / "cmp-eq" / "cmp-ne" (every condition variable is a
	// bool stored as "yes" / "no" and every operand X is written X === 'yes', X !== 'no', X == 'yes',
	// X != 'no'), "call-and" / "call-or" (bool-only data under keys named like built-ins / template
	// functions - count, type, title, trim, upper, lower, int, string - and every operand X written
	// next to a template function call: len(li) > 0 && X, len(nl) > 0 || X with li=[1], nl=[]).
	Form string `json:"form,omitempty"`
	// Items is the Go type of loop items: "" map[string]any, "struct" condStruct, "ptr" *condStruct
	// (fields read by JSON tag: it1.ca), "embed" / "embedptr" a struct that embeds condStruct by
	// value / by pointer (promoted fields read by Go name: it1.Ca).
	Items string `json:"items,omitempty"`
	// Layout places the nodes relative to a layout (layouts/lay.vuego, chosen by the page's
	// front-matter): "slot" - the nodes are the content of <template #side> that the page hands to
	// the layout's <slot name="side">; "file" - the nodes are written into the layout file itself.
	// The layout is <div data-m="LS">tLS [slot | nodes]</div><main data-m="LC" v-html="content">
	// and the page body is <p data-m="pb">tpb</p>.
	Layout string `json:"layout,omitempty"`
	// After is the after-failure dimension: "" none, or where the failing variant of this page is
	// rendered before the real call: "fresh" (another fresh engine), "engine" (the same engine),
	// "template" (RenderString on the Template object of the real call).
	After string `json:"after,omitempty"`
	// VLists are the lists of vloop nodes: plain values (nil allowed) bound to a bare loop variable.
	VLists map[string][]vals.V `json:"vlists,omitempty"`
}

// condStruct holds condition variables as struct fields (globals under Form tag / goname, loop
// items under Items struct / ptr).
type condStruct struct {
	ID  string `json:"id"`
	Inc any    `json:"inc"`
	Ca  any    `json:"ca"`
	Cb  any    `json:"cb"`
	Cc  any    `json:"cc"`
	Cd  any    `json:"cd"`
	Ce  any    `json:"ce"`
	Cf  any    `json:"cf"`
	Cg  any    `json:"cg"`
	Ch  any    `json:"ch"`
}

func (cs *condStruct) set(name string, v any) {
	switch name {
	case "id":
		cs.ID, _ = v.(string)
	case "inc":
		cs.Inc = v
	case "ca":
		cs.Ca = v
	case "cb":
		cs.Cb = v
	case "cc":
		cs.Cc = v
	case "cd":
		cs.Cd = v
	case "ce":
		cs.Ce = v
	case "cf":
		cs.Cf = v
	case "cg":
		cs.Cg = v
	case "ch":
		cs.Ch = v
	default:
		panic("c03: condStruct has no field " + name)
	}
}

var globalNames = []string{"ca", "cb", "cc", "cd", "ce", "cf", "cg", "ch"}

func globalIndex(name string) int {
	for i, n := range globalNames {
		if n == name {
			return i
		}
	}
	return -1
}

// funcNameOf maps the logical condition variables to names of default template functions.
var funcNameOf = []string{"title", "len", "default", "type", "json", "string", "int", "file"}

// isCmp: the forms whose data is bool-only (every operand defined): comparisons and the
// combinations with a template function call.
func isCmp(form string) bool {
	return strings.HasPrefix(form, "cmp-") || strings.HasPrefix(form, "call-")
}

// callNameOf maps the logical condition variables to data keys that are also built-ins of the
// expression library and / or registered template functions (forms call-and / call-or).
var callNameOf = []string{"count", "type", "title", "trim", "upper", "lower", "int", "string"}

// style is what the source writer gets: the case's form and, behind a bar, its item type.
func (c *Case) style() string { return c.Form + "|" + c.Items }

func splitStyle(st string) (form, items string) {
	form, items, _ = strings.Cut(st, "|")
	return form, items
}

// EmbeddedConds is embedded (by value / by pointer) in the loop items of the item types "embed" /
// "embedptr": the condition fields are promoted fields, read by their Go names (it1.Ca).
type EmbeddedConds = condStruct

type embedItem struct {
	ID string `json:"id"`
	EmbeddedConds
}

type embedPtrItem struct {
	ID string `json:"id"`
	*EmbeddedConds
}

// condText writes a logical condition ([!]name, [!]loopvar.field, [!]p<k>) in the case's form.
func condText(cond, st string) string {
	if kind, x, y, ok := guardCond(cond); ok {
		switch kind {
		case "guard-and":
			return "!nok(" + condText(x, st) + ") && " + condText(y, st)
		case "guard-or":
			return "!nok(" + condText(x, st) + ") || " + condText(y, st)
		default:
			return "!" + condText(x, st) + " && " + condText(y, st)
		}
	}
	form, items := splitStyle(st)
	if i := strings.IndexByte(cond, '.'); i >= 0 && (items == "embed" || items == "embedptr") {
		// promoted field of the embedded struct, by its Go name
		f := cond[i+1:]
		cond = cond[:i+1] + strings.ToUpper(f[:1]) + f[1:]
	}
	neg := ""
	if strings.HasPrefix(cond, "!") {
		neg, cond = "!", cond[1:]
	}
	if strings.HasPrefix(form, "call-") {
		if i := globalIndex(cond); i >= 0 {
			cond = callNameOf[i]
		}
		e := "len(li) > 0 && " + cond
		if form == "call-or" {
			e = "len(nl) > 0 || " + cond
		}
		if neg != "" {
			return "!(" + e + ")"
		}
		return e
	}
	if isCmp(form) {
		op := map[string]string{"cmp-seq": " === 'yes'", "cmp-sne": " !== 'no'", "cmp-eq": " == 'yes'", "cmp-ne": " != 'no'"}[form]
		if neg != "" {
			return "!(" + cond + op + ")"
		}
		return cond + op
	}
	i := globalIndex(cond)
	if i < 0 || form == "" {
		return neg + cond
	}
	switch form {
	case "hyphen":
		return neg + "g-" + cond
	case "dotidx":
		return fmt.Sprintf("%sgv.%d", neg, i)
	case "bracket":
		return fmt.Sprintf("%sgv[%d]", neg, i)
	case "nested":
		return neg + "gm.in." + cond
	case "tag":
		return neg + "gs." + cond
	case "goname":
		return neg + "gs." + strings.ToUpper(cond[:1]) + cond[1:]
	case "funcname":
		return neg + funcNameOf[i]
	}
	panic("c03: unknown form " + form)
}

// probeAttrs says which truthiness consumers a probe carries next to v-show under a form:
// comparisons are not written into plain bound attributes, and !== not into :class objects.
func probeAttrs(st string) (attr, class bool) {
	form, _ := splitStyle(st)
	if strings.HasPrefix(form, "cmp-") {
		return false, form != "cmp-sne"
	}
	return true, true
}

// Out is one marker of the predicted / observed outline.
type Out struct {
	ID   string
	Text string
	Kids []Out
}

func outline(l []Out) string {
	var sb strings.Builder
	var walk func([]Out)
	walk = func(l []Out) {
		for i, o := range l {
			if i > 0 {
				sb.WriteByte(' ')
			}
			sb.WriteString(o.ID + "[" + o.Text + "]")
			if len(o.Kids) > 0 {
				sb.WriteByte('(')
				walk(o.Kids)
				sb.WriteByte(')')
			}
		}
	}
	walk(l)
	return sb.String()
}

// observed projects a parsed forest onto its markers, dropping the subtrees of ignored ids.
func observed(l []*hx.N, ignore map[string]bool) []Out {
	var out []Out
	for _, n := range l {
		if n.Tag == "" {
			continue
		}
		if n.Tag == "template" {
			// a <template> element left in the output is inert in a browser: its content is not
			// rendered (and docs/components.md says the tag is omitted from the output)
			continue
		}
		id, marked := n.Attrs["data-m"]
		if !marked {
			out = append(out, observed(n.Kids, ignore)...)
			continue
		}
		if ignore[id] {
			continue
		}
		var own []string
		for _, k := range n.Kids {
			if k.Tag == "" && !k.Doctype {
				own = append(own, k.Text)
			}
		}
		out = append(out, Out{ID: id, Text: strings.Join(own, " ") + flags(n), Kids: observed(n.Kids, ignore)})
	}
	return out
}

// flags reports what the truthiness consumers left on an element: +hidden (style declares
// display:none), +attr (data-x present), +k (class token k present).
func flags(n *hx.N) string {
	out := ""
	for _, decl := range strings.Split(n.Attrs["style"], ";") {
		kv := strings.SplitN(decl, ":", 2)
		if len(kv) == 2 && strings.EqualFold(strings.TrimSpace(kv[0]), "display") && strings.EqualFold(strings.TrimSpace(kv[1]), "none") {
			out += "+hidden"
		}
	}
	if _, ok := n.Attrs["data-x"]; ok {
		out += "+attr"
	}
	for _, c := range strings.Fields(n.Attrs["class"]) {
		if c == "k" {
			out += "+k"
		}
	}
	return out
}

type scope map[string]map[string]vals.V

// stats is what the model learns about a case besides the expected outline.
type stats struct {
	ignore           map[string]bool // markers of orphans: nothing is asserted about them
	chains           int
	maxMembers       int
	chose            map[string]int // "if" | "elif" | "else" | "none" -> how often
	nonBool          bool
	inLoop           bool // a chain evaluated inside a loop body
	inChain          bool // a chain nested inside a chain member
	tmpl             bool
	forMember        bool
	orphans          int
	adjacent         bool
	seps             map[string]bool
	depth            int
	forElse          []*Node // region of C03-vfor-on-else-member: chosen non-first members carrying v-for
	forIfElif        []*Node // region of C03-vfor-on-if-member: falsy first member carrying v-for, next member v-else-if
	forIfPre         []*Node // region of C03-vfor-on-if-member-vpre-tail: truthy first member carrying v-for, a later member carries v-pre
	forSkipped       []*Node // region of C03-vfor-member-after-chosen-branch: an earlier member was chosen (v-else-if, or v-if with v-for) and the member directly before the v-else carries v-for
	negated          bool
	sibBefore        bool
	sibAfter         bool
	loopEmpty        bool
	rootText         string // expected text directly at the top level
	texts, itexts    int
	textAfterChain   bool // a text sibling directly follows the last member of a chain
	textAfterFalseIf bool // ... of a chain whose v-if was falsy
	shadowed         bool // a condition read a vloop variable
	shadowOpp        bool // ... that shadows a global of the opposite truthiness
	shadowNil        bool // ... being nil while the shadowed global is truthy
	vloops           int
	slotted          int  // slot uses evaluated
	slotChain        bool // a chain evaluated inside slot content
	slotTwice        bool
	preMember        bool
	onceMember       bool
	laterDeco        bool          // an unchosen member after the chosen one carries v-pre / v-once / v-for
	chosenN          map[*Node]int // how often each member was the chosen one
	onceRepeat       []*Node       // v-once members chosen more than once: C16's subject, not asserted here
	ctxs             int           // ctx nodes evaluated
	guard            bool          // a condition of the form !nok(x) && y / !nok(x) || y / !x && y
	forOnce          bool          // a chosen member carrying v-for and v-once
	comps            int           // comp nodes evaluated
	compShort        bool
	compVariants     map[string]bool
	includes         int // include nodes evaluated
	maxProps         int
	probes           int
	propCond         bool // a condition names a component prop (p<k>) that is undefined where it is evaluated
	propInLoop       bool // ... and is evaluated inside a loop body
	chainsTotal      int
}

type model struct {
	c         *Case
	st        *stats
	slotDepth int
}

func newStats() *stats {
	return &stats{ignore: map[string]bool{}, chose: map[string]int{}, seps: map[string]bool{}, chosenN: map[*Node]int{}, compVariants: map[string]bool{}}
}

// truthy evaluates a condition reference against the scope with the documented table.
// guardCond parses the two-operand conditions over a registered function that can fail:
// guard-and:x:y = `!nok(x) && y`, guard-or:x:y = `!nok(x) || y`, nota-and:x:y = `!x && y`
// (nok negates a bool, so !nok(x) is x).
func guardCond(cond string) (kind, x, y string, ok bool) {
	parts := strings.Split(cond, ":")
	if len(parts) != 3 || (parts[0] != "guard-and" && parts[0] != "guard-or" && parts[0] != "nota-and") {
		return "", "", "", false
	}
	return parts[0], parts[1], parts[2], true
}

func (m *model) truthy(cond string, sc scope) bool {
	if kind, x, y, ok := guardCond(cond); ok {
		m.st.guard = true
		bx, by := m.truthy(x, sc), m.truthy(y, sc)
		switch kind {
		case "guard-and":
			return bx && by
		case "guard-or":
			return bx || by
		default:
			return !bx && by
		}
	}
	neg := false
	if strings.HasPrefix(cond, "!") {
		neg = true
		cond = cond[1:]
		m.st.negated = true
	}
	var v vals.V
	found := false
	if i := strings.IndexByte(cond, '.'); i >= 0 {
		if item, ok := sc[cond[:i]]; ok {
			v, found = item[cond[i+1:]]
		}
	} else if b, ok := sc[""][cond]; ok {
		// bound by an enclosing vloop: the innermost binding wins over the global, nil included
		v, found = b, true
		m.st.shadowed = true
		if g, ok := m.c.Vars[cond]; ok {
			gt, _ := valTruthy(g)
			bt, _ := valTruthy(b)
			if gt != bt {
				m.st.shadowOpp = true
			}
			if gt && b.K == "nil" {
				m.st.shadowNil = true
			}
		}
	} else {
		v, found = m.c.Vars[cond]
	}
	if !found {
		v = vals.Missing()
		if isPropName(cond) {
			m.st.propCond = true
			if len(sc) > 0 {
				m.st.propInLoop = true
			}
		}
	}
	if v.K != "bool" {
		m.st.nonBool = true
	}
	t, _ := valTruthy(v) // generators only use values whose truthiness is documented
	if neg {
		return !t
	}
	return t
}

func isPropName(s string) bool {
	return len(s) >= 2 && s[0] == 'p' && s[1] >= '0' && s[1] <= '9'
}

func isMember(k string) bool { return k == "elif" || k == "else" }

// eval predicts the outline of a sibling list.
func (m *model) eval(nodes []Node, sc scope, depth int, inLoop, inChain bool) []Out {
	if depth > m.st.depth {
		m.st.depth = depth
	}
	var out []Out
	prevChainEnd := false
	lastChosen := 0 // index of the member the previous chain chose (-1 none)
	for i := 0; i < len(nodes); i++ {
		n := &nodes[i]
		switch n.Kind {
		case "plain":
			out = append(out, Out{ID: n.M, Text: "t" + n.M, Kids: m.eval(n.Kids, sc, depth+1, inLoop, inChain)})
			prevChainEnd = false
		case "text":
			tok := "w" + n.M
			if n.Interp {
				tok = "wZ" + n.M
				m.st.itexts++
			}
			m.st.texts++
			if prevChainEnd {
				m.st.textAfterChain = true
				if lastChosen != 0 {
					m.st.textAfterFalseIf = true
				}
			}
			out = append(out, Out{Text: tok}) // ID "": folded into the parent's own text
			// a following v-if starts a new chain, but the text is what follows the previous one
			prevChainEnd = false
		case "ctx":
			m.st.ctxs++
			kids := m.eval(n.Kids, sc, depth+1, inLoop, inChain)
			text := ""
			if n.Variant == "noscript" {
				text = "t" + n.M
			}
			if n.Variant == "table" {
				for k := range kids {
					kids[k].Text = "" // the row's text sits in an unmarked <td>
				}
			}
			out = append(out, Out{ID: n.M, Text: text, Kids: kids})
			prevChainEnd = false
		case "comp":
			m.st.comps++
			m.st.compVariants[n.Variant] = true
			if n.Short {
				m.st.compShort = true
			}
			leaf := func(suffix string) Out { return Out{ID: n.M + suffix, Text: "t" + n.M + suffix} }
			c0 := m.truthy(n.Cond, sc)
			c1 := n.Cond2 != "" && m.truthy(n.Cond2, sc)
			switch n.Variant {
			case "pair", "single":
				pick := leaf("e")
				if c0 {
					pick = leaf("a")
				}
				if n.Variant == "single" {
					out = append(out, Out{ID: n.M, Text: "t" + n.M, Kids: []Out{pick}})
				} else {
					out = append(out, pick)
				}
			default:
				switch {
				case c0:
					out = append(out, leaf("a"))
				case c1:
					out = append(out, leaf("b"))
				default:
					out = append(out, leaf("e"))
				}
			}
			prevChainEnd = false
		case "include":
			m.st.includes++
			if n.Props > m.st.maxProps {
				m.st.maxProps = n.Props
			}
			out = append(out, Out{ID: n.M, Text: "t" + n.M})
			prevChainEnd = false
		case "probe":
			m.st.probes++
			text := "t" + n.M + "+hidden"
			if m.truthy(n.Cond, sc) {
				text = "t" + n.M
				attr, class := probeAttrs(m.c.Form)
				if attr {
					text += "+attr"
				}
				if class {
					text += "+k"
				}
			}
			out = append(out, Out{ID: n.M, Text: text})
			prevChainEnd = false
		case "vloop":
			m.st.vloops++
			for vi, val := range m.c.VLists[n.List] {
				sc2 := scope{}
				for k, v := range sc {
					sc2[k] = v
				}
				bare := map[string]vals.V{}
				for k, v := range sc[""] {
					bare[k] = v
				}
				if val.K == "missing" {
					val = vals.Nil()
				}
				bare[n.Var] = val
				sc2[""] = bare
				out = append(out, Out{ID: n.M, Text: fmt.Sprintf("t%s-%d", n.M, vi), Kids: m.eval(n.Kids, sc2, depth+1, true, inChain)})
			}
			prevChainEnd = false
		case "slotted":
			for _, it := range m.c.Lists[n.List] {
				sc2 := scope{}
				for k, v := range sc {
					sc2[k] = v
				}
				sc2[n.Var] = it
				m.slotDepth++
				m.st.slotted++
				kids := m.eval(n.Kids, sc2, depth+1, true, inChain)
				if n.Twice {
					m.st.slotTwice = true
					m.st.slotted++
					kids = append(kids, m.eval(n.Kids, sc2, depth+1, true, inChain)...)
				}
				m.slotDepth--
				out = append(out, Out{ID: n.M, Text: "t" + n.M + "-" + it["id"].S, Kids: kids})
			}
			prevChainEnd = false
		case "loop":
			items := m.c.Lists[n.List]
			if len(items) == 0 {
				m.st.loopEmpty = true
			}
			for _, it := range items {
				sc2 := scope{}
				for k, v := range sc {
					sc2[k] = v
				}
				sc2[n.Var] = it
				out = append(out, Out{ID: n.M, Text: "t" + n.M + "-" + it["id"].S, Kids: m.eval(n.Kids, sc2, depth+1, true, inChain)})
			}
			prevChainEnd = false
		case "if":
			if prevChainEnd {
				m.st.adjacent = true
			}
			j := i + 1
			for j < len(nodes) && isMember(nodes[j].Kind) {
				j++
				if nodes[j-1].Kind == "else" {
					break
				}
			}
			members := nodes[i:j]
			m.st.chains++
			if len(members) > m.st.maxMembers {
				m.st.maxMembers = len(members)
			}
			if inLoop {
				m.st.inLoop = true
			}
			if inChain {
				m.st.inChain = true
			}
			if m.slotDepth > 0 {
				m.st.slotChain = true
			}
			if i > 0 && !isMember(nodes[i-1].Kind) && nodes[i-1].Kind != "if" {
				m.st.sibBefore = true
			}
			if j < len(nodes) && nodes[j].Kind != "if" && !isMember(nodes[j].Kind) {
				m.st.sibAfter = true
			}
			chosen := -1
			for k := range members {
				mem := &members[k]
				if k > 0 {
					m.st.seps[mem.Sep] = true
				}
				if mem.Tmpl {
					m.st.tmpl = true
				}
				if mem.For > 0 {
					m.st.forMember = true
				}
				if mem.Pre {
					m.st.preMember = true
				}
				if mem.Once {
					m.st.onceMember = true
				}
				if chosen >= 0 && chosen < k && (mem.Pre || mem.Once || mem.For > 0) {
					m.st.laterDeco = true
				}
				if chosen >= 0 {
					continue
				}
				if mem.Kind == "else" || m.truthy(mem.Cond, sc) {
					chosen = k
				}
			}
			if chosen < 0 {
				m.st.chose["none"]++
			} else {
				mem := &members[chosen]
				m.st.chose[mem.Kind]++
				m.st.chosenN[mem]++
				if chosen > 0 && mem.For > 0 {
					m.st.forElse = append(m.st.forElse, mem)
				}
				out = append(out, m.member(mem, sc, depth, inLoop)...)
			}
			// members after the chosen one are not skipped but left to be dropped as orphans when the
			// choice was a v-else-if, or a v-if that carries v-for (region of fForSkip)
			if last := len(members) - 1; last >= 2 && members[last].Kind == "else" && members[last-1].For > 0 &&
				chosen >= 0 && chosen < last-1 && (chosen >= 1 || members[0].For > 0) {
				m.st.forSkipped = append(m.st.forSkipped, &members[last-1])
			}
			if members[0].For > 0 && chosen == 0 {
				for k := 1; k < len(members); k++ {
					if members[k].Pre {
						m.st.forIfPre = append(m.st.forIfPre, &members[k])
					}
				}
			}
			if members[0].For > 0 && chosen != 0 && len(members) > 1 && members[1].Kind == "elif" {
				m.st.forIfElif = append(m.st.forIfElif, &members[0])
			}
			i = j - 1
			prevChainEnd = true
			lastChosen = chosen
		case "elif", "else":
			// orphan: not a member of any chain. docs/syntax.md does not say what happens to it, so
			// nothing is asserted about the orphan itself - only that its neighbours are intact.
			m.st.ignore[n.M] = true
			m.st.orphans++
			prevChainEnd = false
		default:
			panic("c03: unknown node kind " + n.Kind)
		}
	}
	return out
}

func (m *model) member(n *Node, sc scope, depth int, inLoop bool) []Out {
	if n.Tmpl {
		return m.eval(n.Kids, sc, depth+1, inLoop, true)
	}
	if n.For > 0 {
		var out []Out
		for x := 1; x <= n.For; x++ {
			if n.Once && x > 1 {
				// v-once marks the element, not the instance: later iterations of the same element
				// are skipped (docs/syntax.md: v-once "also works inside v-for loops")
				m.st.forOnce = true
				break
			}
			out = append(out, Out{ID: n.M, Text: fmt.Sprintf("t%s-%d", n.M, x), Kids: m.eval(n.Kids, sc, depth+1, inLoop, true)})
		}
		return out
	}
	return []Out{{ID: n.M, Text: "t" + n.M, Kids: m.eval(n.Kids, sc, depth+1, inLoop, true)}}
}

// foldText moves the text siblings (Out with empty ID) into the own text of their parent and
// returns the ones of this level.
func foldText(l []Out) ([]Out, []string) {
	var out []Out
	var texts []string
	for _, o := range l {
		if o.ID == "" {
			texts = append(texts, o.Text)
			continue
		}
		kids, own := foldText(o.Kids)
		o.Kids = kids
		if len(own) > 0 {
			// flags (+hidden ...) only occur on probes, which have no children
			o.Text += " " + strings.Join(own, " ")
		}
		out = append(out, o)
	}
	return out, texts
}

// rootText is the text directly at the top level of a parsed forest.
func rootText(l []*hx.N) string {
	var own []string
	for _, n := range l {
		if n.Tag == "" && !n.Doctype {
			own = append(own, n.Text)
		}
	}
	return strings.Join(own, " ")
}

// expect runs the model over a case.
func expect(c *Case) ([]Out, *stats) {
	m := &model{c: c, st: newStats()}
	out := m.eval(c.Nodes, scope{}, 0, false, false)
	for n, k := range m.st.chosenN {
		if n.Once && k > 1 {
			m.st.onceRepeat = append(m.st.onceRepeat, n)
		}
	}
	if c.Layout != "" {
		// what the layout's content element holds is not asserted here (layouts are C07's subject;
		// on the current tree the content of a named slot template is rendered there as well)
		out = []Out{{ID: "LS", Text: "tLS", Kids: out}}
		m.st.ignore["LC"] = true
	}
	out, top := foldText(out)
	m.st.rootText = strings.Join(top, " ")
	return out, m.st
}

// ---------------------------------------------------------------- template source

func sepText(s string) string {
	switch s {
	case "w":
		return "\n  "
	case "c":
		return "<!-- c -->"
	case "wcw":
		return "\n  <!-- c -->\n  "
	}
	return ""
}

func (n *Node) directive(form string) string {
	extra := ""
	if n.Pre {
		extra += ` v-pre`
	}
	if n.Once {
		extra += ` v-once`
	}
	switch n.Kind {
	case "if":
		return ` v-if="` + condText(n.Cond, form) + `"` + extra
	case "elif":
		return ` v-else-if="` + condText(n.Cond, form) + `"` + extra
	case "else":
		return ` v-else` + extra
	}
	return ""
}

func writeNodes(sb *strings.Builder, nodes []Node, form string) {
	for i := range nodes {
		n := &nodes[i]
		sb.WriteString(sepText(n.Sep))
		switch {
		case n.Kind == "text":
			if n.Interp {
				sb.WriteString(" w{{ tw }}" + n.M + " ")
			} else {
				sb.WriteString(" w" + n.M + " ")
			}
		case n.Kind == "ctx":
			open, tag, close := `<noscript data-m="`+n.M+`">t`+n.M, "p", `</noscript>`
			switch n.Variant {
			case "ul":
				open, tag, close = `<ul data-m="`+n.M+`">`, "li", `</ul>`
			case "select":
				open, tag, close = `<select data-m="`+n.M+`">`, "option", `</select>`
			case "table":
				open, tag, close = `<table data-m="`+n.M+`"><tbody>`, "tr", `</tbody></table>`
			}
			sb.WriteString(open)
			for k := range n.Kids {
				kid := &n.Kids[k]
				sb.WriteString(sepText(kid.Sep))
				inner := "t" + kid.M
				if tag == "tr" {
					inner = "<td>" + inner + "</td>"
				}
				fmt.Fprintf(sb, `<%s data-m="%s"%s>%s</%s>`, tag, kid.M, kid.directive(form), inner, tag)
			}
			sb.WriteString(close)
		case n.Kind == "comp":
			props := fmt.Sprintf(` mk="%s" :c0="%s"`, n.M, condText(n.Cond, form))
			if n.Cond2 != "" {
				props += fmt.Sprintf(` :c1="%s"`, condText(n.Cond2, form))
			}
			if n.Short {
				tag := "comp-" + n.Variant
				sb.WriteString(`<` + tag + props + `></` + tag + `>`)
			} else {
				sb.WriteString(`<template include="components/Comp` + strings.ToUpper(n.Variant[:1]) + n.Variant[1:] + `.vuego"` + props + `></template>`)
			}
		case n.Kind == "include":
			fmt.Fprintf(sb, `<template include="comp.vuego" mk="%s"`, n.M)
			for k := 0; k < n.Props; k++ {
				fmt.Fprintf(sb, ` p%d="s%d"`, k, k)
			}
			sb.WriteString(`></template>`)
		case n.Kind == "slotted":
			comp := "slotfor.vuego"
			if n.Twice {
				comp = "slottwice.vuego"
			}
			fmt.Fprintf(sb, `<template include="%s" mk="%s" :items="%s"><template v-slot="{ %s }">`, comp, n.M, n.List, n.Var)
			writeNodes(sb, n.Kids, form)
			sb.WriteString(`</template></template>`)
		case n.Kind == "probe":
			ct := condText(n.Cond, form)
			fmt.Fprintf(sb, `<p data-m="%s" v-show="%s"`, n.M, ct)
			attr, class := probeAttrs(form)
			if attr {
				fmt.Fprintf(sb, ` :data-x="%s"`, ct)
			}
			if class {
				fmt.Fprintf(sb, ` :class="{k: %s}"`, ct)
			}
			fmt.Fprintf(sb, `>t%s</p>`, n.M)
		case n.Kind == "vloop":
			v := n.Var
			if f, _ := splitStyle(form); f == "funcname" {
				v = condText(v, form)
			}
			fmt.Fprintf(sb, `<div data-m="%s" v-for="(vi, %s) in %s">t%s-{{ vi }}`, n.M, v, n.List, n.M)
			writeNodes(sb, n.Kids, form)
			sb.WriteString(`</div>`)
		case n.Kind == "loop":
			fmt.Fprintf(sb, `<div data-m="%s" v-for="%s in %s">t%s-{{ %s.id }}`, n.M, n.Var, n.List, n.M, n.Var)
			writeNodes(sb, n.Kids, form)
			sb.WriteString(`</div>`)
		case n.Tmpl:
			sb.WriteString(`<template` + n.directive(form) + `>`)
			writeNodes(sb, n.Kids, form)
			sb.WriteString(`</template>`)
		case n.For > 0:
			fmt.Fprintf(sb, `<div data-m="%s"%s v-for="x in l%d">t%s-{{ x }}`, n.M, n.directive(form), n.For, n.M)
			writeNodes(sb, n.Kids, form)
			sb.WriteString(`</div>`)
		default:
			tag := "p"
			if len(n.Kids) > 0 {
				tag = "div"
			}
			fmt.Fprintf(sb, `<%s data-m="%s"%s>t%s`, tag, n.M, n.directive(form), n.M)
			writeNodes(sb, n.Kids, form)
			sb.WriteString(`</` + tag + `>`)
		}
	}
}

// componentSource is the included component: it prints its marker through a chain on its own
// first prop (truthy there), so a correct engine renders <p data-m=mk>tmk</p>.
const componentSource = `<p data-m="{{ mk }}" v-if="p0">t{{ mk }}</p><p data-m="{{ mk }}" v-else>no-p0</p>`

// slotComponents use their default slot once (twice) per item, handing the item to the slot
// content as scoped slot prop su (docs/syntax.md, Scoped Slots).
var slotComponents = map[string]string{
	"slotfor.vuego":   `<div data-m="{{ mk }}" v-for="it in items">t{{ mk }}-{{ it.id }}<slot :su="it"></slot></div>`,
	"slottwice.vuego": `<div data-m="{{ mk }}" v-for="it in items">t{{ mk }}-{{ it.id }}<slot :su="it"></slot><slot :su="it"></slot></div>`,
}

// compFiles are the component files of comp nodes (components/Comp<Variant>.vuego, shorthand tag
// <comp-variant>).
var compFiles = func() map[string]string {
	a := `<p data-m="{{ mk }}a" v-if="c0">t{{ mk }}a</p>`
	b := `<p data-m="{{ mk }}b" v-else-if="c1">t{{ mk }}b</p>`
	e := `<p data-m="{{ mk }}e" v-else>t{{ mk }}e</p>`
	return map[string]string{
		"components/CompChain.vuego":  `<template>` + a + b + e + `</template>`,
		"components/CompAttr.vuego":   `<template :require="mk">` + a + b + e + `</template>`,
		"components/CompSpaced.vuego": "<template>\n  " + a + "\n  " + b + "\n  " + e + "\n</template>\n",
		"components/CompBare.vuego":   a + b + e,
		"components/CompPair.vuego":   `<template>` + a + e + `</template>`,
		"components/CompLeaf.vuego":   `<p data-m="{{ mk }}">t{{ mk }}</p>`,
		"components/CompSingle.vuego": `<template><div data-m="{{ mk }}">t{{ mk }}` + a + e + `</div></template>`,
	}
}()

var compVariantNames = []string{"chain", "attr", "spaced", "bare", "pair", "single"}

func hasInclude(nodes []Node) bool {
	for i := range nodes {
		if nodes[i].Kind == "include" || nodes[i].Kind == "slotted" || nodes[i].Kind == "comp" || hasInclude(nodes[i].Kids) {
			return true
		}
	}
	return false
}

func (c *Case) source() string {
	var sb strings.Builder
	switch c.Layout {
	case "slot":
		sb.WriteString("---\nlayout: lay\n---\n<template #side>")
		writeNodes(&sb, c.Nodes, c.style())
		sb.WriteString(`</template><p data-m="pb">tpb</p>`)
	case "file":
		sb.WriteString("---\nlayout: lay\n---\n" + `<p data-m="pb">tpb</p>`)
	default:
		writeNodes(&sb, c.Nodes, c.style())
	}
	return sb.String()
}

// layoutFiles returns the layout file of a case that has one.
func (c *Case) layoutFiles() map[string]string {
	switch c.Layout {
	case "slot":
		return map[string]string{"layouts/lay.vuego": `<div data-m="LS">tLS<slot name="side"><p data-m="LF">tLF</p></slot></div><main data-m="LC" v-html="content"></main>`}
	case "file":
		var sb strings.Builder
		sb.WriteString(`<div data-m="LS">tLS`)
		writeNodes(&sb, c.Nodes, c.style())
		sb.WriteString(`</div><main data-m="LC" v-html="content"></main>`)
		return map[string]string{"layouts/lay.vuego": sb.String()}
	}
	return nil
}

func maxFor(nodes []Node) int {
	mx := 0
	for i := range nodes {
		if nodes[i].For > mx {
			mx = nodes[i].For
		}
		if k := maxFor(nodes[i].Kids); k > mx {
			mx = k
		}
	}
	return mx
}

// data builds the typed Go data of a case.
func (c *Case) data() map[string]any {
	d := map[string]any{}
	cmp := strings.HasPrefix(c.Form, "cmp-")
	goVal := func(v vals.V) any {
		if v.K == "missing" || v.K == "" {
			return nil
		}
		if cmp && v.K == "bool" {
			if v.S == "true" {
				return "yes"
			}
			return "no"
		}
		return valGo(v)
	}
	// globals, stored the way the case's form reads them
	switch c.Form {
	case "call-and", "call-or":
		for k, v := range c.Vars {
			if v.K != "missing" {
				d[callNameOf[globalIndex(k)]] = valGo(v)
			}
		}
		d["li"], d["nl"] = []any{1}, []any{}
	case "", "cmp-seq", "cmp-sne", "cmp-eq", "cmp-ne":
		for k, v := range c.Vars {
			if v.K != "missing" {
				d[k] = goVal(v)
			}
		}
	case "funcname":
		// every name is defined (nil when the case leaves it out): an undefined word of these
		// would denote the template function, not a variable
		for i, name := range globalNames {
			d[funcNameOf[i]] = goVal(c.Vars[name])
		}
	case "hyphen":
		for k, v := range c.Vars {
			if v.K != "missing" {
				d["g-"+k] = valGo(v)
			}
		}
	case "dotidx", "bracket":
		gv := make([]any, len(globalNames))
		for k, v := range c.Vars {
			gv[globalIndex(k)] = goVal(v)
		}
		d["gv"] = gv
	case "nested":
		in := map[string]any{}
		for k, v := range c.Vars {
			if v.K != "missing" {
				in[k] = valGo(v)
			}
		}
		d["gm"] = map[string]any{"in": in}
	case "tag", "goname":
		var gs condStruct
		for k, v := range c.Vars {
			gs.set(k, goVal(v))
		}
		d["gs"] = gs
	default:
		panic("c03: unknown form " + c.Form)
	}
	for name, items := range c.Lists {
		switch c.Items {
		case "struct":
			l := make([]condStruct, len(items))
			for i, it := range items {
				for k, v := range it {
					l[i].set(k, goVal(v))
				}
			}
			d[name] = l
		case "embed":
			l := make([]embedItem, len(items))
			for i, it := range items {
				for k, v := range it {
					if k == "id" {
						l[i].ID = v.S
						continue
					}
					l[i].set(k, goVal(v))
				}
			}
			d[name] = l
		case "embedptr":
			l := make([]embedPtrItem, len(items))
			for i, it := range items {
				l[i].EmbeddedConds = &condStruct{}
				for k, v := range it {
					if k == "id" {
						l[i].ID = v.S
						continue
					}
					l[i].set(k, goVal(v))
				}
			}
			d[name] = l
		case "ptr":
			l := make([]*condStruct, len(items))
			for i, it := range items {
				l[i] = &condStruct{}
				for k, v := range it {
					l[i].set(k, goVal(v))
				}
			}
			d[name] = l
		default:
			l := make([]any, 0, len(items))
			for _, it := range items {
				m := map[string]any{}
				for k, v := range it {
					if v.K == "missing" {
						continue
					}
					m[k] = goVal(v)
				}
				l = append(l, m)
			}
			d[name] = l
		}
	}
	for name, items := range c.VLists {
		l := make([]any, len(items))
		for i, v := range items {
			l[i] = goVal(v)
		}
		d[name] = l
	}
	d["tw"] = "Z" // printed by interpolated text siblings
	for n := 1; n <= maxFor(c.Nodes); n++ {
		l := make([]any, n)
		for i := range l {
			l[i] = i + 1
		}
		d[fmt.Sprintf("l%d", n)] = l
	}
	return d
}

// ---------------------------------------------------------------- after-failure dimension

// staleOf is a recognisably different value of the opposite truthiness.
func staleOf(v vals.V) vals.V {
	if v.K == "bool" {
		return vals.Bool(v.S != "true")
	}
	if t, _ := valTruthy(v); t {
		return vals.Nil()
	}
	return vals.Str("STALE")
}

// staleData is the case's data with every condition value replaced by a stale one (and the list
// item ids suffixed -STALE): what the failing variant is rendered over.
func (c *Case) staleData() map[string]any {
	sc := *c
	sc.Vars = map[string]vals.V{}
	_, st := expect(c)
	for k, v := range c.Vars {
		sc.Vars[k] = staleOf(v)
		if st.guard {
			// the same condition text fails in the failing variant: nok("ERR") returns an error
			sc.Vars[k] = vals.Str("ERR")
		}
	}
	sc.Lists = map[string][]map[string]vals.V{}
	for name, items := range c.Lists {
		for _, it := range items {
			m := map[string]vals.V{}
			for k, v := range it {
				if k == "id" {
					m[k] = vals.Str(v.S + "-STALE")
				} else {
					m[k] = staleOf(v)
				}
			}
			sc.Lists[name] = append(sc.Lists[name], m)
		}
	}
	sc.VLists = map[string][]vals.V{}
	for name, items := range c.VLists {
		for _, v := range items {
			sc.VLists[name] = append(sc.VLists[name], staleOf(v))
		}
	}
	d := sc.data()
	d["tw"] = "STALE"
	return d
}

// failingSource is the failing variant of the page: the page itself, preceded by a root-level
// <template> that assigns values to the condition variable names and followed by a text run that
// fails late, after a literal and a successful mustache. Undefined names are assigned true; in the
// "template" variant (the failing call runs on the real call's own Template object, over the real
// data) the defined ones are assigned a literal of the opposite truthiness; in the other variants
// they carry their stale values through the data, so that the same condition texts see them.
func (c *Case) failingSource() string {
	var sb strings.Builder
	sb.WriteString(`<template`)
	for _, name := range globalNames {
		v, defined := c.Vars[name]
		switch {
		case !defined || v.K == "missing":
			fmt.Fprintf(&sb, ` :%s="true"`, condText(name, c.style()))
		case c.After == "template":
			t, _ := valTruthy(v)
			fmt.Fprintf(&sb, ` :%s="%v"`, condText(name, c.style()), !t)
		}
	}
	for k := 0; k < 12; k++ {
		fmt.Fprintf(&sb, ` :p%d="true"`, k)
	}
	sb.WriteString(`></template>`)
	sb.WriteString(c.source())
	sb.WriteString(`<p>tail {{ tw }} {{ boom(tw) }}</p>`)
	return sb.String()
}

// afterOK: the dimension is applied where the condition variables are plain names (they can be
// assigned by a root-level <template :name="...">).
func (c *Case) afterOK() bool { return c.Form == "" || c.Form == "funcname" }
