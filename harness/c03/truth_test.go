package c03

// Family B: the truthiness table. One value, every position that consumes truthiness. Two
// assertions: agreement with the documented table (only where the documentation settles the
// value, vals.V.Truthy) and uniformity across the positions (always).

import (
	"fmt"
	"strconv"
	"strings"

	"verif/internal/hx"
	"verif/internal/vals"
)

// TruthCase is one value; Pos restricts the positions (empty = all that are not excluded).
type TruthCase struct {
	Val vals.V   `json:"val"`
	Pos []string `json:"pos,omitempty"`
}

type position struct {
	name string
	tpl  string
	// obs derives the truthiness the position attributed to x from the parsed output.
	obs func(l []*hx.N) (bool, error)
}

func findM(l []*hx.N, id string) []*hx.N {
	return hx.Find(l, func(n *hx.N) bool { return n.Attrs["data-m"] == id })
}

func present(id string) func([]*hx.N) (bool, error) {
	return func(l []*hx.N) (bool, error) {
		switch n := len(findM(l, id)); n {
		case 0:
			return false, nil
		case 1:
			return true, nil
		default:
			return false, fmt.Errorf("element %s rendered %d times", id, n)
		}
	}
}

func not(f func([]*hx.N) (bool, error)) func([]*hx.N) (bool, error) {
	return func(l []*hx.N) (bool, error) {
		b, err := f(l)
		return !b, err
	}
}

func one(l []*hx.N, id string) (*hx.N, error) {
	ns := findM(l, id)
	if len(ns) != 1 {
		return nil, fmt.Errorf("element %s must stay in the output exactly once, found %d times", id, len(ns))
	}
	return ns[0], nil
}

// shown: the element is kept; hidden iff its style declares display:none.
func shown(id string) func([]*hx.N) (bool, error) {
	return func(l []*hx.N) (bool, error) {
		n, err := one(l, id)
		if err != nil {
			return false, err
		}
		for _, decl := range strings.Split(n.Attrs["style"], ";") {
			kv := strings.SplitN(decl, ":", 2)
			if len(kv) == 2 && strings.EqualFold(strings.TrimSpace(kv[0]), "display") {
				return !strings.EqualFold(strings.TrimSpace(kv[1]), "none"), nil
			}
		}
		return true, nil
	}
}

func hasAttr(id, attr string) func([]*hx.N) (bool, error) {
	return func(l []*hx.N) (bool, error) {
		n, err := one(l, id)
		if err != nil {
			return false, err
		}
		_, ok := n.Attrs[attr]
		return ok, nil
	}
}

// hasClass: class k present iff truthy; the classes in must / mustNot are fixed by literal
// true / false entries or by a static class attribute.
func hasClass(id, k string, must, mustNot []string) func([]*hx.N) (bool, error) {
	return func(l []*hx.N) (bool, error) {
		n, err := one(l, id)
		if err != nil {
			return false, err
		}
		set := map[string]bool{}
		for _, c := range strings.Fields(n.Attrs["class"]) {
			set[c] = true
		}
		for _, c := range must {
			if !set[c] {
				return false, fmt.Errorf("class %q missing from class=%q", c, n.Attrs["class"])
			}
		}
		for _, c := range mustNot {
			if set[c] {
				return false, fmt.Errorf("class %q must not be in class=%q", c, n.Attrs["class"])
			}
		}
		return set[k], nil
	}
}

// elseIf: the v-if before it is false (literal bool f), so exactly one of y / e is rendered.
func elseIf(l []*hx.N) (bool, error) {
	if n := len(findM(l, "n")); n != 0 {
		return false, fmt.Errorf("the v-if=\"ff\" member (ff=false) was rendered")
	}
	y, e := len(findM(l, "y")), len(findM(l, "e"))
	if y+e != 1 {
		return false, fmt.Errorf("v-else-if member rendered %d times, v-else member %d times; want exactly one of them once", y, e)
	}
	return y == 1, nil
}

// position names; the first five are the positions named by the statement.
const (
	pIf        = "v-if"
	pElseIf    = "v-else-if"
	pShow      = "v-show"
	pAttr      = ":attr"
	pClass     = ":class"
	pClassMix  = ":class+static"
	pDisabled  = ":disabled"
	pNotIf     = "v-if !x"
	pNotShow   = "v-show !x"
	pIfPath    = "v-if it.x (v-for body)"
	pElseIfNeg = "v-else-if !x"
	pShowChain = "v-show on v-if member"
)

var positions = []position{
	{pIf, `<p data-m="y" v-if="x">Y</p>`, present("y")},
	{pElseIf, `<p data-m="n" v-if="ff">N</p><p data-m="y" v-else-if="x">Y</p><p data-m="e" v-else>E</p>`, elseIf},
	{pShow, `<p data-m="y" v-show="x">Y</p>`, shown("y")},
	{pAttr, `<p data-m="y" :data-x="x">Y</p>`, hasAttr("y", "data-x")},
	{pDisabled, `<button data-m="y" v-bind:disabled="x">Y</button>`, hasAttr("y", "disabled")},
	{pClass, `<p data-m="y" :class="{k: x}">Y</p>`, hasClass("y", "k", nil, nil)},
	{pClassMix, `<p data-m="y" class="s" :class="{'a': tt, 'k': x, 'b': ff}">Y</p>`, hasClass("y", "k", []string{"s", "a"}, []string{"b"})},
	{pNotIf, `<p data-m="y" v-if="!x">Y</p>`, not(present("y"))},
	{pNotShow, `<p data-m="y" v-show="!x">Y</p>`, not(shown("y"))},
	{pIfPath, `<div v-for="it in rows"><p data-m="y" v-if="it.x">Y</p></div>`, present("y")},
	{pElseIfNeg, `<p data-m="n" v-if="ff">N</p><p data-m="y" v-else-if="!x">Y</p><p data-m="e" v-else>E</p>`, not(elseIf)},
	{pShowChain, `<p data-m="y" v-if="tt" v-show="x">Y</p>`, shown("y")},
}

func positionNames() []string {
	out := make([]string, len(positions))
	for i, p := range positions {
		out[i] = p.name
	}
	return out
}

// classReparsed is the region of finding C03-class-object-string-reparsed: non-empty strings
// that the :class object code re-reads, after stringifying and trimming, as zero / empty.
func classReparsed(v vals.V) bool {
	if v.K != "string" || v.S == "" {
		return false
	}
	t := strings.TrimSpace(v.S)
	if t == "" {
		return true
	}
	if len(t) >= 2 && (t[0] == '"' || t[0] == '\'') && t[len(t)-1] == t[0] {
		return true // quotes are stripped again
	}
	if i, err := strconv.ParseInt(t, 10, 64); err == nil && i == 0 {
		return true
	}
	if f, err := strconv.ParseFloat(t, 64); err == nil && f == 0 {
		return true
	}
	return false
}

// excludedPositions returns, per open known finding, the positions not exercised for v.
func excludedPositions(v vals.V, open map[string]bool) map[string]string {
	out := map[string]string{}
	if open[fClassNil] && (v.K == "nil" || v.K == "missing") {
		out[pClass], out[pClassMix] = fClassNil, fClassNil
	}
	if open[fClassStr] && classReparsed(v) {
		out[pClass], out[pClassMix] = fClassStr, fClassStr
	}
	if open[fShowChain] {
		out[pShowChain] = fShowChain
	}
	return out
}

func truthData(v vals.V) map[string]any {
	d := map[string]any{"tt": true, "ff": false}
	row := map[string]any{}
	if v.K != "missing" {
		d["x"] = v.Go()
		row["x"] = v.Go()
	}
	d["rows"] = []any{row}
	return d
}

func checkTruth(c TruthCase) error {
	doc, specified := c.Val.Truthy()
	want := map[string]bool{}
	for _, p := range c.Pos {
		want[p] = true
	}
	type res struct {
		name string
		val  bool
	}
	var seen []res
	for _, p := range positions {
		if len(want) > 0 && !want[p.name] {
			continue
		}
		out, err := render(p.tpl, truthData(c.Val), "")
		if err != nil {
			return fmt.Errorf("x=%s in %s: render failed: %v (template %s)", c.Val, p.name, err, p.tpl)
		}
		forest, err := hx.Frag(out, hx.Collapse)
		if err != nil {
			return fmt.Errorf("x=%s in %s: output does not parse: %v", c.Val, p.name, err)
		}
		got, err := p.obs(forest)
		if err != nil {
			return fmt.Errorf("x=%s in %s: %v (template %s, output %q)", c.Val, p.name, err, p.tpl, out)
		}
		if specified && got != doc {
			return fmt.Errorf("x=%s is documented %s but position %s treated it as %s (template %s, output %q)",
				c.Val, tf(doc), p.name, tf(got), p.tpl, out)
		}
		seen = append(seen, res{p.name, got})
	}
	for _, r := range seen[min(1, len(seen)):] {
		if r.val != seen[0].val {
			return fmt.Errorf("x=%s is %s in position %s but %s in position %s", c.Val, tf(seen[0].val), seen[0].name, tf(r.val), r.name)
		}
	}
	return nil
}

func tf(b bool) string {
	if b {
		return "truthy"
	}
	return "falsy"
}

func classifyTruth(c TruthCase) (bool, []string) {
	t, spec := c.Val.Truthy()
	cls := []string{"B:kind=" + c.Val.K}
	switch {
	case !spec:
		cls = append(cls, "B:unspecified(uniformity-only)")
	case t:
		cls = append(cls, "B:documented-truthy")
	default:
		cls = append(cls, "B:documented-falsy")
	}
	return c.Val.K != "bool", cls
}
