package c03

// Family B: the truthiness table. One value, every position that consumes truthiness. Two
// assertions: agreement with the documented table (only where the documentation settles the
// value, vals.V.Truthy) and uniformity across the positions (always).

import (
	"fmt"
	"strconv"
	"strings"
	"sync/atomic"

	"verif/internal/hx"
	"verif/internal/vals"
)

// TruthCase is one value; Pos restricts the positions (empty = all that are not excluded).
type TruthCase struct {
	Val vals.V   `json:"val"`
	Pos []string `json:"pos,omitempty"`
	// Prelude > 0: the positions are rendered, then a page that resolves Prelude paths never seen
	// before in this process, then the positions again (vuego keeps process-wide caches of parsed
	// paths and compiled expressions: what a path means must not depend on what was rendered before).
	Prelude int `json:"prelude,omitempty"`
	// Entry is the door the position templates are rendered through (see entryPoints).
	Entry string `json:"entry,omitempty"`
}

type position struct {
	name string
	tpl  string
	// obs derives the truthiness the position attributed to x from the parsed output.
	obs func(l []*hx.N) (bool, error)
	// data places the value where the position's operand path finds it (nil = truthData);
	// skip leaves the position out for values it cannot hold.
	data func(v vals.V) map[string]any
	skip func(v vals.V) bool
	// root builds root data that is not a map (a struct), used instead of data
	root func(v vals.V) any
}

func findM(l []*hx.N, id string) []*hx.N {
	return hx.Find(l, func(n *hx.N) bool { return n.Attrs["data-m"] == id })
}

func present(id string) func([]*hx.N) (bool, error) {
	return func(l []*hx.N) (bool, error) {
		switch n := len(findM(l, id)); n {
		case 0:
			return false, nil
		case 1:
			return true, nil
		default:
			return false, fmt.Errorf("element %s rendered %d times", id, n)
		}
	}
}

func not(f func([]*hx.N) (bool, error)) func([]*hx.N) (bool, error) {
	return func(l []*hx.N) (bool, error) {
		b, err := f(l)
		return !b, err
	}
}

func one(l []*hx.N, id string) (*hx.N, error) {
	ns := findM(l, id)
	if len(ns) != 1 {
		return nil, fmt.Errorf("element %s must stay in the output exactly once, found %d times", id, len(ns))
	}
	return ns[0], nil
}

// shown: the element is kept; hidden iff its style declares display:none.
func shown(id string) func([]*hx.N) (bool, error) {
	return func(l []*hx.N) (bool, error) {
		n, err := one(l, id)
		if err != nil {
			return false, err
		}
		for _, decl := range strings.Split(n.Attrs["style"], ";") {
			kv := strings.SplitN(decl, ":", 2)
			if len(kv) == 2 && strings.EqualFold(strings.TrimSpace(kv[0]), "display") {
				return !strings.EqualFold(strings.TrimSpace(kv[1]), "none"), nil
			}
		}
		return true, nil
	}
}

func hasAttr(id, attr string) func([]*hx.N) (bool, error) {
	return func(l []*hx.N) (bool, error) {
		n, err := one(l, id)
		if err != nil {
			return false, err
		}
		_, ok := n.Attrs[attr]
		return ok, nil
	}
}

// hasClass: class k present iff truthy; the classes in must / mustNot are fixed by literal
// true / false entries or by a static class attribute.
func hasClass(id, k string, must, mustNot []string) func([]*hx.N) (bool, error) {
	return func(l []*hx.N) (bool, error) {
		n, err := one(l, id)
		if err != nil {
			return false, err
		}
		set := map[string]bool{}
		for _, c := range strings.Fields(n.Attrs["class"]) {
			set[c] = true
		}
		for _, c := range must {
			if !set[c] {
				return false, fmt.Errorf("class %q missing from class=%q", c, n.Attrs["class"])
			}
		}
		for _, c := range mustNot {
			if set[c] {
				return false, fmt.Errorf("class %q must not be in class=%q", c, n.Attrs["class"])
			}
		}
		return set[k], nil
	}
}

// elseIf: the v-if before it is false (literal bool f), so exactly one of y / e is rendered.
func elseIf(l []*hx.N) (bool, error) {
	if n := len(findM(l, "n")); n != 0 {
		return false, fmt.Errorf("the v-if=\"ff\" member (ff=false) was rendered")
	}
	y, e := len(findM(l, "y")), len(findM(l, "e"))
	if y+e != 1 {
		return false, fmt.Errorf("v-else-if member rendered %d times, v-else member %d times; want exactly one of them once", y, e)
	}
	return y == 1, nil
}

// position names; the first five are the positions named by the statement.
const (
	pIf        = "v-if"
	pElseIf    = "v-else-if"
	pShow      = "v-show"
	pAttr      = ":attr"
	pClass     = ":class"
	pClassMix  = ":class+static"
	pDisabled  = ":disabled"
	pNotIf     = "v-if !x"
	pNotShow   = "v-show !x"
	pIfPath    = "v-if it.x (v-for body)"
	pElseIfNeg = "v-else-if !x"
	pShowChain = "v-show on v-if member"
	pClassNot  = ":class !x"
)

var positions = append([]position{
	{name: pIf, tpl: `<p data-m="y" v-if="x">Y</p>`, obs: present("y")},
	{name: pElseIf, tpl: `<p data-m="n" v-if="ff">N</p><p data-m="y" v-else-if="x">Y</p><p data-m="e" v-else>E</p>`, obs: elseIf},
	{name: pShow, tpl: `<p data-m="y" v-show="x">Y</p>`, obs: shown("y")},
	{name: pAttr, tpl: `<p data-m="y" :data-x="x">Y</p>`, obs: hasAttr("y", "data-x")},
	{name: pDisabled, tpl: `<button data-m="y" v-bind:disabled="x">Y</button>`, obs: hasAttr("y", "disabled")},
	{name: pClass, tpl: `<p data-m="y" :class="{k: x}">Y</p>`, obs: hasClass("y", "k", nil, nil)},
	{name: pClassMix, tpl: `<p data-m="y" class="s" :class="{'a': tt, 'k': x, 'b': ff}">Y</p>`, obs: hasClass("y", "k", []string{"s", "a"}, []string{"b"})},
	{name: pNotIf, tpl: `<p data-m="y" v-if="!x">Y</p>`, obs: not(present("y"))},
	{name: pNotShow, tpl: `<p data-m="y" v-show="!x">Y</p>`, obs: not(shown("y"))},
	{name: pIfPath, tpl: `<div v-for="it in rows"><p data-m="y" v-if="it.x">Y</p></div>`, obs: present("y")},
	{name: pElseIfNeg, tpl: `<p data-m="n" v-if="ff">N</p><p data-m="y" v-else-if="!x">Y</p><p data-m="e" v-else>E</p>`, obs: not(elseIf)},
	{name: pShowChain, tpl: `<p data-m="y" v-if="tt" v-show="x">Y</p>`, obs: shown("y")},
	{name: pClassNot, tpl: `<p data-m="y" class="s" :class="{k: !x, 'a': tt}">Y</p>`, obs: not(hasClass("y", "k", []string{"s", "a"}, nil))},
}, formPositions()...)

// basePositionCount is the number of positions written on the plain name x.
const basePositionCount = 13

// holder is a struct below the root: Val is read by its JSON tag (h.val) and by its Go name
// (h.Val), Plain has no tag.
type holder struct {
	Val   any `json:"val"`
	Plain any
}

// form is one way of writing the operand of a condition: a path and the data that puts the
// value at the end of that path. Paths resolve through maps, slices, pointers and structs, by
// field name or JSON tag, dotted or bracketed (docs/expressions.md, docs/api.md); hyphenated
// keys work directly in templates (docs/components.md).
type form struct {
	name   string
	path   string
	wrap   [2]string // optional wrapper around the probing element (a v-for binding the path's head)
	data   func(val any, missing bool) map[string]any
	skip   func(v vals.V) bool
	neg    string            // negated spelling (default "!" + path)
	noAttr bool              // the form is not written into a bound attribute
	root   func(val any) any // root data that is a struct (or a pointer to one) instead of a map
}

// Embedded is embedded by value in OuterV and by pointer in OuterP: its fields are promoted and
// addressed like fields of the outer struct (e.Val), exactly as Go code does.
type Embedded struct {
	Val   any `json:"val"`
	Plain any
}

type OuterV struct {
	Embedded
	Name string
}

type OuterP struct {
	*Embedded
	Name string
}

// rootStruct is root data that is a struct, not a map: Draft is excluded from the JSON view
// (json:"-") and addressed by its Go name, Val by JSON tag and by Go name, Plain has no tag; tt
// and ff serve the positions that need a fixed true / false.
type rootStruct struct {
	Draft any `json:"-"`
	Val   any `json:"val"`
	Plain any
	Tt    bool `json:"tt"`
	Ff    bool `json:"ff"`
}

func rootStructForms() []form {
	mk := func(name, path string, set func(r *rootStruct, v any), ptr bool) form {
		return form{name: "root struct " + name, path: path, data: func(any, bool) map[string]any { return map[string]any{} },
			root: func(v any) any {
				r := rootStruct{Tt: true}
				set(&r, v)
				if ptr {
					return &r
				}
				return r
			}}
	}
	return []form{
		mk(`field Draft tagged json:"-", by Go name`, "Draft", func(r *rootStruct, v any) { r.Draft = v }, false),
		mk(`field Draft tagged json:"-", root is a pointer`, "Draft", func(r *rootStruct, v any) { r.Draft = v }, true),
		mk("field by JSON tag val", "val", func(r *rootStruct, v any) { r.Val = v }, false),
		mk("field by Go name Val", "Val", func(r *rootStruct, v any) { r.Val = v }, false),
		mk("untagged field Plain", "Plain", func(r *rootStruct, v any) { r.Plain = v }, true),
	}
}

func promotedForms() []form {
	mk := func(name, path string, wrap [2]string, data func(v any) map[string]any) form {
		return form{name: "promoted field " + name, path: path, wrap: wrap, data: func(v any, _ bool) map[string]any { return data(v) }}
	}
	none := [2]string{}
	return []form{
		mk("e.Val (struct embedded by value)", "e.Val", none, func(v any) map[string]any {
			return map[string]any{"e": OuterV{Embedded: Embedded{Val: v}}}
		}),
		mk("e.Plain (untagged, embedded by value)", "e.Plain", none, func(v any) map[string]any {
			return map[string]any{"e": OuterV{Embedded: Embedded{Plain: v}}}
		}),
		mk("ep.Val (struct embedded by pointer)", "ep.Val", none, func(v any) map[string]any {
			return map[string]any{"ep": OuterP{Embedded: &Embedded{Val: v}}}
		}),
		mk("pe.Val (pointer to the outer struct)", "pe.Val", none, func(v any) map[string]any {
			return map[string]any{"pe": &OuterV{Embedded: Embedded{Val: v}}}
		}),
		mk("es[0].Val (outer struct in a slice)", "es[0].Val", none, func(v any) map[string]any {
			return map[string]any{"es": []OuterP{{Embedded: &Embedded{Val: v}}}}
		}),
		mk("p.Val (outer struct as v-for item)", "p.Val", [2]string{`<div v-for="p in es">`, `</div>`}, func(v any) map[string]any {
			return map[string]any{"es": []OuterV{{Embedded: Embedded{Val: v}}}}
		}),
	}
}

// funcNames are names of template functions registered by default (docs/funcmap.md): a variable
// of such a name is a variable like any other.
var funcNames = []string{"title", "len", "default", "type", "json", "file"}

func funcNameForms() []form {
	var out []form
	for _, name := range append(append([]string(nil), funcNames...), "upper", "trim", "boom", "nok") {
		name := name
		out = append(out, form{name: "variable named like the template function " + name, path: name,
			// with no variable of that name (missing) the word is an absent variable: falsy, not the
			// function value
			data: func(v any, miss bool) map[string]any { return mapWith(name, v, miss) }})
	}
	return out
}

// cmpForms write a boolean as a comparison in its JS and Go spellings (docs/expressions.md,
// docs/syntax.md `status == 'active'`; === / !== are accepted as == / !=): s is "yes" for true and
// "no" for false.
func cmpForms() []form {
	var out []form
	for _, op := range []struct{ name, expr string }{
		{"s === 'yes'", "s === 'yes'"}, {"s !== 'no'", "s !== 'no'"}, {"s == 'yes'", "s == 'yes'"}, {"s != 'no'", "s != 'no'"},
		{"'yes' === s", "'yes' === s"}, {"n !== 0", "n !== 0"}, {"n === 1", "n === 1"},
	} {
		out = append(out, form{name: "comparison " + op.name, path: op.expr, neg: "!(" + op.expr + ")", noAttr: true,
			skip: func(v vals.V) bool { return v.K != "bool" },
			data: func(v any, _ bool) map[string]any {
				if v == true {
					return map[string]any{"s": "yes", "n": 1}
				}
				return map[string]any{"s": "no", "n": 0}
			}})
	}
	return out
}

// exprOperandForms are operands that are not plain paths: an element indexed by a variable, a map
// entry keyed by a variable, a parenthesised operand, a function call result. Negated, they have
// to mean the same in every position (for a non-boolean operand the expression library refuses
// the negation and each position falls back on its own).
func exprOperandForms() []form {
	notMissing := func(v vals.V) bool { return v.K == "missing" }
	return []form{
		{name: "element indexed by a variable l[i]", path: "l[i]", skip: notMissing,
			data: func(v any, _ bool) map[string]any { return map[string]any{"l": []any{"pad", v}, "i": 1} }},
		{name: "element indexed by the loop index l[j]", path: "l[j]", skip: notMissing,
			wrap: [2]string{`<div v-for="(j, nm) in names">`, `</div>`},
			data: func(v any, _ bool) map[string]any {
				return map[string]any{"l": []any{v}, "names": []any{"a"}}
			}},
		{name: "map entry keyed by a variable m[key]", path: "m[key]", skip: notMissing,
			data: func(v any, _ bool) map[string]any { return map[string]any{"m": map[string]any{"k1": v}, "key": "k1"} }},
		{name: "parenthesised operand (x)", path: "(x)", neg: "!(x)",
			data: func(v any, miss bool) map[string]any { return mapWith("x", v, miss) }},
		{name: "function call len(xs)", path: "len(xs)", neg: "!len(xs)",
			skip: func(v vals.V) bool { return v.K != "bool" },
			data: func(v any, _ bool) map[string]any {
				if v == true {
					return map[string]any{"xs": []any{1, 2}}
				}
				return map[string]any{"xs": []any{}}
			}},
		{name: "function call int(n)", path: "int(n)", neg: "!int(n)",
			skip: func(v vals.V) bool { return v.K != "bool" },
			data: func(v any, _ bool) map[string]any {
				if v == true {
					return map[string]any{"n": "3"}
				}
				return map[string]any{"n": "0"}
			}},
	}
}

// nonASCIIForms: variable names and map keys beyond ASCII - Cyrillic, CJK, precomposed and
// decomposed accents, emoji keys, hyphenated keys with non-ASCII letters in dotted and bracket
// spelling - and a comparison with a multi-byte literal.
func nonASCIIForms() []form {
	top := func(name, key string) form {
		return form{name: "non-ASCII " + name, path: key, data: func(v any, miss bool) map[string]any { return mapWith(key, v, miss) }}
	}
	in := func(name, path, m, key string) form {
		return form{name: "non-ASCII " + name, path: path, data: func(v any, miss bool) map[string]any {
			return map[string]any{m: mapWith(key, v, miss)}
		}}
	}
	return []form{
		top("Cyrillic variable", "включено"),
		top("CJK variable", "有効"),
		top("precomposed accent variable", "activé"),
		in("Cyrillic map key (dotted)", "данные.ключ", "данные", "ключ"),
		in("Cyrillic map key (bracket)", "данные['ключ']", "данные", "ключ"),
		in("decomposed accent key", "user.bloque\u0301", "user", "bloque\u0301"),
		in("emoji key", "flags.🔥", "flags", "🔥"),
		in("emoji key (bracket)", "flags['🔥']", "flags", "🔥"),
		in("hyphenated key with Cyrillic letters (dotted)", "user.vip-клиент", "user", "vip-клиент"),
		in("hyphenated key with Cyrillic letters (bracket)", "user['vip-клиент']", "user", "vip-клиент"),
		{name: "non-ASCII comparison with a multi-byte literal", path: "ответ == 'да'", neg: "!(ответ == 'да')",
			skip: func(v vals.V) bool { return v.K != "bool" },
			data: func(v any, _ bool) map[string]any {
				if v == true {
					return map[string]any{"ответ": "да"}
				}
				return map[string]any{"ответ": "нет"}
			}},
	}
}

// builtinNames are data keys that are also built-in functions of the expression library and / or
// registered template functions: as data keys they are ordinary names (docs/expressions.md uses
// count, docs/funcmap.md len / title / type as functions).
var builtinNames = []string{"count", "type", "title", "trim", "upper", "lower", "int", "string",
	// built-ins of the expression library that are not registered template functions
	// (open finding C03-builtin-named-variable-next-to-call)
	"first", "last", "sum", "filter", "keys", "date"}

var unshadowedBuiltins = map[string]bool{"first": true, "last": true, "sum": true, "filter": true, "keys": true, "date": true}

// callForms combine such a variable with a call of a registered template function in one
// expression: with li = [1] and nl = [], `len(li) > 0 && count` and `len(nl) > 0 || count` have
// the truthiness of the bool count.
func callForms() []form {
	var out []form
	add := func(name, expr string, data func(v any) map[string]any) {
		out = append(out, form{name: "with a function call: " + name, path: expr, neg: "!(" + expr + ")",
			skip: func(v vals.V) bool { return v.K != "bool" },
			data: func(v any, _ bool) map[string]any {
				d := data(v)
				d["li"], d["nl"] = []any{1}, []any{}
				return d
			}})
	}
	for i, name := range builtinNames {
		name := name
		one := func(v any) map[string]any { return map[string]any{name: v} }
		switch i % 3 {
		case 0:
			add("len(li) > 0 && "+name, "len(li) > 0 && "+name, one)
		case 1:
			add(name+" && len(li) > 0", name+" && len(li) > 0", one)
		default:
			add("len(nl) > 0 || "+name, "len(nl) > 0 || "+name, one)
		}
	}
	// numbers: count is 3 for true and 0 for false
	num := func(v any) map[string]any {
		if v == true {
			return map[string]any{"count": 3, "li3": []any{1, 2, 3}}
		}
		return map[string]any{"count": 0, "li3": []any{1, 2, 3}}
	}
	add("len(li3) > 0 && count > 0", "len(li3) > 0 && count > 0", num)
	add("count == len(li3)", "count == len(li3)", num)
	add("int(count) > 0 && count > 0", "int(count) > 0 && count > 0", num)
	return out
}

func mapWith(key string, val any, missing bool) map[string]any {
	m := map[string]any{}
	if !missing {
		m[key] = val
	}
	return m
}

func listWith(val any, missing bool) []any {
	if missing {
		return []any{}
	}
	return []any{val}
}

var forms = []form{
	{name: "map key m.x", path: "m.x", data: func(v any, miss bool) map[string]any {
		return map[string]any{"m": mapWith("x", v, miss)}
	}},
	{name: "nested map key m.in.x", path: "m.in.x", data: func(v any, miss bool) map[string]any {
		return map[string]any{"m": map[string]any{"in": mapWith("x", v, miss)}}
	}},
	{name: "hyphenated name x-val", path: "x-val", data: func(v any, miss bool) map[string]any {
		return mapWith("x-val", v, miss)
	}},
	{name: "dotted index l.0", path: "l.0", data: func(v any, miss bool) map[string]any {
		return map[string]any{"l": listWith(v, miss)}
	}},
	{name: "bracket index l[0]", path: "l[0]", data: func(v any, miss bool) map[string]any {
		return map[string]any{"l": listWith(v, miss)}
	}},
	{name: "map in slice ms[1].x", path: "ms[1].x", data: func(v any, miss bool) map[string]any {
		return map[string]any{"ms": []any{map[string]any{}, mapWith("x", v, miss)}}
	}},
	{name: "map in slice ms.1.x", path: "ms.1.x", data: func(v any, miss bool) map[string]any {
		return map[string]any{"ms": []map[string]any{{}, mapWith("x", v, miss)}}
	}},
	{name: "struct field by JSON tag h.val", path: "h.val", data: func(v any, _ bool) map[string]any {
		return map[string]any{"h": holder{Val: v}}
	}},
	{name: "struct field by Go name h.Val", path: "h.Val", data: func(v any, _ bool) map[string]any {
		return map[string]any{"h": holder{Val: v}}
	}},
	{name: "untagged struct field h.Plain", path: "h.Plain", data: func(v any, _ bool) map[string]any {
		return map[string]any{"h": holder{Plain: v}}
	}},
	{name: "pointer to struct hp.val", path: "hp.val", data: func(v any, _ bool) map[string]any {
		return map[string]any{"hp": &holder{Val: v}}
	}},
	{name: "struct in looped slice p.val", path: "p.val", wrap: [2]string{`<div v-for="p in hs">`, `</div>`},
		data: func(v any, _ bool) map[string]any {
			return map[string]any{"hs": []holder{{Val: v}}}
		}},
	{name: "struct in slice hs[0].val", path: "hs[0].val", data: func(v any, _ bool) map[string]any {
		return map[string]any{"hs": []*holder{{Val: v}}}
	}},
	// a loop variable that shadows a root variable of the opposite truthiness (nil items included)
	{name: "loop variable x shadowing root x", path: "x", wrap: [2]string{`<div v-for="x in xs">`, `</div>`},
		skip: func(v vals.V) bool { return v.K == "missing" },
		data: func(v any, _ bool) map[string]any { return map[string]any{"xs": []any{v}} }},
	{name: "indexed loop variable x shadowing root x", path: "x", wrap: [2]string{`<div v-for="(i, x) in xs">`, `</div>`},
		skip: func(v vals.V) bool { return v.K == "missing" },
		data: func(v any, _ bool) map[string]any { return map[string]any{"xs": []any{v}} }},
}

// formPositions writes every form into the truthiness positions.
func formPositions() []position {
	var out []position
	for _, f := range allForms() {
		f := f
		data := func(v vals.V) map[string]any {
			var val any
			if v.K != "missing" {
				val = valGo(v)
			}
			d := f.data(val, v.K == "missing")
			d["tt"], d["ff"] = true, false
			if f.path == "x" {
				// the shadowed root variable has the opposite truthiness (true where the
				// documentation does not settle the value)
				t, spec := valTruthy(v)
				d["x"] = !spec || !t
			}
			return d
		}
		var root func(v vals.V) any
		if f.root != nil {
			root = func(v vals.V) any {
				var val any
				if v.K != "missing" {
					val = valGo(v)
				}
				return f.root(val)
			}
		}
		w := func(s string) string { return f.wrap[0] + s + f.wrap[1] }
		p := f.path
		np := f.neg
		if np == "" {
			np = "!" + p
		}
		if !f.noAttr {
			out = append(out, position{name: f.name + " / :attr", tpl: w(`<p data-m="y" :data-x="` + p + `">Y</p>`), obs: hasAttr("y", "data-x"), data: data, skip: f.skip, root: root})
		}
		out = append(out,
			position{name: f.name + " / v-if", tpl: w(`<p data-m="y" v-if="` + p + `">Y</p>`), obs: present("y"), data: data, skip: f.skip, root: root},
			position{name: f.name + " / v-else-if", tpl: w(`<p data-m="n" v-if="ff">N</p><p data-m="y" v-else-if="` + p + `">Y</p><p data-m="e" v-else>E</p>`), obs: elseIf, data: data, skip: f.skip, root: root},
			position{name: f.name + " / v-show", tpl: w(`<p data-m="y" v-show="` + p + `">Y</p>`), obs: shown("y"), data: data, skip: f.skip, root: root},
			position{name: f.name + " / :class", tpl: w(`<p data-m="y" :class="{k: ` + p + `}">Y</p>`), obs: hasClass("y", "k", nil, nil), data: data, skip: f.skip, root: root},
			position{name: f.name + " / v-if !", tpl: w(`<p data-m="y" v-if="` + np + `">Y</p>`), obs: not(present("y")), data: data, skip: f.skip, root: root},
			position{name: f.name + " / :class !", tpl: w(`<p data-m="y" :class="{k: ` + np + `}">Y</p>`), obs: not(hasClass("y", "k", nil, nil)), data: data, skip: f.skip, root: root},
			position{name: f.name + " / v-show !", tpl: w(`<p data-m="y" v-show="` + np + `">Y</p>`), obs: not(shown("y")), data: data, skip: f.skip, root: root},
		)
	}
	return out
}

// stackOnlyPosition: the position's operand is a path that only the variable stack can read.
func stackOnlyPosition(name string) bool {
	for _, f := range []string{"hyphenated name x-val", "dotted index l.0", "map in slice ms.1.x", "struct field by JSON tag h.val",
		"pointer to struct hp.val", "struct in looped slice p.val", "struct in slice hs[0].val"} {
		if strings.HasPrefix(name, f+" /") {
			return true
		}
	}
	return false
}

func allForms() []form {
	out := append([]form(nil), forms...)
	out = append(out, promotedForms()...)
	out = append(out, rootStructForms()...)
	out = append(out, funcNameForms()...)
	out = append(out, nonASCIIForms()...)
	out = append(out, exprOperandForms()...)
	out = append(out, callForms()...)
	return append(out, cmpForms()...)
}

// extraValues complete the shared table with spellings around the one string the implementation
// treats specially ("false"): the documentation lists only the empty string as a falsy string, so
// every other spelling is truthy.
var extraValues = []vals.V{vals.Str("False"), vals.Str("FALSE"), vals.Str("fAlSe"), vals.Str("True"), vals.Str("TRUE"),
	vals.Str(" false"), vals.Str("false "), vals.Str("falsey"), vals.Str("nil"), vals.Str("null"), vals.Str("undefined"), vals.Str("no")}

func positionNames() []string {
	out := make([]string, len(positions))
	for i, p := range positions {
		out[i] = p.name
	}
	return out
}

// classReparsed is the region of finding C03-class-object-string-reparsed: non-empty strings
// that the :class object code re-reads, after stringifying and trimming, as zero / empty.
func classReparsed(v vals.V) bool {
	if v.K != "string" || v.S == "" {
		return false
	}
	t := strings.TrimSpace(v.S)
	if t == "" {
		return true
	}
	if len(t) >= 2 && (t[0] == '"' || t[0] == '\'') && t[len(t)-1] == t[0] {
		return true // quotes are stripped again
	}
	if i, err := strconv.ParseInt(t, 10, 64); err == nil && i == 0 {
		return true
	}
	if f, err := strconv.ParseFloat(t, 64); err == nil && f == 0 {
		return true
	}
	return false
}

// excludedPositions returns, per open known finding, the positions not exercised for v.
func excludedPositions(v vals.V, open map[string]bool) map[string]string {
	out := map[string]string{}
	if open[fClassNil] && (v.K == "nil" || v.K == "missing") {
		out[pClass], out[pClassMix] = fClassNil, fClassNil
	}
	if open[fClassStr] && classReparsed(v) {
		out[pClass], out[pClassMix] = fClassStr, fClassStr
	}
	if open[fShowChain] {
		out[pShowChain] = fShowChain
	}
	if t, spec := valTruthy(v); open[fClassNot] && ((spec && !t) || (v.K == "string" && v.S == "false")) {
		// negated :class entries whose operand the expression library cannot negate
		for _, p := range positionNames() {
			if p != pClassNot && !strings.HasSuffix(p, "/ :class !") {
				continue
			}
			if v.K != "bool" || stackOnlyPosition(p) {
				out[p] = fClassNot
			}
		}
	}
	if t, spec := valTruthy(v); open[fAttrOperand] && !(spec && !t) {
		for _, f := range []string{"element indexed by a variable l[i]", "element indexed by the loop index l[j]",
			"map entry keyed by a variable m[key]", "parenthesised operand (x)"} {
			out[f+" / :attr"] = fAttrOperand
		}
	}
	if open[fBuiltinVar] && v.K == "bool" {
		for _, p := range positionNames() {
			if !strings.HasPrefix(p, "with a function call: ") {
				continue
			}
			expr, _, _ := strings.Cut(strings.TrimPrefix(p, "with a function call: "), " / ")
			for _, w := range strings.FieldsFunc(expr, func(r rune) bool { return !(r >= 'a' && r <= 'z') }) {
				if unshadowedBuiltins[w] {
					out[p] = fBuiltinVar
				}
			}
		}
	}
	if open[fClassSne] && v.K == "bool" {
		for _, p := range positionNames() {
			if strings.Contains(p, "!==") && strings.HasSuffix(p, "/ :class") {
				out[p] = fClassSne
			}
		}
	}
	return out
}

func truthData(v vals.V) map[string]any {
	d := map[string]any{"tt": true, "ff": false}
	row := map[string]any{}
	if v.K != "missing" {
		d["x"] = valGo(v)
		row["x"] = valGo(v)
	}
	d["rows"] = []any{row}
	return d
}

var preludeSerial atomic.Int64

// renderPrelude renders a page that resolves n paths no earlier render of this process has used.
func renderPrelude(n int) error {
	serial := preludeSerial.Add(1)
	var sb strings.Builder
	zq := map[string]any{}
	for i := 0; i < n; i++ {
		key := fmt.Sprintf("s%dk%d", serial, i)
		zq[key] = map[string]any{"v": "P"}
		fmt.Fprintf(&sb, `<i :data-a="zq.%s.v" v-if="zq.%s.v">{{ zq.%s.v }}</i>`, key, key, key)
	}
	out, err := render(sb.String(), map[string]any{"zq": zq}, "")
	if err != nil {
		return fmt.Errorf("prelude page failed: %v", err)
	}
	if got := strings.Count(out, `data-a="P"`); got != n {
		return fmt.Errorf("prelude page: %d of %d bound attributes rendered", got, n)
	}
	return nil
}

func checkTruth(c TruthCase) error {
	if err := checkTruthPass(c, ""); err != nil {
		return err
	}
	if c.Prelude > 0 {
		if err := renderPrelude(c.Prelude); err != nil {
			return err
		}
		return checkTruthPass(c, fmt.Sprintf(" [second pass, after a page that resolved %d other paths]", c.Prelude))
	}
	return nil
}

func checkTruthPass(c TruthCase, note string) error {
	doc, specified := valTruthy(c.Val)
	want := map[string]bool{}
	for _, p := range c.Pos {
		want[p] = true
	}
	type res struct {
		name string
		val  bool
	}
	var seen []res
	for _, p := range positions {
		if len(want) > 0 && !want[p.name] {
			continue
		}
		if p.skip != nil && p.skip(c.Val) {
			continue
		}
		var data any = truthData(c.Val)
		if p.root != nil {
			data = p.root(c.Val)
		} else if p.data != nil {
			data = p.data(c.Val)
		}
		out, err := render(p.tpl, data, c.Entry)
		if err != nil {
			return fmt.Errorf("x=%s in %s: render failed: %v (template %s, door %q)%s", c.Val, p.name, err, p.tpl, c.Entry, note)
		}
		forest, err := hx.Frag(out, hx.Collapse)
		if err != nil {
			return fmt.Errorf("x=%s in %s: output does not parse: %v%s", c.Val, p.name, err, note)
		}
		got, err := p.obs(forest)
		if err != nil {
			return fmt.Errorf("x=%s in %s: %v (template %s, output %q)%s", c.Val, p.name, err, p.tpl, out, note)
		}
		if specified && got != doc {
			return fmt.Errorf("x=%s is documented %s but position %s treated it as %s (template %s, output %q, door %q)%s",
				c.Val, tf(doc), p.name, tf(got), p.tpl, out, c.Entry, note)
		}
		seen = append(seen, res{p.name, got})
	}
	for _, r := range seen[min(1, len(seen)):] {
		if r.val != seen[0].val {
			return fmt.Errorf("x=%s is %s in position %s but %s in position %s%s", c.Val, tf(seen[0].val), seen[0].name, tf(r.val), r.name, note)
		}
	}
	return nil
}

func tf(b bool) string {
	if b {
		return "truthy"
	}
	return "falsy"
}

func classifyTruth(c TruthCase) (bool, []string) {
	t, spec := valTruthy(c.Val)
	cls := []string{"B:kind=" + c.Val.K}
	switch {
	case !spec:
		cls = append(cls, "B:unspecified(uniformity-only)")
	case t:
		cls = append(cls, "B:documented-truthy")
	default:
		cls = append(cls, "B:documented-falsy")
	}
	return c.Val.K != "bool", cls
}
