package c03

// Generators: bounded exhaustive enumeration of chain shapes (family A) and rapid generators
// for deeper nestings (family C) and random values (family B). Construction, never rejection;
// the regions of open known findings are avoided by construction and counted.

import (
	"fmt"
	"strconv"
	"strings"

	"pgregory.net/rapid"

	"verif/internal/ev"
	"verif/internal/vals"
)

var condNames = []string{"ca", "cb", "cc", "cd", "ce", "cf", "cg", "ch"}
var sepKinds = []string{"", "w", "c", "wcw"}

// chainSpec describes one chain of the enumeration.
type chainSpec struct {
	nElif   int
	hasElse bool
	assign  int    // bit k = truth of condition k
	prefix  string // marker prefix
	vars    []string
}

func (s chainSpec) conds() int { return 1 + s.nElif }

// members builds the chain's nodes; ref maps a variable name to the condition text.
func (s chainSpec) members(sep string, ref func(string) string) []Node {
	var out []Node
	for k := 0; k < s.conds(); k++ {
		kind := "elif"
		if k == 0 {
			kind = "if"
		}
		out = append(out, Node{Kind: kind, M: fmt.Sprintf("%s%d", s.prefix, k), Cond: ref(s.vars[k]), Sep: sep})
	}
	if s.hasElse {
		out = append(out, Node{Kind: "else", M: s.prefix + "e", Sep: sep})
	}
	return out
}

func (s chainSpec) values(assign int) map[string]vals.V {
	m := map[string]vals.V{}
	for k := 0; k < s.conds(); k++ {
		m[s.vars[k]] = vals.Bool(assign&(1<<k) != 0)
	}
	return m
}

func plain(m, sep string, kids ...Node) Node { return Node{Kind: "plain", M: m, Sep: sep, Kids: kids} }

func leafKid(m string) []Node { return []Node{{Kind: "plain", M: m + "k"}} }

// place wraps the sibling list body into the placement and attaches the data.
func place(placement string, body []Node, vars map[string]vals.V, next map[string]vals.V) Case {
	if i := strings.IndexByte(placement, '+'); i >= 0 {
		c := place(placement[:i], body, vars, next)
		c.Form = placement[i+1:]
		return c
	}
	if strings.HasPrefix(placement, "top:") {
		return Case{Nodes: body, Vars: vars, Form: placement[4:]}
	}
	if strings.HasPrefix(placement, "loop:") {
		c := place("loop", body, vars, next)
		c.Items = placement[5:]
		return c
	}
	switch placement {
	case "vloop":
		// the loop variable is the first condition variable itself: it takes the assignment's value,
		// nil and the opposite value, while the global of the same name stays true
		first := vars["ca"]
		v := merge(vars, map[string]vals.V{"ca": vals.Bool(true)})
		return Case{
			Nodes:  []Node{{Kind: "vloop", M: "V", Var: "ca", List: "vl", Kids: body}},
			Vars:   v,
			VLists: map[string][]vals.V{"vl": {first, vals.Nil(), vals.Bool(first.S != "true")}},
		}
	case "div":
		return Case{Nodes: []Node{plain("D", "", body...)}, Vars: vars}
	case "loop":
		it0 := map[string]vals.V{"id": vals.Str("r0")}
		it1 := map[string]vals.V{"id": vals.Str("r1")}
		for k, v := range vars {
			it0[k] = v
		}
		for k, v := range next {
			it1[k] = v
		}
		return Case{
			Nodes: []Node{{Kind: "loop", M: "L", Var: "it1", List: "rows", Kids: body}},
			Lists: map[string][]map[string]vals.V{"rows": {it0, it1}},
		}
	}
	return Case{Nodes: body, Vars: vars}
}

func refFor(placement string) func(string) string {
	if placement == "loop" || strings.HasPrefix(placement, "loop:") || strings.HasPrefix(placement, "loop+") {
		return func(v string) string { return "it1." + v }
	}
	return func(v string) string { return v }
}

func merge(a, b map[string]vals.V) map[string]vals.V {
	out := map[string]vals.V{}
	for k, v := range a {
		out[k] = v
	}
	for k, v := range b {
		out[k] = v
	}
	return out
}

func negate(cond string) string {
	if len(cond) > 0 && cond[0] == '!' {
		return cond[1:]
	}
	return "!" + cond
}

// textDeco says which member decorations are also run with text siblings around the chain.
func textDeco(name string) bool {
	return name == "plain" || name == "tmpl-all" || strings.HasPrefix(name, "for-") || strings.HasPrefix(name, "foronce-")
}

var afterVariants = []string{"fresh", "engine", "template"}

// enumAfter yields chains whose conditions call a registered function that can fail (nok) behind
// a leading negation, next to plain and undefined operands, each rendered after a failing variant
// of the same page in which the same condition texts fail (stale value "ERR"), in all three
// after-failure variants and both entry points.
func enumAfter(yield func(Case) bool) {
	conds := []string{"guard-and:ca:cb", "guard-or:ca:cb", "nota-and:ca:cb", "ca", "!cb", "cc"}
	for i, c0 := range conds {
		for j, c1 := range conds {
			if i == j {
				continue
			}
			for assign := 0; assign < 4; assign++ {
				for k, after := range afterVariants {
					body := []Node{plain("s0", ""),
						{Kind: "if", M: "m0", Cond: c0}, {Kind: "elif", M: "m1", Cond: c1, Sep: "w"}, {Kind: "else", M: "me", Sep: "w"},
						{Kind: "probe", M: "q0", Cond: c0, Sep: "w"}, {Kind: "probe", M: "q1", Cond: c1, Sep: "w"},
						plain("s1", "w")}
					c := Case{Nodes: body, After: after,
						Vars: map[string]vals.V{"ca": vals.Bool(assign&1 != 0), "cb": vals.Bool(assign&2 != 0)}}
					if (i+j+assign+k)%2 == 0 {
						c.Entry = "file"
					}
					if !yield(c) {
						return
					}
				}
			}
		}
	}
}

// enumShapes yields every case of family A; yield returns false to stop. With full=false (quick
// tier) the longest chains (3 v-else-if) are combined with one sibling layout only and are left
// out of the adjacent-chain and orphan products; everything else is the same full product.
func enumShapes(full bool, yield func(Case) bool) {
	idx := 0
	emit := func(c Case) bool {
		idx++
		// every public door in turn (the two main ones twice as often)
		c.Entry = append(entryPoints, "", "file")[idx%(len(entryPoints)+2)]
		// after-failure dimension on a rotating fraction of the cases with plain variable names
		if every := map[bool]int{false: 10, true: 3}[full]; idx%every == 0 && c.afterOK() {
			c.After = afterVariants[(idx/every)%len(afterVariants)]
		}
		return yield(c)
	}
	// the last placements vary how the operands of the conditions are written and stored (path
	// forms, struct items read by JSON tag) and let the loop variable itself be the condition
	// variable, shadowing a global of that name; they run a reduced product (plain / negated
	// members, siblings on both sides)
	placements := []string{"top", "div", "loop",
		"top:hyphen", "top:dotidx", "top:bracket", "top:nested", "top:tag", "top:goname",
		"loop:struct", "loop:ptr", "loop:embed", "loop:embedptr", "vloop",
		// variables named like default template functions; booleans written as comparisons
		"top+funcname", "vloop+funcname", "top+cmp-seq", "top+cmp-sne", "top+cmp-eq", "top+cmp-ne", "loop+cmp-sne", "loop+cmp-seq",
		// bool variables named like built-ins / template functions, each written next to a function call
		"top+call-and", "top+call-or", "loop+call-and"}
	for nElif := 0; nElif <= 3; nElif++ {
		for _, hasElse := range []bool{false, true} {
			spec := chainSpec{nElif: nElif, hasElse: hasElse, prefix: "m", vars: condNames[:4]}
			total := 1 << spec.conds()
			reduced := !full && nElif == 3
			for assign := 0; assign < total; assign++ {
				spec.assign = assign
				vars := spec.values(assign)
				next := spec.values((assign + 1) % total)
				for _, pl := range placements {
					ref := refFor(pl)
					extra := pl == "vloop" || strings.ContainsAny(pl, ":+")
					for _, sep := range sepKinds {
						if extra && !full && (sep == "w" || sep == "c") {
							continue // quick tier: two separators for the operand-form placements
						}
						base := spec.members(sep, ref)
						nm := len(base)
						// decorations of the members
						type deco struct {
							name string
							mod  func([]Node, map[string]vals.V, map[string]vals.V)
						}
						decos := []deco{{"plain", func([]Node, map[string]vals.V, map[string]vals.V) {}}}
						decos = append(decos, deco{"tmpl-all", func(ms []Node, _, _ map[string]vals.V) {
							for k := range ms {
								ms[k].Tmpl, ms[k].Kids = true, leafKid(ms[k].M)
							}
						}})
						for k := 0; k < nm; k++ {
							k := k
							decos = append(decos, deco{"tmpl-" + strconv.Itoa(k), func(ms []Node, _, _ map[string]vals.V) {
								ms[k].Tmpl = true
								ms[k].Kids = []Node{{Kind: "plain", M: ms[k].M + "k"}, {Kind: "plain", M: ms[k].M + "j", Sep: sep}}
							}})
							decos = append(decos, deco{"for-" + strconv.Itoa(k), func(ms []Node, _, _ map[string]vals.V) {
								ms[k].For = 2
								if k == 0 {
									ms[k].For = 1 // see the package comment: one item, so both directive orders agree
								}
							}})
							decos = append(decos, deco{"foronce-" + strconv.Itoa(k), func(ms []Node, _, _ map[string]vals.V) {
								// v-for and v-once together: the chosen member renders its first instance
								ms[k].For, ms[k].Once = 2, true
								if k == 0 {
									ms[k].For = 1
								}
							}})
							if k >= 1 {
								// later members carrying a directive that the evaluator looks at early
								// (v-if + v-pre on the first member has no documented meaning)
								decos = append(decos, deco{"pre-" + strconv.Itoa(k), func(ms []Node, _, _ map[string]vals.V) { ms[k].Pre = true }})
								decos = append(decos, deco{"once-" + strconv.Itoa(k), func(ms []Node, _, _ map[string]vals.V) { ms[k].Once = true }})
							}
							if base[k].Kind != "else" {
								decos = append(decos, deco{"neg-" + strconv.Itoa(k), func(ms []Node, v, nx map[string]vals.V) {
									// negate the condition and flip the variable: same truth assignment
									ms[k].Cond = negate(ms[k].Cond)
									name := spec.vars[k]
									v[name] = vals.Bool(v[name].S != "true")
									nx[name] = vals.Bool(nx[name].S != "true")
								}})
							}
						}
						for _, d := range decos {
							if extra && d.name != "plain" && !strings.HasPrefix(d.name, "neg-") {
								continue
							}
							for sib := 0; sib < 4; sib++ {
								if (reduced || extra) && sib != 3 {
									continue
								}
								ms := spec.members(sep, ref)
								v, nx := merge(vars, nil), merge(next, nil)
								d.mod(ms, v, nx)
								var body []Node
								if sib&1 != 0 {
									body = append(body, plain("s0", ""))
									ms[0].Sep = sep
								} else {
									ms[0].Sep = ""
								}
								body = append(body, ms...)
								if sib&2 != 0 {
									body = append(body, plain("s1", sep), plain("s2", sep))
								}
								if extra {
									// the other consumers of truthiness read the first operand in the same form
									body = append(body, Node{Kind: "probe", M: "q", Cond: ref(spec.vars[0]), Sep: sep})
								}
								if !emit(place(pl, body, v, nx)) {
									return
								}
								// the same layout with non-whitespace text siblings: a literal / an
								// interpolated text run directly after the last member (behind the
								// separator, so also comment + text) and, with siblings, one before the v-if
								if (sib == 0 || sib == 3) && textDeco(d.name) && (full || sep == "" || sep == "wcw") {
									for _, interp := range []bool{false, true} {
										var tb []Node
										if sib == 3 {
											tb = append(tb, body[0], Node{Kind: "text", M: "b", Interp: interp, Sep: sep})
											tb = append(tb, body[1:1+len(ms)]...)
										} else {
											tb = append(tb, body[:len(ms)]...)
										}
										tb = append(tb, Node{Kind: "text", M: "a", Interp: !interp, Sep: sep})
										if sib == 3 {
											tb = append(tb, body[1+len(ms):]...)
										}
										if !emit(place(pl, tb, merge(v, nil), merge(nx, nil))) {
											return
										}
									}
								}
							}
						}
						if reduced || extra {
							continue
						}
						// two adjacent chains: the second one follows with the same separator
						for _, sh2 := range []chainSpec{
							{nElif: 0, hasElse: true, prefix: "n", vars: condNames[4:]},
							{nElif: 1, hasElse: false, prefix: "n", vars: condNames[4:]},
						} {
							for a2 := 0; a2 < 1<<sh2.conds(); a2++ {
								for _, sib := range []bool{false, true} {
									ms := spec.members(sep, ref)
									ms[0].Sep = ""
									var body []Node
									if sib {
										body = append(body, plain("s0", ""))
										ms[0].Sep = sep
									}
									body = append(body, ms...)
									body = append(body, sh2.members(sep, ref)...)
									if sib {
										body = append(body, plain("s1", sep))
									}
									v := merge(vars, sh2.values(a2))
									nx := merge(next, sh2.values((a2+1)%(1<<sh2.conds())))
									if !emit(place(pl, body, v, nx)) {
										return
									}
								}
							}
						}
						// orphans (two separators are enough here)
						if sep == "c" || sep == "w" {
							continue
						}
						for _, orphan := range []Node{
							{Kind: "else", M: "o"},
							{Kind: "elif", M: "o", Cond: ref("cg")},
							{Kind: "elif", M: "o", Cond: ref("ch")},
						} {
							for pos := 0; pos < 6; pos++ {
								ms := spec.members(sep, ref)
								o := orphan
								var body []Node
								switch pos {
								case 0: // first child of the parent, then the chain
									ms[0].Sep = sep
									body = append(append(body, o), ms...)
									body = append(body, plain("s1", sep))
								case 1: // between a plain sibling and the chain
									o.Sep = sep
									ms[0].Sep = sep
									body = append(body, plain("s0", ""), o)
									body = append(body, ms...)
									body = append(body, plain("s1", sep))
								case 2: // chain, plain sibling, orphan, plain sibling
									o.Sep = sep
									ms[0].Sep = ""
									body = append(body, ms...)
									body = append(body, plain("s0", sep), o, plain("s1", sep))
								case 3: // last child of the parent
									o.Sep = sep
									ms[0].Sep = ""
									body = append(body, plain("s0", ""))
									ms[0].Sep = sep
									body = append(body, ms...)
									body = append(body, plain("s1", sep), o)
								case 4: // between two plain siblings, no chain nearby
									o.Sep = sep
									body = append(body, plain("s0", ""), o, plain("s1", sep), plain("s2", sep))
								case 5: // directly after a chain that already ended with v-else
									if !hasElse {
										continue
									}
									o.Sep = sep
									ms[0].Sep = ""
									body = append(body, ms...)
									body = append(body, o, plain("s1", sep))
								}
								v := merge(vars, map[string]vals.V{"cg": vals.Bool(true), "ch": vals.Bool(false)})
								nx := merge(next, map[string]vals.V{"cg": vals.Bool(true), "ch": vals.Bool(false)})
								if !emit(place(pl, body, v, nx)) {
									return
								}
							}
						}
					}
				}
			}
		}
	}
}

// ---------------------------------------------------------------- stale scope placements

// enumScope yields chains and truthiness probes evaluated inside a v-for body that follows - as a
// later sibling or as a later iteration of the same loop - an include of a component with 9..12
// props, the conditions naming exactly those props. The names are undefined where the chain sits
// (a component's props end with the include tag), so they are falsy there: the chain takes its
// v-else (or nothing), the probe is hidden, gets no attribute and no class. The pattern is
// repeated three times per case (an engine that recycles scope maps need not hand the same map
// out again the first time).
func enumScope(yield func(Case) bool) {
	idx := 0
	for props := 9; props <= 12; props++ {
		for _, layout := range []string{"sibling", "iter", "iter-cond", "nested-sibling"} {
			for nElif := 0; nElif <= 2; nElif++ {
				for _, hasElse := range []bool{false, true} {
					for truePos := -1; truePos <= nElif; truePos++ {
						idx++
						sep := sepKinds[idx%2] // "" or "w"
						var body []Node
						for r := 0; r < 3; r++ {
							pre := fmt.Sprintf("r%d", r)
							var chain []Node
							for k := 0; k <= nElif; k++ {
								kind := "elif"
								if k == 0 {
									kind = "if"
								}
								cond := fmt.Sprintf("p%d", props-1-k)
								if k == truePos {
									cond = "ca" // the one defined (true) variable
								}
								chain = append(chain, Node{Kind: kind, M: fmt.Sprintf("%sm%d", pre, k), Cond: cond, Sep: sep})
							}
							if hasElse {
								chain = append(chain, Node{Kind: "else", M: pre + "me", Sep: sep})
							}
							probes := []Node{
								{Kind: "probe", M: pre + "q0", Cond: fmt.Sprintf("p%d", props-1), Sep: sep},
								{Kind: "probe", M: pre + "q1", Cond: "p1", Sep: sep},
							}
							inc := Node{Kind: "include", M: pre + "c", Props: props, Sep: sep}
							loop := Node{Kind: "loop", M: pre + "L", Var: "it1", List: "rows", Sep: sep}
							switch layout {
							case "sibling": // include, then a loop whose body holds the chain
								loop.Kids = append(append(loop.Kids, chain...), probes...)
								body = append(body, inc, loop)
							case "iter": // the include is the last child of the loop body: later iterations follow it
								loop.Kids = append(append(append(loop.Kids, chain...), probes...), inc)
								body = append(body, loop)
							case "iter-cond": // only the first item includes the component
								loop.Kids = append(append(loop.Kids, chain...), probes...)
								loop.Kids = append(loop.Kids, Node{Kind: "if", M: pre + "t", Cond: "it1.inc", Tmpl: true, Sep: sep, Kids: []Node{inc}})
								body = append(body, loop)
							case "nested-sibling": // include deeper in an earlier sibling, chain deeper in the loop body
								loop.Kids = append(loop.Kids, plain(pre+"d", "", chain...))
								loop.Kids = append(loop.Kids, probes...)
								body = append(body, plain(pre+"w", sep, inc), plain(pre+"s", sep), loop)
							}
						}
						body[0].Sep = ""
						c := Case{Nodes: body, Entry: entryPoints[idx%len(entryPoints)],
							Vars: map[string]vals.V{"ca": vals.Bool(true)},
							Lists: map[string][]map[string]vals.V{"rows": {
								{"id": vals.Str("r0"), "inc": vals.Bool(true)},
								{"id": vals.Str("r1"), "inc": vals.Bool(false)},
								{"id": vals.Str("r2")},
							}}}
						if !yield(c) {
							return
						}
					}
				}
			}
		}
	}
}

// ---------------------------------------------------------------- chains in re-used slot content

// enumSlot yields chains written as slot content of a component that uses its slot once (or
// twice) per item of a list, the item being handed back as scoped slot prop su and driving the
// conditions: the same slot content is evaluated k times with different truth assignments. The
// list holds every assignment, in ascending or descending order, so every ordered pair of
// choices (an earlier use taking member j, a later use taking member i) occurs.
func enumSlot(yield func(Case) bool) {
	slotIdx := 0
	ref := func(v string) string { return "su." + v }
	for nElif := 0; nElif <= 2; nElif++ {
		for _, hasElse := range []bool{false, true} {
			spec := chainSpec{nElif: nElif, hasElse: hasElse, prefix: "m", vars: condNames[:4]}
			total := 1 << spec.conds()
			nm := len(spec.members("", ref))
			type deco struct {
				name string
				mod  func([]Node)
			}
			decos := []deco{{"plain", func([]Node) {}}}
			for k := 0; k < nm; k++ {
				k := k
				decos = append(decos,
					deco{"for", func(ms []Node) {
						ms[k].For = 2
						if k == 0 {
							ms[k].For = 1
						}
					}},
					deco{"tmpl", func(ms []Node) { ms[k].Tmpl, ms[k].Kids = true, leafKid(ms[k].M) }})
				if k >= 1 {
					decos = append(decos, deco{"pre", func(ms []Node) { ms[k].Pre = true }})
				}
			}
			for _, d := range decos {
				for _, desc := range []bool{false, true} {
					for _, twice := range []bool{false, true} {
						for _, sep := range []string{"", "wcw"} {
							ms := spec.members(sep, ref)
							d.mod(ms)
							var items []map[string]vals.V
							for i := 0; i < total; i++ {
								a := i
								if desc {
									a = total - 1 - i
								}
								it := spec.values(a)
								it["id"] = vals.Str(fmt.Sprintf("u%d", i))
								items = append(items, it)
							}
							kids := append([]Node{plain("a0", "")}, ms...)
							kids = append(kids, plain("a1", sep))
							body := []Node{plain("s0", ""),
								{Kind: "slotted", M: "S", List: "rows", Var: "su", Twice: twice, Sep: sep, Kids: kids},
								plain("s1", sep)}
							slotIdx++
							c := Case{Nodes: body, Entry: entryPoints[slotIdx%len(entryPoints)], Lists: map[string][]map[string]vals.V{"rows": items}}
							if !yield(c) {
								return
							}
						}
					}
				}
			}
		}
	}
}

// ---------------------------------------------------------------- compact template-root components

// enumComp yields includes (and shorthand tags) of component files whose root is a <template>
// wrapper written compactly around one chain or one element, next to the spaced and the
// unwrapped spelling of the same component: all must choose the same branch. Every component is
// used twice per case (with the two conditions swapped) between plain siblings.
func enumComp(yield func(Case) bool) {
	compIdx := 0
	for _, variant := range compVariantNames {
		for _, short := range []bool{false, true} {
			for assign := 0; assign < 4; assign++ {
				for _, pl := range []string{"top", "div", "loop"} {
					for _, sep := range []string{"", "wcw"} {
						ref := refFor(pl)
						spec := chainSpec{nElif: 1, vars: condNames[:4]}
						body := []Node{plain("s0", ""),
							{Kind: "comp", M: "x", Variant: variant, Short: short, Cond: ref("ca"), Cond2: ref("cb"), Sep: sep},
							{Kind: "text", M: "t", Sep: sep},
							{Kind: "comp", M: "y", Variant: variant, Short: short, Cond: ref("cb"), Cond2: ref("ca"), Sep: sep},
							plain("s1", sep)}
						compIdx++
						c := place(pl, body, spec.values(assign), spec.values((assign+1)%4))
						c.Entry = entryPoints[compIdx%len(entryPoints)]
						if !yield(c) {
							return
						}
					}
				}
			}
		}
	}
}

// ---------------------------------------------------------------- other places for a chain

// enumPlace yields chains in the places the other families do not reach: slot content that a
// page hands to its layout, the layout file itself, and elements with a parsing context of their
// own (noscript, list, select, table body).
func enumPlace(yield func(Case) bool) {
	idx := 0
	for nElif := 0; nElif <= 2; nElif++ {
		for _, hasElse := range []bool{false, true} {
			spec := chainSpec{nElif: nElif, hasElse: hasElse, prefix: "m", vars: condNames[:4]}
			for assign := 0; assign < 1<<spec.conds(); assign++ {
				for _, sep := range []string{"", "wcw"} {
					for _, where := range []string{"layout:slot", "layout:file", "noscript", "ul", "select", "table", "div>noscript", "div>table"} {
						idx++
						ms := spec.members(sep, func(v string) string { return v })
						ms[0].Sep = sep
						c := Case{Vars: spec.values(assign), Entry: entryPoints[idx%len(entryPoints)]}
						if strings.HasPrefix(where, "layout:") {
							c.Layout = where[7:]
							c.Nodes = append(append([]Node{plain("s0", "")}, ms...), plain("s1", sep))
						} else {
							variant := strings.TrimPrefix(where, "div>")
							kids := append(append([]Node{plain("k0", "")}, ms...), plain("k1", sep))
							ctx := Node{Kind: "ctx", M: "X", Variant: variant, Sep: sep, Kids: kids}
							c.Nodes = []Node{plain("s0", ""), ctx, plain("s1", sep)}
							if strings.HasPrefix(where, "div>") {
								c.Nodes = []Node{plain("D", "", c.Nodes...)}
							}
						}
						if !yield(c) {
							return
						}
					}
				}
			}
		}
	}
}

// ---------------------------------------------------------------- family C (rapid)

// specified values for condition variables: the documented part of the table.
var condValues = func() []vals.V {
	var out []vals.V
	for _, v := range append(append(vals.Scalars(), vals.Containers()...), namedValues...) {
		if _, spec := valTruthy(v); spec {
			out = append(out, v)
		}
	}
	return out
}()

type nestGen struct {
	t        *rapid.T
	next     int
	maxDepth int
	inSlot   bool
	atoms    bool     // function names may be used as absent-variable conditions (not under the funcname / call forms)
	bools    bool     // comparison forms: every condition variable is a defined bool, no undefined names
	plain    bool     // globals are written as plain names: vloops may shadow them
	vlists   []string // vloop lists used
}

func (g *nestGen) marker() string {
	g.next++
	return "n" + strconv.Itoa(g.next)
}

func (g *nestGen) sep() string { return rapid.SampledFrom(sepKinds).Draw(g.t, "sep") }

// funcAtoms are identifiers that are no variables but names of default or registered template
// functions: as a condition such a word is an absent variable, falsy.
var funcAtoms = []string{"title", "upper", "lower", "len", "trim", "default", "json", "escape", "boom", "nok"}

func (g *nestGen) cond(loopVars []string) string {
	if g.atoms && rapid.IntRange(0, 9).Draw(g.t, "fatom") == 0 {
		return rapid.SampledFrom(funcAtoms).Draw(g.t, "fname")
	}
	if rapid.IntRange(0, 7).Draw(g.t, "prop") == 0 && !g.bools {
		// the name of a component prop: undefined wherever the page evaluates it
		return fmt.Sprintf("p%d", rapid.IntRange(0, 11).Draw(g.t, "pk"))
	}
	name := rapid.SampledFrom(condNames[:6]).Draw(g.t, "var")
	if len(loopVars) > 0 && rapid.IntRange(0, 9).Draw(g.t, "ref") < 6 {
		name = loopVars[rapid.IntRange(0, len(loopVars)-1).Draw(g.t, "lv")] + "." + name
	}
	if rapid.IntRange(0, 4).Draw(g.t, "neg") == 0 {
		return "!" + name
	}
	return name
}

func (g *nestGen) kids(depth int, loopVars []string, atLeastOne bool) []Node {
	if depth >= g.maxDepth {
		if atLeastOne {
			return []Node{{Kind: "plain", M: g.marker()}}
		}
		return nil
	}
	lo := 0
	if atLeastOne {
		lo = 1
	}
	return g.siblings(depth, loopVars, lo, 3)
}

func (g *nestGen) chain(depth int, loopVars []string, firstSep string) []Node {
	nElif := rapid.IntRange(0, 3).Draw(g.t, "nelif")
	hasElse := rapid.Bool().Draw(g.t, "else")
	var out []Node
	for k := 0; k <= nElif+1; k++ {
		n := Node{M: g.marker(), Sep: g.sep()}
		switch {
		case k == 0:
			n.Kind, n.Sep = "if", firstSep
		case k <= nElif:
			n.Kind = "elif"
		default:
			if !hasElse {
				continue
			}
			n.Kind = "else"
		}
		if n.Kind != "else" {
			n.Cond = g.cond(loopVars)
		}
		switch rapid.IntRange(0, 9).Draw(g.t, "deco") {
		case 0, 1:
			n.Tmpl = true
			n.Kids = g.kids(depth+1, loopVars, true)
		case 2, 3:
			n.For = rapid.IntRange(1, 3).Draw(g.t, "for")
			if k == 0 {
				n.For = 1
			}
			if rapid.IntRange(0, 2).Draw(g.t, "forkids") == 0 {
				n.Kids = g.kids(depth+1, loopVars, false)
			}
			n.Once = rapid.IntRange(0, 2).Draw(g.t, "foronce") == 0
		case 4, 5, 6:
			n.Kids = g.kids(depth+1, loopVars, false)
		case 7:
			if k > 0 { // later members only: v-if + v-pre / v-once on the first has no documented meaning here
				if rapid.Bool().Draw(g.t, "pre") {
					n.Pre = true
				} else {
					n.Once = true
				}
			}
		}
		out = append(out, n)
	}
	return out
}

func (g *nestGen) siblings(depth int, loopVars []string, lo, hi int) []Node {
	count := rapid.IntRange(lo, hi).Draw(g.t, "count")
	var out []Node
	for i := 0; i < count; i++ {
		sep := g.sep()
		if len(out) == 0 && depth == 0 {
			sep = ""
		}
		switch k := rapid.IntRange(0, 32).Draw(g.t, "kind"); {
		case k >= 31:
			// a chain of leaf members in another parsing context
			n := Node{Kind: "ctx", M: g.marker(), Sep: sep, Variant: rapid.SampledFrom([]string{"noscript", "ul", "select", "table"}).Draw(g.t, "ctx")}
			n.Kids = append(n.Kids, Node{Kind: "plain", M: g.marker()})
			for k, m := range g.chain(g.maxDepth, loopVars, g.sep()) { // at maxDepth: no nested kids
				m.Tmpl, m.For, m.Pre, m.Once, m.Kids = false, 0, false, false, nil
				if k == 0 {
					m.Kind = "if"
				}
				n.Kids = append(n.Kids, m)
			}
			n.Kids = append(n.Kids, Node{Kind: "plain", M: g.marker(), Sep: g.sep()})
			out = append(out, n)
		case k >= 29:
			// a component written compactly with a <template> root, its chain driven by two props
			strip := func(c string) string { return strings.TrimPrefix(c, "!") }
			out = append(out, Node{Kind: "comp", M: g.marker(), Sep: sep,
				Variant: rapid.SampledFrom(compVariantNames).Draw(g.t, "variant"),
				Short:   rapid.Bool().Draw(g.t, "short"),
				Cond:    strip(g.cond(loopVars)), Cond2: strip(g.cond(loopVars))})
		case k >= 26:
			// non-whitespace text sibling (never between chain members: a chain is emitted whole)
			out = append(out, Node{Kind: "text", M: g.marker(), Sep: sep, Interp: rapid.Bool().Draw(g.t, "interp")})
		case k >= 24 && g.plain && depth < g.maxDepth:
			// a loop over plain values whose loop variable is named like a global condition variable
			list := fmt.Sprintf("vl%d", len(g.vlists))
			g.vlists = append(g.vlists, list)
			out = append(out, Node{Kind: "vloop", M: g.marker(), Sep: sep, List: list,
				Var:  rapid.SampledFrom(condNames[:6]).Draw(g.t, "vvar"),
				Kids: g.kids(depth+1, loopVars, true)})
		case k >= 22 && !g.inSlot && depth < g.maxDepth:
			// slot content (re-)used once or twice per item of a list
			g.inSlot = true
			n := Node{Kind: "slotted", M: g.marker(), Sep: sep, Var: "su", Twice: rapid.IntRange(0, 3).Draw(g.t, "twice") == 0,
				List: rapid.SampledFrom([]string{"rows1", "rows2"}).Draw(g.t, "slist")}
			n.Kids = g.kids(depth+1, append(append([]string(nil), loopVars...), "su"), true)
			g.inSlot = false
			out = append(out, n)
		case k == 20:
			out = append(out, Node{Kind: "include", M: g.marker(), Sep: sep, Props: rapid.IntRange(7, 12).Draw(g.t, "props")})
		case k == 21:
			c := g.cond(loopVars)
			if c[0] == '!' {
				c = c[1:] // negation inside bound attributes / class objects is C13's subject
			}
			out = append(out, Node{Kind: "probe", M: g.marker(), Sep: sep, Cond: c})
		case k < 2:
			out = append(out, Node{Kind: "plain", M: g.marker(), Sep: sep})
		case k < 5:
			out = append(out, Node{Kind: "plain", M: g.marker(), Sep: sep, Kids: g.kids(depth+1, loopVars, false)})
		case k < 10 && len(loopVars) < 2 && depth < g.maxDepth:
			v := fmt.Sprintf("it%d", len(loopVars)+1)
			list := rapid.SampledFrom([]string{"rows1", "rows2"}).Draw(g.t, "list")
			out = append(out, Node{Kind: "loop", M: g.marker(), Sep: sep, Var: v, List: list,
				Kids: g.kids(depth+1, append(append([]string(nil), loopVars...), v), true)})
		case k == 19:
			// orphan: only where it cannot be read as a chain member (start, or after a plain / loop node)
			if len(out) == 0 || out[len(out)-1].Kind == "plain" || out[len(out)-1].Kind == "loop" {
				o := Node{Kind: rapid.SampledFrom([]string{"else", "elif"}).Draw(g.t, "okind"), M: g.marker(), Sep: sep}
				if o.Kind == "elif" {
					o.Cond = g.cond(loopVars)
				}
				out = append(out, o, Node{Kind: "plain", M: g.marker(), Sep: g.sep()})
				continue
			}
			fallthrough
		default:
			out = append(out, g.chain(depth, loopVars, sep)...)
		}
	}
	if depth == 0 && !hasChain(out) {
		out = append(out, g.chain(depth, loopVars, g.sep())...)
	}
	return out
}

func noShort(nodes []Node) {
	for i := range nodes {
		nodes[i].Short = false
		noShort(nodes[i].Kids)
	}
}

func hasChain(nodes []Node) bool {
	for i := range nodes {
		if nodes[i].Kind == "if" || hasChain(nodes[i].Kids) {
			return true
		}
	}
	return false
}

// boolsOnly is set while a case with a comparison form is being drawn (rapid runs one case at
// a time per process): every condition variable is then a defined bool.
var boolsOnly bool

func genCondValue(t *rapid.T, label string) vals.V {
	if boolsOnly || rapid.IntRange(0, 9).Draw(t, label+"b") < 5 {
		return vals.Bool(rapid.Bool().Draw(t, label))
	}
	v := condValues[rapid.IntRange(0, len(condValues)-1).Draw(t, label+"v")]
	if namedZeroOpen && namedZeroRegion(v) {
		return vals.Bool(false) // region of the open finding C03-named-bool-string-zero-truthy
	}
	return v
}

// genNest draws a random forest (chains inside chains inside loops) and its data.
func genNest(rec *ev.Rec, open map[string]bool) func(*rapid.T) Case {
	return func(t *rapid.T) Case {
		g := &nestGen{t: t, maxDepth: rapid.IntRange(2, 4).Draw(t, "maxdepth")}
		c := Case{Vars: map[string]vals.V{}, Lists: map[string][]map[string]vals.V{}}
		c.Form = rapid.SampledFrom([]string{"", "", "", "", "hyphen", "dotidx", "bracket", "nested", "tag", "goname",
			"funcname", "funcname", "cmp-seq", "cmp-sne", "cmp-eq", "cmp-ne", "call-and", "call-or"}).Draw(t, "form")
		g.bools = isCmp(c.Form)
		boolsOnly = g.bools
		c.Items = rapid.SampledFrom([]string{"", "", "struct", "ptr", "embed", "embedptr"}).Draw(t, "items")
		if isCmp(c.Form) {
			// comparisons whose operand is a struct field read by its JSON tag are not generated here
			// (the expression library does not see tags of nested structs: C13 / C17's subject)
			c.Items = ""
		}
		g.plain = c.Form == "" || c.Form == "funcname"
		g.atoms = c.Form != "funcname" && !isCmp(c.Form)
		c.Nodes = g.siblings(0, nil, 1, 4)
		if len(g.vlists) > 0 {
			c.VLists = map[string][]vals.V{}
			for _, list := range g.vlists {
				n := []int{2, 3, 1, 2, 3, 0}[rapid.IntRange(0, 5).Draw(t, list)]
				items := make([]vals.V, n)
				for i := range items {
					// nil items are common: they must shadow, not fall through to the global
					if rapid.IntRange(0, 2).Draw(t, "vnil") == 0 {
						items[i] = vals.Nil()
					} else if items[i] = genCondValue(t, fmt.Sprintf("%s_%d", list, i)); items[i].K == "missing" {
						items[i] = vals.Nil()
					}
				}
				c.VLists[list] = items
			}
		}
		for _, name := range condNames[:6] {
			if v := genCondValue(t, name); v.K != "missing" {
				c.Vars[name] = v
			}
		}
		for _, list := range []string{"rows1", "rows2"} {
			n := []int{2, 1, 3, 2, 1, 3, 2, 0, 1, 2}[rapid.IntRange(0, 9).Draw(t, list)]
			items := []map[string]vals.V{}
			for i := 0; i < n; i++ {
				it := map[string]vals.V{"id": vals.Str(fmt.Sprintf("%s%d", list[len(list)-1:], i))}
				for _, name := range condNames[:6] {
					if v := genCondValue(t, fmt.Sprintf("%s%d%s", list, i, name)); v.K != "missing" {
						it[name] = v
					}
				}
				items = append(items, it)
			}
			c.Lists[list] = items
		}
		c.Entry = rapid.SampledFrom(entryPoints).Draw(t, "door")
		if rapid.IntRange(0, 5).Draw(t, "layout") == 0 {
			c.Layout = rapid.SampledFrom([]string{"slot", "file"}).Draw(t, "layoutkind")
			// shorthand component tags inside content handed to a layout / inside layout files are
			// not resolved on the current tree (components in layouts: C05 / C07's subject)
			noShort(c.Nodes)
		}
		if c.afterOK() && rapid.IntRange(0, 3).Draw(t, "after") == 0 {
			c.After = rapid.SampledFrom(afterVariants).Draw(t, "afterv")
		}
		// keep out of the regions of open known findings by construction: drop the v-for of
		// exactly the members that fall into them (the choice of member does not change)
		_, st := expect(&c)
		if open[fForElse] {
			for _, n := range st.forElse {
				if n.For > 0 {
					n.For = 0
					rec.Excluded(fForElse)
				}
			}
		}
		if open[fForIf] {
			for _, n := range st.forIfElif {
				if n.For > 0 {
					n.For = 0
					rec.Excluded(fForIf)
				}
			}
		}
		if open[fForIfPre] {
			for _, n := range st.forIfPre {
				if n.Pre {
					n.Pre = false
					rec.Excluded(fForIfPre)
				}
			}
		}
		// a v-once member that is chosen more than once in a render - in any enclosing loop, loop
		// member or re-used slot content - is C16's subject: not generated here. Clearing one
		// v-once can multiply the arrivals at the members below it (a member with v-for and v-once
		// renders one instance only), so repeat until no such member is left.
		for len(st.onceRepeat) > 0 {
			for _, n := range st.onceRepeat {
				n.Once = false
			}
			_, st = expect(&c)
		}
		if open[fForSkip] {
			for _, n := range st.forSkipped {
				if n.For > 0 {
					n.For = 0
					rec.Excluded(fForSkip)
				}
			}
		}
		return c
	}
}

// ---------------------------------------------------------------- family B (rapid)

var oddStrings = []string{"False", "FALSE", "fAlSe", " false", "false ", "TRUE", "", " ", "  ", "0", "00", "0.0", "-0", "0x0", "1", "-1", "1e3", "x", "no", "off", "nil", "null",
	"true", "false", "True", "FALSE", " x ", "0 ", " 1", "a b", "k", "undefined", "NaN", "[]", "{}"}

func genAnyValue(t *rapid.T, depth int) vals.V {
	hi := 6
	if depth > 0 {
		hi = 3
	}
	switch rapid.IntRange(0, hi).Draw(t, "vk") {
	case 0:
		return vals.GenScalar().Draw(t, "scalar")
	case 1:
		return vals.Str(rapid.SampledFrom(oddStrings).Draw(t, "str"))
	case 2:
		k := rapid.SampledFrom(vals.NumericKinds).Draw(t, "nk")
		pool := []string{"0", "1", "2", "100", "127"}
		switch k {
		case "float32", "float64":
			pool = append(pool, "-0", "0.5", "-2.25", "1e-30", "1e30", "NaN", "Inf", "-Inf")
		case "int", "int8", "int16", "int32", "int64":
			pool = append(pool, "-1", "-128")
		}
		return vals.Num(k, rapid.SampledFrom(pool).Draw(t, "n"))
	case 3:
		return rapid.SampledFrom([]vals.V{vals.Nil(), vals.Missing(), vals.Bool(true), vals.Bool(false)}).Draw(t, "basic")
	case 4:
		n := rapid.IntRange(0, 2).Draw(t, "len")
		l := make([]vals.V, n)
		for i := range l {
			l[i] = genAnyValue(t, depth+1)
			if l[i].K == "missing" {
				l[i] = vals.Nil()
			}
		}
		return vals.V{K: "[]any", L: l}
	case 5:
		m := map[string]vals.V{}
		for _, k := range []string{"a", "b"}[:rapid.IntRange(0, 2).Draw(t, "mlen")] {
			m[k] = genAnyValue(t, depth+1)
		}
		return vals.Map(m)
	default:
		return rapid.SampledFrom(vals.Containers()).Draw(t, "container")
	}
}

// genValue draws a random value; positions inside the region of an open finding are left out.
func genValue(rec *ev.Rec, open map[string]bool) func(*rapid.T) TruthCase {
	return func(t *rapid.T) TruthCase {
		c := TruthCase{Val: genAnyValue(t, 0), Entry: rapid.SampledFrom(entryPoints).Draw(t, "door")}
		if rapid.IntRange(0, 5).Draw(t, "named") == 0 {
			c.Val = namedValues[rapid.IntRange(0, len(namedValues)-1).Draw(t, "nv")]
			if open[fNamedZero] && namedZeroRegion(c.Val) {
				rec.Excluded(fNamedZero)
				c.Val = named(c.Val.K, map[string]string{"Flag": "true", "Name": "x"}[c.Val.K])
			}
		}
		// the positions on the plain name plus all positions of one operand form (the table runs
		// every form for its fixed values)
		fs := allForms()
		f1 := fs[rapid.IntRange(0, len(fs)-1).Draw(t, "form1")].name + " / "
		f2 := f1
		ex := excludedPositions(c.Val, open)
		for i, p := range positionNames() {
			if i >= basePositionCount && !strings.HasPrefix(p, f1) && !strings.HasPrefix(p, f2) {
				continue
			}
			if id, out := ex[p]; out {
				rec.Excluded(id)
				continue
			}
			c.Pos = append(c.Pos, p)
		}
		return c
	}
}
