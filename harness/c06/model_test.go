package c06

import (
	"fmt"
	"sort"
	"strconv"
	"strings"

	"verif/internal/hx"
)

// The reference model. It evaluates the description directly (never through vuego):
//
//   * an include tag partitions its children: slot templates by name, everything else -> unnamed slot;
//     each piece remembers the scope (variables and slot context) of the place where the tag is written;
//   * the component body is evaluated with its props and front-matter;
//   * a <slot> evaluates the props it binds in the component's scope at that position; if content was
//     supplied for its name it renders that content in the INCLUDER's scope extended with the slot
//     props (under the declared name, or destructured), otherwise its own fallback children in the
//     component's scope.
//
// Names are generated disjoint (includer variables / component props / front-matter / loop
// variables / slot props), so the model never has to decide a collision: a path that does not resolve
// in the scope the statement prescribes is reported as a generator error ("bad case").

type menv struct {
	vars map[string]any
	up   *menv
}

func (e *menv) lookup(name string) (any, bool) {
	for s := e; s != nil; s = s.up {
		if v, ok := s.vars[name]; ok {
			return v, true
		}
	}
	return nil, false
}

func (e *menv) path(p string) (any, error) {
	parts := strings.Split(p, ".")
	cur, ok := e.lookup(parts[0])
	if !ok {
		return nil, fmt.Errorf("path %q: %q is not in scope", p, parts[0])
	}
	for _, k := range parts[1:] {
		m, isMap := cur.(map[string]any)
		if !isMap {
			return nil, fmt.Errorf("path %q: %q of a non-map", p, k)
		}
		v, has := m[k]
		if !has {
			return nil, fmt.Errorf("path %q: no key %q", p, k)
		}
		cur = v
	}
	return cur, nil
}

func printable(v any) (string, error) {
	switch x := v.(type) {
	case string:
		return x, nil
	case int:
		return strconv.Itoa(x), nil
	case int8, int16, int32, int64, uint, uint8, uint16, uint32, uint64, float32, float64:
		// a number prints as fmt.Sprint of the Go value, wherever it is read (boundary values of family B)
		return fmt.Sprint(x), nil
	}
	return "", fmt.Errorf("value %#v is not printed by this check", v)
}

func listOf(v any) ([]any, error) {
	switch x := v.(type) {
	case []any:
		return x, nil
	case []string:
		out := make([]any, len(x))
		for i, s := range x {
			out[i] = s
		}
		return out, nil
	case []map[string]any:
		out := make([]any, len(x))
		for i, s := range x {
			out[i] = s
		}
		return out, nil
	}
	return nil, fmt.Errorf("value %#v is not a list", v)
}

// supplied is the content one include tag provides for one slot name.
type supplied struct {
	kids  []Node
	form  string // long | short | bare | plain
	varN  string
	destr []string
	ws    int
	env   *menv    // scope where the include tag is written
	sc    *slotCtx // slot context where the include tag is written
}

type slotCtx struct {
	by map[string]*supplied
}

// stats describes what a case exercises (for the class histogram and the non-trivial rule).
type stats struct {
	n map[string]int
}

func (s *stats) add(k string) { s.n[k]++ }

func (s *stats) nontrivial() bool {
	return s.n["instances"] >= 2 || s.n["scoped-prop-read"] > 0 || s.n["slot-in-component-loop"] > 0 || s.n["optional-prop-absent"] > 0
}

func (s *stats) classes() []string {
	var out []string
	for k, v := range s.n {
		switch k {
		case "instances":
			if v > 4 {
				v = 4
			}
			out = append(out, fmt.Sprintf("instances=%d", v))
		default:
			out = append(out, k)
		}
	}
	sort.Strings(out)
	return out
}

type mctx struct {
	env      *menv
	sc       *slotCtx
	inComp   int            // include nesting depth
	compLoop bool           // inside a v-for of the component body (since the component started)
	inSupply bool           // evaluating supplied content
	pageLoop bool           // inside a v-for of the page
	inLayout bool           // evaluating the layout file itself (not a component it includes)
	inst     int            // number of the component instance being evaluated
	names    map[string]int // slot names of the component being evaluated + names supplied to it
}

type model struct {
	c       Case
	st      *stats
	content []*hx.N              // rendered page, while the layout is evaluated
	inherit map[string]*supplied // page-level slot templates, while the layout is evaluated
	seen    map[string]bool      // instance/slot/prop that had a value in an earlier use
	insts   int
}

// expect computes the expected normalised output of the page.
func expect(c Case) ([]*hx.N, *stats, error) {
	m := &model{c: c, st: &stats{n: map[string]int{}}, seen: map[string]bool{}}
	data := map[string]any{}
	for k, v := range c.Data {
		data[k] = modelValue(v)
	}
	if c.Root != "" {
		m.st.add("root-data:" + c.Root)
	}
	if c.Entry != "" {
		m.st.add("entry:" + c.Entry)
	}
	if c.After != "" {
		m.st.add("after-failure:" + c.After + "-engine")
	}
	if c.Proc {
		m.st.add("page-rewritten-by-a-node-processor")
	}
	for k := range c.Data {
		for _, r := range k {
			if r > 127 {
				m.st.add("non-ascii-slot-and-prop-names")
				break
			}
		}
	}
	for bit, name := range []string{"slot-prop-v-bind", "include-prop-v-bind", "upper-case-tags", "single-quoted-values", "slot-closed-by-parent"} {
		if c.Spell&(1<<bit) != 0 {
			m.st.add("spelling:" + name)
		}
	}
	for _, v := range c.Data {
		switch v.K {
		case "[]srec", "[]*srec", "[]sstr", "[]*sstr":
			m.st.add("slot-prop-value:" + v.K)
		}
	}
	out, err := m.eval(c.Page, mctx{env: &menv{vars: data}})
	if err == nil && len(c.Layout) == 0 && len(c.Hand) > 0 {
		err = fmt.Errorf("page-level slot templates without a layout (not part of this check)")
	}
	if err != nil || len(c.Layout) == 0 {
		return out, m.st, err
	}
	// The layout is a template of its own: it sees the page data, receives the rendered page as
	// `content`, and its include tags supply the slots of their own component instances.
	m.st.add("layout-with-component-instance")
	m.content = out
	if len(c.Hand) > 0 {
		m.inherit = map[string]*supplied{}
		for _, s := range c.Hand {
			if s.Form == "bare" || s.Name == "" {
				return nil, m.st, fmt.Errorf("page-level slot template without a name")
			}
			m.inherit[s.Name] = &supplied{kids: s.Kids, form: s.Form, varN: s.Var, destr: s.Destr, ws: s.WS, env: &menv{vars: data}}
		}
	}
	out, err = m.eval(c.Layout, mctx{env: &menv{vars: data}, inLayout: true})
	return out, m.st, err
}

func (m *model) eval(nodes []Node, cx mctx) ([]*hx.N, error) {
	var out []*hx.N
	for _, n := range nodes {
		switch n.K {
		case "text":
			var sb strings.Builder
			for _, p := range n.T {
				if p.X == "" {
					sb.WriteString(p.L)
					continue
				}
				v, err := cx.env.path(p.X)
				if p.O && (err != nil || v == nil) {
					sb.WriteString(undef)
					continue
				}
				if err != nil {
					return nil, err
				}
				if p.S != "" {
					sb.WriteString(same + p.S + ":" + identity(v) + "\x02")
					continue
				}
				s, err := printable(v)
				if err != nil {
					return nil, err
				}
				if cx.inSupply {
					m.st.add("dyn:interpolation-in-supplied")
				}
				sb.WriteString(s)
			}
			if sb.Len() > 0 {
				out = append(out, &hx.N{Text: sb.String()})
			}
		case "el":
			r, err := m.evalEl(n, cx)
			if err != nil {
				return nil, err
			}
			out = append(out, r...)
		case "content":
			if !cx.inLayout || m.content == nil {
				return nil, fmt.Errorf("content node outside the layout")
			}
			out = append(out, &hx.N{Tag: n.Tag, Attrs: map[string]string{"data-m": n.M}, Kids: m.content})
		case "slot":
			r, err := m.evalSlot(n, cx)
			if err != nil {
				return nil, err
			}
			out = append(out, r...)
		case "inc":
			r, err := m.evalInc(n, cx)
			if err != nil {
				return nil, err
			}
			out = append(out, r...)
		default:
			return nil, fmt.Errorf("unknown node kind %q", n.K)
		}
	}
	return out, nil
}

func (m *model) evalEl(n Node, cx mctx) ([]*hx.N, error) {
	if n.For != nil && n.If != "" {
		return nil, fmt.Errorf("v-if and v-for on one element: precedence is not part of this check")
	}
	if n.If != "" {
		v, err := cx.env.path(n.If)
		if err != nil {
			return nil, err
		}
		b, ok := v.(bool)
		if !ok {
			return nil, fmt.Errorf("v-if on non-bool %#v", v)
		}
		if cx.inSupply {
			m.st.add("dyn:v-if-in-supplied")
		}
		if !b {
			return nil, nil
		}
	}
	one := func(cx mctx) (*hx.N, error) {
		e := &hx.N{Tag: n.Tag, Attrs: map[string]string{"data-m": n.M}}
		for _, kv := range n.Bind {
			v, err := cx.env.path(kv.V)
			if err != nil {
				return nil, err
			}
			s, err := printable(v)
			if err != nil {
				return nil, err
			}
			if cx.inSupply {
				m.st.add("dyn:bound-attr-in-supplied")
			}
			e.Attrs["data-"+kv.K] = s
		}
		kids, err := m.eval(n.Kids, cx)
		if err != nil {
			return nil, err
		}
		e.Kids = kids
		return e, nil
	}
	if n.For == nil {
		e, err := one(cx)
		if err != nil {
			return nil, err
		}
		return []*hx.N{e}, nil
	}
	lv, err := cx.env.path(n.For.List)
	if err != nil {
		return nil, err
	}
	items, err := listOf(lv)
	if err != nil {
		return nil, err
	}
	if cx.inSupply {
		m.st.add("dyn:v-for-in-supplied")
	}
	var out []*hx.N
	for i, it := range items {
		vars := map[string]any{n.For.Item: it}
		if n.For.Idx != "" {
			vars[n.For.Idx] = i
		}
		cx2 := cx
		cx2.env = &menv{vars: vars, up: cx.env}
		switch {
		case cx.inSupply:
		case cx.inComp > 0:
			cx2.compLoop = true
		default:
			cx2.pageLoop = true
		}
		e, err := one(cx2)
		if err != nil {
			return nil, err
		}
		out = append(out, e)
	}
	return out, nil
}

func (m *model) evalSlot(n Node, cx mctx) ([]*hx.N, error) {
	if n.For != nil {
		// v-for on the <slot> element: the slot is a loop of its own, filled once per item with
		// that item's props (an empty list renders nothing, neither content nor fallback)
		lv, err := cx.env.path(n.For.List)
		if err != nil {
			return nil, err
		}
		items, err := listOf(lv)
		if err != nil {
			return nil, err
		}
		m.st.add("v-for-on-the-slot-element")
		if len(items) == 0 {
			m.st.add("v-for-on-the-slot-element:empty-list")
		}
		one := n
		one.For = nil
		var out []*hx.N
		for i, it := range items {
			vars := map[string]any{n.For.Item: it}
			if n.For.Idx != "" {
				vars[n.For.Idx] = i
			}
			cx2 := cx
			cx2.env = &menv{vars: vars, up: cx.env}
			cx2.compLoop = true
			r, err := m.evalSlot(one, cx2)
			if err != nil {
				return nil, err
			}
			out = append(out, r...)
		}
		return out, nil
	}
	props := map[string]any{}
	optional := map[string]bool{}
	for _, kv := range n.Bind {
		if kv.Lit {
			props[kv.K] = kv.V
			continue
		}
		v, err := cx.env.path(kv.V)
		if kv.O && (err != nil || v == nil) {
			// this use binds nothing for the prop: it is absent, whatever an earlier use bound
			optional[kv.K] = true
			continue
		}
		if err != nil {
			return nil, err
		}
		props[kv.K] = v
	}
	name := n.Name
	label := name
	if label == "" {
		label = "default"
	}
	_ = label
	for _, cl := range nameClasses(name, cx.names) {
		m.st.add(cl)
	}
	if cx.inSupply {
		m.st.add("slot-forwarded-inside-supplied-content")
	}
	if cx.compLoop {
		m.st.add("slot-in-component-loop")
	}
	var sup *supplied
	if cx.sc != nil {
		sup = cx.sc.by[name]
	}
	if sup == nil && cx.inLayout && cx.sc == nil && m.inherit[name] != nil {
		sup = m.inherit[name]
		m.st.add("layout-handover:slot-in-the-layout-file")
	} else if sup != nil && m.inherit[name] == sup {
		m.st.add("layout-handover:slot-in-a-component-of-the-layout")
	}
	if sup == nil {
		switch {
		case len(n.Kids) > 0:
			m.st.add("fallback-rendered")
		default:
			m.st.add("empty-slot-nothing-supplied")
		}
		return m.eval(n.Kids, cx)
	}
	m.st.add("filled:" + sup.form)
	if sup.form == "long" && name != "" && strings.ContainsRune("v-slot:", rune(name[0])) {
		m.st.add("filled:long-form-name-starting-with-a-letter-of-v-slot")
	}
	for _, kv := range n.Bind {
		if !kv.O || (sup.varN == "" && len(sup.destr) == 0) {
			continue
		}
		key := fmt.Sprintf("%d/%s/%s", cx.inst, name, kv.K)
		if _, present := props[kv.K]; present {
			m.st.add("optional-prop-present")
			m.seen[key] = true
		} else {
			m.st.add("optional-prop-absent")
			if m.seen[key] {
				m.st.add("optional-prop-absent-after-present")
			}
		}
	}
	if len(n.Kids) > 0 {
		m.st.add("fallback-suppressed")
	}
	vars := map[string]any{}
	switch {
	case sup.varN != "":
		vars[sup.varN] = props
		m.st.add("scoped:named-var")
	case len(sup.destr) > 0:
		for _, d := range sup.destr {
			// a listed name this use of the slot binds nothing (or nil) for - or that the slot never
			// binds - is still declared by the pattern: it is undefined, it does not fall through to
			// an includer variable of the same name
			vars[d] = props[d]
			if _, ok := props[d]; !ok {
				m.st.add("destructured-name-without-a-prop")
			}
		}
		m.st.add("scoped:destructured")
		m.st.add(fmt.Sprintf("pattern-layout=%d", sup.ws%patternStyles))
	}
	if len(vars) > 0 && usesAny(sup.kids, vars) {
		m.st.add("scoped-prop-read")
	}
	// names the component binds at this position (props, front-matter, loop variables, slot props
	// that were not asked for under that name) and that the content reads as the INCLUDER's names
	compNames := map[string]any{}
	for e := cx.env; e != nil; e = e.up {
		for k := range e.vars {
			compNames[k] = true
		}
	}
	for k := range props {
		compNames[k] = true
	}
	for k := range vars {
		delete(compNames, k)
	}
	if usesAny(sup.kids, compNames) {
		m.st.add("collision:content-reads-a-name-the-component-binds")
	}
	cx2 := mctx{
		env:      &menv{vars: vars, up: sup.env},
		sc:       sup.sc,
		inComp:   cx.inComp,
		inSupply: true,
		inst:     cx.inst,
		names:    cx.names,
	}
	return m.eval(sup.kids, cx2)
}

// usesAny reports whether some path in the nodes starts with one of the names.
func usesAny(nodes []Node, names map[string]any) bool {
	hit := func(p string) bool {
		_, ok := names[strings.SplitN(p, ".", 2)[0]]
		return ok
	}
	for _, n := range nodes {
		for _, p := range n.T {
			if p.X != "" && hit(p.X) {
				return true
			}
		}
		for _, kv := range n.Bind {
			if hit(kv.V) {
				return true
			}
		}
		if n.If != "" && hit(n.If) {
			return true
		}
		if n.For != nil && hit(n.For.List) {
			return true
		}
		if usesAny(n.Kids, names) {
			return true
		}
		for _, s := range n.Sup {
			if usesAny(s.Kids, names) {
				return true
			}
		}
	}
	return false
}

func (m *model) evalInc(n Node, cx mctx) ([]*hx.N, error) {
	cp, ok := m.c.Comps[n.Comp]
	if !ok {
		return nil, fmt.Errorf("include of unknown component %q", n.Comp)
	}
	vars := map[string]any{}
	for _, kv := range n.Stat {
		vars[kv.K] = kv.V
	}
	for _, kv := range n.Bind {
		v, err := cx.env.path(kv.V)
		if err != nil {
			return nil, err
		}
		if _, dup := vars[kv.K]; dup {
			return nil, fmt.Errorf("prop %q passed twice", kv.K)
		}
		vars[kv.K] = v
	}
	for _, kv := range cp.FM {
		if _, dup := vars[kv.K]; dup {
			return nil, fmt.Errorf("front-matter key %q collides with a prop (not part of this check)", kv.K)
		}
		vars[kv.K] = kv.V
	}
	sc := &slotCtx{by: map[string]*supplied{}}
	for _, s := range n.Sup {
		if s.Form == "bare" && s.Name != "" {
			return nil, fmt.Errorf("bare v-slot with a name")
		}
		if s.Form != "bare" && s.Name == "" {
			return nil, fmt.Errorf("named form without a name")
		}
		if _, dup := sc.by[s.Name]; dup {
			return nil, fmt.Errorf("slot %q supplied twice (not part of this check)", s.Name)
		}
		if s.Var != "" && len(s.Destr) > 0 {
			return nil, fmt.Errorf("supply with both a variable and destructuring")
		}
		sc.by[s.Name] = &supplied{kids: s.Kids, form: s.Form, varN: s.Var, destr: s.Destr, ws: s.WS, env: cx.env, sc: cx.sc}
	}
	if len(n.Kids) > 0 {
		if _, dup := sc.by[""]; dup {
			return nil, fmt.Errorf("plain children next to a default slot template (not part of this check)")
		}
		sc.by[""] = &supplied{kids: n.Kids, form: "plain", env: cx.env, sc: cx.sc}
	}
	for name, h := range m.inherit {
		// rendering the layout: names this include tag leaves unsupplied come from the page
		if _, own := sc.by[name]; !own {
			sc.by[name] = h
		}
	}
	m.st.add("instances")
	if m.c.Short {
		m.st.add("shorthand-component-tag")
	}
	if cx.inComp > 0 {
		m.st.add("nested-include")
	}
	if cx.inSupply {
		m.st.add("include-inside-supplied-content")
	}
	if cx.compLoop {
		m.st.add("nested-include-in-component-loop")
	}
	if cx.pageLoop {
		m.st.add("instance-in-includer-loop")
	}
	// statically: a slot name used twice in the component body; supplied name without a slot
	uses := map[string]int{}
	countSlots(cp.Nodes, uses)
	for _, k := range uses {
		if k >= 2 {
			m.st.add("slot-name-used-twice")
			break
		}
	}
	for name := range sc.by {
		if uses[name] == 0 {
			m.st.add("supplied-for-a-slot-the-component-lacks")
		}
	}
	m.insts++
	names := map[string]int{}
	for k, v := range uses {
		names[k] = v
	}
	for k := range sc.by {
		names[k]++
	}
	return m.eval(cp.Nodes, mctx{env: &menv{vars: vars}, sc: sc, inComp: cx.inComp + 1, pageLoop: cx.pageLoop, inst: m.insts, names: names})
}

// countSlots counts the <slot> elements of a component body by name (not those written inside
// content the body supplies to other components: they still belong to this component, so they count).
func countSlots(nodes []Node, uses map[string]int) {
	for _, n := range nodes {
		if n.K == "slot" {
			uses[n.Name]++
		}
		countSlots(n.Kids, uses)
		for _, s := range n.Sup {
			countSlots(s.Kids, uses)
		}
	}
}
