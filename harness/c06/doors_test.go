package c06

import (
	"bytes"
	"context"
	"fmt"
	"sort"
	"strings"

	"github.com/titpetric/vuego"
	"golang.org/x/net/html"
	"pgregory.net/rapid"
)

// The entry-point dimension: the same case through every public door.
//
//	""        NewFS(fs).Load(page).Fill(data).Render
//	file      NewFS(fs).New().Fill(data).RenderFile(page)
//	view      vuego.View(tpl, page, data).Render
//	assign    Load(page) + Assign(key, value) per top-level key + Render   (map[string]any data only)
//	string / byte / reader   New().Fill(data).RenderString / RenderByte / RenderReader(page source)
//	vue / fragment           NewVue(fs).Render / RenderFragment(page, data)
//	nodes     NewVue(fs).RenderNodes(NewLoader(fs).LoadFragment(page), data)
//	built     NewVue(fs).RenderNodes(tree assembled in Go from the description: Data set, DataAtom 0)
//
// Doors that do not apply layouts are not used for cases with a layout.

// slotProc is the NodeProcessor of cases with Proc: it rewrites <x-inc src="f" ...> into
// <template include="f" ...> and <x-slot name="a" [short] [bind="v"]> into <template v-slot:a="v">
// (or #a, or v-slot) by renaming the element - Data only, the way the engine renames shorthand tags.
type slotProc struct{}

func (slotProc) New() vuego.NodeProcessor       { return slotProc{} }
func (slotProc) PostProcess([]*html.Node) error { return nil }
func (slotProc) PreProcess(nodes []*html.Node) error {
	var walk func(n *html.Node)
	walk = func(n *html.Node) {
		if n.Type == html.ElementNode {
			switch n.Data {
			case "x-inc":
				n.Data = "template"
				for i, a := range n.Attr {
					if a.Key == "src" {
						n.Attr[i].Key = "include"
					}
				}
			case "x-slot":
				name, bind, short := "", "", false
				for _, a := range n.Attr {
					switch a.Key {
					case "name":
						name = a.Val
					case "bind":
						bind = a.Val
					case "short":
						short = true
					}
				}
				key := "v-slot"
				switch {
				case name != "" && short:
					key = "#" + name
				case name != "":
					key = "v-slot:" + name
				}
				n.Data = "template"
				n.Attr = []html.Attribute{{Key: key, Val: bind}}
			}
		}
		for c := n.FirstChild; c != nil; c = c.NextSibling {
			walk(c)
		}
	}
	for _, n := range nodes {
		walk(n)
	}
	return nil
}

// doorsFor lists the entry points a case can go through.
func doorsFor(c Case) []string {
	doors := []string{"", "file", "view"}
	if c.Root == "" {
		doors = append(doors, "assign")
	}
	if len(c.Layout) > 0 || len(c.Hand) > 0 {
		return doors
	}
	doors = append(doors, "string", "byte", "reader", "vue", "fragment", "nodes")
	if !c.Short && !c.Proc {
		doors = append(doors, "built")
	}
	return doors
}

// vary sends a case through another door / with the page pre-processed / with map[any]any root
// data, chosen by k (a counter in the enumerations, a draw in the random families), and applies the
// after-failure dimension. Settings a family made itself are kept.
func vary(c Case, k int) Case {
	if c.Root == "" && k%3 == 1 {
		c.Root = "mapaa"
	}
	// (page-level hand-over templates are harvested from the page SOURCE, before any processor
	// runs: no pre-processed pages there)
	if !c.Short && len(c.Hand) == 0 && k%5 == 2 {
		c.Proc = true
	}
	if c.Entry == "" {
		d := doorsFor(c)
		c.Entry = d[k%len(d)]
	}
	if k%2 == 1 {
		c.Spell = (k*7 + k/32) & spellAll
	}
	return withAfter(c, k)
}

func varyDrawn(t *rapid.T, c Case) Case {
	return vary(c, rapid.IntRange(0, 1319).Draw(t, "door-root-proc-after"))
}

// tree assembles the nodes of a template in Go (no parser: DataAtom stays 0).
func tree(nodes []Node) []*html.Node {
	var out []*html.Node
	el := func(tag string, attrs []html.Attribute, kids []*html.Node) *html.Node {
		n := &html.Node{Type: html.ElementNode, Data: tag, Attr: attrs}
		for _, k := range kids {
			n.AppendChild(k)
		}
		return n
	}
	forAttr := func(f *For) html.Attribute {
		if f.Idx != "" {
			return html.Attribute{Key: "v-for", Val: fmt.Sprintf("(%s, %s) in %s", f.Idx, f.Item, f.List)}
		}
		return html.Attribute{Key: "v-for", Val: fmt.Sprintf("%s in %s", f.Item, f.List)}
	}
	supply := func(s Supply) *html.Node {
		key, val := "v-slot", ""
		switch s.Form {
		case "long":
			key = "v-slot:" + s.Name
		case "short":
			key = "#" + s.Name
		}
		switch {
		case s.Var != "":
			val = s.Var
		case len(s.Destr) > 0:
			val = pattern(s.Destr, s.WS)
		}
		return el("template", []html.Attribute{{Key: key, Val: val}}, tree(s.Kids))
	}
	for _, n := range nodes {
		switch n.K {
		case "text":
			var sb strings.Builder
			for i, p := range n.T {
				if i > 0 && !n.Exact {
					sb.WriteString(" ")
				}
				if p.X != "" {
					sb.WriteString("{{ " + p.X + " }}")
				} else {
					sb.WriteString(p.L)
				}
			}
			out = append(out, &html.Node{Type: html.TextNode, Data: sb.String()})
		case "el":
			attrs := []html.Attribute{{Key: "data-m", Val: n.M}}
			if n.If != "" {
				attrs = append(attrs, html.Attribute{Key: "v-if", Val: n.If})
			}
			if n.For != nil {
				attrs = append(attrs, forAttr(n.For))
			}
			for _, kv := range n.Bind {
				attrs = append(attrs, html.Attribute{Key: ":data-" + kv.K, Val: kv.V})
			}
			out = append(out, el(n.Tag, attrs, tree(n.Kids)))
		case "inc":
			attrs := []html.Attribute{{Key: "include", Val: n.Comp}}
			for _, kv := range n.Stat {
				attrs = append(attrs, html.Attribute{Key: kv.K, Val: kv.V})
			}
			for _, kv := range n.Bind {
				attrs = append(attrs, html.Attribute{Key: ":" + kv.K, Val: kv.V})
			}
			var kids []*html.Node
			for _, s := range n.Sup {
				kids = append(kids, supply(s))
			}
			out = append(out, el("template", attrs, append(kids, tree(n.Kids)...)))
		default:
			panic("c06: node kind " + n.K + " cannot stand in a page")
		}
	}
	return out
}

// through renders page file (page.vuego or page_fail.vuego) of the engine's case through its door.
func (e *engine) through(file string, data any, w *limited) error {
	ctx := context.Background()
	src := e.files[file]
	switch e.c.Entry {
	case "file":
		return e.tpl.New().Fill(data).RenderFile(ctx, w, file)
	case "view":
		return vuego.View(e.tpl, file, data).Render(ctx, w)
	case "assign":
		t := e.tpl.Load(file)
		m, _ := data.(map[string]any)
		keys := make([]string, 0, len(m))
		for k := range m {
			keys = append(keys, k)
		}
		sort.Strings(keys)
		for _, k := range keys {
			t = t.Assign(k, m[k])
		}
		return t.Render(ctx, w)
	case "string":
		return e.tpl.New().Fill(data).RenderString(ctx, w, src)
	case "byte":
		return e.tpl.New().Fill(data).RenderByte(ctx, w, []byte(src))
	case "reader":
		return e.tpl.New().Fill(data).RenderReader(ctx, w, bytes.NewReader([]byte(src)))
	case "vue":
		return e.vue.Render(w, file, data)
	case "fragment":
		return e.vue.RenderFragment(w, file, data)
	case "nodes":
		nodes, err := vuego.NewLoader(e.fsys).LoadFragment(file)
		if err != nil {
			return err
		}
		return e.vue.RenderNodes(w, nodes, data)
	case "built":
		c := e.c
		if file == "page_fail.vuego" {
			c = failingVariant(c)
		}
		return e.vue.RenderNodes(w, tree(c.Page), data)
	}
	return e.tpl.Load(file).Fill(data).Render(ctx, w)
}
