package c06

import (
	"fmt"
	"regexp"
	"strings"

	"pgregory.net/rapid"

	"verif/internal/ev"
	"verif/internal/vals"
)

// exclusions switch off, by construction, the input regions of open known findings.
type exclusions struct {
	destructure  bool // C06-destructured-slot-props-empty: `="{ a, b }"` whose content reads a or b
	frozen       bool // C06-include-in-slot-content-frozen: include tag in content that fills a slot more than once
	tmplRoot     bool // C06-template-root-evaluated-twice: v-if on scoped variables when a component has a <template> root
	shortNested  bool // C06-shorthand-tag-in-slot-content-not-resolved: shorthand tag inside content supplied to a shorthand tag
	layoutDirect bool // C06-layout-file-slot-props-not-bound: scoped hand-over content for a <slot> of the layout file
	compScope    bool // C06-slot-content-sees-component-scope: supplied content reading a name the component binds too
	layoutLeak   bool // C06-layout-leaks-instance-slot-content: layout instance lacking a name the page supplies somewhere
}

// chooser abstracts "pick one of n": rapid draws in the random search, a fixed script in the core.
type chooser interface {
	n(label string, n int) int // 0..n-1
}

type rapidCh struct{ t *rapid.T }

func (r rapidCh) n(label string, n int) int {
	if n <= 1 {
		return 0
	}
	return rapid.IntRange(0, n-1).Draw(r.t, label)
}

// fixedCh always answers with a rotating counter: deterministic, varied content for the core.
type fixedCh struct{ k *int }

func (f fixedCh) n(label string, n int) int {
	if n <= 1 {
		return 0
	}
	*f.k++
	return *f.k % n
}

// sv is a typed expression available in a scope. Types: s string, i int, b bool,
// ls list of strings, lm list of records, m record ({name s, k i, ok b}).
type sv struct {
	x   string
	t   string
	hot bool // slot props / loop variables: preferred, so that the interesting reads actually happen
}

type builder struct {
	ch chooser
	// pageIfOnly (open finding C06-template-root-evaluated-twice, case with a <template>-rooted
	// component): v-if conditions are only generated on variables that are still in scope when the
	// component's output is evaluated the second time, i.e. page data and page loop variables.
	pageIfOnly bool
	dropped    int // v-if candidates removed by pageIfOnly
	// collide: supplied content also reads includer variables whose names the component binds itself
	// (props, front-matter keys, loop index, slot props that were not asked for), and names only the
	// component binds (expected to be undefined in the content).
	collide bool
	// single: shorthand component tags are single words (<kone>) instead of dashed (<k-one>)
	single bool
	ids    int
	lits   int
	vars   int
}

func (b *builder) id(p string) string    { b.ids++; return fmt.Sprintf("%s%d", p, b.ids) }
func (b *builder) lit() Part             { b.lits++; return Part{L: fmt.Sprintf("L%d", b.lits)} }
func (b *builder) fresh(p string) string { b.vars++; return fmt.Sprintf("%s%d", p, b.vars) }

func pick(b *builder, label string, l []sv) sv {
	// hot entries count three times
	var w []sv
	for _, e := range l {
		w = append(w, e)
		if e.hot {
			w = append(w, e, e)
		}
	}
	return w[b.ch.n(label, len(w))]
}

func printables(scope []sv) []sv {
	var out []sv
	for _, e := range scope {
		switch e.t {
		case "s", "i":
			out = append(out, e)
		case "m":
			out = append(out, sv{e.x + ".name", "s", e.hot}, sv{e.x + ".k", "i", e.hot})
		}
	}
	return out
}

var pageVar = regexp.MustCompile(`^(pt|pf|prec2?|pr[0-9]+)$`)

func (b *builder) bools(scope []sv) []sv {
	var out []sv
	for _, e := range scope {
		if b.pageIfOnly && !pageVar.MatchString(e.x) {
			if e.t == "b" || e.t == "m" {
				b.dropped++
			}
			continue
		}
		switch e.t {
		case "b":
			out = append(out, e)
		case "m":
			out = append(out, sv{e.x + ".ok", "b", e.hot})
		}
	}
	return out
}

func lists(scope []sv) []sv {
	var out []sv
	for _, e := range scope {
		if e.t == "ls" || e.t == "lm" {
			out = append(out, e)
		}
	}
	return out
}

var tags = []string{"span", "div", "b", "i", "em"}

// text builds a text node: a literal and 1-2 interpolations.
func (b *builder) text(scope []sv) Node {
	pr := printables(scope)
	t := []Part{b.lit()}
	if len(pr) > 0 {
		k := 1 + b.ch.n("interps", 2)
		for i := 0; i < k; i++ {
			t = append(t, Part{X: pick(b, "interp", pr).x})
		}
	}
	return Node{K: "text", T: t}
}

// content builds 1..3 dynamic nodes over the scope (marker prefix p). Top-level bare text only if bare.
func (b *builder) content(p string, scope []sv, depth int, bare bool) []Node {
	n := 1 + b.ch.n("content-n", 3)
	if depth > 0 {
		n = 1 + b.ch.n("content-n", 2)
	}
	var out []Node
	for i := 0; i < n; i++ {
		out = append(out, b.item(p, scope, depth, bare))
	}
	return out
}

func (b *builder) item(p string, scope []sv, depth int, bare bool) Node {
	kinds := []string{"el", "el"}
	if bare {
		kinds = append(kinds, "text")
	}
	if len(b.bools(scope)) > 0 {
		kinds = append(kinds, "if")
	}
	if len(lists(scope)) > 0 {
		kinds = append(kinds, "for")
	}
	if depth < 2 {
		kinds = append(kinds, "nest")
	}
	switch kinds[b.ch.n("kind", len(kinds))] {
	case "text":
		return b.text(scope)
	case "if":
		return Node{K: "el", Tag: tags[b.ch.n("tag", len(tags))], M: b.id(p), If: pick(b, "cond", b.bools(scope)).x, Kids: []Node{b.text(scope)}}
	case "for":
		l := pick(b, "list", lists(scope))
		idx, it := b.fresh(p+"i"), b.fresh(p+"e")
		et := "s"
		if l.t == "lm" {
			et = "m"
		}
		inner := append([]sv{{it, et, true}, {idx, "i", true}}, scope...)
		f := &For{Idx: idx, Item: it, List: l.x}
		if b.ch.n("for-noidx", 3) == 0 {
			f.Idx = ""
			inner = append([]sv{{it, et, true}}, scope...)
		}
		n := Node{K: "el", Tag: "div", M: b.id(p), For: f, Kids: []Node{b.text(inner)}}
		n.Bind = b.binds(inner, 1)
		return n
	case "nest":
		n := Node{K: "el", Tag: "div", M: b.id(p), Bind: b.binds(scope, b.ch.n("nbind", 2))}
		n.Kids = b.content(p, scope, depth+1, true)
		return n
	}
	n := Node{K: "el", Tag: tags[b.ch.n("tag", len(tags))], M: b.id(p), Bind: b.binds(scope, b.ch.n("nbind", 3))}
	if b.ch.n("el-empty", 5) != 0 {
		n.Kids = []Node{b.text(scope)}
	}
	return n
}

// binds builds bound attributes. Only strings are bound: how a bound attribute treats numbers and
// falsy values (0 is dropped) belongs to other properties.
func (b *builder) binds(scope []sv, k int) []KV {
	var pr []sv
	for _, e := range printables(scope) {
		if e.t == "s" {
			pr = append(pr, e)
		}
	}
	if len(pr) == 0 {
		return nil
	}
	var out []KV
	for i := 0; i < k; i++ {
		out = append(out, KV{K: string(rune('a' + i)), V: pick(b, "bind", pr).x})
	}
	return out
}

// ---------------------------------------------------------------------------------------------
// Components
// ---------------------------------------------------------------------------------------------

// slotInfo is what an includer needs to know about one slot name of a component.
type slotInfo struct {
	props []string // bound prop names: subset of item, n (same for every use of the name)
}

type compInfo struct {
	idx   int
	file  string
	elem  string // type of the items' elements and of `item`: "s" or "m"
	slots map[string]slotInfo
	order []string // slot names in a fixed order
	// multi: the slot name can be rendered more than once per instance (used twice, or in a loop)
	multi map[string]bool
	// innerOpen (nested component only): slot names of the component it includes that its own include
	// tag leaves unsupplied
	innerOpen []string
	// extra (nested component only): additional static props it is given, named like names the
	// component it includes binds itself
	extra []string
}

func (ci compInfo) title() string { return fmt.Sprintf("title%d", ci.idx) }
func (ci compInfo) num() string   { return fmt.Sprintf("num%d", ci.idx) }
func (ci compInfo) items() string { return fmt.Sprintf("items%d", ci.idx) }
func (ci compInfo) rec() string   { return fmt.Sprintf("rec%d", ci.idx) }
func (ci compInfo) fmk() string   { return fmt.Sprintf("fmk%d", ci.idx) }

// scope of the component body (outside its loops).
func (ci compInfo) scope(fm bool) []sv {
	s := []sv{{ci.title(), "s", false}, {ci.num(), "i", false}, {ci.rec(), "m", false}}
	if ci.elem == "s" {
		s = append(s, sv{ci.items(), "ls", false})
	} else {
		s = append(s, sv{ci.items(), "lm", false})
	}
	if fm {
		s = append(s, sv{ci.fmk(), "s", false})
	}
	return s
}

// useSpec is one <slot> position in a component body.
type useSpec struct {
	name     string
	place    string // wrap | loop | bare | slotfor | slotfor1
	fallback bool
}

// slotNode builds the <slot> for a use. In a loop the props come from the iteration.
//
// badgeX is the path of the optional prop `badge`: a key that some records have and others lack (or
// hold nil), or a path that never resolves - so the prop has a value in some uses of the slot and is
// absent in others.
func (b *builder) slotNode(ci compInfo, p string, u useSpec, scope []sv, itemX, nX, badgeX string) Node {
	n := Node{K: "slot", Name: u.name}
	for _, pn := range ci.slots[u.name].props {
		switch pn {
		case "item":
			n.Bind = append(n.Bind, KV{K: "item", V: itemX})
		case "n":
			n.Bind = append(n.Bind, KV{K: "n", V: nX})
		case "badge":
			n.Bind = append(n.Bind, KV{K: "badge", V: badgeX, O: true})
		}
	}
	if u.fallback {
		n.Kids = b.content(p+"f", scope, 1, true)
	}
	return n
}

func (ci compInfo) itemOutside() string {
	if ci.elem == "m" {
		return ci.rec()
	}
	return ci.title()
}

// useNodes places one slot use in the component body.
func (b *builder) useNodes(ci compInfo, p string, u useSpec, fm bool) []Node {
	scope := ci.scope(fm)
	switch u.place {
	case "loop":
		idx, it := fmt.Sprintf("ci%d", ci.idx), fmt.Sprintf("ce%d", ci.idx)
		inner := append([]sv{{it, ci.elem, true}, {idx, "i", true}}, scope...)
		li := Node{K: "el", Tag: "li", M: b.id(p + "l"), For: &For{Idx: idx, Item: it, List: ci.items()},
			Kids: []Node{b.slotNode(ci, p, u, inner, it, idx, it+".badge")}}
		if b.ch.n("loop-sibling", 2) == 0 {
			li.Kids = append([]Node{{K: "el", Tag: "span", M: b.id(p + "s"), Kids: []Node{{K: "text", T: []Part{{X: idx}}}}}}, li.Kids...)
		}
		return []Node{{K: "el", Tag: "ul", M: b.id(p + "u"), Kids: []Node{li}}}
	case "slotfor", "slotfor1":
		// v-for written on the <slot> element itself, in the (index, item) or the item-only form
		idx, it := fmt.Sprintf("ci%d", ci.idx), fmt.Sprintf("ce%d", ci.idx)
		inner := append([]sv{{it, ci.elem, true}, {idx, "i", true}}, scope...)
		f := &For{Idx: idx, Item: it, List: ci.items()}
		nX := idx
		if u.place == "slotfor1" {
			f.Idx, nX = "", ci.num()
			inner = append([]sv{{it, ci.elem, true}}, scope...)
		}
		sl := b.slotNode(ci, p, u, inner, it, nX, it+".badge")
		sl.For = f
		return []Node{{K: "el", Tag: "section", M: b.id(p + "v"), Kids: []Node{sl}}}
	case "bare":
		// the slot sits directly between two sibling elements of the component root
		return []Node{
			{K: "el", Tag: "span", M: b.id(p + "b")},
			// a second, bare use binds badge to a path that never resolves
			b.slotNode(ci, p, u, scope, ci.itemOutside(), ci.num(), ci.rec()+".nobadge"),
			{K: "el", Tag: "span", M: b.id(p + "a")},
		}
	}
	return []Node{{K: "el", Tag: "section", M: b.id(p + "w"), Kids: []Node{b.slotNode(ci, p, u, scope, ci.itemOutside(), ci.num(), ci.rec()+".badge")}}}
}

// leaf builds a component whose body is a root element with a header and the slot uses.
//
// shape: "div" = one root element; "flat" = no root element (header and slot positions are the
// top-level nodes of the file); "template" = the flat body wrapped in a <template> root.
func (b *builder) leaf(ci compInfo, uses []useSpec, fm bool, extra []Node, shape string) Comp {
	p := fmt.Sprintf("k%d", ci.idx)
	hdr := []Part{{X: ci.title()}}
	if fm {
		hdr = append(hdr, Part{X: ci.fmk()})
	}
	root := Node{K: "el", Tag: "div", M: b.id(p + "r"), Bind: []KV{{K: "t", V: ci.title()}}}
	root.Kids = append(root.Kids, Node{K: "el", Tag: "span", M: b.id(p + "h"), Kids: []Node{{K: "text", T: hdr}}})
	for _, u := range uses {
		root.Kids = append(root.Kids, b.useNodes(ci, p, u, fm)...)
	}
	root.Kids = append(root.Kids, extra...)
	cp := Comp{Nodes: []Node{root}}
	switch shape {
	case "flat":
		cp.Nodes = root.Kids
	case "template":
		cp.Nodes, cp.Wrap = root.Kids, true
	}
	if fm {
		cp.FM = []KV{{K: ci.fmk(), V: fmt.Sprintf("F%d", ci.idx)}}
	}
	return cp
}

// ---------------------------------------------------------------------------------------------
// Includers
// ---------------------------------------------------------------------------------------------

// supplyPlan says how one slot name is supplied.
type supplyPlan struct {
	name  string
	form  string // plain | long | short | bare
	scope string // "" | var | destr
}

// incOpts describes the includer side of one include tag.
type incOpts struct {
	p       string // marker prefix
	scope   []sv   // includer scope at the tag
	varName string // scoped variable name to use at this nesting level
	title   KV     // how the title prop is passed (static or bound)
	static  bool
	num     string
	items   string
	rec     string
	// hook lets the caller add nodes to the content of a supply (forwarded slots, nested includes)
	hook func(pl supplyPlan, scope []sv) []Node
	// noBare: no text directly at the top level of the supplied content
	noBare bool
	// coll: includer variables (strings) whose names collide with names bound inside components
	coll []sv
	// noCollide switches the collision reads off for this include
	noCollide bool
	// boundExtra: names bound in the includer's scope although they are not in scope (destructured
	// by the template this include tag is written in)
	boundExtra []string
	// tainted: slot prop names of an enclosing UNSCOPED supply (see skip in include)
	tainted []string
}

func hasVar(l []sv, name string) bool {
	for _, e := range l {
		if e.x == name {
			return true
		}
	}
	return false
}

func (b *builder) include(ci compInfo, o incOpts, plans []supplyPlan, ex exclusions, rec *ev.Rec) Node {
	n := Node{K: "inc", Comp: ci.file}
	if o.static {
		n.Stat = append(n.Stat, o.title)
	} else {
		n.Bind = append(n.Bind, o.title)
	}
	n.Bind = append(n.Bind, KV{K: ci.num(), V: o.num}, KV{K: ci.items(), V: o.items}, KV{K: ci.rec(), V: o.rec})
	for _, pl := range plans {
		props := ci.slots[pl.name].props
		scope := o.scope
		collide := b.collide && !o.noCollide
		if pl.scope == "destr" && len(props) == 0 {
			pl.scope = ""
		}
		// Not asserted: what UNSCOPED content (plain children, #a / v-slot:a without a value) sees
		// under the NAMES of the props its slot binds - the engine exposes them there directly, on
		// purpose, and the statement only says where props are when a name is declared - nor what
		// those names are inside an include written in such content (tainted). Everything else the
		// component binds must be invisible there too.
		skip := func(name string) bool {
			return hasProp(o.tainted, name) || pl.scope == "" && hasProp(props, name)
		}
		// the names a destructuring pattern lists: the slot's props and, sometimes, a name the slot
		// does not bind at all. All of them shadow includer variables of the same name - also for a
		// use of the slot that passes nothing (or nil) for them.
		var destr []string
		if pl.scope == "destr" {
			destr = append([]string(nil), props...)
			if collide && hasVar(o.coll, "extra") && b.ch.n("destructure-unbound-name", 2) == 0 {
				destr = append(destr, "extra")
			}
		}
		var kept []sv
		for _, e := range scope {
			root := strings.SplitN(e.x, ".", 2)[0]
			if !hasProp(destr, root) && !skip(root) {
				kept = append(kept, e)
			}
		}
		scope = kept
		if collide {
			var add []sv
			for _, e := range o.coll {
				if !hasProp(destr, e.x) && !skip(e.x) {
					add = append(add, e)
				}
			}
			scope = append(add, scope...)
		}
		var sup Supply
		switch pl.scope {
		case "var":
			sup.Var = o.varName
			var add []sv
			for _, pn := range props {
				if pn != "badge" {
					add = append(add, sv{o.varName + "." + pn, propType(ci, pn), true})
				}
			}
			scope = append(add, scope...)
		case "destr":
			sup.Destr = destr
			sup.WS = b.ch.n("pattern-ws", patternStyles)
			var add []sv
			for _, pn := range props {
				if pn != "badge" {
					add = append(add, sv{pn, propType(ci, pn), true})
				}
			}
			scope = append(add, scope...)
		}
		kids := b.content(o.p, scope, 0, !o.noBare)
		if hasProp(props, "badge") && (sup.Var != "" || len(sup.Destr) > 0) {
			// print the optional prop in a marker of its own, next to a never-defined control name:
			// where this use of the slot binds nothing for badge, both must print alike
			read, ctl := "badge", "zznone"
			if sup.Var != "" {
				read, ctl = sup.Var+".badge", sup.Var+".zznone"
			}
			kids = append(kids,
				Node{K: "el", Tag: "i", M: b.id(o.p + "q"), Kids: []Node{{K: "text", T: []Part{{X: read, O: true}}}}},
				Node{K: "el", Tag: "i", M: b.id(o.p + "u"), Kids: []Node{{K: "text", T: []Part{{X: ctl, O: true}}}}})
		}
		if hasProp(sup.Destr, "extra") {
			// destructured, but the slot binds no such prop: undefined, although the includer has a
			// variable of that name
			kids = append(kids,
				Node{K: "el", Tag: "i", M: b.id(o.p + "x"), Kids: []Node{{K: "text", T: []Part{{X: "extra", O: true}}}}},
				Node{K: "el", Tag: "i", M: b.id(o.p + "y"), Kids: []Node{{K: "text", T: []Part{{X: "zznone", O: true}}}}})
		}
		if collide {
			// a name that only the component binds (its loop item, a prop the includer has no
			// variable for, a slot prop that was not asked for under this name) is not a variable of
			// the includer: it must print like a never-defined name
			bound := map[string]bool{}
			for _, e := range scope {
				bound[strings.SplitN(e.x, ".", 2)[0]] = true
			}
			var cand []string
			for _, x := range []string{fmt.Sprintf("ce%d", ci.idx), ci.rec() + ".name", ci.items(), "item"} {
				root := strings.SplitN(x, ".", 2)[0]
				if skip(root) || hasProp(o.boundExtra, root) {
					continue
				}
				if !bound[root] && !hasProp(sup.Destr, root) {
					cand = append(cand, x)
				}
			}
			if len(cand) > 0 {
				x := cand[b.ch.n("undefined-read", len(cand))]
				kids = append(kids,
					Node{K: "el", Tag: "i", M: b.id(o.p + "c"), Kids: []Node{{K: "text", T: []Part{{X: x, O: true}}}}},
					Node{K: "el", Tag: "i", M: b.id(o.p + "d"), Kids: []Node{{K: "text", T: []Part{{X: "zznone", O: true}}}}})
			}
		}
		if o.hook != nil {
			kids = append(kids, o.hook(pl, scope)...)
		}
		if len(sup.Destr) > 0 && ex.destructure && usesAny(kids, set(sup.Destr)) {
			// open known finding: destructured props read as empty. Same content, read through a
			// named variable instead.
			if rec != nil {
				rec.Excluded("C06-destructured-slot-props-empty")
			}
			kids = renameRoots(kids, sup.Destr, o.varName)
			sup.Var, sup.Destr = o.varName, nil
		}
		if pl.form == "plain" {
			n.Kids = append(n.Kids, kids...)
			continue
		}
		sup.Form, sup.Name, sup.Kids = pl.form, pl.name, kids
		n.Sup = append(n.Sup, sup)
	}
	return n
}

func set(l []string) map[string]any {
	m := map[string]any{}
	for _, s := range l {
		m[s] = true
	}
	return m
}

// renameRoots rewrites every path rooted at one of names to v.<path>.
func renameRoots(nodes []Node, names []string, v string) []Node {
	ns := set(names)
	re := func(p string) string {
		root := p
		for i := 0; i < len(p); i++ {
			if p[i] == '.' {
				root = p[:i]
				break
			}
		}
		if _, ok := ns[root]; ok {
			return v + "." + p
		}
		return p
	}
	out := make([]Node, len(nodes))
	for i, n := range nodes {
		m := n
		if len(n.T) > 0 {
			m.T = make([]Part, len(n.T))
			for j, p := range n.T {
				if p.X != "" {
					p.X = re(p.X)
				}
				m.T[j] = p
			}
		}
		if len(n.Bind) > 0 {
			m.Bind = make([]KV, len(n.Bind))
			for j, kv := range n.Bind {
				m.Bind[j] = KV{K: kv.K, V: re(kv.V)}
			}
		}
		if n.If != "" {
			m.If = re(n.If)
		}
		if n.For != nil {
			f := *n.For
			f.List = re(f.List)
			m.For = &f
		}
		m.Kids = renameRoots(n.Kids, names, v)
		if len(n.Sup) > 0 {
			m.Sup = make([]Supply, len(n.Sup))
			for j, s := range n.Sup {
				s.Kids = renameRoots(s.Kids, names, v)
				m.Sup[j] = s
			}
		}
		out[i] = m
	}
	return out
}

func hasProp(props []string, name string) bool {
	for _, p := range props {
		if p == name {
			return true
		}
	}
	return false
}

func propType(ci compInfo, pn string) string {
	if pn == "n" {
		return "i"
	}
	return ci.elem
}

// ---------------------------------------------------------------------------------------------
// Data
// ---------------------------------------------------------------------------------------------

// withBadge adds the optional key: "" = absent, "nil" = present with a nil value, else the value.
func withBadge(r vals.V, badge string) vals.V {
	switch badge {
	case "":
	case "nil":
		r.M["badge"] = vals.Nil()
	default:
		r.M["badge"] = vals.Str(badge)
	}
	return r
}

func recV(name string, k int, ok bool) vals.V {
	return vals.Map(map[string]vals.V{"name": vals.Str(name), "k": vals.Int(k), "ok": vals.Bool(ok)})
}

// pageScope lists the page variables by type (elem selects which lists are used for items).
func pageScope() []sv {
	return []sv{{"pa", "s", false}, {"pb", "s", false}, {"pn", "i", false}, {"pt", "b", false}, {"pf", "b", false},
		{"plist", "ls", false}, {"prows", "lm", false}, {"prec", "m", false}}
}

// pageCollisions lists the page variables whose names the components bind themselves: every
// component's title / num prop, front-matter key and loop index, the slot props n and badge, and
// extra (a name destructuring patterns sometimes list although no slot binds it). (The loop item
// ce<i>, the props rec<i> / items<i> and the slot prop item are deliberately NOT page variables:
// supplied content reads them as undefined names.)
func pageCollisions() []sv {
	var out []sv
	for i := 1; i <= 4; i++ {
		for _, f := range []string{"title%d", "num%d", "fmk%d", "ci%d"} {
			out = append(out, sv{fmt.Sprintf(f, i), "s", true})
		}
	}
	return append(out, sv{"n", "s", true}, sv{"badge", "s", true}, sv{"extra", "s", true})
}

func addCollisionData(d map[string]vals.V) map[string]vals.V {
	for _, e := range pageCollisions() {
		d[e.x] = vals.Str("PG" + e.x)
	}
	return d
}

func fixedData(variant int) map[string]vals.V {
	d := map[string]vals.V{
		"pa": vals.Str("Aa1"), "pb": vals.Str("Bb2"), "pn": vals.Int(variant % 2 * 7), "pt": vals.Bool(true), "pf": vals.Bool(false),
		"plist":  vals.List("[]string", vals.Str("s0"), vals.Str("s1")),
		"plist2": vals.List("[]any", vals.Str("t0"), vals.Str("t1"), vals.Str("t2")),
		"prows":  vals.List("[]map", withBadge(recV("r0", 0, true), "new"), recV("r1", 5, false), withBadge(recV("r2", 2, true), "hot"), withBadge(recV("r3", 1, false), "nil")),
		"prows2": vals.List("[]any", recV("q0", 3, false), withBadge(recV("q1", 6, true), "top"), recV("q2", 8, true)),
		"prec":   withBadge(recV("rc", 4, true), "rcb"),
		"prec2":  recV("rd", 0, false),
	}
	return addCollisionData(d)
}

func genData(t *rapid.T) map[string]vals.V {
	tok := func(p, label string) string { return p + rapid.StringMatching(`[a-z0-9]{1,3}`).Draw(t, label) }
	strList := func(p, label, kind string) vals.V {
		n := rapid.IntRange(0, 3).Draw(t, label+"-n")
		l := []vals.V{}
		for i := 0; i < n; i++ {
			l = append(l, vals.Str(tok(fmt.Sprintf("%s%d", p, i), label)))
		}
		return vals.List(kind, l...)
	}
	rec := func(p, label string) vals.V {
		r := recV(tok(p, label), rapid.IntRange(0, 9).Draw(t, label+"-k"), rapid.Bool().Draw(t, label+"-ok"))
		switch rapid.IntRange(0, 3).Draw(t, label+"-badge") {
		case 0, 1:
			r = withBadge(r, tok("g", label))
		case 2:
			r = withBadge(r, "nil")
		}
		return r
	}
	recList := func(p, label, kind string) vals.V {
		n := rapid.IntRange(0, 3).Draw(t, label+"-n")
		l := []vals.V{}
		for i := 0; i < n; i++ {
			l = append(l, rec(fmt.Sprintf("%s%d", p, i), label))
		}
		return vals.List(kind, l...)
	}
	kinds := []string{"[]any", "[]string"}
	mkinds := []string{"[]any", "[]map"}
	return addCollisionData(map[string]vals.V{
		"pa": vals.Str(tok("A", "pa")), "pb": vals.Str(tok("B", "pb")),
		"pn": vals.Int(rapid.IntRange(0, 9).Draw(t, "pn")),
		"pt": vals.Bool(true), "pf": vals.Bool(false),
		"plist":  strList("s", "plist", rapid.SampledFrom(kinds).Draw(t, "plk")),
		"plist2": strList("t", "plist2", rapid.SampledFrom(kinds).Draw(t, "plk2")),
		"prows":  recList("r", "prows", rapid.SampledFrom(mkinds).Draw(t, "prk")),
		"prows2": recList("q", "prows2", rapid.SampledFrom(mkinds).Draw(t, "prk2")),
		"prec":   rec("rc", "prec"),
		"prec2":  rec("rd", "prec2"),
	})
}
