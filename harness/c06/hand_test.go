package c06

import (
	"pgregory.net/rapid"

	"verif/internal/ev"
)

// handSpec describes one page -> layout slot hand-over: the page writes <template #h ...> at its top
// level; the layout renders component k4, whose <slot name="h"> binds props, without supplying h;
// optionally the layout file itself has a <slot name="g"> for a second page-level template.
type handSpec struct {
	form, scope string   // spelling and scope (""/var/destr) of the page-level template for h
	props       []string // props k4's slot binds
	place       string   // where k4's slot sits: wrap | loop | slotfor | slotfor1 | bare
	fallback    bool
	shape       string
	own         bool   // the layout's include of k4 supplies h itself: the page's template must then stay away
	direct      string // "" | plain | for : a <slot name="g"> in the layout file itself
	dform       string
	dscope      string
	// noHandG: the layout file has <slot name="g"> but the page writes no top-level template for g
	// (only, perhaps, one inside an include tag, which belongs to that instance): fallback expected
	noHandG bool
}

// handover adds the hand-over to a case that already has a layout (root element first).
func (b *builder) handover(c *Case, elem string, hs handSpec, ex exclusions, rec *ev.Rec) compInfo {
	k4 := compInfo{idx: 4, file: "k4.vuego", elem: elem, slots: map[string]slotInfo{"h": {props: hs.props}}, order: []string{"h"}, multi: map[string]bool{}}
	if c.Short {
		k4.file = b.shortFile(4)
	}
	c.Comps[k4.file] = b.leaf(k4, []useSpec{{name: "h", place: hs.place, fallback: hs.fallback}}, false, nil, hs.shape)
	// the page-level template: built like any supply, then lifted out of the include tag
	o := incOpts{p: "hx", scope: pageScope(), varName: "sp", noBare: true, coll: pageCollisions(), title: KV{K: k4.title(), V: "pa"}, num: "pn", rec: "prec", items: "prows"}
	tmp := b.include(k4, o, []supplyPlan{{name: "h", form: hs.form, scope: hs.scope}}, ex, rec)
	c.Hand = append(c.Hand, tmp.Sup...)
	var plans []supplyPlan
	if hs.own {
		plans = []supplyPlan{{name: "h", form: "short"}}
	}
	root := &c.Layout[0]
	root.Kids = append(root.Kids, b.instance(k4, 8, false, plans, ex, rec, nil))
	if hs.direct == "" {
		return k4
	}
	// a slot of the layout file itself
	lay := compInfo{idx: 5, elem: elem, slots: map[string]slotInfo{"g": {props: hs.props}}, order: []string{"g"}}
	dscope := hs.dscope
	if ex.layoutDirect && dscope != "" && len(hs.props) > 0 {
		// open known finding: a <slot> written in the layout file does not hand its props to the content
		rec.Excluded("C06-layout-file-slot-props-not-bound")
		dscope = ""
	}
	if !hs.noHandG {
		o.p = "hxg"
		tmp = b.include(lay, o, []supplyPlan{{name: "g", form: hs.dform, scope: dscope}}, ex, rec)
		c.Hand = append(c.Hand, tmp.Sup...)
	}
	scope := pageScope()
	u := useSpec{name: "g", fallback: hs.fallback}
	var sl Node
	if hs.direct == "for" {
		list, et := "plist", "s"
		if elem == "m" {
			list, et = "prows", "m"
		}
		inner := append([]sv{{"le", et, true}, {"li", "i", true}}, scope...)
		sl = b.slotNode(lay, "ly", u, inner, "le", "li", "le.badge")
		sl.For = &For{Idx: "li", Item: "le", List: list}
	} else {
		item := "pa"
		if elem == "m" {
			item = "prec"
		}
		sl = b.slotNode(lay, "ly", u, scope, item, "pn", "prec.badge")
	}
	root.Kids = append(root.Kids, Node{K: "el", Tag: "aside", M: b.id("lyS"), Kids: []Node{sl}})
	return k4
}

func baseLayout() []Node {
	return []Node{{K: "el", Tag: "div", M: "ly", Kids: []Node{
		{K: "el", Tag: "span", M: "lyh", Kids: []Node{{K: "text", T: []Part{{X: "pa"}}}}},
		{K: "content", Tag: "div", M: "lyc"},
	}}}
}

// enumHand: every spelling x scope of the page-level template x every placement of the receiving
// slot in the layout's component, with and without a slot in the layout file itself.
func enumHand(ex exclusions, rec *ev.Rec, yield func(Case) bool) {
	variant := 0
	for _, form := range []string{"long", "short"} {
		for _, scope := range []string{"", "var", "destr"} {
			for _, place := range []string{"wrap", "loop", "slotfor", "slotfor1", "bare"} {
				for _, direct := range []string{"", "plain", "for"} {
					for _, own := range []bool{false, true} {
						if own && direct != "" {
							continue
						}
						variant++
						k := variant
						b := &builder{ch: fixedCh{&k}}
						b.collide = variant%2 == 1 && !ex.compScope
						grp := (variant - 1) / 4 // one group per spelling x scope x placement
						b.single = grp%4 == 0
						elem := []string{"m", "s"}[variant%2]
						props := []string{"item", "n"}
						if elem == "m" {
							props = []string{"item", "n", "badge"}
						}
						c := Case{Comps: map[string]Comp{}, Data: fixedData(variant), Compact: variant%3 == 0, Short: (variant-1)/4%2 == 0}
						c.Page = page(b, nil)
						c.Layout = baseLayout()
						hs := handSpec{form: form, scope: scope, props: props, place: place, fallback: variant%3 != 0,
							shape: []string{"div", "flat", "template"}[variant%3], own: own, direct: direct,
							dform: []string{"short", "long"}[variant%2], dscope: []string{"var", "destr", ""}[variant%3], noHandG: direct != "" && grp%3 != 1}
						k4 := b.handover(&c, elem, hs, ex, rec)
						if variant%3 != 2 {
							// the page also uses k4 itself and supplies h to THAT instance inside the
							// tag: this template belongs to the instance and is not handed over
							plans := []supplyPlan{{name: "h", form: []string{"short", "long"}[variant/2%2]}}
							if hs.noHandG {
								plans = append(plans, supplyPlan{name: "g", form: hs.dform})
							}
							inst := b.instance(k4, 0, false, plans, ex, rec, nil)
							kids := c.Page[0].Kids
							c.Page[0].Kids = append(append(append([]Node(nil), kids[:len(kids)-1]...), inst), kids[len(kids)-1])
						}
						c.rename(fixedNames(variant))
						if !yield(c) {
							return
						}
					}
				}
			}
		}
	}
}

func genHandSpec(t *rapid.T, elem string) handSpec {
	propSets := [][]string{nil, {"item"}, {"item", "n"}, {"item", "n"}}
	if elem == "m" {
		propSets = append(propSets, []string{"item", "badge"}, []string{"item", "n", "badge"})
	}
	return handSpec{
		form:     rapid.SampledFrom([]string{"long", "short"}).Draw(t, "hand-form"),
		scope:    rapid.SampledFrom([]string{"", "var", "var", "destr", "destr"}).Draw(t, "hand-scope"),
		props:    rapid.SampledFrom(propSets).Draw(t, "hand-props"),
		place:    rapid.SampledFrom([]string{"wrap", "loop", "slotfor", "slotfor1", "bare"}).Draw(t, "hand-place"),
		fallback: rapid.Bool().Draw(t, "hand-fallback"),
		shape:    rapid.SampledFrom(shapes).Draw(t, "hand-shape"),
		own:      rapid.IntRange(0, 5).Draw(t, "hand-own") == 0,
		direct:   rapid.SampledFrom([]string{"", "", "plain", "for"}).Draw(t, "hand-direct"),
		dform:    rapid.SampledFrom([]string{"long", "short"}).Draw(t, "hand-dform"),
		dscope:   rapid.SampledFrom([]string{"", "var", "destr"}).Draw(t, "hand-dscope"),
		noHandG:  rapid.IntRange(0, 3).Draw(t, "hand-no-g") == 0,
	}
}
