package c06

import (
	"fmt"

	"pgregory.net/rapid"

	"verif/internal/vals"
)

// The white-space family: supplied content and slot props whose white space matters, rendered
// through <slot>s that sit inside <pre> (where the output is compared exactly) and into attribute
// values. All files of these cases are written compactly: every blank, tab and newline in them is
// part of the case.

// edges are runs of white space at the ends of and inside supplied text. (A newline never comes
// first inside a <pre>: the slot is preceded by the text "[".)
var edges = []string{"", " ", "  ", "    ", "\t", " \t ", "\n  ", "  \n", "\n\n"}

// lits are the contents of string literals bound as slot props: blanks and tabs only.
var lits = []string{" ", "  ", "    ", "\t", " \t\t ", "  |  ", "\t|\t", "a  b"}

type wsSpec struct {
	form    string // plain | long | short | bare
	scope   string // "" | var | destr
	place   string // pre | loop : the slot directly in <pre>, or once per item inside <pre>
	lead    string // white space before, inside and after the supplied words
	inner   string
	trail   string
	pad     string // literal props of the slot
	sep     string
	between bool // a white-space-only text node between two supplied elements (templates only)
	fall    bool // nothing supplied: the fallback (with the same white space) is rendered
}

func text(parts ...Part) Node { return Node{K: "text", Exact: true, T: parts} }

func wsCase(s wsSpec, name string, data map[string]vals.V) Case {
	props := []KV{{K: "pad", V: s.pad, Lit: true}, {K: "sep", V: s.sep, Lit: true}}
	// the words: lead Total: inner <b>3</b> inner items trail   (+ reads of the literal props)
	words := func(p string, padX, sepX string) []Node {
		kids := []Node{
			text(Part{L: s.lead + "Total:" + s.inner}),
			{K: "el", Tag: "b", M: p + "1", Kids: []Node{text(Part{L: "3"})}},
		}
		if s.between {
			kids = append(kids, text(Part{L: s.inner}), Node{K: "el", Tag: "i", M: p + "2", Kids: []Node{text(Part{L: "x"})}})
		}
		kids = append(kids, text(Part{L: s.inner + "items" + s.trail}))
		if padX != "" {
			kids = append(kids,
				Node{K: "el", Tag: "u", M: p + "3", Bind: []KV{{K: "p", V: padX}, {K: "s", V: sepX}},
					Kids: []Node{text(Part{L: "a"}, Part{X: padX}, Part{L: "b"}, Part{X: sepX}, Part{L: "c"})}},
				text(Part{L: "<"}, Part{X: padX}, Part{L: ">"}))
		}
		return kids
	}
	slot := Node{K: "slot", Name: name, Bind: props, Kids: words("f", "", "")}
	var body []Node
	switch s.place {
	case "loop":
		slot.Bind = append(slot.Bind, KV{K: "item", V: "ce1"})
		body = []Node{{K: "el", Tag: "pre", M: "k1p", Kids: []Node{text(Part{L: "["}),
			{K: "el", Tag: "span", M: "k1s", For: &For{Idx: "ci1", Item: "ce1", List: "items1"}, Kids: []Node{slot}}, text(Part{L: "]"})}}}
	default:
		body = []Node{{K: "el", Tag: "pre", M: "k1p", Kids: []Node{text(Part{L: "["}), slot, text(Part{L: "]"})}}}
	}
	c := Case{Compact: true, Data: data, Comps: map[string]Comp{"k1.vuego": {Nodes: []Node{{K: "el", Tag: "div", M: "k1r", Kids: body}}}}}
	inc := Node{K: "inc", Comp: "k1.vuego", Bind: []KV{{K: "items1", V: "plist"}}}
	if !s.fall {
		padX, sepX := "", ""
		sup := Supply{Form: s.form, Name: name}
		switch s.scope {
		case "var":
			sup.Var, padX, sepX = "sp", "sp.pad", "sp.sep"
		case "destr":
			sup.Destr, padX, sepX = []string{"pad", "sep"}, "pad", "sep"
		}
		kids := words("p", padX, sepX)
		if s.form == "plain" {
			inc.Kids = kids
		} else {
			sup.Kids = kids
			inc.Sup = []Supply{sup}
		}
	}
	c.Page = []Node{{K: "el", Tag: "div", M: "pg", Kids: []Node{inc}}}
	return c
}

func wsData() map[string]vals.V {
	return map[string]vals.V{"plist": vals.List("[]string", vals.Str("s0"), vals.Str("s1"))}
}

// wsForms lists the supply forms with the slot name they need.
var wsForms = []struct{ form, scope, name string }{
	{"plain", "", ""}, {"bare", "", ""}, {"bare", "var", ""}, {"bare", "destr", ""},
	{"long", "", "a"}, {"short", "", "a"}, {"long", "var", "a"}, {"short", "destr", "a"},
}

// enumWS: every supply form x slot placement x a rotation through the white-space vocabulary, plus
// the fallback.
func enumWS(yield func(Case) bool) {
	k := 0
	for _, f := range wsForms {
		for _, place := range []string{"pre", "loop"} {
			for i := range edges {
				k++
				s := wsSpec{form: f.form, scope: f.scope, place: place,
					lead: edges[i], inner: edges[(i*2+1)%len(edges)], trail: edges[(i+4)%len(edges)],
					pad: lits[k%len(lits)], sep: lits[(k*3+1)%len(lits)],
					// plain children: white-space-only text between elements is dropped by design
					between: f.form != "plain" && k%2 == 0}
				if s.inner == "" {
					s.inner = " "
				}
				if !yield(wsCase(s, f.name, wsData())) {
					return
				}
			}
		}
	}
	for i := range edges {
		s := wsSpec{form: "plain", place: []string{"pre", "loop"}[i%2], fall: true, lead: edges[i], inner: edges[(i+3)%len(edges)], trail: edges[(i+5)%len(edges)], pad: " ", sep: " "}
		if !yield(wsCase(s, "", wsData())) {
			return
		}
	}
}

func genWS(t *rapid.T) Case {
	f := wsForms[rapid.IntRange(0, len(wsForms)-1).Draw(t, "form")]
	s := wsSpec{form: f.form, scope: f.scope,
		place: rapid.SampledFrom([]string{"pre", "loop"}).Draw(t, "place"),
		lead:  rapid.SampledFrom(edges).Draw(t, "lead"),
		inner: rapid.SampledFrom(edges).Draw(t, "inner"),
		trail: rapid.SampledFrom(edges).Draw(t, "trail"),
		pad:   rapid.SampledFrom(lits).Draw(t, "pad"),
		sep:   rapid.SampledFrom(lits).Draw(t, "sep"),
		fall:  rapid.IntRange(0, 7).Draw(t, "fallback") == 0,
	}
	s.between = f.form != "plain" && rapid.Bool().Draw(t, "between")
	n := rapid.IntRange(0, 3).Draw(t, "items")
	l := []vals.V{}
	for i := 0; i < n; i++ {
		l = append(l, vals.Str(fmt.Sprintf("s%d", i)))
	}
	c := wsCase(s, f.name, map[string]vals.V{"plist": vals.List("[]any", l...)})
	names := genNames(t)
	c.rename(names)
	return c
}
