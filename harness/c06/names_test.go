package c06

import (
	"strings"

	"pgregory.net/rapid"
)

// The generator works with the placeholder slot names a, b (named slots of the components) and z
// (a name the includer supplies although the component lacks it). Before a case is used the
// placeholders are replaced by names drawn from a vocabulary: what is asserted must hold for every
// slot name, whatever letters it starts with or consists of and however the names of one
// component relate to each other. Names are lower-case (the HTML parser lower-cases attribute
// names, and #name / v-slot:name carry the name in the attribute name) and never "default".
var nameVocabulary = []string{
	// start with each of the characters of the directive itself: v - s l o t
	"visible", "sidebar", "left", "outer", "title", "-x", "-",
	// consist only of those characters
	"slot", "slots", "tools", "lots", "vs", "tt", "solo", "v-slot", "t-l",
	// one letter
	"a", "b", "x", "v", "s", "l", "o", "t", "n",
	// digits, hyphens, underscores
	"col-2", "row_1", "x9", "h1", "item-list", "_meta", "a1", "2nd",
	// ordinary
	"header", "footer", "main", "actions", "body",
}

// namePairs are (a, b) pairs related as prefix / extension of each other.
var namePairs = [][2]string{
	{"tab", "tabs"}, {"a", "ab"}, {"slot", "slots"}, {"head", "header"}, {"t", "title"}, {"title", "t"},
	{"v", "vs"}, {"side", "sidebar"}, {"x", "x-1"}, {"lots", "lot"}, {"o", "outer"}, {"s", "slot"},
}

type slotNames struct{ a, b, z, h, g string } // h, g: names handed over from the page to the layout

func (n slotNames) of(placeholder string) string {
	switch placeholder {
	case "a":
		return n.a
	case "b":
		return n.b
	case "z":
		return n.z
	case "h":
		return n.h
	case "g":
		return n.g
	}
	return placeholder
}

// fixedNames rotates deterministically through the vocabulary and the related pairs (core).
func fixedNames(k int) slotNames {
	var n slotNames
	if k%3 == 0 {
		p := namePairs[(k/3)%len(namePairs)]
		n.a, n.b = p[0], p[1]
	} else {
		n.a = nameVocabulary[k%len(nameVocabulary)]
		n.b = nameVocabulary[(k*7+3)%len(nameVocabulary)]
		if n.b == n.a {
			n.b = n.a + "2"
		}
	}
	n.z = distinctFrom(n.a+"s", n)
	n.h = distinctFrom(nameVocabulary[(k*5+1)%len(nameVocabulary)], n)
	n.g = distinctFrom(nameVocabulary[(k*11+2)%len(nameVocabulary)], n)
	return n
}

func genNames(t *rapid.T) slotNames {
	var n slotNames
	if rapid.IntRange(0, 3).Draw(t, "name-pair") == 0 {
		p := rapid.SampledFrom(namePairs).Draw(t, "names")
		n.a, n.b = p[0], p[1]
	} else {
		n.a = rapid.SampledFrom(nameVocabulary).Draw(t, "name-a")
		n.b = rapid.SampledFrom(nameVocabulary).Draw(t, "name-b")
		if n.b == n.a {
			n.b = n.a + "2"
		}
	}
	// the name the component lacks: unrelated, or an extension / a prefix of a name it has
	switch rapid.IntRange(0, 2).Draw(t, "name-z") {
	case 0:
		n.z = distinctFrom("zz", n)
	case 1:
		n.z = distinctFrom(n.a+"s", n)
	default:
		n.z = distinctFrom(n.b[:1], n)
	}
	n.h = distinctFrom(rapid.SampledFrom(nameVocabulary).Draw(t, "name-h"), n)
	n.g = distinctFrom(rapid.SampledFrom(nameVocabulary).Draw(t, "name-g"), n)
	return n
}

func distinctFrom(cand string, n slotNames) string {
	for cand == n.a || cand == n.b || cand == n.z || cand == n.h || cand == "" || cand == "default" {
		cand += "q"
	}
	return cand
}

// rename replaces the placeholder slot names everywhere in the case.
func (c *Case) rename(n slotNames) {
	c.Page = renameNodes(c.Page, n)
	c.Layout = renameNodes(c.Layout, n)
	for i, h := range c.Hand {
		h.Name = n.of(h.Name)
		h.Kids = renameNodes(h.Kids, n)
		c.Hand[i] = h
	}
	for k, cp := range c.Comps {
		cp.Nodes = renameNodes(cp.Nodes, n)
		c.Comps[k] = cp
	}
}

func renameNodes(nodes []Node, n slotNames) []Node {
	if nodes == nil {
		return nil
	}
	out := make([]Node, len(nodes))
	for i, x := range nodes {
		if x.K == "slot" {
			x.Name = n.of(x.Name)
		}
		x.Kids = renameNodes(x.Kids, n)
		if len(x.Sup) > 0 {
			sup := make([]Supply, len(x.Sup))
			for j, s := range x.Sup {
				s.Name = n.of(s.Name)
				s.Kids = renameNodes(s.Kids, n)
				sup[j] = s
			}
			x.Sup = sup
		}
		out[i] = x
	}
	return out
}

// nameClasses labels a slot name for the histogram.
func nameClasses(name string, all map[string]int) []string {
	if name == "" {
		return []string{"slot:default"}
	}
	out := []string{"slot:named"}
	if strings.ContainsRune("v-slot:", rune(name[0])) {
		out = append(out, "name:starts-with-a-letter-of-v-slot")
	}
	if strings.Trim(name, "v-slot:") == "" {
		out = append(out, "name:only-letters-of-v-slot")
	}
	if len(name) == 1 {
		out = append(out, "name:one-letter")
	}
	if strings.ContainsAny(name, "0123456789-_") {
		out = append(out, "name:digit-hyphen-underscore")
	}
	for other := range all {
		if other != "" && other != name && (strings.HasPrefix(other, name) || strings.HasPrefix(name, other)) {
			out = append(out, "name:prefix-of-another-name")
			break
		}
	}
	return out
}
