// Package c06 decides C06: every <slot> of a component renders the content the includer supplied
// for that slot name (plain children -> unnamed slot), evaluated with the includer's variables plus
// the props the slot binds (under the declared name or destructured); it renders its own fallback
// exactly when nothing was supplied; content stays per instance; a slot in a loop is filled once per
// iteration with that iteration's props.
//
// A case is a *description*: a small template AST for the page and for every component file plus the
// page data. The files are derived from the description by construction (tmpl.go), the expected
// output is computed from the same description by a reference model (model.go) that never calls
// vuego, and the two are compared on the parsed, normalised output (marker ids in document order,
// the text directly inside each marker with all whitespace removed, the attribute values of each
// marker, and the nesting outline of the markers).
package c06

import (
	"bytes"
	"encoding/json"
	"fmt"
	"os"
	"sort"
	"strings"
	"testing"
	"testing/fstest"

	"github.com/titpetric/vuego"
	"pgregory.net/rapid"

	"verif/internal/compose"
	"verif/internal/ev"
	"verif/internal/hx"
	"verif/internal/kf"
	"verif/internal/run"
	"verif/internal/vals"
)

const prop = "C06"

// ---------------------------------------------------------------------------------------------
// Case description
// ---------------------------------------------------------------------------------------------

// Part is one piece of a text node: a literal token or an interpolated path ({{ X }}).
type Part struct {
	L string `json:"l,omitempty"`
	X string `json:"x,omitempty"`
	// O: the path may be absent (a slot prop that is nil / does not resolve for this use, or a name
	// that is never defined). How an absent name prints is not asserted; all absent reads of one
	// render must print the same (see undef).
	O bool `json:"o,omitempty"`
	// S: the rendering of the value is not asserted, but every read carrying the same group name S
	// of the same value must print the same non-empty text (a prop read inside slot content and the
	// same value read outside the slot).
	S string `json:"s,omitempty"`
}

// same stands, in the expected output, for "whatever this value prints"; see Part.S.
const same = "\x02SAME:"

// undef stands, in the expected output, for "whatever an undefined name prints".
const undef = "\x01UNDEF\x01"

// KV is an attribute: for elements `:data-K="V"` (V a path), for slots the bound prop `:K="V"`,
// for includes a bound (`:K="V"`) or static (`K="V"`) prop.
type KV struct {
	K string `json:"k"`
	V string `json:"v"`
	// Lit (slot props only): V is not a path but the content of a string literal, :K="'V'"
	Lit bool `json:"lit,omitempty"`
	O   bool `json:"o,omitempty"` // slot prop: the path may not resolve / be nil -> the prop is absent for this use
}

// For is `v-for="(Idx, Item) in List"` (Idx may be empty: `Item in List`).
type For struct {
	Idx  string `json:"idx,omitempty"`
	Item string `json:"item"`
	List string `json:"list"`
}

// Supply is one `<template v-slot...>` child of an include tag.
type Supply struct {
	// Form: "long" = v-slot:NAME, "short" = #NAME, "bare" = v-slot (unnamed slot, Name must be "").
	Form  string   `json:"form"`
	Name  string   `json:"name,omitempty"`
	Var   string   `json:"var,omitempty"`   // ="Var": slot props as an object under this name
	Destr []string `json:"destr,omitempty"` // ="{ a, b }": slot props destructured
	// WS selects how the destructuring pattern is laid out (see pattern): blanks, none, tabs,
	// one name per line, blanks around the commas, trailing comma, blanks around the braces.
	WS   int    `json:"ws,omitempty"`
	Kids []Node `json:"kids,omitempty"`
}

// Node is a template node: "el" (marked element), "text", "slot", "inc" (<template include>), and, in a
// layout only, "content" (a marked element with v-html="content": the rendered page goes there).
type Node struct {
	K    string `json:"k"`
	Tag  string `json:"tag,omitempty"`  // el
	M    string `json:"m,omitempty"`    // el: data-m marker (unique per template element)
	If   string `json:"if,omitempty"`   // el: v-if path
	For  *For   `json:"for,omitempty"`  // el: v-for; slot: v-for written on the <slot> element itself
	Bind []KV   `json:"bind,omitempty"` // el / slot / inc, see KV
	Stat []KV   `json:"stat,omitempty"` // inc: static props
	T    []Part `json:"t,omitempty"`    // text
	// Exact (text): the parts are written one after the other exactly as they are - their white
	// space is part of the case - instead of as blank-separated tokens on a line of their own
	Exact bool     `json:"exact,omitempty"`
	Name  string   `json:"name,omitempty"` // slot: name ("" = unnamed)
	Comp  string   `json:"comp,omitempty"` // inc: file name
	Sup   []Supply `json:"sup,omitempty"`  // inc: slot templates
	Kids  []Node   `json:"kids,omitempty"` // el: children; slot: fallback; inc: plain children
}

// Comp is one component file.
type Comp struct {
	FM    []KV   `json:"fm,omitempty"`   // front-matter (string values)
	Wrap  bool   `json:"wrap,omitempty"` // body wrapped in a plain <template> root (docs: "The Template Tag")
	Nodes []Node `json:"nodes"`
}

// Case is the file set + data.
type Case struct {
	Page   []Node `json:"page"`
	Layout []Node `json:"layout,omitempty"` // layouts/base.vuego (applied to the page by default)
	// Hand: named slot templates written at the top level of the page, after its root element. With
	// a layout they are handed over to the layout: they fill the same-named <slot> of the layout
	// file and of every component rendered by the layout whose include tag does not supply that name.
	Hand    []Supply          `json:"hand,omitempty"`
	Comps   map[string]Comp   `json:"comps"`
	Data    map[string]vals.V `json:"data"`
	Compact bool              `json:"compact,omitempty"` // no whitespace between tags in the files
	// Short: include tags are written as registered component shorthand tags (<k-one> for
	// components/KOne.vuego, docs/components.md "Component Shorthands") and the engine is created
	// with vuego.WithComponents(). All component files must then live in components/.
	Short bool `json:"short,omitempty"`
	// Root: Go type of the root data handed to the engine: "" map[string]any, mapss / *mapss
	// map[string]string, mapsi map[string]int, mapaa map[any]any (what generic YAML decoders
	// produce), struct / *struct (rootData: Pa, Pb and the fields
	// Pe, Pn promoted from an embedded struct).
	Root string `json:"root,omitempty"`
	// Entry: the public door the page goes through, see doors_test.go ("" = NewFS.Load.Fill.Render).
	Entry string `json:"entry,omitempty"`
	// After: the page is rendered AFTER a failing variant of itself (same templates, same variable
	// names with recognisably different values, a failing function call late in the page and in the
	// content it supplies) - "fresh": the failing render runs on another engine of the same process,
	// "same": on the same engine. The rendering of the case must meet the usual expectation.
	After string `json:"after,omitempty"`
	// Proc: the page is written with custom tags (<x-inc src=..>, <x-slot name=.. bind=..>) that a
	// registered NodeProcessor rewrites into include / slot templates before evaluation.
	Proc bool `json:"proc,omitempty"`
	// Spell: bit set of equivalent spellings used when the files are written (tmpl_test.go, spell*).
	Spell int `json:"spell,omitempty"`
}

// ---------------------------------------------------------------------------------------------
// Render through vuego
// ---------------------------------------------------------------------------------------------

// engine is one vuego engine over the case's file set: the Template API and the Vue API side by
// side (a case uses one of them, per c.Entry).
type engine struct {
	c     Case
	files map[string]string
	fsys  fstest.MapFS
	tpl   vuego.Template
	vue   *vuego.Vue
}

func newEngine(c Case) *engine {
	e := &engine{c: c, files: files(c), fsys: fstest.MapFS{}}
	for k, v := range e.files {
		e.fsys[k] = &fstest.MapFile{Data: []byte(v)}
	}
	// boom is the function the failing variant of the page calls (see after.go); never called by
	// the case itself
	funcs := vuego.FuncMap{"boom": func(s string) (string, error) { return "", fmt.Errorf("boom: %s rejected", s) }}
	switch c.Entry {
	case "vue", "fragment", "nodes", "built":
		e.vue = vuego.NewVue(e.fsys)
		if c.Short {
			vuego.WithComponents()(e.vue)
		}
		if c.After != "" {
			e.vue.Funcs(funcs)
		}
		if c.Proc {
			e.vue.RegisterNodeProcessor(slotProc{})
		}
		return e
	}
	var opts []vuego.LoadOption
	if c.Short {
		opts = append(opts, vuego.WithComponents())
	}
	if c.After != "" {
		opts = append(opts, vuego.WithFuncs(funcs))
	}
	if c.Proc {
		opts = append(opts, vuego.WithProcessor(slotProc{}))
	}
	e.tpl = vuego.NewFS(e.fsys, opts...)
	return e
}

func (e *engine) render(file string, data any) (string, error) {
	var buf bytes.Buffer
	err := e.through(file, data, &limited{w: &buf, left: 8 << 20})
	return buf.String(), err
}

func render(c Case) (string, error) {
	return newEngine(c).render("page.vuego", rootValue(c))
}

// limited turns an output that never ends (a cyclic node list handed to the serialiser) into a
// failure of the case instead of an exhausted machine. Expected outputs are a few KiB.
type limited struct {
	w    *bytes.Buffer
	left int
}

func (l *limited) Write(p []byte) (int, error) {
	l.left -= len(p)
	if l.left < 0 {
		panic("output exceeds 8 MiB: the render does not terminate")
	}
	return l.w.Write(p)
}

// obs is what is compared per marker.
type obs struct {
	ID    string
	Text  string
	Attrs string
}

func observe(l []*hx.N) []obs {
	var out []obs
	for _, m := range hx.Markers(l) {
		keys := make([]string, 0, len(m.Attrs))
		for k := range m.Attrs {
			if k != "data-m" {
				keys = append(keys, k)
			}
		}
		sort.Strings(keys)
		var sb strings.Builder
		for _, k := range keys {
			fmt.Fprintf(&sb, " %s=%q", k, m.Attrs[k])
		}
		out = append(out, obs{ID: m.ID, Text: strings.Join(strings.Fields(m.Text), ""), Attrs: sb.String()})
	}
	return out
}

func describe(c Case) string {
	f := files(c)
	names := make([]string, 0, len(f))
	for k := range f {
		names = append(names, k)
	}
	sort.Strings(names)
	var sb strings.Builder
	for _, n := range names {
		fmt.Fprintf(&sb, "--- %s\n%s\n", n, f[n])
	}
	d, _ := json.Marshal(c.Data)
	fmt.Fprintf(&sb, "--- data %s", d)
	return sb.String()
}

func check(c Case) error {
	want, _, merr := expect(c)
	if merr != nil {
		return fmt.Errorf("bad case (model): %v", merr)
	}
	// a render that kills the process (runaway recursion) is attributed to this case by the driver
	run.Inflight(prop, "random", c)
	// a render that never returns (cyclic node list under the serialiser; the layout path writes
	// into a buffer inside the engine, out of reach of the byte budget of render) fails this case
	// after compose.HangAfter, or as soon as the heap explodes, instead of wedging the shard
	err := compose.Bounded(func() error { return checkRendered(c, want) })
	if err != nil && strings.HasPrefix(err.Error(), "render did not return") {
		err = fmt.Errorf("%v\n%s", err, describe(c))
	}
	return err
}

func checkRendered(c Case, want []*hx.N) error {
	if c.After != "" {
		return checkAfterFailure(c, want)
	}
	got, err := render(c)
	return compareOutput(c, want, got, err)
}

// compareOutput holds one rendering of the page against the model's expectation.
func compareOutput(c Case, want []*hx.N, got string, err error) error {
	if err != nil {
		return fmt.Errorf("render failed: %v\n%s", err, describe(c))
	}
	gl, err := hx.Frag(got, hx.Strip)
	if err != nil {
		return fmt.Errorf("output does not parse: %v", err)
	}
	if len(c.Hand) > 0 {
		// Whether the handed-over templates ALSO render in place, inside the page content, is not
		// asserted: their markers (prefix hx) are dropped from the content element before comparing.
		for _, lyc := range hx.Find(gl, func(n *hx.N) bool { return n.Attrs["data-m"] == "lyc" }) {
			pruneHand(lyc)
		}
	}
	// everything outside marked elements must be empty: no stray text, no unmarked elements
	// (an un-expanded <slot>/<template>, or supplied content rendered outside its slot)
	for _, n := range gl {
		if n.Tag == "" || n.Attrs["data-m"] == "" {
			return fmt.Errorf("unexpected top-level node %s in output\noutput: %s\n%s", n.Brief(), got, describe(c))
		}
	}
	if un := hx.Find(gl, func(n *hx.N) bool { _, ok := n.Attrs["data-m"]; return !ok }); len(un) > 0 {
		return fmt.Errorf("output contains an element that is in none of the templates' marked elements: %s\noutput: %s\n%s", un[0].Brief(), got, describe(c))
	}
	go_, wo := observe(gl), observe(want)
	undefAt, undefText := -1, ""
	sameAt := map[string]int{}
	for i := 0; i < len(go_) || i < len(wo); i++ {
		switch {
		case i >= len(go_):
			return fmt.Errorf("marker #%d: expected %v, output ends\nwant outline %s\ngot  outline %s\noutput: %s\n%s", i, wo[i], hx.Outline(want), hx.Outline(gl), got, describe(c))
		case i >= len(wo):
			return fmt.Errorf("marker #%d: unexpected extra %v\nwant outline %s\ngot  outline %s\noutput: %s\n%s", i, go_[i], hx.Outline(want), hx.Outline(gl), got, describe(c))
		case strings.Contains(wo[i].Text, same):
			if go_[i].ID != wo[i].ID || go_[i].Attrs != wo[i].Attrs {
				return fmt.Errorf("marker #%d: got %v want %v\nwant outline %s\ngot  outline %s\noutput: %s\n%s", i, go_[i], wo[i], hx.Outline(want), hx.Outline(gl), got, describe(c))
			}
			if go_[i].Text == "" {
				return fmt.Errorf("marker #%d %s prints nothing for a value that is there\noutput: %s\n%s", i, go_[i].ID, got, describe(c))
			}
			if first, seen := sameAt[wo[i].Text]; !seen {
				sameAt[wo[i].Text] = i
			} else if go_[first].Text != go_[i].Text {
				return fmt.Errorf("marker #%d %s prints %q and marker #%d %s prints %q for the same value (one reads it outside the slot, the other as a slot prop / another use)\noutput: %s\n%s",
					first, go_[first].ID, go_[first].Text, i, go_[i].ID, go_[i].Text, got, describe(c))
			}
		case strings.Contains(wo[i].Text, undef):
			// An absent slot prop must print like a never-defined name. Every such read (the absent
			// props and the never-defined control next to each of them) has a marker of its own.
			if go_[i].ID != wo[i].ID || go_[i].Attrs != wo[i].Attrs {
				return fmt.Errorf("marker #%d: got %v want %v\nwant outline %s\ngot  outline %s\noutput: %s\n%s", i, go_[i], wo[i], hx.Outline(want), hx.Outline(gl), got, describe(c))
			}
			if undefAt < 0 {
				undefAt, undefText = i, go_[i].Text
			} else if go_[i].Text != undefText {
				return fmt.Errorf("marker #%d %s prints %q and marker #%d %s prints %q, but both read a name that is not bound in the scope of that content (a slot prop that is nil / unresolved for this use, a name that only the component binds, or the never-defined control name): a value leaked in from the component's scopes or from another use of the slot\noutput: %s\n%s",
					undefAt, go_[undefAt].ID, undefText, i, go_[i].ID, go_[i].Text, got, describe(c))
			}
		case go_[i] != wo[i]:
			return fmt.Errorf("marker #%d: got %v want %v\nwant outline %s\ngot  outline %s\noutput: %s\n%s", i, go_[i], wo[i], hx.Outline(want), hx.Outline(gl), got, describe(c))
		}
	}
	// White space is significant inside <pre>: there the content is compared exactly (everywhere
	// else all white space was removed from the text above).
	isPre := func(n *hx.N) bool { return n.Tag == "pre" }
	gp, wp := hx.Find(gl, isPre), hx.Find(want, isPre)
	for i := range wp {
		if i >= len(gp) {
			break // reported by the outline comparison below
		}
		if g, w := exact(gp[i].Kids), exact(wp[i].Kids); g != w {
			return fmt.Errorf("content of <pre data-m=%q> differs (white space is significant there):\n got %q\nwant %q\noutput: %s\n%s", wp[i].Attrs["data-m"], g, w, got, describe(c))
		}
	}
	if a, b := hx.Outline(gl), hx.Outline(want); a != b {
		return fmt.Errorf("nesting differs:\nwant %s\ngot  %s\noutput: %s\n%s", b, a, got, describe(c))
	}
	return nil
}

// exact writes a forest with its text exactly as it is (adjacent text nodes run together).
func exact(l []*hx.N) string {
	var sb strings.Builder
	var walk func([]*hx.N)
	walk = func(l []*hx.N) {
		for _, n := range l {
			if n.Tag == "" {
				sb.WriteString(n.Text)
				continue
			}
			keys := make([]string, 0, len(n.Attrs))
			for k := range n.Attrs {
				keys = append(keys, k)
			}
			sort.Strings(keys)
			sb.WriteString("<" + n.Tag)
			for _, k := range keys {
				fmt.Fprintf(&sb, " %s=%q", k, n.Attrs[k])
			}
			sb.WriteString(">")
			walk(n.Kids)
			sb.WriteString("</" + n.Tag + ">")
		}
	}
	walk(l)
	return sb.String()
}

func pruneHand(n *hx.N) {
	var kept []*hx.N
	for _, k := range n.Kids {
		if strings.HasPrefix(k.Attrs["data-m"], "hx") {
			continue
		}
		pruneHand(k)
		kept = append(kept, k)
	}
	n.Kids = kept
}

func classify(c Case) (bool, []string) {
	_, st, err := expect(c)
	if err != nil {
		return false, []string{"bad-case"}
	}
	return st.nontrivial(), st.classes()
}

func replay(kind string, raw json.RawMessage) error {
	if kind == compose.Kind {
		return compose.Replay(raw)
	}
	return run.Decode(raw, check)
}

// ---------------------------------------------------------------------------------------------
// Driver
// ---------------------------------------------------------------------------------------------

func TestProp(t *testing.T) {
	rec := ev.New(prop)
	defer run.Finish(t, rec)
	run.Witnesses(rec, prop, replay)
	// cross-feature compositions checked against the shared reference interpreter
	compose.Family(t, rec, "slot")
	known := kf.Load()
	// C06_LIFT=id,id lifts the exclusion of open findings (development aid: run the full domain
	// against a tree in which a candidate repair is applied)
	if lift := os.Getenv("C06_LIFT"); lift != "" {
		var kept []kf.Finding
		for _, f := range known.Findings {
			if !strings.Contains(","+lift+",", ","+f.ID+",") {
				kept = append(kept, f)
			}
		}
		known.Findings = kept
	}
	ex := exclusions{
		destructure:  known.Open("C06-destructured-slot-props-empty"),
		frozen:       known.Open("C06-include-in-slot-content-frozen"),
		tmplRoot:     known.Open("C06-template-root-evaluated-twice"),
		shortNested:  known.Open("C06-shorthand-tag-in-slot-content-not-resolved"),
		layoutDirect: known.Open("C06-layout-file-slot-props-not-bound"),
		compScope:    known.Open("C06-slot-content-sees-component-scope"),
		layoutLeak:   known.Open("C06-layout-leaks-instance-slot-content"),
	}

	shard, shards := run.Shard()
	n, done := 0, true
	enumCore(ex, rec, func(c Case) bool {
		n++
		if n%shards != shard {
			return true
		}
		c = vary(c, n/shards)
		nt, cls := classify(c)
		if !run.Each(rec, "core", c, nt, cls, check) {
			done = false
			return false
		}
		return true
	})
	edge := 0
	if done {
		enumEdge(func(c Case) bool {
			edge++
			if edge%shards != shard {
				return true
			}
			c = vary(c, edge/shards)
			nt, cls := classify(c)
			cls = append(cls, "supplied-content-renders-nothing")
			if !run.Each(rec, "core", c, nt, cls, check) {
				done = false
				return false
			}
			return true
		})
	}
	wsN := 0
	if done {
		enumWS(func(c Case) bool {
			wsN++
			if wsN%shards != shard {
				return true
			}
			c = vary(c, wsN/shards)
			nt, cls := classify(c)
			cls = append(cls, "white-space-significant-in-pre")
			if !run.Each(rec, "core", c, true || nt, cls, check) {
				done = false
				return false
			}
			return true
		})
	}
	shapes := 0
	if done {
		for _, enum := range []func(func(Case) bool){enumRoots, enumStructs, enumUnicode} {
			enum(func(c Case) bool {
				shapes++
				if shapes%shards != shard {
					return true
				}
				c = vary(c, shapes/shards)
				_, cls := classify(c)
				if !run.Each(rec, "core", c, true, cls, check) {
					done = false
					return false
				}
				return true
			})
		}
	}
	hand := 0
	if done {
		enumHand(ex, rec, func(c Case) bool {
			hand++
			if hand%shards != shard {
				return true
			}
			c = vary(c, hand/shards)
			nt, cls := classify(c)
			if !run.Each(rec, "core", c, nt, cls, check) {
				done = false
				return false
			}
			return true
		})
	}
	if done {
		rec.Exhaustive(fmt.Sprintf("core: slot sets x fallback x props x loop x twice x every supply form per slot x 2 instances (%d cases) + supplied-but-empty content x every form (%d cases) + page->layout hand-over: spelling x scope x slot placement x slot in the layout file x own supply (%d cases) + white space: supply form x slot in <pre> / per item in <pre> x edge and inner runs x literal props (%d cases) + data shapes: root data kind x entry point x supply form, struct-valued slot props x supply form x placement (%d cases)", n, edge, hand, wsN, shapes))
	}

	if compose.Hung() {
		// a render is still spinning in its goroutine: report what was found and get out
		return
	}
	after := varyDrawn
	run.Rapid(t, rec, "random", func(t *rapid.T) Case { return after(t, genCase(t, ex, rec)) }, classify, check)
	if compose.Hung() {
		return
	}
	run.Rapid(t, rec, "shape", func(t *rapid.T) Case {
		if rapid.IntRange(0, 2).Draw(t, "unicode") == 0 {
			return after(t, genUnicode(t))
		}
		return after(t, genShape(t))
	}, func(c Case) (bool, []string) {
		_, cls := classify(c)
		return true, cls
	}, check)
	if compose.Hung() {
		return
	}
	run.Rapid(t, rec, "space", func(t *rapid.T) Case { return after(t, genWS(t)) }, func(c Case) (bool, []string) {
		_, cls := classify(c)
		return true, append(cls, "white-space-significant-in-pre")
	}, check)
}

func TestReplay(t *testing.T) { run.ReplayMain(t, prop, replay) }

// TestShow prints files, model expectation and vuego's output for a case file (development aid):
// C06_SHOW=/path/to/replay.json go test -run TestShow ./c06 -v
func TestShow(t *testing.T) {
	p := os.Getenv("C06_SHOW")
	if p == "" {
		t.Skip("no C06_SHOW")
	}
	rp, err := run.LoadReplay(p)
	if err != nil {
		t.Fatal(err)
	}
	var c Case
	if err := json.Unmarshal(rp.Case, &c); err != nil {
		t.Fatal(err)
	}
	fmt.Println(describe(c))
	want, _, merr := expect(c)
	fmt.Println("model error:", merr)
	fmt.Println("want:", hx.String(want))
	got, err := render(c)
	fmt.Println("render error:", err)
	fmt.Println("got:", got)
	fmt.Println("check:", check(c))
}
