package c06

import (
	"pgregory.net/rapid"

	"verif/internal/vals"
)

// The non-ASCII family: slot names, slot prop names (also destructured), includer variables of
// the same names and content text written with characters beyond ASCII. Attribute NAMES are
// lower-cased by the HTML parser for ASCII letters only, so a name may carry non-ASCII capitals
// (#Заголовок, #Überschrift, #İletişim, #Ωmega) but no ASCII ones.

var uniSlotNames = []string{"заголовок", "Заголовок", "überschrift", "Überschrift", "İletişim", "iletişim", "Ωmega", "ωmega", "見出し", "prénom", "Élan", "ÇaĞ"}
var uniPropNames = []string{"имя", "名前", "prénom", "größe", "ñ", "Ωm"}

type uniSpec struct {
	slot, prop  string
	form, scope string
	place       string // loop | slotfor | single
}

func uniCase(s uniSpec, k int) Case {
	c := Case{Compact: k%2 == 0, Comps: map[string]Comp{}}
	c.Data = map[string]vals.V{
		"plist": vals.List("[]string", vals.Str("é0"), vals.Str("ж1"), vals.Str("名2")),
		"pa":    vals.Str("Añ"),
		s.prop:  vals.Str("PG→" + s.prop), // the includer's own variable of the prop's name
		"n":     vals.Str("PGn"),
	}
	fb := []Node{{K: "el", Tag: "i", M: "k1f", Kids: []Node{txt(Part{L: "ФБ"}, Part{X: "title1"})}}}
	slot := func(item, n string) Node {
		return Node{K: "slot", Name: s.slot, Bind: []KV{{K: s.prop, V: item}, {K: "n", V: n}}, Kids: fb}
	}
	var body []Node
	switch s.place {
	case "loop":
		body = []Node{{K: "el", Tag: "ul", M: "k1u", Kids: []Node{{K: "el", Tag: "li", M: "k1l", For: &For{Idx: "ci1", Item: "ce1", List: "items1"}, Kids: []Node{slot("ce1", "ci1")}}}}}
	case "slotfor":
		sl := slot("ce1", "ci1")
		sl.For = &For{Idx: "ci1", Item: "ce1", List: "items1"}
		body = []Node{{K: "el", Tag: "section", M: "k1v", Kids: []Node{sl}}}
	default:
		body = []Node{{K: "el", Tag: "section", M: "k1w", Kids: []Node{slot("title1", "title1")}}}
	}
	c.Comps["k1.vuego"] = Comp{Nodes: []Node{{K: "el", Tag: "div", M: "k1r", Kids: body}}}
	inc := Node{K: "inc", Comp: "k1.vuego", Stat: []KV{{K: "title1", V: "Tü"}}, Bind: []KV{{K: "items1", V: "plist"}}}
	sup := Supply{Form: s.form, Name: s.slot}
	var kids []Node
	switch s.scope {
	case "var":
		sup.Var = "sp"
		kids = []Node{{K: "el", Tag: "b", M: "p1", Bind: []KV{{K: "a", V: "sp." + s.prop}},
			Kids: []Node{txt(Part{L: "Жé名"}, Part{X: "sp." + s.prop}, Part{L: "·"}, Part{X: "sp.n"}, Part{L: "·"}, Part{X: s.prop}, Part{L: "·"}, Part{X: "pa"})}}}
	case "destr":
		sup.Destr = []string{s.prop, "n"}
		kids = []Node{{K: "el", Tag: "b", M: "p1", Bind: []KV{{K: "a", V: s.prop}},
			Kids: []Node{txt(Part{L: "Жé名"}, Part{X: s.prop}, Part{L: "·"}, Part{X: "n"}, Part{L: "·"}, Part{X: "pa"})}}}
	default:
		kids = []Node{{K: "el", Tag: "b", M: "p1", Kids: []Node{txt(Part{L: "Жé名"}, Part{X: "pa"})}}}
	}
	sup.Kids = kids
	inc.Sup = []Supply{sup}
	second := Node{K: "inc", Comp: "k1.vuego", Stat: []KV{{K: "title1", V: "Tö"}}, Bind: []KV{{K: "items1", V: "plist"}}} // falls back
	c.Page = []Node{{K: "el", Tag: "div", M: "pg", Kids: []Node{
		{K: "el", Tag: "i", M: "o1", Kids: []Node{txt(Part{X: s.prop}, Part{L: "Ω"})}}, inc, second}}}
	return c
}

var uniForms = []struct{ form, scope string }{{"long", ""}, {"short", ""}, {"long", "var"}, {"short", "var"}, {"long", "destr"}, {"short", "destr"}}

func enumUnicode(yield func(Case) bool) {
	k := 0
	for i, slot := range uniSlotNames {
		for j, f := range uniForms {
			k++
			place := []string{"loop", "slotfor", "single"}[k%3]
			if !yield(uniCase(uniSpec{slot: slot, prop: uniPropNames[(i+j)%len(uniPropNames)], form: f.form, scope: f.scope, place: place}, k)) {
				return
			}
		}
	}
}

func genUnicode(t *rapid.T) Case {
	f := uniForms[rapid.IntRange(0, len(uniForms)-1).Draw(t, "form")]
	return uniCase(uniSpec{slot: rapid.SampledFrom(uniSlotNames).Draw(t, "slot"), prop: rapid.SampledFrom(uniPropNames).Draw(t, "prop"),
		form: f.form, scope: f.scope, place: rapid.SampledFrom([]string{"loop", "slotfor", "single"}).Draw(t, "place")}, rapid.IntRange(0, 99).Draw(t, "k"))
}
