package zz

import (
	"bytes"
	"context"
	"fmt"
	"testing"
	"testing/fstest"

	"github.com/titpetric/vuego"
)

func TestProbe(t *testing.T) {
	m := fstest.MapFS{
		"page.vuego": {Data: []byte(`<div><template include="k.vuego" :items="rows"></template></div>`)},
		"k.vuego":    {Data: []byte(`<template><ul><li v-for="x in items"><b v-if="x.ok">{{ x.name }}</b><i :title="x.name">i</i></li></ul></template>`)},
	}
	var buf bytes.Buffer
	err := vuego.NewFS(m).Load("page.vuego").Fill(map[string]any{"rows": []any{map[string]any{"ok": true, "name": "n1"}}}).Render(context.Background(), &buf)
	fmt.Println(err, buf.String())
}
