package c06

import (
	"fmt"
	"sort"

	"pgregory.net/rapid"

	"verif/internal/vals"
)

// The data-shape family. (A) The includer's variables reach supplied content whatever Go type the
// caller's root data has: map[string]any, typed maps, a struct with a field promoted from an
// embedded struct, pointers to those - through every entry point. (B) Slot props keep the VALUE
// the slot binds: a struct / pointer to struct bound as a prop is read inside the content exactly
// like the same value is read outside the slot (by Go field name, by json tag, promoted fields,
// printed whole).

// ---- root data kinds

type rootBase struct {
	Pe string
	Pn int
}

type rootData struct {
	rootBase
	Pa string
	Pb string
}

// rootValue builds the value handed to the engine as root data.
func rootValue(c Case) any {
	str := func(k string) string { return c.Data[k].S }
	num := func(k string) int { n, _ := c.Data[k].Go().(int); return n }
	switch c.Root {
	case "mapss", "*mapss":
		m := map[string]string{}
		for k, v := range c.Data {
			m[k] = v.S
		}
		if c.Root == "*mapss" {
			return &m
		}
		return m
	case "mapsi":
		m := map[string]int{}
		for k := range c.Data {
			m[k] = num(k)
		}
		return m
	case "mapaa":
		m := map[any]any{}
		for k, v := range c.Data {
			m[k] = goValue(v)
		}
		return m
	case "struct", "*struct":
		r := rootData{rootBase: rootBase{Pe: str("Pe"), Pn: num("Pn")}, Pa: str("Pa"), Pb: str("Pb")}
		if c.Root == "*struct" {
			return &r
		}
		return r
	}
	data := map[string]any{}
	for k, v := range c.Data {
		data[k] = goValue(v)
	}
	return data
}

// ---- struct-valued slot props

type sEmb struct{ Deep string }

type sRec struct {
	sEmb
	Name  string `json:"name"`
	Label string `json:"label,omitempty"`
	Plain string
	N     int `json:"n"`
}

type sStr struct {
	Name string `json:"name"`
}

func (s sStr) String() string { return "STR<" + s.Name + ">" }

func toRec(v vals.V) sRec {
	n, _ := v.M["N"].Go().(int)
	return sRec{sEmb: sEmb{Deep: v.M["Deep"].S}, Name: v.M["Name"].S, Label: v.M["Label"].S, Plain: v.M["Plain"].S, N: n}
}

// goValue is vals.V.Go extended by this family's struct kinds.
func goValue(v vals.V) any {
	switch v.K {
	case "srec":
		return toRec(v)
	case "*srec":
		r := toRec(v)
		return &r
	case "sstr":
		return sStr{Name: v.M["Name"].S}
	case "*sstr":
		return &sStr{Name: v.M["Name"].S}
	case "[]srec":
		out := make([]sRec, len(v.L))
		for i, e := range v.L {
			out[i] = toRec(e)
		}
		return out
	case "[]*srec":
		out := make([]*sRec, len(v.L))
		for i, e := range v.L {
			r := toRec(e)
			out[i] = &r
		}
		return out
	case "[]sstr":
		out := make([]sStr, len(v.L))
		for i, e := range v.L {
			out[i] = sStr{Name: e.M["Name"].S}
		}
		return out
	case "[]*sstr":
		out := make([]*sStr, len(v.L))
		for i, e := range v.L {
			out[i] = &sStr{Name: e.M["Name"].S}
		}
		return out
	}
	return v.Go()
}

// modelValue is what the reference model works with: a struct is the map of its fields, reachable
// by Go name and by json tag, promoted fields included.
func modelValue(v vals.V) any {
	switch v.K {
	case "srec", "*srec":
		n, _ := v.M["N"].Go().(int)
		return map[string]any{"Name": v.M["Name"].S, "name": v.M["Name"].S, "Label": v.M["Label"].S, "label": v.M["Label"].S,
			"Plain": v.M["Plain"].S, "N": n, "n": n, "Deep": v.M["Deep"].S}
	case "sstr", "*sstr":
		return map[string]any{"Name": v.M["Name"].S, "name": v.M["Name"].S}
	case "[]srec", "[]*srec", "[]sstr", "[]*sstr":
		out := make([]any, len(v.L))
		for i, e := range v.L {
			k := "srec"
			if v.K == "[]sstr" || v.K == "[]*sstr" {
				k = "sstr"
			}
			e.K = k
			out[i] = modelValue(e)
		}
		return out
	}
	return v.Go()
}

// identity names a model value inside a SAME group (deterministic).
func identity(v any) string {
	if m, ok := v.(map[string]any); ok {
		keys := make([]string, 0, len(m))
		for k := range m {
			keys = append(keys, k)
		}
		sort.Strings(keys)
		s := ""
		for _, k := range keys {
			s += fmt.Sprintf("%s=%v;", k, m[k])
		}
		return s
	}
	return fmt.Sprintf("%v", v)
}

func txt(parts ...Part) Node { return Node{K: "text", T: parts} }

// ---- (A) cases

type rootSpec struct {
	root, entry string
	form, scope string // how the content is supplied
	name        string
}

func rootCase(s rootSpec, k int) Case {
	c := Case{Root: s.root, Entry: s.entry, Compact: k%2 == 0, Comps: map[string]Comp{}}
	var strs, ints []string
	switch s.root {
	case "mapsi":
		c.Data = map[string]vals.V{"Pn": vals.Int(40 + k%9), "Pm": vals.Int(7)}
		ints = []string{"Pn", "Pm"}
	case "mapss", "*mapss":
		c.Data = map[string]vals.V{"Pa": vals.Str(fmt.Sprintf("Aa%d", k%7)), "Pb": vals.Str("Bb"), "Pe": vals.Str("Ee")}
		strs = []string{"Pa", "Pb", "Pe"}
	default:
		c.Data = map[string]vals.V{"Pa": vals.Str(fmt.Sprintf("Aa%d", k%7)), "Pb": vals.Str("Bb"), "Pe": vals.Str("Ee"), "Pn": vals.Int(40 + k%9)}
		strs, ints = []string{"Pa", "Pb", "Pe"}, []string{"Pn"}
	}
	// what the includer sees next to the tag, and the same reads inside the content it supplies
	reads := func(p string) []Node {
		var parts []Part
		var binds []KV
		for _, x := range append(append([]string(nil), strs...), ints...) {
			parts = append(parts, Part{L: "|"}, Part{X: x})
		}
		for i, x := range strs {
			binds = append(binds, KV{K: string(rune('a' + i)), V: x})
		}
		return []Node{{K: "el", Tag: "b", M: p, Bind: binds, Kids: []Node{txt(parts...)}}}
	}
	titleVar := "Pn"
	if len(strs) > 0 {
		titleVar = strs[len(strs)-1] // Pe: the promoted field where there is one
	}
	comp := Comp{Nodes: []Node{{K: "el", Tag: "div", M: "k1r", Kids: []Node{
		{K: "el", Tag: "span", M: "k1h", Kids: []Node{txt(Part{X: "title1"})}},
		{K: "el", Tag: "section", M: "k1w", Kids: []Node{{K: "slot", Name: s.name, Bind: []KV{{K: "item", V: "title1"}},
			Kids: []Node{{K: "el", Tag: "i", M: "k1f", Kids: []Node{txt(Part{L: "FB"})}}}}}},
	}}}}
	c.Comps["k1.vuego"] = comp
	inc := Node{K: "inc", Comp: "k1.vuego", Bind: []KV{{K: "title1", V: titleVar}}}
	kids := reads("p1")
	sup := Supply{Form: s.form, Name: s.name}
	switch s.scope {
	case "var":
		sup.Var = "sp"
		kids = append(kids, Node{K: "el", Tag: "i", M: "p2", Kids: []Node{txt(Part{X: "sp.item"})}})
	case "destr":
		sup.Destr = []string{"item"}
		kids = append(kids, Node{K: "el", Tag: "i", M: "p2", Kids: []Node{txt(Part{X: "item"})}})
	}
	if s.form == "plain" {
		inc.Kids = kids
	} else {
		sup.Kids = kids
		inc.Sup = []Supply{sup}
	}
	second := Node{K: "inc", Comp: "k1.vuego", Bind: []KV{{K: "title1", V: titleVar}}} // falls back
	root := Node{K: "el", Tag: "div", M: "pg"}
	root.Kids = append(root.Kids, reads("o1")...)
	root.Kids = append(root.Kids, inc, second)
	c.Page = []Node{root}
	return c
}

var rootKinds = []string{"", "mapaa", "mapss", "*mapss", "mapsi", "struct", "*struct"}
var entries = []string{"", "vue", "fragment", "nodes", "built", "string", "file"}

func enumRoots(yield func(Case) bool) {
	k := 0
	for _, root := range rootKinds {
		for _, entry := range entries {
			for _, f := range wsForms {
				k++
				if !yield(rootCase(rootSpec{root: root, entry: entry, form: f.form, scope: f.scope, name: f.name}, k)) {
					return
				}
			}
		}
	}
}

// ---- (B) cases

// boundaryNums are the numbers the "[]any" kind of family (B) hands through slot props: the extremes of
// the integer widths, floats that are whole and lie beyond the int64 range (what a large JSON id
// decodes to), negative zero, fractional and whole floats of ordinary size, zeros of several types.
var boundaryNums = []vals.V{
	vals.Num("float64", "1e21"), vals.Num("float64", "18446744073709551615"), vals.Num("float64", "-0"), vals.Num("float64", "2.5"),
	vals.Num("float64", "3"), vals.Num("float64", "9223372036854775808"), vals.Num("float64", "-9223372036854775808"), vals.Num("float64", "-1e300"),
	vals.Num("float64", "0"), vals.Num("float64", "1e-7"), vals.Num("float64", "9007199254740993"), vals.Num("float32", "1.5"),
	vals.Num("float32", "3e38"), vals.Num("float32", "7"), vals.Num("uint64", "18446744073709551615"), vals.Num("int64", "-9223372036854775808"),
	vals.Num("int64", "9223372036854775807"), vals.Num("int8", "-128"), vals.Num("uint8", "255"), vals.Num("int", "0"), vals.Num("uint", "0"),
	vals.Num("int32", "-2147483648"), vals.Num("uint32", "4294967295"), vals.Num("int16", "-1"),
}

type structSpec struct {
	kind        string // []srec | []*srec | []sstr | []*sstr
	form, scope string
	name        string
	place       string // loop | slotfor | single
	n           int
}

func structCase(s structSpec, k int) Case {
	c := Case{Compact: k%2 == 1, Comps: map[string]Comp{}, Entry: entries[k%len(entries)]}
	isStr := s.kind == "[]sstr" || s.kind == "[]*sstr"
	isNum := s.kind == "[]any"
	var items []vals.V
	for i := 0; i < s.n && isNum; i++ {
		items = append(items, boundaryNums[(k+i*5)%len(boundaryNums)])
	}
	for i := 0; i < s.n && !isNum; i++ {
		m := map[string]vals.V{"Name": vals.Str(fmt.Sprintf("nm%d", i))}
		if !isStr {
			m["Label"], m["Plain"], m["N"], m["Deep"] = vals.Str(fmt.Sprintf("lb%d", i)), vals.Str(fmt.Sprintf("pl%d", i)), vals.Int(i+k%5), vals.Str(fmt.Sprintf("dp%d", i))
			if i == 1 {
				m["Label"] = vals.Str("")
			}
		}
		items = append(items, vals.V{K: "x", M: m})
	}
	one := vals.V{K: map[bool]string{true: "*sstr", false: "*srec"}[isStr], M: map[string]vals.V{"Name": vals.Str("one"), "Label": vals.Str("lbo"), "Plain": vals.Str("plo"), "N": vals.Int(9), "Deep": vals.Str("dpo")}}
	if k%2 == 0 {
		one.K = one.K[1:]
	}
	if isNum {
		one = boundaryNums[(k/3+7)%len(boundaryNums)]
	}
	c.Data = map[string]vals.V{"rows": {K: s.kind, L: items}, "one": one, "pa": vals.Str("Aa")}
	// the same paths, on a value x: by Go name, by json tag, promoted, and printed whole
	fields := func(p, x string) []Node {
		if isNum {
			// a number handed on as a slot prop: the content prints the prop itself, and the text is
			// asserted exactly (fmt.Sprint of the Go value, see printable)
			return []Node{{K: "el", Tag: "i", M: p + "w", Kids: []Node{txt(Part{L: "["}, Part{X: x}, Part{L: "]"})}}}
		}
		parts := []Part{{X: x + ".Name"}, {L: "|"}, {X: x + ".name"}}
		binds := []KV{{K: "a", V: x + ".Name"}, {K: "b", V: x + ".name"}}
		if !isStr {
			parts = append(parts, Part{L: "|"}, Part{X: x + ".Deep"}, Part{L: "|"}, Part{X: x + ".Plain"}, Part{L: "|"}, Part{X: x + ".n"}, Part{L: "|"}, Part{X: x + ".N"})
			binds = append(binds, KV{K: "c", V: x + ".Deep"})
		}
		return []Node{
			{K: "el", Tag: "b", M: p + "f", Bind: binds, Kids: []Node{txt(parts...)}},
			{K: "el", Tag: "i", M: p + "w", Kids: []Node{txt(Part{X: x, S: "whole"})}},
		}
	}
	slot := func(item string) Node {
		return Node{K: "slot", Name: s.name, Bind: []KV{{K: "item", V: item}}, Kids: fields("k1F", item)}
	}
	var body []Node
	switch s.place {
	case "loop":
		li := Node{K: "el", Tag: "li", M: "k1l", For: &For{Idx: "ci1", Item: "ce1", List: "items1"}}
		li.Kids = append(fields("k1o", "ce1"), slot("ce1")) // outside the slot, then the slot
		body = []Node{{K: "el", Tag: "ul", M: "k1u", Kids: []Node{li}}}
	case "slotfor":
		sl := slot("ce1")
		sl.For = &For{Item: "ce1", List: "items1"}
		body = []Node{{K: "el", Tag: "section", M: "k1v", Kids: []Node{sl}}}
	default:
		body = append(fields("k1o", "rec1"), Node{K: "el", Tag: "section", M: "k1w", Kids: []Node{slot("rec1")}})
	}
	c.Comps["k1.vuego"] = Comp{Nodes: []Node{{K: "el", Tag: "div", M: "k1r", Kids: body}}}
	inc := Node{K: "inc", Comp: "k1.vuego", Bind: []KV{{K: "items1", V: "rows"}, {K: "rec1", V: "one"}}}
	sup := Supply{Form: s.form, Name: s.name}
	x := ""
	switch s.scope {
	case "var":
		sup.Var, x = "sp", "sp.item"
	case "destr":
		sup.Destr, x = []string{"item"}, "item"
	}
	switch {
	case s.scope == "":
		// nothing supplied: the fallback reads the same paths in the component's scope
	case s.form == "plain":
	default:
		sup.Kids = fields("p", x)
		inc.Sup = []Supply{sup}
	}
	c.Page = []Node{{K: "el", Tag: "div", M: "pg", Kids: []Node{inc}}}
	return c
}

func enumStructs(yield func(Case) bool) {
	k := 0
	for _, kind := range []string{"[]srec", "[]*srec", "[]sstr", "[]*sstr", "[]any", "[]any"} {
		for _, f := range wsForms {
			if f.form == "plain" || f.form == "bare" && f.scope == "" && k%2 == 0 {
				// unscoped content cannot name the prop; one unscoped form per kind renders the fallback
			}
			for _, place := range []string{"loop", "slotfor", "single"} {
				k++
				if !yield(structCase(structSpec{kind: kind, form: f.form, scope: f.scope, name: f.name, place: place, n: 1 + k%3}, k)) {
					return
				}
			}
		}
	}
}

func genShape(t *rapid.T) Case {
	f := wsForms[rapid.IntRange(0, len(wsForms)-1).Draw(t, "form")]
	k := rapid.IntRange(0, 1000).Draw(t, "k")
	var c Case
	if rapid.Bool().Draw(t, "root-or-struct") {
		c = rootCase(rootSpec{root: rapid.SampledFrom(rootKinds).Draw(t, "root"), entry: rapid.SampledFrom(entries).Draw(t, "entry"), form: f.form, scope: f.scope, name: f.name}, k)
	} else {
		c = structCase(structSpec{kind: rapid.SampledFrom([]string{"[]srec", "[]*srec", "[]sstr", "[]*sstr", "[]any"}).Draw(t, "kind"), form: f.form, scope: f.scope, name: f.name,
			place: rapid.SampledFrom([]string{"loop", "slotfor", "single"}).Draw(t, "place"), n: rapid.IntRange(0, 3).Draw(t, "n")}, k)
	}
	c.rename(genNames(t))
	return c
}
