package c06

import (
	"fmt"
	"strings"

	"pgregory.net/rapid"

	"verif/internal/ev"
	"verif/internal/vals"
)

// instance builds one include of ci on the page. k numbers the instance (different data per
// instance); in a page loop the props depend on the loop item.
func (b *builder) instance(ci compInfo, k int, inLoop bool, plans []supplyPlan, ex exclusions, rec *ev.Rec,
	hook func(pl supplyPlan, scope []sv) []Node) Node {
	p := fmt.Sprintf("p%d", k)
	o := incOpts{p: p, scope: pageScope(), varName: "sp", hook: hook, coll: pageCollisions()}
	sfx := ""
	if k%2 == 1 {
		sfx = "2"
	}
	if ci.elem == "s" {
		o.items = "plist" + sfx
	} else {
		o.items = "prows" + sfx
	}
	o.rec, o.num = "prec"+sfx, "pn"
	switch b.ch.n("title-mode", 3) {
	case 0:
		o.static, o.title = true, KV{K: ci.title(), V: fmt.Sprintf("T%d", k)}
	case 1:
		o.title = KV{K: ci.title(), V: "pa"}
	default:
		o.title = KV{K: ci.title(), V: "pb"}
	}
	withExtra := func(n Node) Node {
		for _, x := range ci.extra {
			n.Stat = append(n.Stat, KV{K: x, V: "K3" + x})
		}
		return n
	}
	if !inLoop {
		return withExtra(b.include(ci, o, plans, ex, rec))
	}
	idx, it := fmt.Sprintf("pi%d", k), fmt.Sprintf("pr%d", k)
	o.scope = append([]sv{{it, "m", true}, {idx, "i", true}}, o.scope...)
	o.static, o.title, o.rec, o.num = false, KV{K: ci.title(), V: it + ".name"}, it, idx
	return Node{K: "el", Tag: "div", M: b.id(p + "L"), For: &For{Idx: idx, Item: it, List: "prows"},
		Kids: []Node{withExtra(b.include(ci, o, plans, ex, rec))}}
}

func page(b *builder, insts []Node) []Node {
	root := Node{K: "el", Tag: "div", M: "pg"}
	root.Kids = append(root.Kids, Node{K: "el", Tag: "span", M: "pgh", Kids: []Node{{K: "text", T: []Part{{X: "pa"}}}}})
	root.Kids = append(root.Kids, insts...)
	root.Kids = append(root.Kids, Node{K: "el", Tag: "span", M: "pgt", Kids: []Node{{K: "text", T: []Part{{X: "pb"}}}}})
	return []Node{root}
}

// ---------------------------------------------------------------------------------------------
// Exhaustive core
// ---------------------------------------------------------------------------------------------

var defaultForms = []supplyPlan{{form: "none"}, {form: "plain"}, {form: "bare"}, {form: "bare", scope: "var"}, {form: "bare", scope: "destr"}}
var namedForms = []supplyPlan{{form: "none"}, {form: "long"}, {form: "short"}, {form: "long", scope: "var"}, {form: "short", scope: "var"},
	{form: "long", scope: "destr"}, {form: "short", scope: "destr"}}

func formsFor(name string, props bool) []supplyPlan {
	src := namedForms
	if name == "" {
		src = defaultForms
	}
	var out []supplyPlan
	for _, f := range src {
		if !props && f.scope != "" {
			continue
		}
		f.name = name
		out = append(out, f)
	}
	return out
}

// enumCore enumerates: slot set x props x fallback x place x twice x every assignment of a supply
// form to every slot, rendered as two instances side by side (the second instance uses the next
// form of each slot, so "supplied here, not there" occurs for every form).
func enumCore(ex exclusions, rec *ev.Rec, yield func(Case) bool) {
	sets := [][]string{{""}, {"a"}, {"", "a"}, {"a", "b"}, {"", "a", "b"}}
	variant := 0
	for _, set := range sets {
		for _, props := range []bool{false, true} {
			lists := make([][]supplyPlan, len(set))
			total := 1
			for i, name := range set {
				lists[i] = formsFor(name, props)
				total *= len(lists[i])
			}
			for _, fallback := range []bool{false, true} {
				for _, place := range []string{"wrap", "loop", "slotfor", "slotfor1"} {
					for _, twice := range []bool{false, true} {
						if twice && (place == "slotfor" || place == "slotfor1") {
							continue
						}
						for code := 0; code < total; code++ {
							variant++
							k := 0
							b := &builder{ch: fixedCh{&k}}
							k = variant
							ci := compInfo{idx: 1, file: "k1.vuego", elem: []string{"s", "m"}[variant%2], slots: map[string]slotInfo{}, order: set}
							if variant%4 == 1 {
								b.single = variant%8 == 1
								ci.file = b.shortFile(1)
							}
							var uses []useSpec
							for _, name := range set {
								si := slotInfo{}
								if props {
									si.props = []string{"item", "n"}
									if ci.elem == "m" {
										si.props = []string{"item", "n", "badge"}
									}
								}
								ci.slots[name] = si
								uses = append(uses, useSpec{name: name, place: place, fallback: fallback})
							}
							if twice {
								other := "wrap"
								if place == "wrap" {
									other = "bare"
								}
								uses = append(uses, useSpec{name: set[0], place: other, fallback: fallback})
							}
							c := Case{Comps: map[string]Comp{}, Data: fixedData(variant), Compact: variant%3 == 0, Short: variant%4 == 1}
							if (place == "slotfor" || place == "slotfor1") && variant%3 == 0 {
								// the second instance loops over an empty list
								c.Data["plist2"], c.Data["prows2"] = vals.List("[]any"), vals.List("[]any")
							}
							shape := []string{"div", "div", "flat", "template", "div"}[variant%5]
							b.pageIfOnly = ex.tmplRoot && shape == "template"
							b.collide = variant%2 == 1
							if b.collide && ex.compScope {
								if rec != nil {
									rec.Excluded("C06-slot-content-sees-component-scope")
								}
								b.collide = false
							}
							c.Comps[ci.file] = b.leaf(ci, uses, variant%2 == 0, nil, shape)
							var insts []Node
							for inst := 0; inst < 2; inst++ {
								var plans []supplyPlan
								x := code
								for i := range set {
									f := lists[i][(x%len(lists[i])+inst)%len(lists[i])]
									x /= len(lists[i])
									if f.form != "none" {
										plans = append(plans, f)
									}
								}
								insts = append(insts, b.instance(ci, inst, false, plans, ex, rec, nil))
							}
							c.Page = page(b, insts)
							if b.dropped > 0 && rec != nil {
								rec.Excluded("C06-template-root-evaluated-twice")
							}
							c.rename(fixedNames(variant))
							if !yield(c) {
								return
							}
						}
					}
				}
			}
		}
	}
}

// enumEdge: content that was supplied but renders nothing (v-if false, v-for over an empty list)
// for every supply form, against a slot with fallback: "exactly when nothing was supplied" - the
// fallback must stay away; the second instance supplies nothing and must fall back.
func enumEdge(yield func(Case) bool) {
	variant := 0
	for _, name := range []string{"", "a"} {
		for _, f := range formsFor(name, true) {
			if f.form == "none" || f.scope == "destr" {
				continue
			}
			for _, kind := range []string{"if-false", "for-empty", "if-false-scoped"} {
				for _, place := range []string{"wrap", "loop", "slotfor"} {
					variant++
					k := variant
					b := &builder{ch: fixedCh{&k}}
					ci := compInfo{idx: 1, file: "k1.vuego", elem: "m", slots: map[string]slotInfo{name: {props: []string{"item", "n"}}}, order: []string{name}}
					c := Case{Comps: map[string]Comp{}, Data: fixedData(variant), Compact: variant%2 == 0}
					c.Data["prec2"] = recV("rd", 2, false)
					c.Comps[ci.file] = b.leaf(ci, []useSpec{{name: name, place: place, fallback: true}}, false, nil, "div")
					var kid Node
					switch kind {
					case "if-false":
						kid = Node{K: "el", Tag: "b", M: "e1", If: "pf", Kids: []Node{{K: "text", T: []Part{{L: "X1"}}}}}
					case "for-empty":
						kid = Node{K: "el", Tag: "b", M: "e1", For: &For{Item: "ee", List: "pempty"}, Kids: []Node{{K: "text", T: []Part{{L: "X1"}}}}}
					default:
						if f.scope != "var" || place != "wrap" {
							continue
						}
						// item is prec2 for the instance below, whose ok is false
						kid = Node{K: "el", Tag: "b", M: "e1", If: "sp.item.ok", Kids: []Node{{K: "text", T: []Part{{L: "X1"}}}}}
					}
					c.Data["pempty"] = vals.List("[]any")
					inc := Node{K: "inc", Comp: ci.file, Stat: []KV{{K: ci.title(), V: "T1"}},
						Bind: []KV{{K: ci.num(), V: "pn"}, {K: ci.items(), V: "prows"}, {K: ci.rec(), V: "prec2"}}}
					if f.form == "plain" {
						inc.Kids = []Node{kid}
					} else {
						sp := Supply{Form: f.form, Name: name, Kids: []Node{kid}}
						if f.scope == "var" {
							sp.Var = "sp"
						}
						inc.Sup = []Supply{sp}
					}
					none := Node{K: "inc", Comp: ci.file, Stat: []KV{{K: ci.title(), V: "T2"}},
						Bind: []KV{{K: ci.num(), V: "pn"}, {K: ci.items(), V: "prows"}, {K: ci.rec(), V: "prec"}}}
					c.Page = page(b, []Node{inc, none})
					c.rename(fixedNames(variant))
					if !yield(c) {
						return
					}
				}
			}
		}
	}
}

// ---------------------------------------------------------------------------------------------
// Random search
// ---------------------------------------------------------------------------------------------

var shapes = []string{"div", "div", "div", "flat", "template"}

// shortFile names the file of component idx when shorthand tags are used: components/KOne.vuego is
// registered as <k-one>; with single-word names components/Kone.vuego is registered as <kone>, a tag
// without a dash.
func (b *builder) shortFile(idx int) string {
	if b.single {
		return map[int]string{1: "components/Kone.vuego", 2: "components/Ktwo.vuego", 3: "components/Kthree.vuego", 4: "components/Kfour.vuego"}[idx]
	}
	return map[int]string{1: "components/KOne.vuego", 2: "components/KTwo.vuego", 3: "components/KThree.vuego", 4: "components/KFour.vuego"}[idx]
}

func genLeafInfo(t *rapid.T, b *builder, idx int, elem string, short bool) (compInfo, []useSpec) {
	ci := compInfo{idx: idx, file: fmt.Sprintf("k%d.vuego", idx), elem: elem, slots: map[string]slotInfo{}, multi: map[string]bool{}}
	if rapid.IntRange(0, 3).Draw(t, "dir") == 0 {
		ci.file = fmt.Sprintf("parts/k%d.vuego", idx)
	}
	if short {
		ci.file = b.shortFile(idx)
	}
	// subset of {default, a, b}; the empty set (component without slots) is rare
	mask := rapid.SampledFrom([]int{1, 2, 3, 3, 5, 6, 6, 7, 7, 7, 0}).Draw(t, "slotset")
	var uses []useSpec
	for i, name := range []string{"", "a", "b"} {
		if mask&(1<<i) == 0 {
			continue
		}
		ci.order = append(ci.order, name)
		ps := rapid.SampledFrom([][]string{nil, {"item"}, {"item", "n"}, {"item", "n"}}).Draw(t, "props")
		if elem == "m" && len(ps) > 0 && rapid.Bool().Draw(t, "badge") {
			ps = append(append([]string(nil), ps...), "badge")
		}
		ci.slots[name] = slotInfo{props: ps}
		n := rapid.SampledFrom([]int{1, 1, 1, 2}).Draw(t, "uses")
		for j := 0; j < n; j++ {
			u := useSpec{name: name, place: rapid.SampledFrom([]string{"wrap", "wrap", "loop", "bare", "slotfor", "slotfor1"}).Draw(t, "place"), fallback: rapid.Bool().Draw(t, "fallback")}
			at := rapid.IntRange(0, len(uses)).Draw(t, "at")
			uses = append(uses, useSpec{})
			copy(uses[at+1:], uses[at:])
			uses[at] = u
			if j > 0 || u.place == "loop" || u.place == "slotfor" || u.place == "slotfor1" {
				ci.multi[name] = true
			}
		}
	}
	return ci, uses
}

// genPlans draws how an includer supplies the slots of ci (plus, rarely, a name ci does not have).
func genPlans(t *rapid.T, ci compInfo, allowDestr bool) []supplyPlan {
	var plans []supplyPlan
	names := append([]string(nil), ci.order...)
	if rapid.IntRange(0, 7).Draw(t, "unknown-slot") == 0 {
		for _, cand := range []string{"z", "b", ""} {
			if _, has := ci.slots[cand]; !has {
				names = append(names, cand)
				break
			}
		}
	}
	for _, name := range names {
		if rapid.IntRange(0, 9).Draw(t, "supply?"+name) < 3 {
			continue
		}
		pl := supplyPlan{name: name}
		hasProps := len(ci.slots[name].props) > 0
		if name == "" {
			pl.form = rapid.SampledFrom([]string{"plain", "plain", "bare"}).Draw(t, "form")
			if hasProps {
				pl.form = rapid.SampledFrom([]string{"plain", "bare", "bare", "bare"}).Draw(t, "form")
			}
		} else {
			pl.form = rapid.SampledFrom([]string{"long", "short"}).Draw(t, "form")
		}
		if pl.form != "plain" {
			switch {
			case hasProps:
				pl.scope = rapid.SampledFrom([]string{"", "var", "var", "destr", "destr"}).Draw(t, "scope")
			default:
				// a declared variable on a slot without props is legal; nothing can be read from it
				pl.scope = rapid.SampledFrom([]string{"", "", "", "var"}).Draw(t, "scope")
			}
			if pl.scope == "destr" && !allowDestr {
				pl.scope = "var"
			}
		}
		plans = append(plans, pl)
	}
	return plans
}

func genCase(t *rapid.T, ex exclusions, rec *ev.Rec) Case {
	b := &builder{ch: rapidCh{t}}
	elem := rapid.SampledFrom([]string{"s", "m"}).Draw(t, "elem")
	c := Case{Comps: map[string]Comp{}, Data: genData(t), Compact: rapid.IntRange(0, 3).Draw(t, "compact") == 0}

	sh := []string{rapid.SampledFrom(shapes).Draw(t, "shape1"), rapid.SampledFrom(shapes).Draw(t, "shape2"), rapid.SampledFrom(shapes).Draw(t, "shape3")}
	hasK2, hasK3 := rapid.Bool().Draw(t, "k2"), rapid.IntRange(0, 2).Draw(t, "outer") == 0
	b.pageIfOnly = ex.tmplRoot && (sh[0] == "template" || hasK2 && sh[1] == "template" || hasK3 && sh[2] == "template")
	defer func() {
		if b.dropped > 0 {
			rec.Excluded("C06-template-root-evaluated-twice")
		}
	}()
	b.collide = rapid.IntRange(0, 2).Draw(t, "collide") > 0
	if b.collide && ex.compScope {
		// open known finding: supplied content is evaluated on top of the component's scopes
		rec.Excluded("C06-slot-content-sees-component-scope")
		b.collide = false
	}

	c.Short = rapid.IntRange(0, 3).Draw(t, "short") == 0
	b.single = c.Short && rapid.Bool().Draw(t, "single-word-tags")
	k1, u1 := genLeafInfo(t, b, 1, elem, c.Short)
	c.Comps[k1.file] = b.leaf(k1, u1, rapid.Bool().Draw(t, "fm1"), nil, sh[0])
	avail := []compInfo{k1}
	leaves := []compInfo{k1}
	if hasK2 {
		k2, u2 := genLeafInfo(t, b, 2, elem, c.Short)
		c.Comps[k2.file] = b.leaf(k2, u2, rapid.Bool().Draw(t, "fm2"), nil, sh[1])
		avail = append(avail, k2)
		leaves = append(leaves, k2)
	}
	if hasK3 {
		k3 := genOuter(t, b, &c, leaves, elem, sh[2], ex, rec)
		avail = append(avail, k3, k3) // prefer the nested one when it exists
	}

	n := rapid.SampledFrom([]int{1, 2, 2, 3}).Draw(t, "instances")
	var insts []Node
	for i := 0; i < n; i++ {
		ci := avail[rapid.IntRange(0, len(avail)-1).Draw(t, "which")]
		if i > 0 && rapid.Bool().Draw(t, "same") {
			ci = avail[0] // the same component side by side is the bleed-through case
		}
		inLoop := rapid.IntRange(0, 3).Draw(t, "inloop") == 0
		plans := genPlans(t, ci, true)
		var hook func(pl supplyPlan, scope []sv) []Node
		if rapid.IntRange(0, 4).Draw(t, "inc-in-supplied") == 0 {
			// an include written inside supplied content: its slot scope is the page's
			inner := leaves[rapid.IntRange(0, len(leaves)-1).Draw(t, "inner-leaf")]
			done := false
			hook = func(pl supplyPlan, scope []sv) []Node {
				if done {
					return nil
				}
				if ex.shortNested && c.Short {
					// open known finding: a shorthand tag inside the content of a shorthand tag stays unresolved
					done = true
					rec.Excluded("C06-shorthand-tag-in-slot-content-not-resolved")
					return nil
				}
				if ex.frozen && ci.multi[pl.name] {
					// open known finding: an include tag inside content that fills a slot more than
					// once keeps the prop values of the first use
					rec.Excluded("C06-include-in-slot-content-frozen")
					return nil
				}
				done = true
				// Inside a destructured supply the bare names item / n are includer variables. The
				// nested component's slots bind props of the same names, and what unscoped content
				// sees of those is not documented: keep the nested content off the colliding names.
				var sc2 []sv
				for _, e := range scope {
					if pl.scope == "destr" && (e.x == "n" || e.x == "item" || strings.HasPrefix(e.x, "item.")) {
						continue
					}
					sc2 = append(sc2, e)
				}
				o := incOpts{p: fmt.Sprintf("p%dn", i), scope: sc2, varName: "sq", static: true,
					title: KV{K: inner.title(), V: fmt.Sprintf("N%d", i)}, num: "pn", rec: "prec"}
				if inner.elem == "s" {
					o.items = "plist"
				} else {
					o.items = "prows"
				}
				switch pl.scope {
				case "destr":
					// names the enclosing template destructured are variables of this includer
					o.boundExtra = ci.slots[pl.name].props
				case "":
					// names the enclosing unscoped content may see directly (see tainted)
					o.tainted = ci.slots[pl.name].props
				}
				return []Node{b.include(inner, o, genPlans(t, inner, pl.scope != "destr"), ex, rec)}
			}
		}
		insts = append(insts, b.instance(ci, i, inLoop, plans, ex, rec, hook))
	}
	c.Page = page(b, insts)
	if rapid.IntRange(0, 3).Draw(t, "layout") == 0 {
		// layouts/base.vuego wraps the page and contains a component instance of its own
		ci := avail[rapid.IntRange(0, len(avail)-1).Draw(t, "layout-which")]
		plans := genPlans(t, ci, true)
		if ex.layoutLeak {
			// open known finding: names the page supplies in #name / v-slot:name form leak into layout
			// instances that do not supply them; make the layout instance supply those itself
			named := map[string]bool{}
			namedSupplies(c.Page, named)
			for _, name := range ci.innerOpen {
				if named[name] {
					// the leak would reach the component nested in ci: use a leaf component instead
					rec.Excluded("C06-layout-leaks-instance-slot-content")
					ci = avail[0]
					plans = genPlans(t, ci, true)
					break
				}
			}
			for _, name := range ci.order {
				if !named[name] || planned(plans, name) {
					continue
				}
				rec.Excluded("C06-layout-leaks-instance-slot-content")
				plans = append(plans, supplyPlan{name: name, form: "long"})
			}
		}
		inst := b.instance(ci, 7, false, plans, ex, rec, nil)
		c.Layout = []Node{{K: "el", Tag: "div", M: "ly", Kids: []Node{
			{K: "el", Tag: "span", M: "lyh", Kids: []Node{{K: "text", T: []Part{{X: "pa"}}}}},
			{K: "content", Tag: "div", M: "lyc"},
			inst,
		}}}
		if rapid.Bool().Draw(t, "layout-inst-first") {
			k := c.Layout[0].Kids
			k[1], k[2] = k[2], k[1]
		}
		if rapid.Bool().Draw(t, "handover") {
			b.handover(&c, elem, genHandSpec(t, elem), ex, rec)
		}
	}
	c.rename(genNames(t))
	return c
}

func planned(plans []supplyPlan, name string) bool {
	for _, p := range plans {
		if p.name == name {
			return true
		}
	}
	return false
}

// namedSupplies collects the names of all #name / v-slot:name templates in a template.
func namedSupplies(nodes []Node, into map[string]bool) {
	for _, n := range nodes {
		for _, s := range n.Sup {
			if s.Form != "bare" {
				into[s.Name] = true
			}
			namedSupplies(s.Kids, into)
		}
		namedSupplies(n.Kids, into)
	}
}

// genOuter builds k3: a component with (possibly) slots of its own whose body includes a leaf
// component and supplies content to it; that content may contain k3's own <slot> elements
// (forwarding what k3's includer supplied into the inner component).
func genOuter(t *rapid.T, b *builder, c *Case, leaves []compInfo, elem, shape string, ex exclusions, rec *ev.Rec) compInfo {
	inner := leaves[rapid.IntRange(0, len(leaves)-1).Draw(t, "outer-inner")]
	file3 := "k3.vuego"
	if c.Short {
		file3 = b.shortFile(3)
	}
	k3 := compInfo{idx: 3, file: file3, elem: elem, slots: map[string]slotInfo{}, multi: map[string]bool{}}
	fm := rapid.Bool().Draw(t, "fm3")
	propSets := [][]string{nil, {"item"}, {"item", "n"}}
	if elem == "m" {
		propSets = append(propSets, []string{"item", "badge"}, []string{"item", "n", "badge"})
	}
	// direct uses
	var uses []useSpec
	direct := rapid.SampledFrom([][]string{nil, {"a"}, {""}, {"", "a"}}).Draw(t, "outer-direct")
	for _, name := range direct {
		k3.order = append(k3.order, name)
		k3.slots[name] = slotInfo{props: rapid.SampledFrom(propSets).Draw(t, "props")}
		u := useSpec{name: name, place: rapid.SampledFrom([]string{"wrap", "loop", "bare", "slotfor", "slotfor1"}).Draw(t, "place"), fallback: rapid.Bool().Draw(t, "fallback")}
		k3.multi[name] = u.place != "wrap" && u.place != "bare"
		uses = append(uses, u)
	}
	// forwarded names: not used directly
	var fwd []string
	for _, name := range []string{"", "b"} {
		if _, used := k3.slots[name]; !used && rapid.IntRange(0, 2).Draw(t, "fwd?"+name) > 0 {
			fwd = append(fwd, name)
			k3.order = append(k3.order, name)
			k3.slots[name] = slotInfo{props: rapid.SampledFrom(propSets).Draw(t, "props")}
		}
	}
	fwdFallback := rapid.Bool().Draw(t, "fwd-fallback")
	scope := k3.scope(fm)
	hook := func(pl supplyPlan, sc []sv) []Node {
		if len(fwd) == 0 || rapid.IntRange(0, 3).Draw(t, "fwd-here") == 0 {
			return nil
		}
		name := fwd[rapid.IntRange(0, len(fwd)-1).Draw(t, "fwd-name")]
		if inner.multi[pl.name] {
			k3.multi[name] = true
		}
		u := useSpec{name: name, fallback: fwdFallback}
		itemX := k3.itemOutside()
		// re-export the inner component's item through the forwarded slot when it is in reach
		for _, e := range sc {
			if e.hot && e.t == elem && rapid.Bool().Draw(t, "re-export") {
				itemX = e.x
				break
			}
		}
		s := b.slotNode(k3, "k3", u, sc, itemX, k3.num(), k3.rec()+".badge")
		if rapid.Bool().Draw(t, "fwd-wrapped") {
			return []Node{{K: "el", Tag: "div", M: b.id("k3F"), Kids: []Node{s}}}
		}
		return []Node{s}
	}
	var coll []sv
	if b.collide {
		for _, x := range []string{inner.title(), inner.num(), inner.fmk(), fmt.Sprintf("ci%d", inner.idx), "n"} {
			k3.extra = append(k3.extra, x)
			coll = append(coll, sv{x, "s", true})
		}
	}
	o := incOpts{p: "k3", scope: scope, varName: "sq", hook: hook, coll: coll,
		title: KV{K: inner.title(), V: k3.title()}, num: k3.num(), items: k3.items(), rec: k3.rec()}
	if rapid.Bool().Draw(t, "outer-static-title") {
		o.static, o.title = true, KV{K: inner.title(), V: "TI"}
	}
	// the include itself may sit in a loop of k3: one inner instance per item, props and supplied
	// content depend on the iteration
	incLoop := rapid.IntRange(0, 3).Draw(t, "outer-inc-in-loop") == 0
	if incLoop {
		o.scope = append([]sv{{"ce3", elem, true}, {"ci3", "i", true}}, scope...)
		o.static, o.num = false, "ci3"
		if elem == "m" {
			o.title, o.rec = KV{K: inner.title(), V: "ce3.name"}, "ce3"
		} else {
			o.title = KV{K: inner.title(), V: "ce3"}
		}
	}
	inc := b.include(inner, o, genPlans(t, inner, true), ex, rec)
	// Names that no supply ended up forwarding do not exist as slots of k3.
	have := map[string]int{}
	countSlots([]Node{inc}, have)
	var order []string
	for _, name := range k3.order {
		isFwd := false
		for _, f := range fwd {
			if f == name {
				isFwd = true
			}
		}
		if isFwd && have[name] == 0 {
			delete(k3.slots, name)
			continue
		}
		if have[name] >= 2 {
			k3.multi[name] = true
		}
		order = append(order, name)
	}
	k3.order = order
	for _, name := range inner.order {
		supplied := name == "" && len(inc.Kids) > 0
		for _, sp := range inc.Sup {
			if sp.Name == name {
				supplied = true
			}
		}
		if !supplied {
			k3.innerOpen = append(k3.innerOpen, name)
		}
	}
	body := []Node{inc}
	if incLoop {
		for _, f := range fwd {
			k3.multi[f] = true
		}
		body = []Node{{K: "el", Tag: "ul", M: b.id("k3U"), Kids: []Node{
			{K: "el", Tag: "li", M: b.id("k3I"), For: &For{Idx: "ci3", Item: "ce3", List: k3.items()}, Kids: []Node{inc}}}}}
	}
	c.Comps[k3.file] = b.leaf(k3, uses, fm, body, shape)
	return k3
}
