package c06

import (
	"fmt"
	"sort"
	"strconv"

	"verif/internal/hx"
	"verif/internal/run"
	"verif/internal/vals"
)

// The after-failure dimension: a render that failed must leave nothing behind that a later render
// can see (scope maps, text builders, buffers handed back dirty to process-wide pools; marks on the
// engine). The failing render uses the case's own templates - so whatever it leaves behind carries
// the very names and positions the case reads - with every value made recognisably different, and
// fails late: after the page's own output, inside the content it supplies to its components (where
// a slot is filled in a loop that is inside an iteration) and, as a last resort, at the end of the
// page.

// failText is literal text, a successful mustache where the page has a string variable, and the
// failing call.
func failText(okVar string) Node {
	t := []Part{{L: " Lz "}}
	if okVar != "" {
		t = append(t, Part{X: okVar}, Part{L: " "})
	}
	t = append(t, Part{X: `boom("x")`})
	return Node{K: "text", Exact: true, T: t}
}

// failingVariant is the case with the failing text appended to every piece of content the page
// supplies and to the page itself.
func failingVariant(c Case) Case {
	okVar := ""
	var keys []string
	for k, v := range c.Data {
		if v.K == "string" {
			keys = append(keys, k)
		}
	}
	sort.Strings(keys)
	if len(keys) > 0 {
		okVar = keys[0]
	}
	f := c
	f.Page = injectFail(c.Page, okVar)
	if len(f.Page) > 0 && f.Page[len(f.Page)-1].K == "el" {
		last := f.Page[len(f.Page)-1]
		last.Kids = append(append([]Node(nil), last.Kids...), failText(okVar))
		f.Page = append(append([]Node(nil), f.Page[:len(f.Page)-1]...), last)
	} else {
		f.Page = append(f.Page, failText(okVar))
	}
	f.Hand = nil
	for _, h := range c.Hand {
		h.Kids = append(injectFail(h.Kids, okVar), failText(okVar))
		f.Hand = append(f.Hand, h)
	}
	return f
}

func injectFail(nodes []Node, okVar string) []Node {
	out := make([]Node, len(nodes))
	for i, n := range nodes {
		n.Kids = injectFail(n.Kids, okVar)
		if n.K == "inc" {
			if len(n.Kids) > 0 {
				n.Kids = append(n.Kids, failText(okVar))
			}
			sup := make([]Supply, len(n.Sup))
			for j, s := range n.Sup {
				s.Kids = append(injectFail(s.Kids, okVar), failText(okVar))
				sup[j] = s
			}
			n.Sup = sup
		}
		out[i] = n
	}
	return out
}

// stale makes every value recognisably different: strings get a suffix, numbers move by 1000,
// containers keep their shape.
func stale(v vals.V) vals.V {
	switch v.K {
	case "string":
		v.S += "-STALE"
	case "int":
		n, _ := strconv.Atoi(v.S)
		v.S = strconv.Itoa(n + 1000)
	}
	if v.L != nil {
		l := make([]vals.V, len(v.L))
		for i, e := range v.L {
			if e.K == "" || e.K == "x" {
				// elements of typed lists carry their fields only
				m := map[string]vals.V{}
				for k, f := range e.M {
					m[k] = stale(f)
				}
				e.M = m
				l[i] = e
				continue
			}
			l[i] = stale(e)
		}
		v.L = l
	}
	if v.M != nil {
		m := map[string]vals.V{}
		for k, e := range v.M {
			m[k] = stale(e)
		}
		v.M = m
	}
	return v
}

func staleData(c Case) any {
	f := c
	f.Data = map[string]vals.V{}
	for k, v := range c.Data {
		f.Data[k] = stale(v)
	}
	return rootValue(f)
}

// checkAfterFailure renders the failing variant, then the case, twice over, back to back on this
// goroutine; every rendering of the case must meet the expectation.
func checkAfterFailure(c Case, want []*hx.N) error {
	shared := newEngine(c)
	for rep := 0; rep < 2; rep++ {
		fe := shared
		if c.After == "fresh" {
			fe = newEngine(c)
		}
		out, ferr := fe.render("page_fail.vuego", staleData(c))
		if ferr == nil {
			return fmt.Errorf("bad case: the failing variant of the page rendered without an error:\n%s", out)
		}
		re := shared
		if c.After == "fresh" {
			re = newEngine(c)
		}
		got, err := re.render("page.vuego", rootValue(c))
		if cerr := compareOutput(c, want, got, err); cerr != nil {
			return fmt.Errorf("rendering #%d of the page after a FAILED render of its failing variant (%s engine; that render returned: %v): %v", rep+1, c.After, ferr, cerr)
		}
	}
	return nil
}

// withAfter applies the dimension to a rotating fraction of the cases: one in four in the quick
// tier, every second one in the thorough tier, alternating between a fresh and the same engine.
func withAfter(c Case, k int) Case {
	every := run.Pick(4, 2)
	if k%every != 0 {
		return c
	}
	c.After = []string{"fresh", "same"}[k/every%2]
	return c
}
