package c06

import (
	"fmt"
	"strings"
)

// files derives the file set from the description: page.vuego and one file per component.
func files(c Case) map[string]string {
	out := map[string]string{"page.vuego": emitPage(c)}
	if c.After != "" {
		out["page_fail.vuego"] = emitPage(failingVariant(c))
	}
	if len(c.Layout) > 0 {
		out["layouts/base.vuego"] = emit(c.Layout, c.Compact, c.Short, c.Spell)
	}
	for name, cp := range c.Comps {
		var b strings.Builder
		if len(cp.FM) > 0 {
			b.WriteString("---\n")
			for _, kv := range cp.FM {
				fmt.Fprintf(&b, "%s: %s\n", kv.K, kv.V)
			}
			b.WriteString("---\n")
		}
		if cp.Wrap {
			b.WriteString("<template>" + emit(cp.Nodes, c.Compact, c.Short, c.Spell))
			if !c.Compact {
				b.WriteString("\n")
			}
			b.WriteString("</template>\n")
		} else {
			b.WriteString(emit(cp.Nodes, c.Compact, c.Short, c.Spell))
		}
		out[name] = b.String()
	}
	return out
}

// emitHand writes the page-level slot templates.
func emitHand(c Case) string {
	var b strings.Builder
	w := &writer{b: &b, compact: c.Compact, short: c.Short, proc: c.Proc, spell: c.Spell}
	for _, s := range c.Hand {
		w.nl(0)
		w.supply(s, 0)
	}
	return b.String()
}

// emitPage writes the page file (the only file a registered NodeProcessor pre-processes).
func emitPage(c Case) string {
	var b strings.Builder
	w := &writer{b: &b, compact: c.Compact, short: c.Short, proc: c.Proc, spell: c.Spell}
	w.nodes(c.Page, 0)
	return b.String() + emitHand(c)
}

// supply writes one slot template; with proc as <x-slot name=".." [short] [bind=".."]>.
func (w *writer) supply(s Supply, depth int) {
	open, closeTag := "<"+w.up("template")+" "+w.supAttr(s)+">", "</"+w.up("template")+">"
	if w.proc {
		open = "<x-slot"
		if s.Name != "" {
			open += fmt.Sprintf(` name="%s"`, s.Name)
		}
		if s.Form == "short" {
			open += " short"
		}
		switch {
		case s.Var != "":
			open += fmt.Sprintf(` bind="%s"`, s.Var)
		case len(s.Destr) > 0:
			open += fmt.Sprintf(` bind="%s"`, pattern(s.Destr, s.WS))
		}
		open, closeTag = open+">", "</x-slot>"
	}
	w.b.WriteString(open)
	w.nodes(s.Kids, depth+1)
	if len(s.Kids) > 0 {
		w.nl(depth)
	}
	w.b.WriteString(closeTag)
}

func emit(nodes []Node, compact, short bool, spell int) string {
	var b strings.Builder
	w := &writer{b: &b, compact: compact, short: short, spell: spell}
	w.nodes(nodes, 0)
	return b.String()
}

type writer struct {
	b       *strings.Builder
	compact bool
	short   bool
	proc    bool // page written with <x-inc> / <x-slot>, rewritten by a registered NodeProcessor
	spell   int  // equivalent spellings, see the spell* bits
	// lastChild: the node being written is the last child of a plain element; inElement: the list
	// being written is the child list of a plain element
	lastChild, inElement bool
}

// Equivalent spellings of the same template (docs/syntax.md: ":attr is equivalent to v-bind:attr";
// HTML: tag and attribute names are case-insensitive, attribute values may be quoted either way, and
// an element that is the last child of its parent needs no end tag of its own).
const (
	spellSlotVBind = 1 << iota // <slot v-bind:item="x"> instead of :item
	spellIncVBind              // <template include v-bind:title1="x"> instead of :title1
	spellUpper                 // <SLOT NAME=..>, <TEMPLATE INCLUDE=..>, <TEMPLATE V-SLOT:a>, V-BIND:
	spellSingle                // attribute values in single quotes (where the value has none itself)
	spellSlotOpen              // <slot/> for a slot without fallback that is the last child of its parent
	spellAll       = 1<<iota - 1
)

// attr writes one attribute.
func (w *writer) attr(key, val string) {
	q := `"`
	if w.spell&spellSingle != 0 && !strings.Contains(val, "'") {
		q = "'"
	}
	w.b.WriteString(" " + key + "=" + q + val + q)
}

func (w *writer) up(s string) string {
	if w.spell&spellUpper != 0 {
		return strings.ToUpper(s)
	}
	return s
}

func (w *writer) bindKey(vbind bool, name string) string {
	if vbind {
		return w.up("v-bind:") + name
	}
	return ":" + name
}

func (w *writer) forAttr(f *For) {
	if f.Idx != "" {
		w.attr("v-for", fmt.Sprintf("(%s, %s) in %s", f.Idx, f.Item, f.List))
	} else {
		w.attr("v-for", fmt.Sprintf("%s in %s", f.Item, f.List))
	}
}

// shortTag is the documented mapping: components/KOne.vuego -> <k-one>.
func shortTag(file string) string {
	name := strings.TrimSuffix(file[strings.LastIndex(file, "/")+1:], ".vuego")
	var b strings.Builder
	for i, r := range name {
		if r >= 'A' && r <= 'Z' {
			if i > 0 {
				b.WriteByte('-')
			}
			r += 'a' - 'A'
		}
		b.WriteRune(r)
	}
	return b.String()
}

func (w *writer) nl(depth int) {
	if w.compact {
		return
	}
	w.b.WriteString("\n" + strings.Repeat("  ", depth))
}

func (w *writer) nodes(l []Node, depth int) {
	outer, outerIn := w.lastChild, w.inElement
	for i, n := range l {
		// last child of an element written with an explicit end tag (not of a file / <template>)
		w.lastChild = outerIn && i == len(l)-1
		w.node(n, depth)
	}
	w.lastChild, w.inElement = outer, outerIn
}

func (w *writer) node(n Node, depth int) {
	switch n.K {
	case "text":
		if n.Exact {
			for _, p := range n.T {
				if p.X != "" {
					w.b.WriteString("{{ " + p.X + " }}")
				} else {
					w.b.WriteString(p.L)
				}
			}
			return
		}
		w.nl(depth)
		for i, p := range n.T {
			if i > 0 {
				w.b.WriteString(" ")
			}
			if p.X != "" {
				w.b.WriteString("{{ " + p.X + " }}")
			} else {
				w.b.WriteString(p.L)
			}
		}
	case "el":
		w.nl(depth)
		w.b.WriteString("<" + n.Tag)
		w.attr("data-m", n.M)
		if n.If != "" {
			w.attr("v-if", n.If)
		}
		if n.For != nil {
			w.forAttr(n.For)
		}
		for _, kv := range n.Bind {
			w.attr(":data-"+kv.K, kv.V)
		}
		w.b.WriteString(">")
		w.inElement = true
		w.nodes(n.Kids, depth+1)
		w.inElement = false
		if len(n.Kids) > 0 {
			w.nl(depth)
		}
		fmt.Fprintf(w.b, "</%s>", n.Tag)
	case "content":
		w.nl(depth)
		fmt.Fprintf(w.b, `<%s data-m="%s" v-html="content"></%s>`, n.Tag, n.M, n.Tag)
	case "slot":
		w.nl(depth)
		w.b.WriteString("<" + w.up("slot"))
		if n.Name != "" {
			w.attr(w.up("name"), n.Name)
		}
		if n.For != nil {
			w.forAttr(n.For)
		}
		for _, kv := range n.Bind {
			key := w.bindKey(w.spell&spellSlotVBind != 0, kv.K)
			if kv.Lit {
				w.attr(key, "'"+kv.V+"'")
			} else {
				w.attr(key, kv.V)
			}
		}
		if w.spell&spellSlotOpen != 0 && len(n.Kids) == 0 && w.lastChild {
			// the parent's end tag closes the slot element
			w.b.WriteString("/>")
			return
		}
		w.b.WriteString(">")
		w.nodes(n.Kids, depth+1)
		if len(n.Kids) > 0 {
			w.nl(depth)
		}
		w.b.WriteString("</" + w.up("slot") + ">")
	case "inc":
		w.nl(depth)
		closeTag := "</" + w.up("template") + ">"
		if w.proc {
			w.b.WriteString("<x-inc")
			w.attr("src", n.Comp)
			closeTag = "</x-inc>"
		} else if w.short {
			fmt.Fprintf(w.b, `<%s`, shortTag(n.Comp))
			closeTag = "</" + shortTag(n.Comp) + ">"
		} else {
			w.b.WriteString("<" + w.up("template"))
			w.attr(w.up("include"), n.Comp)
		}
		for _, kv := range n.Stat {
			w.attr(kv.K, kv.V)
		}
		for _, kv := range n.Bind {
			w.attr(w.bindKey(w.spell&spellIncVBind != 0, kv.K), kv.V)
		}
		w.b.WriteString(">")
		for _, s := range n.Sup {
			w.nl(depth + 1)
			w.supply(s, depth+1)
		}
		w.nodes(n.Kids, depth+1)
		if len(n.Sup)+len(n.Kids) > 0 {
			w.nl(depth)
		}
		w.b.WriteString(closeTag)
	default:
		panic("c06: unknown node kind " + n.K)
	}
}

// supAttr writes the slot directive of a supply template.
func (w *writer) supAttr(s Supply) string {
	var key string
	switch s.Form {
	case "long":
		key = w.up("v-slot:") + s.Name
	case "short":
		key = "#" + s.Name
	case "bare":
		key = w.up("v-slot")
	default:
		panic("c06: unknown supply form " + s.Form)
	}
	q := `"`
	if w.spell&spellSingle != 0 {
		q = "'"
	}
	switch {
	case s.Var != "":
		return key + "=" + q + s.Var + q
	case len(s.Destr) > 0:
		return key + "=" + q + pattern(s.Destr, s.WS) + q
	}
	return key
}

// patternStyles is the number of layouts pattern knows.
const patternStyles = 7

// pattern writes a destructuring pattern. White space inside it is insignificant (the docs write
// "{ item, index }"; templates are routinely reformatted over several lines), and a trailing comma
// is accepted like in the JavaScript syntax the directive borrows.
func pattern(names []string, ws int) string {
	switch ws % patternStyles {
	case 1:
		return "{" + strings.Join(names, ",") + "}"
	case 2:
		return "{\t" + strings.Join(names, ",\t") + "\t}"
	case 3:
		return "{\n\t\t" + strings.Join(names, ",\n\t\t") + "\n\t}"
	case 4:
		return "{  " + strings.Join(names, " ,  ") + "  }"
	case 5:
		return "{ " + strings.Join(names, ", ") + ", }"
	case 6:
		return " { " + strings.Join(names, ", ") + " } "
	}
	return "{ " + strings.Join(names, ", ") + " }"
}
