package c06

import (
	"fmt"
	"strings"
)

// files derives the file set from the description: page.vuego and one file per component.
func files(c Case) map[string]string {
	out := map[string]string{"page.vuego": emitPage(c)}
	if c.After != "" {
		out["page_fail.vuego"] = emitPage(failingVariant(c))
	}
	if len(c.Layout) > 0 {
		out["layouts/base.vuego"] = emit(c.Layout, c.Compact, c.Short)
	}
	for name, cp := range c.Comps {
		var b strings.Builder
		if len(cp.FM) > 0 {
			b.WriteString("---\n")
			for _, kv := range cp.FM {
				fmt.Fprintf(&b, "%s: %s\n", kv.K, kv.V)
			}
			b.WriteString("---\n")
		}
		if cp.Wrap {
			b.WriteString("<template>" + emit(cp.Nodes, c.Compact, c.Short))
			if !c.Compact {
				b.WriteString("\n")
			}
			b.WriteString("</template>\n")
		} else {
			b.WriteString(emit(cp.Nodes, c.Compact, c.Short))
		}
		out[name] = b.String()
	}
	return out
}

// emitHand writes the page-level slot templates.
func emitHand(c Case) string {
	var b strings.Builder
	w := &writer{b: &b, compact: c.Compact, short: c.Short, proc: c.Proc}
	for _, s := range c.Hand {
		w.nl(0)
		w.supply(s, 0)
	}
	return b.String()
}

// emitPage writes the page file (the only file a registered NodeProcessor pre-processes).
func emitPage(c Case) string {
	var b strings.Builder
	w := &writer{b: &b, compact: c.Compact, short: c.Short, proc: c.Proc}
	w.nodes(c.Page, 0)
	return b.String() + emitHand(c)
}

// supply writes one slot template; with proc as <x-slot name=".." [short] [bind=".."]>.
func (w *writer) supply(s Supply, depth int) {
	open, closeTag := "<template "+supAttr(s)+">", "</template>"
	if w.proc {
		open = "<x-slot"
		if s.Name != "" {
			open += fmt.Sprintf(` name="%s"`, s.Name)
		}
		if s.Form == "short" {
			open += " short"
		}
		switch {
		case s.Var != "":
			open += fmt.Sprintf(` bind="%s"`, s.Var)
		case len(s.Destr) > 0:
			open += fmt.Sprintf(` bind="%s"`, pattern(s.Destr, s.WS))
		}
		open, closeTag = open+">", "</x-slot>"
	}
	w.b.WriteString(open)
	w.nodes(s.Kids, depth+1)
	if len(s.Kids) > 0 {
		w.nl(depth)
	}
	w.b.WriteString(closeTag)
}

func emit(nodes []Node, compact, short bool) string {
	var b strings.Builder
	w := &writer{b: &b, compact: compact, short: short}
	w.nodes(nodes, 0)
	return b.String()
}

type writer struct {
	b       *strings.Builder
	compact bool
	short   bool
	proc    bool // page written with <x-inc> / <x-slot>, rewritten by a registered NodeProcessor
}

// shortTag is the documented mapping: components/KOne.vuego -> <k-one>.
func shortTag(file string) string {
	name := strings.TrimSuffix(file[strings.LastIndex(file, "/")+1:], ".vuego")
	var b strings.Builder
	for i, r := range name {
		if r >= 'A' && r <= 'Z' {
			if i > 0 {
				b.WriteByte('-')
			}
			r += 'a' - 'A'
		}
		b.WriteRune(r)
	}
	return b.String()
}

func (w *writer) nl(depth int) {
	if w.compact {
		return
	}
	w.b.WriteString("\n" + strings.Repeat("  ", depth))
}

func (w *writer) nodes(l []Node, depth int) {
	for _, n := range l {
		w.node(n, depth)
	}
}

func (w *writer) node(n Node, depth int) {
	switch n.K {
	case "text":
		if n.Exact {
			for _, p := range n.T {
				if p.X != "" {
					w.b.WriteString("{{ " + p.X + " }}")
				} else {
					w.b.WriteString(p.L)
				}
			}
			return
		}
		w.nl(depth)
		for i, p := range n.T {
			if i > 0 {
				w.b.WriteString(" ")
			}
			if p.X != "" {
				w.b.WriteString("{{ " + p.X + " }}")
			} else {
				w.b.WriteString(p.L)
			}
		}
	case "el":
		w.nl(depth)
		fmt.Fprintf(w.b, `<%s data-m="%s"`, n.Tag, n.M)
		if n.If != "" {
			fmt.Fprintf(w.b, ` v-if="%s"`, n.If)
		}
		if n.For != nil {
			if n.For.Idx != "" {
				fmt.Fprintf(w.b, ` v-for="(%s, %s) in %s"`, n.For.Idx, n.For.Item, n.For.List)
			} else {
				fmt.Fprintf(w.b, ` v-for="%s in %s"`, n.For.Item, n.For.List)
			}
		}
		for _, kv := range n.Bind {
			fmt.Fprintf(w.b, ` :data-%s="%s"`, kv.K, kv.V)
		}
		w.b.WriteString(">")
		w.nodes(n.Kids, depth+1)
		if len(n.Kids) > 0 {
			w.nl(depth)
		}
		fmt.Fprintf(w.b, "</%s>", n.Tag)
	case "content":
		w.nl(depth)
		fmt.Fprintf(w.b, `<%s data-m="%s" v-html="content"></%s>`, n.Tag, n.M, n.Tag)
	case "slot":
		w.nl(depth)
		w.b.WriteString("<slot")
		if n.Name != "" {
			fmt.Fprintf(w.b, ` name="%s"`, n.Name)
		}
		if n.For != nil {
			if n.For.Idx != "" {
				fmt.Fprintf(w.b, ` v-for="(%s, %s) in %s"`, n.For.Idx, n.For.Item, n.For.List)
			} else {
				fmt.Fprintf(w.b, ` v-for="%s in %s"`, n.For.Item, n.For.List)
			}
		}
		for _, kv := range n.Bind {
			if kv.Lit {
				fmt.Fprintf(w.b, ` :%s="'%s'"`, kv.K, kv.V)
			} else {
				fmt.Fprintf(w.b, ` :%s="%s"`, kv.K, kv.V)
			}
		}
		w.b.WriteString(">")
		w.nodes(n.Kids, depth+1)
		if len(n.Kids) > 0 {
			w.nl(depth)
		}
		w.b.WriteString("</slot>")
	case "inc":
		w.nl(depth)
		closeTag := "</template>"
		if w.proc {
			fmt.Fprintf(w.b, `<x-inc src="%s"`, n.Comp)
			closeTag = "</x-inc>"
		} else if w.short {
			fmt.Fprintf(w.b, `<%s`, shortTag(n.Comp))
			closeTag = "</" + shortTag(n.Comp) + ">"
		} else {
			fmt.Fprintf(w.b, `<template include="%s"`, n.Comp)
		}
		for _, kv := range n.Stat {
			fmt.Fprintf(w.b, ` %s="%s"`, kv.K, kv.V)
		}
		for _, kv := range n.Bind {
			fmt.Fprintf(w.b, ` :%s="%s"`, kv.K, kv.V)
		}
		w.b.WriteString(">")
		for _, s := range n.Sup {
			w.nl(depth + 1)
			w.supply(s, depth+1)
		}
		w.nodes(n.Kids, depth+1)
		if len(n.Sup)+len(n.Kids) > 0 {
			w.nl(depth)
		}
		w.b.WriteString(closeTag)
	default:
		panic("c06: unknown node kind " + n.K)
	}
}

// supAttr writes the slot directive of a supply template.
func supAttr(s Supply) string {
	var key string
	switch s.Form {
	case "long":
		key = "v-slot:" + s.Name
	case "short":
		key = "#" + s.Name
	case "bare":
		key = "v-slot"
	default:
		panic("c06: unknown supply form " + s.Form)
	}
	switch {
	case s.Var != "":
		return fmt.Sprintf(`%s="%s"`, key, s.Var)
	case len(s.Destr) > 0:
		return fmt.Sprintf(`%s="%s"`, key, pattern(s.Destr, s.WS))
	}
	return key
}

// patternStyles is the number of layouts pattern knows.
const patternStyles = 7

// pattern writes a destructuring pattern. White space inside it is insignificant (the docs write
// "{ item, index }"; templates are routinely reformatted over several lines), and a trailing comma
// is accepted like in the JavaScript syntax the directive borrows.
func pattern(names []string, ws int) string {
	switch ws % patternStyles {
	case 1:
		return "{" + strings.Join(names, ",") + "}"
	case 2:
		return "{\t" + strings.Join(names, ",\t") + "\t}"
	case 3:
		return "{\n\t\t" + strings.Join(names, ",\n\t\t") + "\n\t}"
	case 4:
		return "{  " + strings.Join(names, " ,  ") + "  }"
	case 5:
		return "{ " + strings.Join(names, ", ") + ", }"
	case 6:
		return " { " + strings.Join(names, ", ") + " } "
	}
	return "{ " + strings.Join(names, ", ") + " }"
}
