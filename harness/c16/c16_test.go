// Package c16 decides C16: within one render an element marked v-once is emitted the first time it
// is reached and skipped at every later instantiation of that same element, distinct v-once
// elements never suppress one another, every render starts afresh, the behaviour is the same for
// every entry point, and in a layout chain the rule applies to the page and to each layout
// separately.
//
// A case is a small site described as data (pages, components, layouts made of items) plus a
// history of renders (page x entry point) that all run on ONE long-lived engine. The oracle is a
// reference model that walks the description, counts reaches of every marked element and predicts
// the nesting outline of all data-m markers of the output; vuego is never asked for the expectation.
//
// Deliberately not asserted (unspecified by the statement / docs):
//   - v-once on the element that carries v-html="content"; <template v-once v-keep>;
//   - (asserted, with this reading: an element whose own v-if is false, or that is a v-else /
//     v-else-if member of a chain in which another member is chosen, is not instantiated there - it
//     is "reached" only where its condition selects it);
//   - slots beyond what carries a marked element to its position: only plain default content
//     (children of the include tag), one named slot (#s1 / v-slot:s1) and <slot> fallback content are
//     generated; no scoped slot props, no <slot> inside supplied or fallback content, no named slot
//     content on include tags in sites that have layouts (a layout chain hands every slot template of
//     the page on to the layouts); the hand-over itself is generated in its plainest form only: slot
//     templates #ph / v-slot:pf at the top of the page, filled by <slot name> written in a layout file;
//   - component files whose first node is <template> (everything after that node is dropped by the
//     include machinery whether or not v-once is involved) - every component file starts with a
//     plain marker element;
//   - whitespace, attribute order, serialisation: outputs are compared as parsed HTML (internal/hx).
package c16

import (
	"bytes"
	"context"
	"encoding/json"
	"fmt"
	"io"
	"sort"
	"strings"
	"testing"
	"time"

	"github.com/titpetric/vuego"
	"golang.org/x/net/html"
	"golang.org/x/net/html/atom"
	"pgregory.net/rapid"

	"verif/internal/ev"
	"verif/internal/hx"
	"verif/internal/kf"
	"verif/internal/memfs"
	"verif/internal/run"
)

const prop = "C16"

// Open findings and their regions (left out of the search by construction while the finding is open):
//
// findSoleRoot: a component whose sole root is <template v-once> is emitted at every include.
// Region: a bare component consisting of one template wrapper that is reached >= 2 times in some
// render link of the history; the wrapper is then replaced by a plain marked element.
//
// findElseTail: the v-else tail after <x v-for v-once> renders when the loop is skipped as already
// rendered. Region: such an element with a non-empty list that is arrived at >= 2 times in some render
// link; the tail is then dropped.
const (
	findSoleRoot = "C16-sole-root-template-once-ignored"
	findElseTail = "C16-else-tail-after-skipped-once-loop"
)

// eachOnce calls fn for every once item of the site (fn may modify it).
func eachOnce(c *Case, fn func(it *Item, comp string)) {
	var walk func(items []Item, comp string)
	walk = func(items []Item, comp string) {
		for i := range items {
			if items[i].K == "once" {
				fn(&items[i], comp)
			}
			walk(items[i].Kids, comp)
			walk(items[i].Named, comp)
		}
	}
	for i := range c.Pages {
		walk(c.Pages[i].Items, "")
		walk(c.Pages[i].Ph, "")
		walk(c.Pages[i].Pf, "")
	}
	for _, n := range compOrder {
		walk(c.Comps[n], n)
	}
	for _, n := range layoutOrder {
		l := c.Layouts[n]
		walk(l.Head, "")
		walk(l.Before, "")
		walk(l.After, "")
	}
}

// avoidKnown rewrites what lies in the region of an open finding and counts it.
func avoidKnown(rec *ev.Rec, c *Case, openRoot, openTail bool) {
	if !openRoot && !openTail {
		return
	}
	maxReached, maxArrived := map[int]int{}, map[int]int{}
	forHistory(c, func(_ int, s Step, src int, broken bool) {
		if s.Op != "" || fails(c, s, src, broken) {
			return
		}
		for _, l := range expect(c, s, src).ls {
			for m, n := range l.reached {
				if n > maxReached[m] {
					maxReached[m] = n
				}
			}
			for m, n := range l.arrived {
				if n > maxArrived[m] {
					maxArrived[m] = n
				}
			}
		}
	})
	eachOnce(c, func(it *Item, comp string) {
		if openRoot && it.Ch == "tpl" && comp != "" && indexOf(c.Bare, comp) >= 0 && maxReached[it.M] >= 2 {
			it.Ch = ""
			rec.Excluded(findSoleRoot)
		}
		if openTail && it.Self && it.El && it.N >= 1 && maxArrived[it.M] >= 2 {
			it.El = false
			rec.Excluded(findElseTail)
		}
	})
}

// ---------------------------------------------------------------------------------------------
// description

// Item is one node of a template body.
//
//	once: <Tag v-once data-m="oM">…</Tag>; Self adds v-for="x in nN" to the marked element itself;
//	      Kids only for Tag div/section.
//	for : <div data-m="wM" v-for="x in nN">Kids</div>           (nN is a list with N elements 1..N)
//	if  : <div data-m="vM" v-if="…">Kids</div>                  (Eq>0: "x == Eq", else constant Cond)
//	div : <div data-m="dM">Kids</div>
//	pg  : <template v-if="!deep" include="pgN.vuego" :deep="t"></template> - includes the page file N
//	      (the page itself: a template that includes itself; from a component: two files including each
//	      other); the prop bounds the recursion: nothing is included through pg items while deep is set
//	inc : <template include="components/Comp.vuego">Kids<template #s1>Named</template></template>
//	      Kids = default slot content (direct children of the include tag), Named = content of the
//	      named slot s1; both optional
//	slot: <slot>Kids</slot> or, with Nm, <slot name="s1">Kids</slot> - only in component files;
//	      Kids = fallback content. Supplied content and fallback content are instantiated once per
//	      rendering of the slot, i.e. they are further "instantiations of that same element".
//
// A once item may be a member of a conditional chain (Ch), with Cond / Eq as the condition:
//
//	if    : the marked element carries v-if="…" itself
//	else  : <p data-m="uM" v-if="…">u</p> followed by the marked element with v-else
//	elseif: the same with v-else-if="t" on the marked element and a trailing <p v-else>
//	tpl   : <template v-once><Tag data-m="oM">…</Tag></template> - the directive sits on a wrapper
//	tplif / tplelse: the wrapper is itself a chain member (<template v-once v-if>, <template v-else v-once>)
//
// An inc or slot item with O set carries v-once on the include tag / <slot> element itself (M names
// it): its whole expansion - the component instance, the slot's content or fallback - is emitted at the
// first instantiation only. It may also be a chain member (Ch "if" / "else").
//
//	pslot: <slot name="ph">Kids</slot> (Nm: "pf") written in a LAYOUT file: filled with the content of
//	      the page's <template #ph> / <template v-slot:pf> (Page.Ph / Page.Pf), else Kids (fallback)
type Item struct {
	K    string `json:"k"`
	M    int    `json:"m,omitempty"`
	Tag  string `json:"tag,omitempty"`
	Self bool   `json:"self,omitempty"`
	Sp   int    `json:"sp,omitempty"` // once: spelling of the directive, index into spellings
	Ch   string `json:"ch,omitempty"` // once: "", "if", "else", "elseif", "tpl"
	// once: the marked element also carries v-pre (the usual way to ship a <script> whose text
	// contains {{ }} literally); leaf elements without v-for / chain membership only. v-pre on an
	// ANCESTOR of a marked element is not generated: nothing below v-pre is processed, and the
	// statement does not say what an unprocessed v-once means.
	Pre bool `json:"pre,omitempty"`
	// once: an ordinary attribute that looks like an identity (index into idAttrs; 0 = none). The
	// generators give the SAME attribute and value to different marked elements: two <script v-once
	// src="/assets/js/component.js"> in different places are still distinct elements; only the
	// data-m text tells them apart.
	At int  `json:"at,omitempty"`
	O  bool `json:"o,omitempty"` // inc, slot: v-once on the include tag / <slot> element itself
	// inc: a boolean prop handed to the component: 1 -> :k="t" (true), 2 -> :k="f" (false), 0 -> none
	Kp int `json:"kp,omitempty"`
	// the condition (of an if item / of the chain a once item or O item belongs to) is the prop: v-if="k".
	// Only inside component files; every include of such a component passes the prop.
	Kc bool `json:"kc,omitempty"`
	// once with Self: the v-for element is followed by <p data-m="zM" v-else>z</p>, the tail that
	// renders when the list is EMPTY (not when the loop is skipped because it was rendered before)
	El   bool   `json:"el,omitempty"`
	N    int    `json:"n,omitempty"`
	Cond bool   `json:"cond,omitempty"`
	Eq   int    `json:"eq,omitempty"`
	Comp string `json:"comp,omitempty"`
	Pg   int    `json:"pg,omitempty"` // pg: index of the included page
	// inc: written as the registered shorthand component tag <x-a …>…</x-a> instead of
	// <template include="components/A.vuego" …>…</template> (both engines register x-<name> for
	// every component of the site)
	Sh   bool   `json:"sh,omitempty"`
	Kids []Item `json:"kids,omitempty"`
	// inc: content of <template #s1> inside the include tag
	Named []Item `json:"named,omitempty"`
	Nm    bool   `json:"nm,omitempty"` // slot: the named slot s1 instead of the default slot
}

// Page is a page file pg<i>.vuego; Layout (optional) goes into its front matter.
// Ph / Pf are the contents of slot templates <template #ph> / <template v-slot:pf> written at the
// top of the page: the page itself renders their children in place, and a layout chain hands them
// on to the <slot name="ph|pf"> elements of the layouts.
type Page struct {
	Items  []Item `json:"items"`
	Layout string `json:"layout,omitempty"`
	Ph     []Item `json:"ph,omitempty"`
	Pf     []Item `json:"pf,omitempty"`
}

// Layout is layouts/<name>.vuego: Before, the element receiving the inner content, After.
// Doc layouts are full documents (Head items go into <head>); they must be terminal (no Next).
type Layout struct {
	Next   string `json:"next,omitempty"`
	Doc    bool   `json:"doc,omitempty"`
	Head   []Item `json:"head,omitempty"`
	Before []Item `json:"before,omitempty"`
	After  []Item `json:"after,omitempty"`
}

// Step renders one page through one entry point. For the string entries On optionally names a
// file of the site that the template object was Load()ed from before the string is rendered on it
// (RenderString is a method of every Template value, loaded or not).
type Step struct {
	P     int    `json:"p"`
	Entry string `json:"entry"`
	On    string `json:"on,omitempty"`
	// Boom makes this render FAIL after the page's (layout's) marked elements were reached: every
	// page body ends with two constructs that are inert unless render data switches them on -
	// "filter": {{ x | nosuchfilter }}, "include": an include of a missing file - and every layout
	// ends with the former ("layout"; only takes effect when a layout is rendered). A failing step
	// must return an error (nothing else is asserted about it); the steps after it must be
	// unaffected ("every render starts afresh").
	//
	// Two more ways to cut a call short leave the page as it is: "writer" renders into a destination
	// writer that fails (every entry must report an error), "cancel" (string entries only) cancels
	// the context from a template function called at the end of the page.
	Boom string `json:"boom,omitempty"`
	// Keep (string entries): the string is rendered on ONE long-lived Template object of the case,
	// re-Filled before every call, instead of a fresh tpl.New() per call.
	Keep bool `json:"keep,omitempty"`
	// Op makes the step a change of the site instead of a render (Entry is ignored):
	//   "put":    the file of page P is rewritten with the content of page Src (another VERSION of it)
	//   "break":  the file of page P is rewritten with malformed front matter
	//   "remove": the file of page P is removed
	// Afterwards file-based renders of P (load, file, vue, frag, nodes) meet the new version, or fail
	// while it is broken / missing; string entries and xnodes render the body of the current version.
	Op  string `json:"op,omitempty"`
	Src int    `json:"src,omitempty"`
}

var booms = []string{"filter", "include", "layout", "writer", "cancel"}

func fileBased(e string) bool {
	return e == "load" || e == "file" || e == "vue" || e == "frag" || e == "nodes" || e == "view" || e == "assign" || e == "lnodes"
}

// forHistory walks the steps, keeping track of which version every page file holds (src) and whether
// it is broken; fn sees every step with the state BEFORE the step.
func forHistory(c *Case, fn func(i int, s Step, src int, broken bool)) {
	src := make([]int, len(c.Pages))
	broken := make([]bool, len(c.Pages))
	for i := range src {
		src[i] = i
	}
	for i, s := range c.Steps {
		fn(i, s, src[s.P], broken[s.P])
		switch s.Op {
		case "put":
			src[s.P], broken[s.P] = s.Src, false
		case "break", "remove":
			broken[s.P] = true
		}
	}
}

const pageTail = `<p data-m="bf" v-if="boomf">{{ x | nosuchfilter }}</p>
<div data-m="bi" v-if="boomi"><template include="missing.vuego"></template></div>
<i data-m="bc" v-if="boomc">late {{ x }} {{ stop() }}</i>
`
const layoutTail = `<p data-m="bl" v-if="booml">{{ x | nosuchfilter }}</p>
`

// fails says whether the model expects step s to return an error.
func fails(c *Case, s Step, src int, broken bool) bool {
	if broken && fileBased(s.Entry) {
		return true
	}
	switch s.Boom {
	case "filter", "include", "writer":
		return true
	case "cancel":
		return stringy(s.Entry)
	case "layout":
		if !layoutAware(s.Entry) {
			return false
		}
		_, base := c.Layouts["base"]
		return c.Pages[src].Layout != "" || base
	}
	return false
}

// Case is a site and a history on one engine.
type Case struct {
	Pages   []Page            `json:"pages"`
	Comps   map[string][]Item `json:"comps,omitempty"`
	Layouts map[string]Layout `json:"layouts,omitempty"`
	// Twins lists components X that have a twin file components/TX.vuego: a DIFFERENT file whose
	// template body is byte-identical to X's (it only has front matter of its own). Include items name
	// it as "TX". Its marked elements are elements of another component: they carry the same data-m
	// text as X's but are emitted independently of them (once per render each).
	Twins []string `json:"twins,omitempty"`
	// TwinStyle chooses how the twin files are NAMED relative to X (see twinNames): names that differ
	// from X's only in letter case, by an extension-like suffix, by dash vs underscore (two twins),
	// by a unicode letter, by a blank. Include items name a twin by its file name.
	TwinStyle int `json:"twinstyle,omitempty"`
	// Lead chooses what every component file carries BEFORE its first element (see leads): nothing,
	// a blank line, CRLF line ends with a blank first line, a comment header, front matter followed
	// by a blank line. None of it is significant.
	Lead int `json:"lead,omitempty"`
	// Bare lists components whose file consists ONLY of marked elements (no head marker element):
	// shared asset components. Their items are once items that are plain, carry their own v-if, or
	// v-for; or a single <template v-once> wrapper as the sole root of the file.
	Bare  []string `json:"bare,omitempty"`
	Steps []Step   `json:"steps"`
}

// entry points: file (load, file, vue), fragment (frag), string (string, byte, reader) and caller-parsed
// nodes (nodes: Loader.LoadFragment of the page file, parsed once per case and handed to every
// RenderNodes call of the history; xnodes: golang.org/x/net/html ParseFragment of the page body).
// view: vuego.View(tpl, file, data).Render; assign: Load(file) + Assign per variable instead of Fill;
// lnodes: RenderNodes on the result of Loader.Load.
var entries = []string{"load", "file", "vue", "frag", "string", "byte", "reader", "nodes", "xnodes", "view", "assign", "lnodes"}

func layoutAware(e string) bool { return e == "load" || e == "file" || e == "view" || e == "assign" }

// rootless entries hand the engine a template that is not a file of the site (a string, nodes the
// caller parsed): its marked elements are elements of that template - distinct from those of the page
// file it was made from, should the render also include that file.
func rootless(e string) bool {
	return stringy(e) || e == "nodes" || e == "xnodes" || e == "lnodes"
}
func stringy(e string) bool { return e == "string" || e == "byte" || e == "reader" }

// layoutOrder bounds chains by construction: Next must come later in this list.
var layoutOrder = []string{"l1", "l2", "l3", "base"}
var compOrder = []string{"A", "B", "C", "D", "E", "F", "G"}

// twinNames lists the file names (without directory and extension) of the twin files of component x.
func twinNames(x string, style int) []string {
	switch style {
	case 1:
		return []string{strings.ToLower(x)} // components/a.vuego next to components/A.vuego
	case 2:
		return []string{x + ".min"}
	case 3:
		return []string{x + "-b", x + "_b"}
	case 4:
		return []string{x + "é"}
	case 5:
		return []string{x + " b"}
	case 6: // CJK names of the same length and shape
		return []string{x + "页眉", x + "页脚"}
	case 7: // Cyrillic, same length
		return []string{x + "шапка", x + "пятка"}
	case 8: // Devanagari: the names differ only in a combining vowel sign
		return []string{x + "बेल", x + "बैल"}
	case 9: // decomposed accents vs no accents (and the original stays plain ASCII)
		return []string{x + "re\u0301sume\u0301", x + "resume", x + "r\u00e9sum\u00e9"}
	case 10: // a format (Cf) character: zero width joiner
		return []string{x + "ab", x + "a\u200db"}
	case 11: // non-ASCII letter case
		return []string{x + "\u0130b", x + "ib", x + "Ib"}
	case 12: // Thai and Arabic marks
		return []string{x + "\u0e01\u0e34", x + "\u0e01\u0e35", x + "\u0628\u064e", x + "\u0628\u064f"}
	}
	return []string{"T" + x}
}

const twinStyles = 13

// twinOf resolves an include target: for a twin file name of an X in Twins it returns X and true.
func twinOf(c *Case, name string) (string, bool) {
	for _, x := range c.Twins {
		if indexOf(twinNames(x, c.TwinStyle), name) >= 0 {
			return x, true
		}
	}
	return name, false
}

// leads: insignificant material before the first element of a component file. (The last one, a byte
// order mark, comes out as an invisible text node at every include on the pinned code; only the
// counts and positions of the marked elements are asserted, which it does not disturb.)
var leads = []string{"", "\n", "\r\n", "<!-- shared component -->\n", "---\nasset: true\n---\n\n", "\n\n  \n<!-- a --><!-- b -->\n", "\xef\xbb\xbf"}

// componentFile spells a component file: lead, body; style 2 also turns every line end into CRLF.
func componentFile(lead int, twinOfX string, body string) string {
	l := leads[lead%len(leads)]
	fm := ""
	if twinOfX != "" {
		fm = "---\ntwinof: " + twinOfX + "\n---\n"
		if lead%len(leads) == 4 {
			l = "\n" // the twin already has front matter of its own: front matter + blank line
		}
	}
	out := fm + l + body
	if lead%len(leads) == 2 {
		out = strings.ReplaceAll(out, "\n", "\r\n")
		out = strings.ReplaceAll(out, "\r\r\n", "\r\n")
	}
	return out
}

func indexOf(l []string, s string) int {
	for i, x := range l {
		if x == s {
			return i
		}
	}
	return -1
}

// loop lengths drawn for generated loops (empty loops are a class of their own, but rarer)
var loopLens = []int{0, 1, 2, 2, 3, 3}

// spellings of the directive in the source. HTML attribute names are case-insensitive (the HTML
// parser lower-cases them) and an empty value is the same as no value, so all of them mark the
// element alike; the model does not look at Sp.
// boolean attribute may also be written with its own name or "true" as value, single-quoted, etc.
var spellings = []string{`v-once`, `V-Once`, `V-ONCE`, `v-once="v-once"`, `v-once="true"`, `v-Once`, `v-once=""`, `v-once=''`, `V-ONCE="V-ONCE"`}

// idAttrs are attributes that look like identities; the value is the same wherever one is used.
var idAttrs = []string{``, `src="/assets/js/component.js"`, `id="once"`, `href="/assets/css/site.css"`, `data-key="k1"`, `name="once"`, `class="once" title="once"`}

// link is a void element and is written self-closing: <link v-once … />
var leafTags = []string{"style", "b", "script", "span", "i", "link"}
var boxTags = []string{"div", "section"}

func isBox(tag string) bool { return tag == "div" || tag == "section" }

// ---------------------------------------------------------------------------------------------
// source text

func onceBody(it Item) string {
	if it.Pre {
		// text that would be an error if it were interpolated
		return fmt.Sprintf("var o%d = '{{ nosuch | nosuchfilter }}';", it.M)
	}
	switch it.Tag {
	case "style":
		return fmt.Sprintf(".o%d{}", it.M)
	case "script":
		return fmt.Sprintf("var o%d=1;", it.M)
	}
	return fmt.Sprintf("t%d", it.M)
}

// condSrc is the condition of an if item / of a chain a once item belongs to.
func condSrc(it Item) string {
	if it.Kc {
		return "k"
	}
	if it.Eq > 0 {
		return fmt.Sprintf("x == %d", it.Eq)
	}
	if it.Cond {
		return "t"
	}
	return "f"
}

// onceAttrs / onceHead: the directive (and chain membership) of an include tag or <slot> with O set.
func onceAttrs(it Item) string {
	prop := ""
	switch it.Kp {
	case 1:
		prop = ` :k="t"`
	case 2:
		prop = ` :k="f"`
	}
	if !it.O {
		return prop
	}
	switch it.Ch {
	case "if":
		return prop + fmt.Sprintf(` v-once v-if="%s"`, condSrc(it))
	case "else":
		return prop + " v-else v-once"
	}
	return prop + " v-once"
}

func onceHead(it Item) string {
	if it.O && it.Ch == "else" {
		return fmt.Sprintf("<p data-m=\"u%d\" v-if=\"%s\">u</p>\n", it.M, condSrc(it))
	}
	return ""
}

func src(items []Item, sb *strings.Builder) {
	for _, it := range items {
		switch it.K {
		case "once":
			sp := spellings[it.Sp%len(spellings)]
			dm := fmt.Sprintf(`data-m="o%d"`, it.M)
			if it.M%3 == 0 {
				dm = fmt.Sprintf(`data-m='o%d'`, it.M) // single-quoted value
			}
			attrs := sp + " " + dm
			if it.M%2 == 1 {
				attrs = dm + " " + sp
			}
			// the directive is written before or after the other control attributes of the tag
			ctlFirst := it.M%4 >= 2
			ctl := func(a string) {
				if ctlFirst {
					attrs = a + " " + attrs
				} else {
					attrs += " " + a
				}
			}
			if it.Self {
				ctl(fmt.Sprintf(`v-for="x in n%d"`, it.N))
				if it.M%5 == 1 {
					ctl(`:key="x"`)
				}
			}
			if it.At > 0 && !strings.HasPrefix(it.Ch, "tpl") {
				if it.M%2 == 0 {
					attrs = idAttrs[it.At%len(idAttrs)] + " " + attrs
				} else {
					attrs += " " + idAttrs[it.At%len(idAttrs)]
				}
			}
			if it.Pre {
				if it.M%3 == 0 {
					attrs = "v-pre " + attrs
				} else {
					attrs += " v-pre"
				}
			}
			switch it.Ch {
			case "tplif":
				fmt.Fprintf(sb, "<template %s v-if=\"%s\">", sp, condSrc(it))
				attrs = fmt.Sprintf(`data-m="o%d"`, it.M)
			case "tplelse":
				fmt.Fprintf(sb, "<p data-m=\"u%d\" v-if=\"%s\">u</p>\n<template v-else %s>", it.M, condSrc(it), sp)
				attrs = fmt.Sprintf(`data-m="o%d"`, it.M)
			case "if":
				ctl(fmt.Sprintf(`v-if="%s"`, condSrc(it)))
			case "else":
				fmt.Fprintf(sb, "<p data-m=\"u%d\" v-if=\"%s\">u</p>\n", it.M, condSrc(it))
				ctl("v-else")
			case "elseif":
				fmt.Fprintf(sb, "<p data-m=\"u%d\" v-if=\"%s\">u</p>\n", it.M, condSrc(it))
				ctl(`v-else-if="t"`)
			case "tpl":
				fmt.Fprintf(sb, "<template %s>", sp)
				attrs = fmt.Sprintf(`data-m="o%d"`, it.M)
			}
			tag := it.Tag
			if it.M%5 == 0 {
				tag = strings.ToUpper(tag) // tag names are case-insensitive too
			}
			switch {
			case it.Tag == "link":
				fmt.Fprintf(sb, "<%s %s rel=\"stylesheet\"/>\n", tag, attrs)
			case isBox(it.Tag):
				fmt.Fprintf(sb, "<%s %s>\n", tag, attrs)
				src(it.Kids, sb)
				fmt.Fprintf(sb, "</%s>\n", tag)
			default:
				fmt.Fprintf(sb, "<%s %s>%s</%s>\n", tag, attrs, onceBody(it), tag)
			}
			if it.Self && it.El {
				fmt.Fprintf(sb, "<p data-m=\"z%d\" v-else>z</p>\n", it.M)
			}
			switch it.Ch {
			case "elseif":
				fmt.Fprintf(sb, "<p data-m=\"z%d\" v-else>z</p>\n", it.M)
			case "tpl", "tplif", "tplelse":
				sb.WriteString("</template>\n")
			}
		case "for":
			fmt.Fprintf(sb, "<div data-m=\"w%d\" v-for=\"x in n%d\">\n", it.M, it.N)
			src(it.Kids, sb)
			sb.WriteString("</div>\n")
		case "if":
			fmt.Fprintf(sb, "<div data-m=\"v%d\" v-if=\"%s\">\n", it.M, condSrc(it))
			src(it.Kids, sb)
			sb.WriteString("</div>\n")
		case "div":
			fmt.Fprintf(sb, "<div data-m=\"d%d\">\n", it.M)
			src(it.Kids, sb)
			sb.WriteString("</div>\n")
		case "pg":
			fmt.Fprintf(sb, "<template v-if=\"!deep\" include=\"%s\" :deep=\"t\"></template>\n", pageName(it.Pg))
		case "inc":
			switch {
			case it.Sh:
				fmt.Fprintf(sb, "%s<x-%s%s>", onceHead(it), strings.ToLower(it.Comp), onceAttrs(it))
			case it.O && it.M%2 == 0: // the directive (and chain membership) before the include attribute
				fmt.Fprintf(sb, "%s<template%s include=\"components/%s.vuego\">", onceHead(it), onceAttrs(it), it.Comp)
			default:
				fmt.Fprintf(sb, "%s<template include=\"components/%s.vuego\"%s>", onceHead(it), it.Comp, onceAttrs(it))
			}
			if len(it.Kids) > 0 {
				sb.WriteString("\n")
				src(it.Kids, sb)
			}
			if len(it.Named) > 0 {
				attr := "#s1"
				if it.Named[0].M%2 == 1 {
					attr = "v-slot:s1"
				}
				fmt.Fprintf(sb, "<template %s>\n", attr)
				src(it.Named, sb)
				sb.WriteString("</template>\n")
			}
			if it.Sh {
				fmt.Fprintf(sb, "</x-%s>\n", strings.ToLower(it.Comp))
			} else {
				sb.WriteString("</template>\n")
			}
		case "slot", "pslot":
			switch {
			case it.K == "pslot" && it.Nm:
				sb.WriteString("<slot name=\"pf\">")
			case it.K == "pslot":
				sb.WriteString("<slot name=\"ph\">")
			case it.Nm:
				fmt.Fprintf(sb, "%s<slot name=\"s1\"%s>", onceHead(it), onceAttrs(it))
			default:
				fmt.Fprintf(sb, "%s<slot%s>", onceHead(it), onceAttrs(it))
			}
			if len(it.Kids) > 0 {
				sb.WriteString("\n")
				src(it.Kids, sb)
			}
			sb.WriteString("</slot>\n")
		}
	}
}

func pageName(i int) string { return fmt.Sprintf("pg%d.vuego", i) }

// pageBody is the page without front matter (what string entries are given).
func pageBody(i int, p Page) string {
	var sb strings.Builder
	fmt.Fprintf(&sb, "<i data-m=\"pg%d\">p</i>\n", i)
	if len(p.Ph) > 0 {
		sb.WriteString("<template #ph>\n")
		src(p.Ph, &sb)
		sb.WriteString("</template>\n")
	}
	if len(p.Pf) > 0 {
		sb.WriteString("<template v-slot:pf>\n")
		src(p.Pf, &sb)
		sb.WriteString("</template>\n")
	}
	src(p.Items, &sb)
	sb.WriteString(pageTail)
	return sb.String()
}

// pageFile is the content of a page file: front matter (layout) and body.
func pageFile(i int, p Page) string {
	fm := ""
	if p.Layout != "" {
		fm = "---\nlayout: " + p.Layout + "\n---\n"
	}
	return fm + pageBody(i, p)
}

func files(c Case) map[string]string {
	out := map[string]string{}
	for i, p := range c.Pages {
		out[pageName(i)] = pageFile(i, p)
	}
	for name, items := range c.Comps {
		var sb strings.Builder
		if indexOf(c.Bare, name) < 0 {
			fmt.Fprintf(&sb, "<i data-m=\"c%s\">c</i>\n", name)
		}
		src(items, &sb)
		out["components/"+name+".vuego"] = componentFile(c.Lead, "", sb.String())
		if indexOf(c.Twins, name) >= 0 {
			for _, tn := range twinNames(name, c.TwinStyle) {
				out["components/"+tn+".vuego"] = componentFile(c.Lead, name, sb.String())
			}
		}
	}
	for name, l := range c.Layouts {
		var sb strings.Builder
		if l.Next != "" {
			sb.WriteString("---\nlayout: " + l.Next + "\n---\n")
		}
		if l.Doc {
			sb.WriteString("<!DOCTYPE html>\n<html>\n<head>\n<title>t</title>\n")
			src(l.Head, &sb)
			sb.WriteString("</head>\n<body>\n")
		}
		src(l.Before, &sb)
		fmt.Fprintf(&sb, "<main data-m=\"m%s\" v-html=\"content\"></main>\n", name)
		src(l.After, &sb)
		sb.WriteString(layoutTail)
		if l.Doc {
			sb.WriteString("</body>\n</html>\n")
		}
		out["layouts/"+name+".vuego"] = sb.String()
	}
	return out
}

func data(s Step) map[string]any {
	return map[string]any{
		"n0": []int{}, "n1": []int{1}, "n2": []int{1, 2}, "n3": []int{1, 2, 3},
		"t": true, "f": false, "x": 1,
		"boomf": s.Boom == "filter", "boomi": s.Boom == "include", "booml": s.Boom == "layout",
		"boomc": s.Boom == "cancel", "deep": false,
	}
}

// ---------------------------------------------------------------------------------------------
// validation (cases are built by construction; this only guards hand-written replays)

func validate(c Case) error {
	seenM := map[int]bool{}
	inContent := 0 // > 0 while inside supplied slot content or fallback content
	inLayout := false
	pgTargets := map[int]bool{} // page files that are included as components: their file keeps its version
	// usesK: the component's own file has a condition on the prop k
	var usesKItems func(items []Item) bool
	usesKItems = func(items []Item) bool {
		for _, it := range items {
			if it.Kc || usesKItems(it.Kids) || usesKItems(it.Named) {
				return true
			}
		}
		return false
	}
	kcOK := func(it Item, comp int) error {
		if !it.Kc {
			return nil
		}
		if comp < 0 || inContent > 0 || it.Eq > 0 {
			return fmt.Errorf("condition on the prop outside a component file")
		}
		return nil
	}
	// onceOn validates v-once on an include tag / <slot>
	onceOn := func(it Item, inLoop bool) error {
		if !it.O {
			if it.Ch != "" {
				return fmt.Errorf("chain member without v-once")
			}
			return nil
		}
		if seenM[it.M] || it.M <= 0 {
			return fmt.Errorf("marker %d used twice", it.M)
		}
		seenM[it.M] = true
		if it.Ch != "" && it.Ch != "if" && it.Ch != "else" {
			return fmt.Errorf("bad ch %q", it.Ch)
		}
		if it.Eq < 0 || it.Eq > 3 || (it.Eq > 0 && (!inLoop || inContent > 0)) {
			return fmt.Errorf("bad condition")
		}
		return nil
	}
	var walk func(items []Item, file string, comp int, inLoop bool, head bool) error
	walk = func(items []Item, file string, comp int, inLoop bool, head bool) error {
		for _, it := range items {
			switch it.K {
			case "once":
				if seenM[it.M] {
					return fmt.Errorf("marker o%d used twice", it.M)
				}
				seenM[it.M] = true
				if indexOf(leafTags, it.Tag) < 0 && !isBox(it.Tag) {
					return fmt.Errorf("bad tag %q", it.Tag)
				}
				if it.Sp < 0 || it.Sp >= len(spellings) {
					return fmt.Errorf("bad spelling %d", it.Sp)
				}
				if head && it.Tag != "style" && it.Tag != "script" && it.Tag != "link" {
					return fmt.Errorf("only style/script in <head>")
				}
				if (it.Self || !isBox(it.Tag)) && len(it.Kids) > 0 {
					return fmt.Errorf("o%d cannot have kids", it.M)
				}
				if it.Self && (it.N < 0 || it.N > 3) {
					return fmt.Errorf("bad n")
				}
				if it.El && (!it.Self || it.Ch != "") {
					return fmt.Errorf("o%d: bad v-else tail", it.M)
				}
				if err := kcOK(it, comp); err != nil {
					return err
				}
				if it.Kc && it.Ch == "" {
					return fmt.Errorf("o%d: prop condition without chain", it.M)
				}
				if it.At < 0 || it.At >= len(idAttrs) || (it.At > 0 && strings.HasPrefix(it.Ch, "tpl")) {
					return fmt.Errorf("o%d: bad attribute %d", it.M, it.At)
				}
				if it.Pre && (it.Self || it.Ch != "" || isBox(it.Tag)) {
					return fmt.Errorf("o%d: bad v-pre", it.M)
				}
				switch it.Ch {
				case "":
				case "if", "else", "elseif", "tplif", "tplelse":
					if it.Self || head || (it.Eq > 0 && (!inLoop || inContent > 0)) || it.Eq > 3 || it.Eq < 0 {
						return fmt.Errorf("o%d: bad chain member", it.M)
					}
				case "tpl":
					if it.Self || head {
						return fmt.Errorf("o%d: bad template wrapper", it.M)
					}
				default:
					return fmt.Errorf("o%d: bad ch %q", it.M, it.Ch)
				}
				if err := walk(it.Kids, file, comp, inLoop, false); err != nil {
					return err
				}
			case "for":
				if it.N < 0 || it.N > 3 || head {
					return fmt.Errorf("bad for")
				}
				if err := walk(it.Kids, file, comp, true, false); err != nil {
					return err
				}
			case "if":
				if head || (it.Eq > 0 && (!inLoop || inContent > 0)) || it.Eq > 3 || it.Eq < 0 {
					return fmt.Errorf("bad if")
				}
				if err := kcOK(it, comp); err != nil {
					return err
				}
				if err := walk(it.Kids, file, comp, inLoop, false); err != nil {
					return err
				}
			case "pg":
				if head || inContent > 0 || inLayout || it.Pg < 0 || it.Pg >= len(c.Pages) {
					return fmt.Errorf("bad page include in %s", file)
				}
				pgTargets[it.Pg] = true
			case "div":
				if head {
					return fmt.Errorf("bad div")
				}
				if err := walk(it.Kids, file, comp, inLoop, false); err != nil {
					return err
				}
			case "inc":
				base, _ := twinOf(&c, it.Comp)
				j := indexOf(compOrder, base)
				if _, ok := c.Comps[base]; !ok || j < 0 || j <= comp || head {
					return fmt.Errorf("bad include of %q in %s", it.Comp, file)
				}
				if err := onceOn(it, inLoop); err != nil {
					return err
				}
				if it.Sh && indexOf(compOrder, it.Comp) < 0 {
					return fmt.Errorf("shorthand tag for %q", it.Comp)
				}
				if err := kcOK(it, comp); err != nil {
					return err
				}
				if it.Kp < 0 || it.Kp > 2 || (it.Kp == 0 && usesKItems(c.Comps[base])) {
					return fmt.Errorf("include of %q in %s: bad prop", it.Comp, file)
				}
				if len(it.Named) > 0 && len(c.Layouts) > 0 {
					return fmt.Errorf("named slot content in a site with layouts")
				}
				inContent++
				for _, part := range [][]Item{it.Kids, it.Named} {
					if err := walk(part, file, comp, false, false); err != nil {
						return err
					}
				}
				inContent--
			case "pslot":
				if !inLayout || inContent > 0 || head {
					return fmt.Errorf("bad page slot in %s", file)
				}
				inContent++
				err := walk(it.Kids, file, comp, false, false)
				inContent--
				if err != nil {
					return err
				}
			case "slot":
				if comp < 0 || inContent > 0 || head {
					return fmt.Errorf("bad slot in %s", file)
				}
				if err := onceOn(it, inLoop); err != nil {
					return err
				}
				inContent++
				err := walk(it.Kids, file, comp, false, false)
				inContent--
				if err != nil {
					return err
				}
			default:
				return fmt.Errorf("bad item kind %q", it.K)
			}
		}
		return nil
	}
	for i, p := range c.Pages {
		if p.Layout != "" {
			if _, ok := c.Layouts[p.Layout]; !ok || p.Layout == "base" {
				return fmt.Errorf("page %d: bad layout %q", i, p.Layout)
			}
		}
		if err := walk(p.Items, pageName(i), -1, false, false); err != nil {
			return err
		}
		inContent++
		for _, part := range [][]Item{p.Ph, p.Pf} {
			if err := walk(part, pageName(i), -1, false, false); err != nil {
				return err
			}
			// not generated: shorthand component tags inside slot templates that a layout chain hands
			// on (on the pinned code they reach the layout unresolved - a matter of C05 / C06)
			if hasShorthand(part) {
				return fmt.Errorf("page %d: shorthand component tag in a handed-on slot template", i)
			}
		}
		inContent--
	}
	for _, name := range compOrder {
		if items, ok := c.Comps[name]; ok {
			if err := walk(items, name, indexOf(compOrder, name), false, false); err != nil {
				return err
			}
		}
	}
	for _, x := range c.Bare {
		items, ok := c.Comps[x]
		if !ok || len(items) == 0 || indexOf(c.Twins, x) >= 0 {
			return fmt.Errorf("bad bare component %q", x)
		}
		for _, it := range items {
			sole := it.Ch == "tpl" && len(items) == 1
			if it.K != "once" || (it.Ch != "" && it.Ch != "if" && !sole) {
				return fmt.Errorf("bare component %q: only plain / own-v-if / v-for marked elements or a sole template wrapper", x)
			}
		}
	}
	if c.TwinStyle < 0 || c.TwinStyle >= twinStyles || c.Lead < 0 || c.Lead >= len(leads) {
		return fmt.Errorf("bad twin style / lead")
	}
	for _, x := range c.Twins {
		if _, ok := c.Comps[x]; !ok {
			return fmt.Errorf("twin of unknown component %q", x)
		}
	}
	if len(c.Comps) > len(compOrder) {
		return fmt.Errorf("too many components")
	}
	for name := range c.Comps {
		if indexOf(compOrder, name) < 0 {
			return fmt.Errorf("bad component name %q", name)
		}
	}
	for _, name := range layoutOrder {
		l, ok := c.Layouts[name]
		if !ok {
			continue
		}
		if l.Next != "" {
			if _, ok := c.Layouts[l.Next]; !ok || indexOf(layoutOrder, l.Next) <= indexOf(layoutOrder, name) || l.Doc || l.Next == "base" {
				return fmt.Errorf("layout %s: bad next/doc", name)
			}
		}
		if !l.Doc && len(l.Head) > 0 {
			return fmt.Errorf("layout %s: head without doc", name)
		}
		inLayout = true
		for _, part := range [][]Item{l.Before, l.After} {
			if err := walk(part, name, -1, false, false); err != nil {
				return err
			}
		}
		inLayout = false
		if err := walk(l.Head, name, -1, false, true); err != nil {
			return err
		}
	}
	for name := range c.Layouts {
		if indexOf(layoutOrder, name) < 0 {
			return fmt.Errorf("bad layout name %q", name)
		}
	}
	for _, s := range c.Steps {
		if s.P < 0 || s.P >= len(c.Pages) || (s.Op == "" && indexOf(entries, s.Entry) < 0) {
			return fmt.Errorf("bad step %+v", s)
		}
		if s.On != "" {
			if _, ok := files(c)[s.On]; !ok || !stringy(s.Entry) {
				return fmt.Errorf("bad step %+v", s)
			}
		}
		if s.Boom != "" && indexOf(booms, s.Boom) < 0 {
			return fmt.Errorf("bad step %+v", s)
		}
		if (s.Boom == "cancel" || s.Keep) && !stringy(s.Entry) {
			return fmt.Errorf("bad step %+v", s)
		}
		if s.Op != "" && pgTargets[s.P] {
			return fmt.Errorf("step %+v changes a page file that is included as a component", s)
		}
		switch s.Op {
		case "":
		case "put":
			if s.Src < 0 || s.Src >= len(c.Pages) {
				return fmt.Errorf("bad step %+v", s)
			}
		case "break", "remove":
		default:
			return fmt.Errorf("bad step %+v", s)
		}
	}
	return nil
}

// ---------------------------------------------------------------------------------------------
// reference model

// link is the model of ONE render (the page, or one layout of the chain): its own seen set.
// scope is what one include tag supplies to its component instance.
type scope struct {
	def, named []Item
	parent     *scope // the scope in effect where the include tag is written
	file       string // the file (see link.file) in which the include tag is written
}

type link struct {
	c     *Case
	scope *scope
	// file distinguishes the copies of a marked element that twin component files contain: "" for
	// every ordinary file (markers are unique there), "TX" while walking items written in twin TX
	file    string
	seen    map[string]bool // file#marker
	reached map[int]int     // marker -> number of times its position was reached in this render
	loop    []int
	deep    bool        // the prop that pg items set: no further page is included below
	kprop   []bool      // values of the prop k handed down by the include tags being expanded
	arrived map[int]int // v-for+v-once elements: how often the element itself was arrived at
	// what the layout chain hands on from the page: contents of its #ph / v-slot:pf templates, and the
	// identity (see file) of the page file they are written in
	ph, pf   []Item
	pageFile string
	// bookkeeping for the regions of known findings
	inherited   int             // > 0 while walking handed-on page content
	inhReached  map[int]bool    // marked elements of handed-on content reached in this link
	passedFalse map[string]bool // own-v-if members that were passed with a false condition before their first reach
	lateIf      map[int]bool    // ... and were reached afterwards
	recursions  int             // page files included through pg items
	twins       map[string]int  // component X -> bit 1: X included, bit 2: its twin TX included (this link)
	sb          strings.Builder
}

func newLink(c *Case) *link {
	return &link{c: c, seen: map[string]bool{}, reached: map[int]int{}, inhReached: map[int]bool{}, arrived: map[int]int{}, passedFalse: map[string]bool{}, lateIf: map[int]bool{}, twins: map[string]int{}}
}

func (l *link) cond(it Item) bool {
	if it.Kc {
		return len(l.kprop) > 0 && l.kprop[len(l.kprop)-1]
	}
	if it.Eq > 0 {
		return len(l.loop) > 0 && l.loop[len(l.loop)-1] == it.Eq
	}
	return it.Cond
}

// onceOn decides whether an include tag / <slot> that may carry v-once (and be a chain member) is
// expanded at this instantiation.
func (l *link) onceOn(it Item) bool {
	if !it.O {
		return true
	}
	switch it.Ch {
	case "if":
		if !l.cond(it) {
			return false
		}
	case "else":
		if l.cond(it) {
			fmt.Fprintf(&l.sb, "u%d()", it.M)
			return false
		}
	}
	key := fmt.Sprintf("%s#%d", l.file, it.M)
	l.reached[it.M]++
	if l.seen[key] {
		return false
	}
	l.seen[key] = true
	return true
}

func (l *link) walk(items []Item) {
	for _, it := range items {
		switch it.K {
		case "once":
			inst := 1
			if it.Self {
				inst = it.N // every loop iteration instantiates the marked element itself
			}
			key := fmt.Sprintf("%s#%d", l.file, it.M)
			if it.Ch == "if" || it.Ch == "else" || it.Ch == "elseif" || it.Ch == "tplif" || it.Ch == "tplelse" {
				cond := l.cond(it)
				own := it.Ch == "if" || it.Ch == "tplif"
				if own && !cond {
					if !l.seen[key] {
						l.passedFalse[key] = true
					}
					continue // not instantiated here
				}
				if !own && cond {
					fmt.Fprintf(&l.sb, "u%d()", it.M) // the chain's v-if member is chosen instead
					continue
				}
			}
			for k := 0; k < inst; k++ {
				l.reached[it.M]++
				if l.inherited > 0 {
					l.inhReached[it.M] = true
				}
				if l.seen[key] {
					continue
				}
				if l.passedFalse[key] {
					l.lateIf[it.M] = true
				}
				l.seen[key] = true
				fmt.Fprintf(&l.sb, "o%d(", it.M)
				if it.Self {
					l.loop = append(l.loop, k+1)
				}
				l.walk(it.Kids)
				if it.Self {
					l.loop = l.loop[:len(l.loop)-1]
				}
				l.sb.WriteString(")")
			}
			if it.Self {
				l.arrived[it.M]++
				if it.El && it.N == 0 {
					fmt.Fprintf(&l.sb, "z%d()", it.M) // the list is empty: the v-else tail renders
				}
			}
		case "for":
			for k := 1; k <= it.N; k++ {
				l.loop = append(l.loop, k)
				fmt.Fprintf(&l.sb, "w%d(", it.M)
				l.walk(it.Kids)
				l.sb.WriteString(")")
				l.loop = l.loop[:len(l.loop)-1]
			}
		case "if":
			if l.cond(it) {
				fmt.Fprintf(&l.sb, "v%d(", it.M)
				l.walk(it.Kids)
				l.sb.WriteString(")")
			}
		case "div":
			fmt.Fprintf(&l.sb, "d%d(", it.M)
			l.walk(it.Kids)
			l.sb.WriteString(")")
		case "pg":
			if l.deep {
				continue
			}
			l.recursions++
			p := l.c.Pages[it.Pg]
			old, oldFile := l.scope, l.file
			l.scope, l.file, l.deep = &scope{parent: old, file: oldFile}, "", true // elements of the page FILE
			fmt.Fprintf(&l.sb, "pg%d()", it.Pg)
			l.walk(p.Ph)
			l.walk(p.Pf)
			l.walk(p.Items)
			l.scope, l.file, l.deep = old, oldFile, false
		case "inc":
			if !l.onceOn(it) {
				continue
			}
			base, twin := twinOf(l.c, it.Comp)
			if indexOf(l.c.Bare, base) < 0 {
				fmt.Fprintf(&l.sb, "c%s()", base) // a twin's body, head marker included, is X's text
			}
			nk := len(l.kprop)
			if it.Kp > 0 {
				l.kprop = append(l.kprop, it.Kp == 1)
			}
			old, oldFile := l.scope, l.file
			l.scope = &scope{def: it.Kids, named: it.Named, parent: old, file: oldFile}
			l.file = ""
			if twin {
				l.file = it.Comp
				l.twins[base] |= 2
			} else {
				l.twins[base] |= 1
			}
			l.walk(l.c.Comps[base])
			l.scope, l.file = old, oldFile
			l.kprop = l.kprop[:nk]
		case "pslot":
			content := l.ph
			if it.Nm {
				content = l.pf
			}
			if len(content) > 0 {
				old, oldFile := l.scope, l.file
				l.scope, l.file = nil, l.pageFile // the content is written in the page file being rendered
				l.inherited++
				l.walk(content)
				l.inherited--
				l.scope, l.file = old, oldFile
			} else {
				l.walk(it.Kids)
			}
		case "slot":
			if !l.onceOn(it) {
				continue
			}
			var content []Item
			if l.scope != nil {
				content = l.scope.def
				if it.Nm {
					content = l.scope.named
				}
			}
			if len(content) > 0 {
				// supplied content belongs to the includer
				old, oldFile := l.scope, l.file
				l.scope, l.file = old.parent, old.file
				l.walk(content)
				l.scope, l.file = old, oldFile
			} else {
				l.walk(it.Kids) // fallback content
			}
		}
	}
}

// expectation of one step.
type expectation struct {
	outline string
	doc     bool
	links   []string       // files rendered, page first
	reached []map[int]int  // per link
	ls      []*link        // per link (bookkeeping for known-finding regions)
	emitted map[string]int // marker id -> occurrences in the final output
}

// expect models the render of step s when the file of page s.P holds version src.
func expect(c *Case, s Step, src int) expectation {
	var e expectation
	p := c.Pages[src]
	l := newLink(c)
	rootFile := ""
	if src != s.P && !rootless(s.Entry) {
		rootFile = "\x00" + pageName(s.P)
	}
	if rootless(s.Entry) {
		l.file = "\x00root" // the root template is not the page file
	} else if src != s.P {
		// the file of page s.P holds another page's text: as a FILE it is distinct from that page's own
		// file, which a pg item of the text may include
		l.file = "\x00" + pageName(s.P)
	}
	fmt.Fprintf(&l.sb, "pg%d()", src)
	l.walk(p.Ph) // a slot template that is not inside an include tag renders its children in place
	l.walk(p.Pf)
	l.walk(p.Items)
	out := l.sb.String()
	e.links = append(e.links, pageName(s.P))
	e.reached = append(e.reached, l.reached)
	e.ls = append(e.ls, l)
	if layoutAware(s.Entry) {
		name := p.Layout
		if name == "" {
			if _, ok := c.Layouts["base"]; ok {
				name = "base" // docs: a page without layout gets layouts/base.vuego when it exists
			}
		}
		for name != "" {
			lay := c.Layouts[name]
			l := newLink(c) // each link of the chain is a render of its own
			l.ph, l.pf, l.pageFile = p.Ph, p.Pf, rootFile
			l.walk(lay.Head)
			l.walk(lay.Before)
			fmt.Fprintf(&l.sb, "m%s(%s)", name, out)
			l.walk(lay.After)
			out = l.sb.String()
			e.links = append(e.links, "layouts/"+name+".vuego")
			e.reached = append(e.reached, l.reached)
			e.ls = append(e.ls, l)
			e.doc = lay.Doc
			name = lay.Next
		}
	}
	e.outline = out
	e.emitted = countIDs(out)
	return e
}

// countIDs counts marker ids in an outline string "id(…)id(…)".
func countIDs(outline string) map[string]int {
	m := map[string]int{}
	start := 0
	for i := 0; i < len(outline); i++ {
		switch outline[i] {
		case '(':
			m[outline[start:i]]++
			start = i + 1
		case ')':
			start = i + 1
		}
	}
	return m
}

// ---------------------------------------------------------------------------------------------
// check

// engine is what lives through a whole history.
type engine struct {
	fsys   *memfs.FS
	tpl    vuego.Template // the base template of the site
	kept   vuego.Template // ONE long-lived child for the string entries with Keep
	vue    *vuego.Vue
	parsed map[int][]*html.Node // nodes entry: the caller's parsed page, reused
	stop   func()               // what the template function stop() does during the running step
	writes int                  // file versions written so far (they get increasing mtimes)
}

func newEngine(c *Case) *engine {
	e := &engine{fsys: memfs.FromMap(files(*c)), parsed: map[int][]*html.Node{}}
	// stop() lets a render cancel its own context late in the page (Boom "cancel")
	// shorthand component tags x-a … for every component of the site
	register := func(v *vuego.Vue) {
		for _, n := range compOrder {
			if _, ok := c.Comps[n]; ok {
				v.RegisterComponent("x-"+strings.ToLower(n), "components/"+n+".vuego")
			}
		}
	}
	e.tpl = vuego.NewFS(e.fsys, vuego.WithFuncs(vuego.FuncMap{"stop": func() string {
		if e.stop != nil {
			e.stop()
		}
		return ""
	}}), vuego.LoadOption(register))
	e.kept = e.tpl.New()
	e.vue = vuego.NewVue(e.fsys)
	register(e.vue)
	return e
}

// failingWriter is a destination that cannot be written to (Boom "writer").
type failingWriter struct{}

func (failingWriter) Write(p []byte) (int, error) { return 0, fmt.Errorf("destination is full") }

// apply performs a site change step.
func (e *engine) apply(c *Case, s Step) {
	e.writes++
	mt := time.Unix(int64(2000+e.writes), 0)
	name := pageName(s.P)
	delete(e.parsed, s.P)
	switch s.Op {
	case "put":
		e.fsys.Write(name, pageFile(s.Src, c.Pages[s.Src]), mt)
	case "break":
		e.fsys.Write(name, "---\nlayout: [unclosed\n  : : bad\n---\n<b>broken</b>\n", mt)
	case "remove":
		e.fsys.Remove(name)
	}
}

func renderStep(e *engine, c *Case, s Step, src int, brokenOn bool) (string, error) {
	tpl, vue, fsys, parsed := e.tpl, e.vue, e.fsys, e.parsed
	var buf bytes.Buffer
	var w io.Writer = &buf
	if s.Boom == "writer" {
		w = failingWriter{}
	}
	ctx := context.Background()
	e.stop = nil
	if s.Boom == "cancel" {
		cctx, cancel := context.WithCancel(ctx)
		defer cancel()
		ctx, e.stop = cctx, cancel
	}
	name := pageName(s.P)
	body := pageBody(src, c.Pages[src])
	var err error
	// receiver of the string entries: the kept object, a fresh copy of the engine's template, or one
	// loaded from a file
	recv := func() vuego.Template {
		if s.Keep {
			return e.kept
		}
		if s.On != "" && !brokenOn {
			return tpl.Load(s.On)
		}
		return tpl.New()
	}
	switch s.Entry {
	case "load":
		err = tpl.Load(name).Fill(data(s)).Render(ctx, w)
	case "file":
		err = tpl.New().Fill(data(s)).RenderFile(ctx, w, name)
	case "view":
		err = vuego.View(tpl, name, data(s)).Render(ctx, w)
	case "assign":
		t := tpl.Load(name)
		d := data(s)
		keys := make([]string, 0, len(d))
		for k := range d {
			keys = append(keys, k)
		}
		sort.Strings(keys)
		for _, k := range keys {
			t = t.Assign(k, d[k])
		}
		err = t.Render(ctx, w)
	case "lnodes":
		var nodes []*html.Node
		nodes, err = vuego.NewLoader(fsys).Load(name)
		if err != nil {
			return "", fmt.Errorf("parse: %w", err)
		}
		err = vue.RenderNodes(w, nodes, data(s))
	case "vue":
		err = vue.Render(w, name, data(s))
	case "frag":
		err = vue.RenderFragment(w, name, data(s))
	case "string":
		err = recv().Fill(data(s)).RenderString(ctx, w, body)
	case "byte":
		err = recv().Fill(data(s)).RenderByte(ctx, w, []byte(body))
	case "reader":
		err = recv().Fill(data(s)).RenderReader(ctx, w, strings.NewReader(body))
	case "nodes":
		nodes, ok := parsed[s.P]
		if !ok {
			nodes, err = vuego.NewLoader(fsys).LoadFragment(name)
			if err != nil {
				return "", fmt.Errorf("parse: %w", err)
			}
			parsed[s.P] = nodes
		}
		err = vue.RenderNodes(w, nodes, data(s))
	case "xnodes":
		bodyEl := &html.Node{Type: html.ElementNode, Data: "body", DataAtom: atom.Body}
		var nodes []*html.Node
		nodes, err = html.ParseFragment(strings.NewReader(body), bodyEl)
		if err != nil {
			return "", fmt.Errorf("parse: %w", err)
		}
		err = vue.RenderNodes(w, nodes, data(s))
	default:
		err = fmt.Errorf("unknown entry %q", s.Entry)
	}
	return buf.String(), err
}

func where(c *Case, m int) string {
	var find func(items []Item) *Item
	find = func(items []Item) *Item {
		for i := range items {
			if items[i].K == "once" && items[i].M == m {
				return &items[i]
			}
			if r := find(items[i].Kids); r != nil {
				return r
			}
			if r := find(items[i].Named); r != nil {
				return r
			}
		}
		return nil
	}
	desc := func(it *Item, file string) string {
		sp := spellings[it.Sp%len(spellings)]
		s := fmt.Sprintf("<%s %s> in %s", it.Tag, sp, file)
		if it.Self {
			s = fmt.Sprintf("<%s %s v-for=\"x in n%d\"> in %s", it.Tag, sp, it.N, file)
		}
		if it.Pre {
			s = fmt.Sprintf("<%s %s v-pre> in %s", it.Tag, sp, file)
		}
		if it.Self && it.El {
			s += " followed by <p v-else>"
		}
		switch it.Ch {
		case "if":
			s = fmt.Sprintf("<%s %s v-if=\"%s\"> in %s", it.Tag, sp, condSrc(*it), file)
		case "else":
			s = fmt.Sprintf("<%s %s v-else> after <p v-if=\"%s\"> in %s", it.Tag, sp, condSrc(*it), file)
		case "elseif":
			s = fmt.Sprintf("<%s %s v-else-if=\"t\"> after <p v-if=\"%s\"> in %s", it.Tag, sp, condSrc(*it), file)
		case "tpl":
			s = fmt.Sprintf("<%s> inside <template %s> in %s", it.Tag, sp, file)
		case "tplif":
			s = fmt.Sprintf("<%s> inside <template %s v-if=\"%s\"> in %s", it.Tag, sp, condSrc(*it), file)
		case "tplelse":
			s = fmt.Sprintf("<%s> inside <template v-else %s> after <p v-if=\"%s\"> in %s", it.Tag, sp, condSrc(*it), file)
		}
		return s
	}
	for i, p := range c.Pages {
		for _, part := range [][]Item{p.Items, p.Ph, p.Pf} {
			if it := find(part); it != nil {
				return desc(it, pageName(i))
			}
		}
	}
	for _, n := range compOrder {
		if it := find(c.Comps[n]); it != nil {
			if indexOf(c.Twins, n) >= 0 {
				return desc(it, fmt.Sprintf("components/%s.vuego and, separately, in its twin file(s) %q", n, twinNames(n, c.TwinStyle)))
			}
			return desc(it, "components/"+n+".vuego")
		}
	}
	for _, n := range layoutOrder {
		l := c.Layouts[n]
		for _, part := range [][]Item{l.Head, l.Before, l.After} {
			if it := find(part); it != nil {
				return desc(it, "layouts/"+n+".vuego")
			}
		}
	}
	return "?"
}

func check(c Case) error {
	if err := validate(c); err != nil {
		return fmt.Errorf("invalid case: %w", err)
	}
	// one engine for the whole history: the property is about renders that follow one another
	eng := newEngine(&c)
	srcs, brokens := make([]int, len(c.Steps)), make([]bool, len(c.Steps))
	brokenFile := map[string]bool{}
	forHistory(&c, func(i int, s Step, src int, broken bool) { srcs[i], brokens[i] = src, broken })
	for i, s := range c.Steps {
		src, broken := srcs[i], brokens[i]
		if s.Op != "" {
			eng.apply(&c, s)
			brokenFile[pageName(s.P)] = s.Op != "put"
			continue
		}
		exp := expect(&c, s, src)
		out, err := renderStep(eng, &c, s, src, brokenFile[s.On])
		at := fmt.Sprintf("step %d (page %s via %s)", i, pageName(s.P), s.Entry)
		if src != s.P {
			at = fmt.Sprintf("step %d (page file %s holding version pg%d via %s)", i, pageName(s.P), src, s.Entry)
		}
		if s.Keep {
			at += " on the kept Template object"
		}
		if s.On != "" {
			at = fmt.Sprintf("step %d (body of page %s via %s on a template loaded from %s)", i, pageName(s.P), s.Entry, s.On)
		}
		if fails(&c, s, src, broken) {
			if err == nil {
				return fmt.Errorf("%s: the render was made to fail (%s, broken file: %v) but returned no error", at, s.Boom, broken)
			}
			continue // nothing else is asserted about a failed render
		}
		if err != nil {
			return fmt.Errorf("%s: render failed: %v", at, err)
		}
		var forest []*hx.N
		if exp.doc {
			forest, err = hx.Doc(out, hx.Collapse)
		} else {
			forest, err = hx.Frag(out, hx.Collapse)
		}
		if err != nil {
			return fmt.Errorf("%s: output does not parse: %v", at, err)
		}
		got := map[string]int{}
		for _, id := range hx.MarkerIDs(forest) {
			got[id]++
		}
		// 1. the number of occurrences of every marked element
		var ids []string
		for id := range exp.emitted {
			ids = append(ids, id)
		}
		for id := range got {
			if _, ok := exp.emitted[id]; !ok {
				ids = append(ids, id)
			}
		}
		sort.Strings(ids)
		// also every marked element of the site that is expected 0 times
		for _, id := range ids {
			if !strings.HasPrefix(id, "o") {
				continue
			}
			if got[id] != exp.emitted[id] {
				var m int
				fmt.Sscanf(id, "o%d", &m)
				var rs []string
				for k, f := range exp.links {
					rs = append(rs, fmt.Sprintf("%s: reached %d×", f, exp.reached[k][m]))
				}
				return fmt.Errorf("%s: marked element %s (%s) occurs %d time(s) in the output, want %d [%s]\nwant outline %s\ngot  outline %s\noutput:\n%s",
					at, id, where(&c, m), got[id], exp.emitted[id], strings.Join(rs, "; "), exp.outline, hx.Outline(forest), clip(out))
			}
		}
		// 2. position: emitted where it is first reached (outline of all markers)
		if o := hx.Outline(forest); o != exp.outline {
			return fmt.Errorf("%s: counts of marked elements agree but the marker outline differs (position of an emitted element, or expansion of an include tag / <slot> that carries v-once itself)\nwant %s\ngot  %s\noutput:\n%s", at, exp.outline, o, clip(out))
		}
		// the internal bookkeeping attributes are not part of the page
		if strings.Contains(strings.ToLower(out), "v-once") {
			return fmt.Errorf("%s: output still contains a v-once attribute:\n%s", at, clip(out))
		}
	}
	return nil
}

func clip(s string) string {
	if len(s) > 1500 {
		return s[:1500] + "…"
	}
	return s
}

// ---------------------------------------------------------------------------------------------
// classification

func countOnce(items []Item) int {
	n := 0
	for _, it := range items {
		if it.K == "once" {
			n++
		}
		n += countOnce(it.Kids) + countOnce(it.Named)
	}
	return n
}

func classify(c Case) (bool, []string) {
	set := map[string]bool{}
	distinct := 0
	attrUse := map[int]int{}
	var walk func(items []Item, kind string, inLoop, inOnce, underIf bool)
	walk = func(items []Item, kind string, inLoop, inOnce, underIf bool) {
		for _, it := range items {
			switch it.K {
			case "once":
				distinct++
				set["once@"+kind] = true
				set["tag="+it.Tag] = true
				set["spelling="+spellings[it.Sp%len(spellings)]] = true
				if inLoop {
					set["once@"+kind+"-in-loop"] = true
				}
				if inOnce {
					set["once-inside-once"] = true
				}
				if underIf {
					set["once-under-if"] = true
				}
				if it.Self {
					set[fmt.Sprintf("once+for-same-element n=%d", it.N)] = true
					if it.El {
						set["once+for-same-element with v-else tail"] = true
					}
				}
				if it.Kc {
					set["once=chain-member on the prop k"] = true
				}
				if it.At > 0 {
					attrUse[it.At]++
				}
				if it.Pre {
					set["once+v-pre-same-element"] = true
					if inLoop {
						set["once+v-pre-same-element in loop"] = true
					}
					if strings.HasPrefix(kind, "component") {
						set["once+v-pre-same-element in component"] = true
					}
				}
				switch it.Ch {
				case "if", "else", "elseif":
					set["once=chain-member:"+it.Ch] = true
					if it.Eq > 0 {
						set["once=chain-member:"+it.Ch+" on loop variable"] = true
					}
				case "tpl":
					set["once=on-template-wrapper"] = true
				case "tplif", "tplelse":
					set["once=on-template-wrapper"] = true
					set["once=on-template-wrapper that is a chain member:"+it.Ch] = true
				}
				walk(it.Kids, kind, inLoop, true, underIf)
			case "for":
				set[fmt.Sprintf("loop n=%d", it.N)] = true
				walk(it.Kids, kind, true, inOnce, underIf)
			case "if":
				if it.Eq > 0 {
					set["if x==k in loop"] = true
				}
				walk(it.Kids, kind, inLoop, inOnce, true)
			case "pg":
				set["page-file-included ("+kind+")"] = true
			case "div":
				walk(it.Kids, kind, inLoop, inOnce, underIf)
			case "inc":
				if it.Sh {
					set["include written as shorthand component tag"] = true
					if it.O {
						set["once=on-shorthand-component-tag"] = true
					}
				}
				if it.O {
					set["once=on-include-tag"] = true
					if it.Ch != "" {
						set["once=on-include-tag that is a chain member:"+it.Ch] = true
					}
				}
				if kind == "component" {
					set["nested-include"] = true
				}
				if inLoop {
					set["include-in-loop"] = true
				}
				direct := func(items []Item, what string) {
					for _, k := range items {
						if k.K == "once" {
							set["once=direct-child-of-"+what] = true
							if inLoop {
								set["once=direct-child-of-"+what+", include tag in loop"] = true
							}
						}
					}
				}
				direct(it.Kids, "default-slot-content")
				direct(it.Named, "named-slot-content")
				if len(it.Kids) > 0 {
					set["include-with-default-slot-content"] = true
				}
				if len(it.Named) > 0 {
					set["include-with-named-slot-content"] = true
				}
				walk(it.Kids, kind+"/slot-content", false, inOnce, underIf)
				walk(it.Named, kind+"/slot-content", false, inOnce, underIf)
			case "pslot":
				set["layout-fills-page-slot"] = true
				if inLoop {
					set["layout-fills-page-slot-in-loop"] = true
				}
				walk(it.Kids, kind+"/slot-fallback", false, inOnce, underIf)
			case "slot":
				if it.O {
					set["once=on-slot-element"] = true
					if it.Ch != "" {
						set["once=on-slot-element that is a chain member:"+it.Ch] = true
					}
				}
				set["component-has-slot"] = true
				if inLoop {
					set["slot-in-loop"] = true
				}
				for _, k := range it.Kids {
					if k.K == "once" {
						set["once=direct-child-of-slot-fallback"] = true
					}
				}
				walk(it.Kids, kind+"/slot-fallback", false, inOnce, underIf)
			}
		}
	}
	for _, p := range c.Pages {
		walk(p.Items, "page", false, false, false)
		walk(p.Ph, "page-slot-template", false, false, false)
		walk(p.Pf, "page-slot-template", false, false, false)
	}
	if len(c.Twins) > 0 {
		set[fmt.Sprintf("twin-file-name=%q", twinNames("X", c.TwinStyle))] = true
	}
	if len(c.Comps) > 0 {
		set[fmt.Sprintf("component-file-lead=%q", leads[c.Lead%len(leads)])] = true
	}
	for _, n := range c.Bare {
		if len(c.Comps[n]) == 1 && c.Comps[n][0].Ch == "tpl" && c.Lead > 0 {
			set["bare-component: sole root <template v-once> after insignificant lead"] = true
		}
		set["bare-component (only marked elements)"] = true
		if len(c.Comps[n]) == 1 && c.Comps[n][0].Ch == "tpl" {
			set["bare-component: sole root <template v-once>"] = true
		}
	}
	compsWith := 0
	for _, n := range compOrder {
		before := distinct
		walk(c.Comps[n], "component", false, false, false)
		if distinct > before {
			compsWith++
		}
	}
	if compsWith >= 2 {
		set["once-in->=2-components"] = true
	}
	for _, n := range layoutOrder {
		l, ok := c.Layouts[n]
		if !ok {
			continue
		}
		walk(l.Head, "layout-head", false, false, false)
		walk(l.Before, "layout", false, false, false)
		walk(l.After, "layout", false, false, false)
	}
	for at, n := range attrUse {
		name := strings.SplitN(idAttrs[at], "=", 2)[0]
		set["identity-like-attr="+name] = true
		if n >= 2 {
			set["same "+name+" value on >=2 distinct marked elements"] = true
		}
	}
	d := distinct
	if d > 4 {
		d = 4
	}
	cls := []string{fmt.Sprintf("distinct-once=%d%s", d, map[bool]string{true: "+", false: ""}[distinct > 4])}
	// dynamic facts from the model
	maxReach := 0
	pagesUsed := map[int]bool{}
	entriesUsed := map[string]bool{}
	repeat := false
	seenStep := map[Step]bool{}
	failedBefore := map[int]bool{}
	anyFailed := false
	srcs, brokens := make([]int, len(c.Steps)), make([]bool, len(c.Steps))
	forHistory(&c, func(i int, s Step, src int, broken bool) { srcs[i], brokens[i] = src, broken })
	versionChanged := map[int]bool{}
	for i, s := range c.Steps {
		src, broken := srcs[i], brokens[i]
		if s.Op != "" {
			set["site-change="+s.Op] = true
			versionChanged[s.P] = true
			continue
		}
		if s.Keep {
			set["string-entry-on-kept-template-object"] = true
		}
		if versionChanged[s.P] && fileBased(s.Entry) && !broken {
			set["file-render-after-version-change"] = true
			if failedBefore[s.P] {
				set["file-render-of-restored-page-after-failed-load"] = true
			}
		}
		if fails(&c, s, src, broken) {
			if broken && fileBased(s.Entry) {
				set["failing-step=broken-or-missing-file"] = true
			}
			set["failing-step="+s.Boom] = true
			failedBefore[s.P] = true
			anyFailed = true
			entriesUsed[s.Entry] = true
			continue
		}
		if failedBefore[s.P] {
			set["good-render-after-failed-render-of-same-page"] = true
		}
		if anyFailed {
			set["good-render-after-a-failed-render"] = true
		}
		e := expect(&c, s, src)
		pagesUsed[s.P] = true
		entriesUsed[s.Entry] = true
		if seenStep[s] {
			repeat = true
		}
		if s.On != "" {
			set["string-entry-on-loaded-template"] = true
		}
		seenStep[s] = true
		if i > 0 && c.Steps[i-1].P != s.P {
			set["interleaved-programs"] = true
		}
		set[fmt.Sprintf("chain-links=%d", len(e.links))] = true
		for _, l := range e.ls {
			if len(l.inhReached) >= 1 {
				set["page-slot-content-reached-in-layout"] = true
			}
			if len(l.inhReached) >= 2 {
				set["page-slot-content: >=2 distinct once reached in one layout"] = true
			}
			if len(l.lateIf) > 0 {
				set["own-v-if false before first reach"] = true
			}
			if l.recursions > 0 {
				set["recursion: root page file included again in its own render"] = true
				if rootless(s.Entry) {
					set["recursion under a rootless entry (string / caller nodes)"] = true
				}
			}
			for m, n := range l.arrived {
				if n >= 2 {
					_ = m
					set["once+for-same-element arrived at >=2 times"] = true
				}
			}
			for x, bits := range l.twins {
				if bits == 3 {
					set["twin-files-both-included-in-one-render"] = true
					if countOnce(c.Comps[x]) > 0 {
						set["twin-files-with-once-both-included-in-one-render"] = true
					}
				}
			}
			for m := range l.passedFalse {
				_ = m
				set["own-v-if passed with false condition"] = true
			}
		}
		if layoutAware(s.Entry) && c.Pages[s.P].Layout == "" && len(e.links) > 1 {
			set["default-base-layout"] = true
		}
		perLink := 0
		emittedInLinks := map[int]int{}
		for _, r := range e.reached {
			has := false
			for m, n := range r {
				if n > maxReach {
					maxReach = n
				}
				if n > 0 {
					has = true
					emittedInLinks[m]++
				}
			}
			if has {
				perLink++
			}
		}
		if perLink >= 2 {
			set["once-in->=2-links-of-chain"] = true
		}
		for _, n := range emittedInLinks {
			if n >= 2 {
				set["same-element-emitted-in-2-links"] = true
			}
		}
		for id, n := range e.emitted {
			if strings.HasPrefix(id, "c") && n >= 1 {
				k := n
				if k > 3 {
					k = 3
				}
				set[fmt.Sprintf("component-included-%d%s-times", k, map[bool]string{true: "+", false: ""}[n > 3])] = true
			}
		}
	}
	if repeat {
		set["same-render-repeated"] = true
	}
	for e := range entriesUsed {
		set["entry="+e] = true
	}
	r := maxReach
	if r > 3 {
		r = 3
	}
	set[fmt.Sprintf("max-reach=%d%s", r, map[bool]string{true: "+", false: ""}[maxReach > 3])] = true
	if maxReach == 0 {
		set["never-reached-only"] = true
	}
	for k := range set {
		cls = append(cls, k)
	}
	sort.Strings(cls)
	return distinct >= 2 || maxReach >= 2, cls
}

// ---------------------------------------------------------------------------------------------
// bounded exhaustive enumeration: a fixed universe site with slots for marked elements

type uni struct {
	fill  map[string]bool
	sp    int // spelling of the first marked element; the following ones take the next spellings
	at    int // identity-like attribute that EVERY marked element of the site carries (see idAttrs)
	pre   int // the pre-th filled slot (1-based) also carries v-pre when its tag is a leaf
	next  int
	kinds int
}

func (u *uni) id() int { u.next++; return u.next }

// slot returns a marked element when the slot is selected.
func (u *uni) slot(name string, tags []string) []Item {
	if !u.fill[name] {
		return nil
	}
	u.kinds++
	it := Item{K: "once", M: u.id(), Tag: tags[u.kinds%len(tags)], Sp: (u.sp + u.kinds - 1) % len(spellings)}
	it.Pre = u.kinds == u.pre && !isBox(it.Tag)
	it.At = u.at
	return []Item{it}
}

// slotCh is slot with the marked element as a chain member / under a template wrapper.
func (u *uni) slotCh(name string, tags []string, ch string, cond bool, eq int) []Item {
	its := u.slot(name, tags)
	for i := range its {
		its[i].Ch, its[i].Cond, its[i].Eq = ch, cond, eq
		its[i].Pre = false
		if strings.HasPrefix(ch, "tpl") {
			its[i].At = 0
		}
	}
	return its
}

var pageSlots = []string{"s0", "s1", "s2", "s3", "s4", "s5", "q0", "q1", "a0", "a1", "a2", "b0", "c0", "t0", "t1", "f0", "f1", "e0", "e1", "i0", "i1", "k0", "k1", "k2", "g0", "g1", "s6", "r0", "r1"}

// slots in the page's #ph / v-slot:pf templates (sites with layouts)
var handedSlots = []string{"ph0", "ph1", "pf0"}
var l1Slots = []string{"lb", "ll"}
var docSlots = []string{"h0", "la"}

type uparams struct {
	nA, nB, kA int
	chain      string // none | l1 | l1-l2 | base
	sp         int    // spelling of the first marked element (see uni.sp)
	pre        int    // which filled slot also carries v-pre (see uni.pre)
	at         int    // identity-like attribute on every marked element (see uni.at)
	twin       int    // naming style of the twin file(s) of A
	lead       int    // what component files carry before their first element
}

func universeSlots(p uparams) []string {
	s := append([]string(nil), pageSlots...)
	if p.chain == "none" {
		s = append(s, "t2") // named slot content: only in sites without layouts
	}
	if p.chain != "none" {
		s = append(s, handedSlots...)
	}
	switch p.chain {
	case "l1":
		s = append(s, l1Slots...)
	case "l1-l2", "base":
		if p.chain == "l1-l2" {
			s = append(s, l1Slots...)
		}
		s = append(s, docSlots...)
	}
	return s
}

func universe(fill []string, p uparams) Case {
	u := &uni{fill: map[string]bool{}, sp: p.sp, pre: p.pre, at: p.at}
	for _, f := range fill {
		u.fill[f] = true
	}
	all := append(append([]string{}, leafTags...), boxTags...)
	inc := func(n string) Item { return Item{K: "inc", Comp: n} }
	var P []Item
	P = append(P, u.slot("s0", all)...)
	P = append(P, Item{K: "for", M: u.id(), N: p.nA, Kids: u.slot("s1", all)})
	P = append(P, Item{K: "for", M: u.id(), N: p.nB, Kids: []Item{inc("A")}})
	for k := 0; k < p.kA; k++ {
		a := inc("A")
		a.Sh = k%2 == 1 // <x-a> next to <template include>
		P = append(P, a)
	}
	P = append(P, inc("B"))
	for _, tn := range twinNames("A", p.twin) { // the twin file(s) of A, after A itself, twice each
		P = append(P, inc(tn), inc(tn))
	}
	if u.fill["s2"] {
		u.kinds++
		P = append(P, Item{K: "once", M: u.id(), Tag: leafTags[u.kinds%len(leafTags)], Self: true, N: p.nA, Sp: (u.sp + u.kinds - 1) % len(spellings), At: u.at})
	}
	P = append(P, Item{K: "for", M: u.id(), N: 3, Kids: []Item{{K: "if", M: u.id(), Eq: 2, Kids: u.slot("s3", all)}}})
	P = append(P, Item{K: "div", M: u.id(), Kids: u.slot("s4", all)})
	// chain members: v-else after <p v-if="x == 1"> and own v-if="x == 2" in a loop of 3; template wrapper
	P = append(P, Item{K: "for", M: u.id(), N: 3, Kids: append(u.slotCh("e0", all, "else", false, 1), u.slotCh("i0", all, "if", false, 2)...)})
	P = append(P, Item{K: "for", M: u.id(), N: p.nA, Kids: append(u.slotCh("k0", all, "tpl", false, 0), u.slotCh("k1", all, "tplif", true, 0)...)})
	// v-once on include tags that are chain members: <template include v-else v-once> in a loop,
	// <template include v-once v-if="x == 2"> in a loop of 3
	P = append(P, Item{K: "for", M: u.id(), N: p.nB, Kids: []Item{{K: "inc", Comp: "C", O: true, M: u.id(), Ch: "else", Sh: p.sp%2 == 1}}})
	P = append(P, Item{K: "for", M: u.id(), N: 3, Kids: []Item{{K: "inc", Comp: "B", O: true, M: u.id(), Ch: "if", Eq: 2, Sh: p.sp%2 == 0}}})
	// component D has a default slot and a named slot, both with fallback content; the page includes
	// it in a loop with default content, then with named content (sites without layouts), then twice bare
	P = append(P, Item{K: "for", M: u.id(), N: p.nB, Kids: []Item{{K: "inc", Comp: "D",
		Kids: append(u.slot("t0", all), Item{K: "div", M: u.id(), Kids: u.slot("t1", all)})}}})
	if p.chain == "none" {
		P = append(P, Item{K: "for", M: u.id(), N: p.nA, Kids: []Item{{K: "inc", Comp: "D", Named: u.slot("t2", all)}}})
	}
	for k := 0; k < p.kA; k++ {
		P = append(P, inc("D"))
	}
	// bare asset component E (only marked elements): prop false at the first include, true later
	P = append(P, Item{K: "inc", Comp: "E", Kp: 2}, Item{K: "inc", Comp: "E", Kp: 1}, Item{K: "inc", Comp: "E", Kp: 1})
	// bare component F: sole root <template v-once>, included twice
	P = append(P, inc("F"), inc("F"))
	// v-for + v-once element with a v-else tail, arrived at nB times
	if u.fill["s6"] {
		u.kinds++
		P = append(P, Item{K: "for", M: u.id(), N: p.nB, Kids: []Item{{K: "once", M: u.id(), Tag: leafTags[u.kinds%len(leafTags)], Self: true, El: true, N: p.nA, Sp: (u.sp + u.kinds - 1) % len(spellings), At: u.at}}})
	}
	P = append(P, u.slot("s5", all)...)
	var Q []Item
	Q = append(Q, u.slot("q0", all)...)
	// page 1 meets the twin first
	Q = append(Q, Item{K: "for", M: u.id(), N: p.nB, Kids: []Item{inc("B")}}, inc(twinNames("A", p.twin)[0]), inc("A"))
	Q = append(Q, Item{K: "inc", Comp: "E", Kp: 1}, Item{K: "inc", Comp: "E", Kp: 2}) // the reverse order
	Q = append(Q, u.slot("q1", all)...)
	var A []Item
	A = append(A, u.slot("a0", all)...)
	A = append(A, Item{K: "for", M: u.id(), N: p.nA, Kids: u.slot("a1", all)}, inc("C"))
	A = append(A, u.slot("a2", all)...)
	A = append(A, u.slotCh("e1", all, "elseif", false, 0)...)
	A = append(A, u.slotCh("k2", all, "tplelse", false, 0)...)
	var B []Item
	B = append(B, u.slot("b0", all)...)
	B = append(B, u.slotCh("i1", all, "if", true, 0)...)
	B = append(B, inc("C"))
	C := u.slot("c0", all)
	D := []Item{{K: "slot", Kids: u.slot("f0", all)}, {K: "for", M: u.id(), N: 2, Kids: []Item{{K: "slot", Nm: true, Kids: u.slot("f1", all)}}}}
	// a <slot v-once v-if> in a loop: filled (content or this fallback) at its first instantiation only
	D = append(D, Item{K: "for", M: u.id(), N: 2, Kids: []Item{{K: "slot", O: true, M: u.id(), Ch: "if", Cond: true, Kids: []Item{{K: "div", M: u.id()}}}}})
	var R []Item
	R = append(R, u.slot("r0", all)...)
	R = append(R, Item{K: "for", M: u.id(), N: 2, Kids: u.slot("r1", all)}, inc("C"), Item{K: "pg", Pg: 3}, inc("G"))
	// E: an unconditional asset, an optional second one, and an optional one under the prop
	E := []Item{{K: "once", M: u.id(), Tag: "style", Sp: u.sp % len(spellings), At: u.at}}
	E = append(E, u.slot("g0", leafTags)...)
	g1 := u.slot("g1", leafTags)
	for i := range g1 {
		g1[i].Ch, g1[i].Kc, g1[i].Pre = "if", true, false
	}
	E = append(E, g1...)
	F := []Item{{K: "once", M: u.id(), Tag: "script", Ch: "tpl", Sp: (u.sp + 1) % len(spellings)}}
	c := Case{
		// page 2: the PLAIN version of page 0 (no marked element); page 3: a page that includes itself and,
		// through component G, is included back
		Pages:     []Page{{Items: P}, {Items: Q}, {}, {Items: R}},
		Comps:     map[string][]Item{"A": A, "B": B, "C": C, "D": D, "E": E, "F": F, "G": {{K: "pg", Pg: 3}}},
		Twins:     []string{"A"},
		TwinStyle: p.twin,
		Lead:      p.lead,
		Bare:      []string{"E", "F"},
		Layouts:   map[string]Layout{},
	}
	mkL1 := func(next string) Layout {
		l := Layout{Next: next}
		l.Before = append(u.slot("lb", all), Item{K: "pslot"})
		l.After = []Item{{K: "for", M: u.id(), N: p.nA, Kids: append(u.slot("ll", all), Item{K: "pslot", Nm: true})}, inc("B")}
		return l
	}
	mkDoc := func() Layout {
		l := Layout{Doc: true}
		l.Head = u.slot("h0", []string{"style", "script", "link"})
		l.After = append(u.slot("la", all), inc("A"), Item{K: "pslot", Nm: true}, Item{K: "for", M: u.id(), N: 2, Kids: []Item{{K: "pslot"}}})
		return l
	}
	if p.chain != "none" {
		c.Pages[0].Ph = append(u.slot("ph0", all), u.slot("ph1", all)...)
		c.Pages[0].Pf = u.slot("pf0", all)
	}
	switch p.chain {
	case "l1":
		c.Layouts["l1"] = mkL1("")
		c.Pages[0].Layout = "l1"
		c.Pages[2].Layout = "l1"
	case "l1-l2":
		c.Layouts["l1"] = mkL1("l2")
		c.Layouts["l2"] = mkDoc()
		c.Pages[0].Layout = "l1"
		c.Pages[2].Layout = "l1"
	case "base":
		c.Layouts["base"] = mkDoc()
	}
	return c
}

// historyFor renders page 0 twice through e with page 1 (through another entry) in between.
// boomFor picks the way the i-th failing render of a history is made to fail.
func boomFor(i int, entry string) string {
	n := len(booms)
	if !stringy(entry) {
		n-- // "cancel" (last) is for the string entries
	}
	return booms[i%n]
}

func historyFor(k int, short bool) []Step {
	e := entries[k%len(entries)]
	o := entries[(k+3)%len(entries)]
	// the string entries run on the kept Template object of the case, so that what an aborted call
	// leaves on the object meets the next call
	keep := stringy(e)
	last := Step{P: 0, Entry: e}
	if stringy(e) {
		last.On = "components/A.vuego" // the string is rendered on a template object loaded from a file it includes
	}
	if short {
		// sites with several marked elements (most of the enumeration): page 0, a failing render of it,
		// page 0 again, the other page, page 0 once more
		return []Step{
			{P: 0, Entry: e, Keep: keep}, {P: 0, Entry: e, Keep: keep, Boom: boomFor(k, e)}, {P: 0, Entry: e, Keep: keep},
			{P: 1, Entry: o}, last, {P: 3, Entry: e, Keep: keep},
		}
	}
	// page 0 twice, a failing render of it, page 0 again, the other page, a second failing render
	// (other cause; string entries: same object), page 0 once more
	e2 := entries[(k+1)%len(entries)]
	if keep {
		e2 = e
	}
	return []Step{
		{P: 0, Entry: e, Keep: keep}, {P: 0, Entry: e, Keep: keep},
		{P: 0, Entry: e, Keep: keep, Boom: boomFor(k, e)}, {P: 0, Entry: e, Keep: keep},
		{P: 1, Entry: o},
		{P: 0, Entry: e2, Keep: keep, Boom: boomFor(k+3, e2)}, {P: 0, Entry: e2, Keep: keep}, last,
		{P: 3, Entry: e, Keep: keep}, {P: 3, Entry: o},
	}
}

// versionsHistory (file-based entries): the file of page 0 first holds the PLAIN version (page 2: no
// marked element), is rendered, becomes unreadable (malformed front matter or removed; the render
// fails), comes back with the full version and is rendered twice.
func versionsHistory(k int) []Step {
	e := entries[k%len(entries)]
	bad := "break"
	if k%2 == 1 {
		bad = "remove"
	}
	return []Step{
		{P: 0, Op: "put", Src: 2}, {P: 0, Entry: e},
		{P: 0, Op: bad}, {P: 0, Entry: e},
		{P: 0, Op: "put", Src: 0}, {P: 0, Entry: e}, {P: 0, Entry: e},
	}
}

// subsets of size 1..max of names, in a fixed order.
func subsets(names []string, max int) [][]string {
	var out [][]string
	var rec func(start int, cur []string)
	rec = func(start int, cur []string) {
		if len(cur) > 0 {
			out = append(out, append([]string(nil), cur...))
		}
		if len(cur) == max {
			return
		}
		for i := start; i < len(names); i++ {
			rec(i+1, append(cur, names[i]))
		}
	}
	rec(0, nil)
	return out
}

// ---------------------------------------------------------------------------------------------
// random sites

type gen struct {
	t         *rapid.T
	next      int
	budget    int // marked elements still to place
	comps     []string
	twins     []string        // components that have a twin file
	at        int             // the identity-like attribute of this site (0: none)
	usesK     map[string]bool // components with a condition on the prop k
	twinStyle int
	nPages    int
	// inContent > 0 while drawing supplied slot content or fallback content (no <slot>, no x==k there)
	inContent int
	namedOK   bool // named slot content only in sites without layouts
	inLayout  bool // drawing a layout body: <slot name="ph|pf"> allowed
}

func (g *gen) id() int { g.next++; return g.next }

// base resolves the name of a twin file to its component.
func (g *gen) base(name string) string {
	for _, x := range g.twins {
		if indexOf(twinNames(x, g.twinStyle), name) >= 0 {
			return x
		}
	}
	return name
}

// bare draws the body of an asset component: only marked elements (plain, under the prop k or a
// constant, or carrying v-for), or a single <template v-once> wrapper as the sole root.
func (g *gen) bare(name string) []Item {
	l := "bare" + name
	sp := func(i int) int {
		return rapid.SampledFrom([]int{0, 0, 1, 2, 3, 4, 5, 6, 7, 8}).Draw(g.t, fmt.Sprintf("%s.%dsp", l, i))
	}
	if rapid.IntRange(0, 4).Draw(g.t, l+"sole") == 0 {
		g.budget--
		return []Item{{K: "once", M: g.id(), Tag: rapid.SampledFrom(leafTags).Draw(g.t, l+"tag"), Ch: "tpl", Sp: sp(0)}}
	}
	var out []Item
	n := rapid.IntRange(1, 3).Draw(g.t, l+"#")
	for i := 0; i < n && g.budget > 0; i++ {
		g.budget--
		it := Item{K: "once", M: g.id(), Tag: rapid.SampledFrom(leafTags).Draw(g.t, fmt.Sprintf("%s.%dtag", l, i)), Sp: sp(i), At: g.at}
		switch rapid.IntRange(0, 5).Draw(g.t, fmt.Sprintf("%s.%dshape", l, i)) {
		case 0, 1, 2: // under the prop
			it.Ch, it.Kc = "if", true
			g.usesK[name] = true
		case 3:
			it.Ch, it.Cond = "if", rapid.Bool().Draw(g.t, fmt.Sprintf("%s.%dcond", l, i))
		case 4:
			it.Self = true
			it.N = rapid.SampledFrom(loopLens).Draw(g.t, fmt.Sprintf("%s.%dn", l, i))
		}
		out = append(out, it)
	}
	return out
}

func hasShorthand(items []Item) bool {
	for _, it := range items {
		if it.Sh || hasShorthand(it.Kids) || hasShorthand(it.Named) {
			return true
		}
	}
	return false
}

func clearShorthand(items []Item) {
	for i := range items {
		items[i].Sh = false
		clearShorthand(items[i].Kids)
		clearShorthand(items[i].Named)
	}
}

// pgTargets lists the pages that some pg item includes.
func pgTargets(c *Case) map[int]bool {
	out := map[int]bool{}
	var walk func(items []Item)
	walk = func(items []Item) {
		for _, it := range items {
			if it.K == "pg" {
				out[it.Pg] = true
			}
			walk(it.Kids)
			walk(it.Named)
		}
	}
	for _, p := range c.Pages {
		walk(p.Items)
		walk(p.Ph)
		walk(p.Pf)
	}
	for _, items := range c.Comps {
		walk(items)
	}
	return out
}

// onceOn puts v-once on an include tag / <slot> and possibly makes it a chain member.
func (g *gen) onceOn(it *Item, l string, inLoop bool) {
	it.O, it.M = true, g.id()
	it.Ch = rapid.SampledFrom([]string{"", "if", "if", "else", "else"}).Draw(g.t, l+"och")
	if it.Ch == "" {
		return
	}
	if inLoop && g.inContent == 0 && rapid.Bool().Draw(g.t, l+"oeq?") {
		it.Eq = rapid.IntRange(1, 3).Draw(g.t, l+"oeq")
	} else {
		it.Cond = (rapid.IntRange(0, 3).Draw(g.t, l+"ocond") > 0) == (it.Ch == "if")
	}
}

// items draws a body. comp = index of the component being generated (-1: page/layout).
func (g *gen) items(label string, comp, depth int, inLoop bool, max int) []Item {
	n := rapid.IntRange(0, max).Draw(g.t, label+"#")
	var out []Item
	for i := 0; i < n; i++ {
		l := fmt.Sprintf("%s.%d", label, i)
		var allowed []string
		for j := range g.comps {
			if j > comp {
				allowed = append(allowed, g.comps[j])
				if indexOf(g.twins, g.comps[j]) >= 0 {
					allowed = append(allowed, twinNames(g.comps[j], g.twinStyle)...)
				}
			}
		}
		kinds := []string{"once", "once", "for", "div", "if"}
		if len(allowed) > 0 {
			kinds = append(kinds, "inc", "inc")
		}
		if comp >= 0 && g.inContent == 0 {
			kinds = append(kinds, "slot")
		}
		if g.inLayout && g.inContent == 0 {
			kinds = append(kinds, "pslot", "pslot")
		}
		if !g.inLayout && g.inContent == 0 && g.nPages > 0 {
			kinds = append(kinds, "pg")
		}
		if depth >= 3 {
			kinds = []string{"once"}
			if len(allowed) > 0 {
				kinds = append(kinds, "inc")
			}
		}
		switch k := rapid.SampledFrom(kinds).Draw(g.t, l+"k"); k {
		case "once":
			if g.budget <= 0 {
				continue
			}
			g.budget--
			it := Item{K: "once", M: g.id(), Sp: rapid.SampledFrom([]int{0, 0, 1, 2, 3, 3, 4, 4, 5, 6, 7, 8}).Draw(g.t, l+"sp")}
			shape := rapid.IntRange(0, 9).Draw(g.t, l+"shape")
			switch {
			case shape == 0: // v-for on the marked element itself
				it.Tag = rapid.SampledFrom(leafTags).Draw(g.t, l+"tag")
				it.Self = true
				it.N = rapid.SampledFrom(loopLens).Draw(g.t, l+"n")
				it.El = rapid.IntRange(0, 2).Draw(g.t, l+"el") == 0
			case shape <= 2 && depth < 3: // a marked container
				it.Tag = rapid.SampledFrom(boxTags).Draw(g.t, l+"tag")
				it.Kids = g.items(l, comp, depth+1, inLoop, 2)
			default:
				it.Tag = rapid.SampledFrom(leafTags).Draw(g.t, l+"tag")
			}
			if !it.Self {
				switch ch := rapid.IntRange(0, 13).Draw(g.t, l+"ch"); ch {
				case 0, 1, 2, 4, 5:
					it.Ch = []string{"if", "else", "elseif", "", "tplif", "tplelse"}[ch]
					if inLoop && g.inContent == 0 && rapid.Bool().Draw(g.t, l+"cheq?") {
						it.Eq = rapid.IntRange(1, 3).Draw(g.t, l+"cheq")
					} else {
						// mostly the condition that selects the marked member
						it.Cond = (rapid.IntRange(0, 3).Draw(g.t, l+"chcond") > 0) == (ch == 0 || ch == 4)
					}
				case 3:
					it.Ch = "tpl"
				}
			}
			if !it.Self && it.Ch == "" && !isBox(it.Tag) && rapid.IntRange(0, 4).Draw(g.t, l+"pre") == 0 {
				it.Pre = true
			}
			if g.at > 0 && !strings.HasPrefix(it.Ch, "tpl") && rapid.IntRange(0, 3).Draw(g.t, l+"at") > 0 {
				it.At = g.at
			}
			out = append(out, it)
		case "for":
			it := Item{K: "for", M: g.id(), N: rapid.SampledFrom(loopLens).Draw(g.t, l+"n")}
			it.Kids = g.items(l, comp, depth+1, true, 3)
			out = append(out, it)
		case "div":
			it := Item{K: "div", M: g.id()}
			it.Kids = g.items(l, comp, depth+1, inLoop, 3)
			out = append(out, it)
		case "pg":
			out = append(out, Item{K: "pg", Pg: rapid.IntRange(0, g.nPages-1).Draw(g.t, l+"pg")})
		case "if":
			it := Item{K: "if", M: g.id()}
			if inLoop && g.inContent == 0 && rapid.Bool().Draw(g.t, l+"eq?") {
				it.Eq = rapid.IntRange(1, 3).Draw(g.t, l+"eq")
			} else {
				it.Cond = rapid.IntRange(0, 3).Draw(g.t, l+"cond") > 0
			}
			it.Kids = g.items(l, comp, depth+1, inLoop, 3)
			out = append(out, it)
		case "inc":
			it := Item{K: "inc", Comp: rapid.SampledFrom(allowed).Draw(g.t, l+"comp")}
			if g.usesK[g.base(it.Comp)] {
				it.Kp = rapid.IntRange(1, 2).Draw(g.t, l+"kp")
			}
			if indexOf(compOrder, it.Comp) >= 0 && rapid.IntRange(0, 3).Draw(g.t, l+"sh") == 0 {
				it.Sh = true
			}
			if rapid.IntRange(0, 4).Draw(g.t, l+"o?") == 0 {
				g.onceOn(&it, l, inLoop)
			}
			if depth < 3 {
				g.inContent++
				if rapid.IntRange(0, 2).Draw(g.t, l+"content?") == 0 {
					it.Kids = g.items(l+"d", comp, depth+1, false, 2)
				}
				if g.namedOK && rapid.IntRange(0, 3).Draw(g.t, l+"named?") == 0 {
					it.Named = g.items(l+"n", comp, depth+1, false, 2)
				}
				g.inContent--
			}
			out = append(out, it)
		case "pslot":
			it := Item{K: "pslot", Nm: rapid.IntRange(0, 2).Draw(g.t, l+"nm") == 0}
			if depth < 3 && rapid.Bool().Draw(g.t, l+"fb?") {
				g.inContent++
				it.Kids = g.items(l+"f", comp, depth+1, false, 2)
				g.inContent--
			}
			out = append(out, it)
		case "slot":
			it := Item{K: "slot", Nm: rapid.IntRange(0, 2).Draw(g.t, l+"nm") == 0}
			if rapid.IntRange(0, 3).Draw(g.t, l+"o?") == 0 {
				g.onceOn(&it, l, inLoop)
			}
			if depth < 3 {
				g.inContent++
				it.Kids = g.items(l+"f", comp, depth+1, false, 2)
				g.inContent--
			}
			out = append(out, it)
		}
	}
	return out
}

func genCase(rec *ev.Rec, openRoot, openTail bool) func(t *rapid.T) Case {
	return func(t *rapid.T) Case {
		g := &gen{t: t}
		g.budget = rapid.IntRange(1, run.Pick(4, 6)).Draw(t, "once")
		g.at = rapid.SampledFrom([]int{0, 1, 1, 2, 3, 4, 5, 6}).Draw(t, "idattr")
		nComps := rapid.IntRange(0, 4).Draw(t, "comps")
		g.comps = compOrder[:nComps]
		c := Case{Comps: map[string][]Item{}, Layouts: map[string]Layout{}}
		for _, n := range g.comps {
			if rapid.IntRange(0, 2).Draw(t, "twin"+n) == 0 {
				g.twins = append(g.twins, n)
			}
		}
		c.Twins = g.twins
		g.twinStyle = rapid.IntRange(0, twinStyles-1).Draw(t, "twinstyle")
		c.TwinStyle = g.twinStyle
		c.Lead = rapid.SampledFrom([]int{0, 0, 1, 2, 3, 4, 5, 6}).Draw(t, "lead")
		nLay := rapid.SampledFrom([]int{0, 0, 1, 2, 3}).Draw(t, "layouts")
		hasBase := rapid.IntRange(0, 3).Draw(t, "base") == 0
		g.namedOK = nLay == 0 && !hasBase
		nPages := rapid.IntRange(1, 2).Draw(t, "pages")
		g.nPages = nPages
		// slot templates of the pages that a layout chain hands on (drawn first: they get their share
		// of the marked elements)
		phs := make([][2][]Item, nPages)
		if !g.namedOK {
			g.inContent++
			for i := range phs {
				if rapid.Bool().Draw(t, "ph?") {
					phs[i][0] = g.items(fmt.Sprintf("ph%d", i), -1, 1, false, 2)
				}
				if rapid.IntRange(0, 2).Draw(t, "pf?") == 0 {
					phs[i][1] = g.items(fmt.Sprintf("pf%d", i), -1, 1, false, 2)
				}
			}
			g.inContent--
		}
		// components first (innermost budget use is fine: every part draws from the same budget)
		g.usesK = map[string]bool{}
		for i := nComps - 1; i >= 0; i-- {
			name := g.comps[i]
			if indexOf(g.twins, name) < 0 && g.budget > 0 && rapid.IntRange(0, 3).Draw(t, "bare"+name) == 0 {
				c.Comps[name] = g.bare(name)
				c.Bare = append(c.Bare, name)
				continue
			}
			c.Comps[name] = g.items("c"+name, i, 1, false, 3)
		}
		// layouts
		chain := layoutOrder[:nLay]
		for i := nLay - 1; i >= 0; i-- {
			l := Layout{}
			if i+1 < nLay {
				l.Next = chain[i+1]
			} else if rapid.Bool().Draw(t, "doc") {
				l.Doc = true
				if g.budget > 0 && rapid.Bool().Draw(t, "head") {
					g.budget--
					l.Head = []Item{{K: "once", M: g.id(), Tag: rapid.SampledFrom([]string{"style", "script", "link"}).Draw(t, "headtag"), Sp: rapid.IntRange(0, len(spellings)-1).Draw(t, "headsp"), At: g.at}}
				}
			}
			g.inLayout = true
			l.Before = g.items("lb"+chain[i], -1, 1, false, 2)
			l.After = g.items("la"+chain[i], -1, 1, false, 2)
			g.inLayout = false
			c.Layouts[chain[i]] = l
		}
		if hasBase {
			l := Layout{Doc: rapid.Bool().Draw(t, "basedoc")}
			if l.Doc && g.budget > 0 && rapid.Bool().Draw(t, "basehead") {
				g.budget--
				l.Head = []Item{{K: "once", M: g.id(), Tag: rapid.SampledFrom([]string{"style", "script", "link"}).Draw(t, "baseheadtag"), Sp: rapid.IntRange(0, len(spellings)-1).Draw(t, "baseheadsp"), At: g.at}}
			}
			g.inLayout = true
			l.After = g.items("base", -1, 1, false, 3)
			g.inLayout = false
			c.Layouts["base"] = l
		}
		for i := 0; i < nPages; i++ {
			clearShorthand(phs[i][0])
			clearShorthand(phs[i][1])
			p := Page{Items: g.items(fmt.Sprintf("p%d", i), -1, 0, false, 4), Ph: phs[i][0], Pf: phs[i][1]}
			if nLay > 0 && rapid.IntRange(0, 3).Draw(t, "haslayout") > 0 {
				p.Layout = chain[rapid.IntRange(0, nLay-1).Draw(t, "layout")]
			}
			c.Pages = append(c.Pages, p)
		}
		if g.budget > 0 {
			// the site always has a marked element: spend what is left at the end of page 0
			c.Pages[0].Items = append(c.Pages[0].Items, Item{K: "once", M: g.id(), Tag: rapid.SampledFrom(leafTags).Draw(t, "lasttag"), At: g.at})
		}
		// every component is included from somewhere (otherwise its marked elements are dead weight)
		used := map[string]bool{}
		var mark func(items []Item)
		mark = func(items []Item) {
			for _, it := range items {
				if it.K == "inc" {
					used[it.Comp] = true
				}
				mark(it.Kids)
				mark(it.Named)
			}
		}
		for _, p := range c.Pages {
			mark(p.Items)
			mark(p.Ph)
			mark(p.Pf)
		}
		for _, n := range layoutOrder {
			l := c.Layouts[n]
			mark(l.Before)
			mark(l.After)
		}
		for _, n := range g.comps {
			mark(c.Comps[n])
		}
		for _, n := range g.comps {
			if !used[n] {
				k := rapid.IntRange(0, nPages-1).Draw(t, "orphan"+n)
				orphan := Item{K: "inc", Comp: n}
				if g.usesK[n] {
					orphan.Kp = rapid.IntRange(1, 2).Draw(t, "orphankp"+n)
				}
				c.Pages[k].Items = append(c.Pages[k].Items, orphan)
			}
		}
		// include tags drawn before their component was (handed-on slot templates) still owe it the prop
		owed := 0
		var fix func(items []Item)
		fix = func(items []Item) {
			for i := range items {
				if items[i].K == "inc" && items[i].Kp == 0 && g.usesK[g.base(items[i].Comp)] {
					owed++
					items[i].Kp = 1 + owed%2
				}
				fix(items[i].Kids)
				fix(items[i].Named)
			}
		}
		for i := range c.Pages {
			fix(c.Pages[i].Items)
			fix(c.Pages[i].Ph)
			fix(c.Pages[i].Pf)
		}
		for _, n := range layoutOrder {
			if l, ok := c.Layouts[n]; ok {
				fix(l.Before)
				fix(l.After)
			}
		}
		for _, n := range g.comps {
			fix(c.Comps[n])
		}
		// every page is rendered at least once, then arbitrary further steps
		if rapid.IntRange(0, 2).Draw(t, "plain") == 0 {
			// a PLAIN version (no marked element) that page files can be rewritten with
			c.Pages = append(c.Pages, Page{Layout: c.Pages[0].Layout})
		}
		nSteps := rapid.IntRange(nPages, 9).Draw(t, "steps")
		for i := 0; i < nSteps; i++ {
			s := Step{P: i, Entry: rapid.SampledFrom(entries).Draw(t, "entry")}
			if i >= nPages {
				s.P = rapid.IntRange(0, nPages-1).Draw(t, "p")
			}
			if stringy(s.Entry) && rapid.IntRange(0, 2).Draw(t, "on?") == 0 {
				on := []string{pageName(0), pageName(nPages - 1)}
				for _, n := range g.comps {
					on = append(on, "components/"+n+".vuego")
				}
				s.On = rapid.SampledFrom(on).Draw(t, "on")
			}
			if stringy(s.Entry) && s.On == "" && rapid.Bool().Draw(t, "keep") {
				s.Keep = true
			}
			if rapid.IntRange(0, 3).Draw(t, "boom?") == 0 {
				s.Boom = boomFor(rapid.IntRange(0, len(booms)-1).Draw(t, "boom"), s.Entry)
			}
			if i >= nPages && !pgTargets(&c)[s.P] && rapid.IntRange(0, 6).Draw(t, "op?") == 0 {
				// a site change instead of a render: another version of the page file, or a broken one
				s = Step{P: s.P, Op: rapid.SampledFrom([]string{"put", "put", "break", "remove"}).Draw(t, "op")}
				if s.Op == "put" {
					s.Src = rapid.IntRange(0, len(c.Pages)-1).Draw(t, "src")
				}
			}
			c.Steps = append(c.Steps, s)
		}
		avoidKnown(rec, &c, openRoot, openTail)
		return c
	}
}

// ---------------------------------------------------------------------------------------------

// manySizes: the number of distinct marked elements written in ONE template file (boundary sizes of
// one / two decimal digits, one / two hex digits, a byte; 1000 in the thorough tier only). Every
// element carries its own marker and must be emitted exactly once per render, however many there are.
var manySizes = []int{1, 9, 10, 11, 99, 100, 101, 255, 256, 257, 300}

var manyLocs = []string{"page", "comp", "layout", "string"}

// manyCase is a site whose file at loc (a page, a component included twice, a layout around the
// page, the page body handed in as a string) holds size distinct marked elements; most are plain
// leaves, some sit in a plain wrapper or in a loop wrapper (emitted in the first iteration only).
func manyCase(size int, loc string, v int) Case {
	var items []Item
	next := size
	for i := 1; i <= size; i++ {
		it := Item{K: "once", M: i, Tag: leafTags[(i+v)%len(leafTags)], Sp: (i + v) % len(spellings)}
		switch {
		case (i+v)%16 == 7:
			next++
			items = append(items, Item{K: "for", M: next, N: 2, Kids: []Item{it}})
		case (i+v)%10 == 3:
			next++
			items = append(items, Item{K: "div", M: next, Kids: []Item{it}})
		default:
			items = append(items, it)
		}
	}
	c := Case{Pages: []Page{{}}}
	es := []string{"load", "vue", "frag", "file", "nodes", "view", "assign", "lnodes"}
	switch loc {
	case "page":
		c.Pages[0].Items = items
	case "string":
		c.Pages[0].Items = items
		es = []string{"string", "byte", "reader", "xnodes"}
	case "comp":
		c.Comps = map[string][]Item{"A": items}
		c.Pages[0].Items = []Item{{K: "inc", Comp: "A"}, {K: "inc", Comp: "A"}}
		es = entries
	case "layout":
		c.Layouts = map[string]Layout{"l1": {Before: items[:len(items)/2], After: items[len(items)/2:]}}
		c.Pages[0].Layout = "l1"
		es = []string{"load", "file", "view", "assign"}
	}
	e, e2 := es[v%len(es)], es[(v+1)%len(es)]
	c.Steps = []Step{{P: 0, Entry: e, Keep: stringy(e)}, {P: 0, Entry: e, Keep: stringy(e)}, {P: 0, Entry: e2}}
	return c
}

func replay(kind string, raw json.RawMessage) error {
	return run.Decode(raw, check)
}

func TestProp(t *testing.T) {
	rec := ev.New(prop)
	defer run.Finish(t, rec)
	run.Witnesses(rec, prop, replay)

	known := kf.Load()
	openRoot, openTail := known.Open(findSoleRoot), known.Open(findElseTail)
	shard, shards := run.Shard()
	// many marked elements in one file: every boundary size x location in thorough; in quick always the
	// sizes beyond a byte (257, 300) in every location, plus one rotating smaller size per location
	{
		nm := 0
		for li, loc := range manyLocs {
			sizes := []int{257, 300, manySizes[(li*3+shard)%9]}
			if run.Thorough() {
				sizes = append(append([]int{}, manySizes...), 1000)
			}
			for si, size := range sizes {
				nm++
				if nm%shards != shard {
					continue
				}
				c := manyCase(size, loc, li+si+shard)
				nt, cls := classify(c)
				cls = append(cls, fmt.Sprintf("many@%s", loc), fmt.Sprintf("many=%d", size))
				if !run.Each(rec, "many", c, nt, cls, check) {
					return
				}
			}
		}
	}
	// exhaustive: every choice of 1..k slots of the universe site x parameter sets x entry histories
	params := []uparams{
		{2, 2, 2, "none", 0, 1, 1, 6, 1}, {0, 1, 3, "l1", 1, 2, 2, 8, 3}, {3, 0, 1, "l1-l2", 2, 1, 3, 1, 2}, {1, 3, 2, "base", 3, 2, 1, 9, 4},
	}
	maxFill := 2
	if run.Thorough() {
		maxFill = 3
		params = nil
		ns := [][3]int{{2, 2, 2}, {0, 1, 3}, {3, 0, 1}, {1, 3, 2}}
		for i, ch := range []string{"none", "l1", "l1-l2", "base"} {
			// two of the four loop/include settings per chain, so that each setting meets two chains
			for _, n := range [][3]int{ns[i%4], ns[(i+1)%4]} {
				params = append(params, uparams{n[0], n[1], n[2], ch, len(params) % len(spellings), 1 + len(params)%3, 1 + len(params)%(len(idAttrs)-1), len(params) % twinStyles, len(params) % len(leads)})
			}
		}
	}
	n, ok := 0, true
enum:
	for _, p := range params {
		for j, fill := range subsets(universeSlots(p), maxFill) {
			// one marked element: all 9 entry histories; two: 2 of them (thorough 3); three: 2 - rotating, so that
			// every entry meets every kind of filling
			ne := len(entries)
			ks := make([]int, ne)
			for i := range ks {
				ks[i] = i
			}
			switch len(fill) {
			case 2:
				ks = []int{j % ne, (j + 4) % ne}
				if run.Thorough() {
					ks = append(ks, (j+7)%ne)
				}
			case 3:
				ks = []int{j % ne, (j + 5) % ne}
			}
			type hk struct {
				k        int
				versions bool
			}
			var hs []hk
			for i, k := range ks {
				// sites with several marked elements: the second history is the file-versions one when
				// its entry reads the file
				hs = append(hs, hk{k, len(fill) > 1 && i == 1 && fileBased(entries[k%ne])})
			}
			if len(fill) == 1 {
				for k, e := range entries {
					if fileBased(e) {
						hs = append(hs, hk{k, true})
					}
				}
			}
			for _, h := range hs {
				k := h.k
				n++
				if n%shards != shard {
					continue
				}
				c := universe(fill, p)
				c.Steps = historyFor(k, len(fill) > 1 && !run.Thorough())
				if h.versions {
					c.Steps = versionsHistory(k)
				}
				avoidKnown(rec, &c, openRoot, openTail)
				nt, cls := classify(c)
				if !run.Each(rec, "enum", c, nt, cls, check) {
					ok = false
					break enum
				}
			}
		}
	}
	if ok {
		rec.Exhaustive(fmt.Sprintf("universe site: every choice of 1..%d of its slots x %d parameter sets x all/2(thorough 3)/2 of the entry histories for 1/2/3 filled slots, plus file-version histories (%d cases)", maxFill, len(params), n))
	}

	run.Rapid(t, rec, "random", genCase(rec, openRoot, openTail), classify, check)
}

func TestReplay(t *testing.T) { run.ReplayMain(t, prop, replay) }
