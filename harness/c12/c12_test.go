// Package c12 decides C12: output is all-or-nothing and writer failures are reported.
// Fault enumeration: every Template entry point x catalogue programs (succeeding and failing,
// failure early/late/in loop/include/layout, plus failures injected into any file) x a writer
// failing at every byte offset x a cancelled context.
package c12

import (
	"bufio"
	"bytes"
	"context"
	"encoding/json"
	"errors"
	"fmt"
	"io"
	"os"
	"regexp"
	"sort"
	"strings"
	"testing"
	"testing/iotest"
	"time"
	"verif/internal/after"

	"github.com/titpetric/vuego"
	xhtml "golang.org/x/net/html"
	"pgregory.net/rapid"

	"verif/internal/cat"
	"verif/internal/compose"
	"verif/internal/ev"
	"verif/internal/fw"
	"verif/internal/hx"
	"verif/internal/run"
	"verif/internal/vals"
)

const prop = "C12"

// Case selects a program, an entry point and a fault.
type Case struct {
	// Gen, when set, is a generated composition program used instead of a catalogue program.
	Gen        *compose.Case `json:"gen,omitempty"`
	Prog       string        `json:"prog"`
	Entry      string        `json:"entry"`
	Dest       string        `json:"dest,omitempty"` // kind of destination writer, see dests ("" = a plain capturing io.Writer)
	Mode       string        `json:"mode"`           // "ref" | "failat" | "cancel" | "deadline" | "failnth" | "refuse" | "cancelmid" | "procfail"
	K          int           `json:"k,omitempty"`
	ErrKind    string        `json:"err_kind,omitempty"`    // identity of the writer's error (fw.ErrKinds), failat only
	InjectFile string        `json:"inject_file,omitempty"` // inject a failing expression into this file
	InjectEnd  bool          `json:"inject_end,omitempty"`
}

const injected = `<p>{{ who | boom }}</p>`

func program(c Case) (cat.Program, error) {
	if c.Gen != nil {
		return c.Gen.Program("generated"), nil
	}
	if c.Prog == "plain-text" {
		// a template without any markup, mustache or special character
		return cat.Program{Name: "plain-text", Files: map[string]string{"page.vuego": "just plain words\nsecond line of plain words"}, Feat: []string{"plain"}}, nil
	}
	if c.Prog == "big-inline" {
		// an inline template whose output (about 100 KB) is larger than a 64 KiB buffer
		return cat.Program{Name: "big-inline", Files: map[string]string{
			"page.vuego": `<ul>` + strings.Repeat(`<li class="r">row {{ who }}</li>`, 3000) + `</ul><i data-m="end">END</i>`,
		}, Data: map[string]vals.V{"who": vals.Str("W")}, Feat: []string{"deep", "big"}}, nil
	}
	if c.Prog == "huge-inline" {
		// an inline template larger than any internal buffer or read limit (about 1.5 MB)
		return cat.Program{Name: "huge-inline", Files: map[string]string{
			"page.vuego": `<ul>` + strings.Repeat(`<li class="r">row {{ who }}</li>`, 45000) + `</ul><i data-m="end">END</i>`,
		}, Data: map[string]vals.V{"who": vals.Str("W")}, Feat: []string{"deep", "huge"}}, nil
	}
	p, ok := cat.ByName(c.Prog)
	if !ok {
		return p, fmt.Errorf("unknown program %q", c.Prog)
	}
	if c.InjectFile != "" {
		src, ok := p.Files[c.InjectFile]
		if !ok {
			return p, fmt.Errorf("program %s has no file %s", c.Prog, c.InjectFile)
		}
		files := map[string]string{}
		for k, v := range p.Files {
			files[k] = v
		}
		fm, body := "", src
		if strings.HasPrefix(src, "---\n") {
			if i := strings.Index(src[4:], "\n---\n"); i >= 0 {
				fm, body = src[:4+i+5], src[4+i+5:]
			}
		}
		if c.InjectEnd {
			// keep a full document's closing tags last
			if j := strings.LastIndex(body, "</template>"); j >= 0 && strings.HasPrefix(body, "<template") {
				// a component whose root is <template>: only the root's children are evaluated
				body = body[:j] + injected + body[j:]
			} else if j := strings.Index(body, "</body>"); j >= 0 {
				body = body[:j] + injected + body[j:]
			} else {
				body += injected
			}
		} else if j := strings.Index(body, ">"); j >= 0 && strings.HasPrefix(body, "<template") {
			body = body[:j+1] + injected + body[j+1:]
		} else if j := strings.Index(body, "<body>"); j >= 0 {
			body = body[:j+6] + injected + body[j+6:]
		} else {
			body = injected + body
		}
		files[c.InjectFile] = fm + body
		p.Files = files
		p.Fails = true
	}
	return p, nil
}

func check(c Case) error {
	if c.Gen != nil && compose.TooLarge(*c.Gen) {
		return nil // expands to megabytes of output: outside this family's budget
	}
	p, err := program(c)
	if err != nil {
		return err
	}
	if !p.Applicable(c.Entry) {
		return nil
	}
	ctx := context.Background()
	switch c.Mode {
	case "cancel":
		cctx, cancel := context.WithCancel(ctx)
		cancel()
		w := newSink(c.Dest)
		err := p.Run(cctx, c.Entry, w.W)
		if err == nil {
			return fmt.Errorf("%s/%s: context cancelled before the call but render returned nil (wrote %d bytes)", c.Prog, c.Entry, len(w.Got()))
		}
		if len(w.Got()) != 0 {
			return fmt.Errorf("%s/%s: cancelled render returned %v but had written %d bytes: %q", c.Prog, c.Entry, err, len(w.Got()), w.Got())
		}
		return nil
	case "deadline":
		// a context that is done because its deadline passed (not because cancel was called)
		var cctx context.Context
		var cancel context.CancelFunc
		if c.K%2 == 0 {
			cctx, cancel = context.WithDeadline(ctx, time.Unix(1, 0))
		} else {
			cctx, cancel = context.WithTimeout(ctx, -time.Second)
		}
		defer cancel()
		w := newSink(c.Dest)
		err := p.Run(cctx, c.Entry, w.W)
		if err == nil {
			return fmt.Errorf("%s/%s: the context's deadline had passed before the call but render returned nil (wrote %d bytes)", c.Prog, c.Entry, len(w.Got()))
		}
		if len(w.Got()) != 0 {
			return fmt.Errorf("%s/%s: render with an expired context returned %v but had written %d bytes: %q", c.Prog, c.Entry, err, len(w.Got()), w.Got())
		}
		return nil
	case "procfail":
		// a registered node processor rejects the evaluated document (PostProcess, K < 2) or the
		// parsed template (PreProcess, K >= 2) because of an element placed first (K even) or
		// last (K odd) in the page: an error is returned and nothing is written
		if p.Fails {
			return nil
		}
		q := p
		q.Files = map[string]string{}
		for k, v := range p.Files {
			q.Files[k] = v
		}
		page := q.Files["page.vuego"]
		fm, body := "", page
		if strings.HasPrefix(page, "---\n") {
			if i := strings.Index(page[4:], "\n---\n"); i >= 0 {
				fm, body = page[:4+i+5], page[4+i+5:]
			}
		}
		hook := `<p data-procfail="1">rejected</p>`
		if c.K%2 == 0 {
			if j := strings.Index(body, "<body>"); j >= 0 {
				body = body[:j+6] + hook + body[j+6:]
			} else {
				body = hook + body
			}
		} else if j := strings.Index(body, "</body>"); j >= 0 {
			body = body[:j] + hook + body[j:]
		} else {
			body += hook
		}
		q.Files["page.vuego"] = fm + body
		w := newSink(c.Dest)
		opts := []vuego.LoadOption{vuego.WithFuncs(cat.Funcs()), vuego.WithProcessor(&rejecting{pre: c.K >= 2})}
		for _, o := range q.Opts {
			if o == "components" {
				opts = append(opts, vuego.WithComponents())
			}
		}
		err := q.RunOn(ctx, vuego.NewFS(q.Mount(q.FS()), opts...), c.Entry, w.W)
		if err == nil {
			return fmt.Errorf("%s/%s: the registered processor rejected the document but render returned nil", c.Prog, c.Entry)
		}
		if len(w.Got()) != 0 {
			return fmt.Errorf("%s/%s: the registered processor rejected the document (%v) but %d bytes had already been written: %q", c.Prog, c.Entry, err, len(w.Got()), w.Got())
		}
		return nil
	case "ref":
		w := newSink(c.Dest)
		err := p.Run(ctx, c.Entry, w.W)
		if p.Fails {
			if err == nil {
				return fmt.Errorf("%s/%s: program must fail but render returned nil", c.Prog, c.Entry)
			}
			if len(w.Got()) != 0 {
				return fmt.Errorf("%s/%s: render returned error %q but had already written %d bytes: %q", c.Prog, c.Entry, err, len(w.Got()), w.Got())
			}
			return nil
		}
		if err != nil {
			return fmt.Errorf("%s/%s: program must succeed, got %v", c.Prog, c.Entry, err)
		}
		return complete(p, string(w.Got()))
	case "failat":
		if p.Fails {
			return nil
		}
		var ref bytes.Buffer
		if err := p.Run(ctx, c.Entry, &ref); err != nil {
			return fmt.Errorf("%s/%s: reference render failed: %v", c.Prog, c.Entry, err)
		}
		if err := complete(p, ref.String()); err != nil {
			return err
		}
		k := c.K
		if k > ref.Len() {
			k = ref.Len()
		}
		w := &fw.FailAt{K: k, Err: fw.ErrOf(c.ErrKind)}
		err := p.Run(ctx, c.Entry, stringWriter(c.Dest, w))
		if k < ref.Len() {
			if err == nil {
				return fmt.Errorf("%s/%s: destination writer failed after %d of %d bytes (in write call %d) but render returned nil", c.Prog, c.Entry, k, ref.Len(), w.Writes)
			}
			return nil
		}
		if err != nil {
			return fmt.Errorf("%s/%s: writer accepted the whole document but render returned %v", c.Prog, c.Entry, err)
		}
		if !bytes.Equal(w.Got, ref.Bytes()) {
			return fmt.Errorf("%s/%s: render returned nil but writer got %d bytes, reference has %d", c.Prog, c.Entry, len(w.Got), ref.Len())
		}
		return nil
	case "failnth", "refuse":
		// a destination that fails once (the K-th write call) or refuses writes larger than K
		// bytes, and works otherwise: the failure it reported must still surface
		if p.Fails {
			return nil
		}
		var ref bytes.Buffer
		if err := p.Run(ctx, c.Entry, &ref); err != nil {
			return fmt.Errorf("%s/%s: reference render failed: %v", c.Prog, c.Entry, err)
		}
		var failed bool
		var err error
		var got []byte
		if c.Mode == "failnth" {
			w := &fw.FailNth{N: c.K}
			err = p.Run(ctx, c.Entry, stringWriter(c.Dest, w))
			failed, got = w.Failed, w.Got
		} else {
			w := &fw.RefuseLarge{Max: c.K}
			err = p.Run(ctx, c.Entry, stringWriter(c.Dest, w))
			failed, got = w.Failed, w.Got
		}
		if failed && err == nil {
			return fmt.Errorf("%s/%s: the destination writer reported a failure (%s, k=%d) but render returned nil; the writer holds %d of %d bytes", c.Prog, c.Entry, c.Mode, c.K, len(got), ref.Len())
		}
		if !failed {
			if err != nil {
				return fmt.Errorf("%s/%s: writer never failed but render returned %v", c.Prog, c.Entry, err)
			}
			if !bytes.Equal(got, ref.Bytes()) {
				return fmt.Errorf("%s/%s: render returned nil but the writer got %d bytes, reference has %d", c.Prog, c.Entry, len(got), ref.Len())
			}
		}
		return nil
	case "afterfail":
		// failed and aborted calls first - in the process (pools) and, for odd K, on the very
		// base template the program is then rendered from (its stack, remembered error,
		// buffers): the render under test returns nil and the writer receives exactly the
		// document a fresh engine produces
		if p.Fails {
			return nil
		}
		var ref bytes.Buffer
		if err := p.Run(ctx, c.Entry, &ref); err != nil {
			return fmt.Errorf("%s/%s: reference render failed: %v", c.Prog, c.Entry, err)
		}
		// every identifier the program's files mention: data keys and, more telling, names the
		// templates read WITHOUT the data defining them (a stale binding shows there)
		seen := map[string]bool{}
		for k := range p.GoData() {
			seen[k] = true
		}
		for _, src := range p.Files {
			for _, id := range identRe.FindAllString(src, -1) {
				if len(seen) < 80 {
					seen[id] = true
				}
			}
		}
		var names []string
		for k := range seen {
			names = append(names, k)
		}
		sort.Strings(names)
		root := p.Engine(p.FS())
		after.Poison(names)
		if c.K%2 == 1 {
			after.FailOn(root, names)
		}
		w := newSink(c.Dest)
		runIt := func() error { return p.RunOn(ctx, root, c.Entry, w.W) }
		if c.K%4 == 3 {
			// the failed calls are made on the very template object that renders the page
			runIt = func() error {
				d := p.GoData()
				var t vuego.Template
				if c.Entry == "load" {
					t = root.Load("page.vuego").Fill(d)
				} else {
					t = root.New().Fill(d)
				}
				after.FailOn(t, names)
				switch c.Entry {
				case "load":
					return t.Render(ctx, w.W)
				case "file":
					return t.RenderFile(ctx, w.W, "page.vuego")
				case "string":
					return t.RenderString(ctx, w.W, p.Files["page.vuego"])
				case "byte":
					return t.RenderByte(ctx, w.W, []byte(p.Files["page.vuego"]))
				}
				return t.RenderReader(ctx, w.W, strings.NewReader(p.Files["page.vuego"]))
			}
		}
		if err := runIt(); err != nil {
			return fmt.Errorf("%s/%s: after failed and aborted calls (on other engines%s) the render returned %v; alone it succeeds", c.Prog, c.Entry, map[bool]string{true: " and on the same base template", false: ""}[c.K%2 == 1], err)
		}
		if got := w.Got(); !bytes.Equal(got, ref.Bytes()) {
			return fmt.Errorf("%s/%s: after failed and aborted calls (on other engines%s) the render returned nil but the writer got %d bytes that differ from the %d bytes a fresh engine writes (stale marker %q)\n--- got: %.600s\n--- fresh: %.600s", c.Prog, c.Entry, map[bool]string{true: " and on the same base template", false: ""}[c.K%2 == 1], len(got), ref.Len(), after.Leaked(string(got)), got, ref.Bytes())
		}
		return nil
	case "fullcount":
		// a destination that takes every byte (full count) but reports an error on the write
		// that reaches offset K: the failure it reported has to surface
		if p.Fails {
			return nil
		}
		w := &fw.FullCount{K: c.K}
		err := p.Run(ctx, c.Entry, stringWriter(c.Dest, w))
		if w.Failed && err == nil {
			return fmt.Errorf("%s/%s: the destination writer reported a failure together with a full byte count (offset %d) but render returned nil", c.Prog, c.Entry, c.K)
		}
		if !w.Failed && err != nil {
			return fmt.Errorf("%s/%s: writer never failed but render returned %v", c.Prog, c.Entry, err)
		}
		return nil
	case "closedfile":
		// a real *os.File that has been closed: every write fails with os.ErrClosed
		if p.Fails {
			return nil
		}
		f, err := os.CreateTemp("", "c12-closed-*")
		if err != nil {
			return nil
		}
		name := f.Name()
		f.Close()
		defer os.Remove(name)
		if err := p.Run(ctx, c.Entry, f); err == nil {
			return fmt.Errorf("%s/%s: the destination *os.File was closed (every write fails) but render returned nil", c.Prog, c.Entry)
		}
		return nil
	case "badreader":
		// RenderReader is given a source that fails after K bytes with an error that is not
		// io.EOF (a network stream that resets): either an error and nothing written, or nil
		// and the complete document - never nil with the document of a truncated template
		if p.Fails || p.FileOnly {
			return nil
		}
		var ref bytes.Buffer
		if err := p.Run(ctx, "reader", &ref); err != nil {
			return fmt.Errorf("%s/reader: reference render failed: %v", c.Prog, err)
		}
		src := p.Files["page.vuego"]
		k := c.K
		if k >= len(src) {
			k = len(src) - 1
		}
		if k < 0 {
			return nil
		}
		w := newSink(c.Dest)
		var rd io.Reader = io.MultiReader(strings.NewReader(src[:k]), failingReader{})
		if c.ErrKind == "onebyte" {
			rd = iotest.OneByteReader(rd)
		}
		err := p.Engine(p.FS()).New().Fill(p.GoData()).RenderReader(ctx, w.W, rd)
		if err != nil {
			if len(w.Got()) != 0 {
				return fmt.Errorf("%s: the template source failed after %d of %d bytes: RenderReader returned %v but had written %d bytes: %q", c.Prog, k, len(src), err, len(w.Got()), w.Got())
			}
			return nil
		}
		if !bytes.Equal(w.Got(), ref.Bytes()) {
			return fmt.Errorf("%s: the template source failed after %d of %d bytes (a read error that is not io.EOF) but RenderReader returned nil; the writer got %d bytes, the complete document has %d\n--- got: %.300s", c.Prog, k, len(src), len(w.Got()), ref.Len(), w.Got())
		}
		return nil
	case "cancelmid":
		// the context is live at the call and cancelled DURING evaluation (by a template
		// function): either nothing is written and an error is returned, or the complete
		// document is written and nil is returned
		if p.Fails {
			return nil
		}
		cctx, cancel := context.WithCancel(ctx)
		defer cancel()
		q := p
		q.Files = map[string]string{}
		for k, v := range p.Files {
			q.Files[k] = v
		}
		page := q.Files["page.vuego"]
		fm, body := "", page
		if strings.HasPrefix(page, "---\n") {
			if i := strings.Index(page[4:], "\n---\n"); i >= 0 {
				fm, body = page[:4+i+5], page[4+i+5:]
			}
		}
		hook := `<p>{{ who | cancelnow }}</p>`
		if c.K%2 == 0 {
			body = hook + body
		} else if j := strings.Index(body, "</body>"); j >= 0 {
			body = body[:j] + hook + body[j:]
		} else {
			body += hook
		}
		q.Files["page.vuego"] = fm + body
		w := newSink(c.Dest)
		opts := []vuego.LoadOption{vuego.WithFuncs(cat.Funcs()), vuego.WithFuncs(vuego.FuncMap{"cancelnow": func(v any) any { cancel(); return v }})}
		for _, o := range q.Opts {
			if o == "components" {
				opts = append(opts, vuego.WithComponents())
			}
		}
		err := q.RunOn(cctx, vuego.NewFS(q.Mount(q.FS()), opts...), c.Entry, w.W)
		if err != nil && len(w.Got()) != 0 {
			return fmt.Errorf("%s/%s: context cancelled during evaluation: render returned %v after writing %d bytes", c.Prog, c.Entry, err, len(w.Got()))
		}
		if err == nil {
			return complete(q, string(w.Got()))
		}
		return nil
	}
	return fmt.Errorf("unknown mode %q", c.Mode)
}

// stringWriter gives a failing destination a WriteString method of its own when the case asks for
// it (Dest "sw"): *os.File, *bufio.Writer and most http.ResponseWriters have one, and
// io.WriteString calls it instead of Write.
func stringWriter(dest string, w io.Writer) io.Writer {
	if dest == "sw" {
		return fw.SW{W: w}
	}
	return w
}

// deepProg reports whether a catalogue program is one of the long, deeply nested ones.
func deepProg(p cat.Program) bool {
	for _, f := range p.Feat {
		if f == "deep" {
			return true
		}
	}
	return false
}

// failingReader fails every Read with an error that is not io.EOF.
type failingReader struct{}

func (failingReader) Read([]byte) (int, error) { return 0, errors.New("source stream reset") }

var identRe = regexp.MustCompile(`[A-Za-z_][A-Za-z0-9_]{1,20}`)

// sink is the destination writer of a case together with a way to read what reached it.
type sink struct {
	W   io.Writer
	get func() []byte
}

// Got returns the bytes the render call wrote to the destination.
func (s sink) Got() []byte { return s.get() }

// dests: the kinds of destination writer. The guarantee is about any io.Writer; the common
// concrete types are used too, because a render method can recognise them.
var dests = []string{"", "buffer", "buffer-pre", "builder", "bufio"}

func newSink(kind string) sink {
	switch kind {
	case "buffer":
		b := &bytes.Buffer{}
		return sink{b, b.Bytes}
	case "buffer-pre":
		// a buffer that already holds the caller's bytes, which have to survive
		b := bytes.NewBufferString("PRE")
		return sink{b, func() []byte {
			if !bytes.HasPrefix(b.Bytes(), []byte("PRE")) {
				return []byte("(the bytes the caller's buffer held before the call are gone) " + b.String())
			}
			return b.Bytes()[3:]
		}}
	case "builder":
		b := &strings.Builder{}
		return sink{b, func() []byte { return []byte(b.String()) }}
	case "bufio":
		c := &fw.Capture{}
		bw := bufio.NewWriter(c)
		return sink{bw, func() []byte { bw.Flush(); return c.Got }}
	}
	c := &fw.Capture{}
	return sink{c, func() []byte { return c.Got }}
}

// rejecting is a node processor that fails when the nodes it is given contain an element
// carrying data-procfail (in PreProcess when pre is set, otherwise in PostProcess).
type rejecting struct{ pre bool }

func (r *rejecting) New() vuego.NodeProcessor { return &rejecting{pre: r.pre} }

func (r *rejecting) PreProcess(nodes []*xhtml.Node) error {
	if r.pre {
		return findRejected(nodes)
	}
	return nil
}

func (r *rejecting) PostProcess(nodes []*xhtml.Node) error {
	if !r.pre {
		return findRejected(nodes)
	}
	return nil
}

func findRejected(nodes []*xhtml.Node) error {
	for _, n := range nodes {
		for _, a := range n.Attr {
			if a.Key == "data-procfail" {
				return fmt.Errorf("processor: element <%s data-procfail> rejected", n.Data)
			}
		}
		var kids []*xhtml.Node
		for c := n.FirstChild; c != nil; c = c.NextSibling {
			kids = append(kids, c)
		}
		if err := findRejected(kids); err != nil {
			return err
		}
	}
	return nil
}

// complete checks that a successful render delivered the whole document: the END marker that
// every catalogue program carries as its last element is there.
func complete(p cat.Program, out string) error {
	if p.Name == "generated" {
		return nil // completeness of generated programs is checked against the reference bytes
	}
	if p.Name == "plain-text" {
		if !strings.Contains(out, "second line of plain words") {
			return fmt.Errorf("%s: render returned nil but the text is incomplete: %q", p.Name, out)
		}
		return nil
	}
	var tree []*hx.N
	var err error
	if strings.Contains(out, "</html>") {
		tree, err = hx.Doc(out, hx.Collapse)
	} else {
		tree, err = hx.Frag(out, hx.Collapse)
	}
	if err != nil {
		return err
	}
	ids := hx.MarkerIDs(tree)
	if len(ids) == 0 || ids[len(ids)-1] != "end" {
		return fmt.Errorf("%s: render returned nil but the document is incomplete (END marker missing): %q", p.Name, out)
	}
	return nil
}

func classify(c Case) (bool, []string) {
	cls := []string{"entry=" + c.Entry, "mode=" + c.Mode}
	p, _ := cat.ByName(c.Prog)
	if c.Gen != nil {
		cls = append(cls, "generated-program")
	}
	if p.Fails {
		cls = append(cls, "failing-program")
	}
	if c.ErrKind != "" {
		cls = append(cls, "writer-error="+c.ErrKind)
	}
	if c.Dest != "" && c.Mode != "failat" && c.Mode != "failnth" && c.Mode != "refuse" {
		cls = append(cls, "dest="+c.Dest)
	}
	if c.Dest == "sw" && (c.Mode == "failat" || c.Mode == "failnth" || c.Mode == "refuse") {
		cls = append(cls, "failing-writer-with-WriteString")
	}
	if c.InjectFile != "" {
		cls = append(cls, "injected-failure")
		if c.InjectFile != "page.vuego" {
			cls = append(cls, "injected-into-include-or-layout")
		}
	}
	for _, f := range p.Feat {
		cls = append(cls, "feat="+f)
	}
	return true, cls
}

func replay(kind string, raw json.RawMessage) error { return run.Decode(raw, check) }

func TestProp(t *testing.T) {
	rec := ev.New(prop)
	defer run.Finish(t, rec)
	run.Witnesses(rec, prop, replay)
	shard, shards := run.Shard()
	i := 0
	ok := true
	each := func(c Case) {
		i++
		if i%shards != shard {
			return
		}
		nt, cls := classify(c)
		if !run.Each(rec, "enum", c, nt, cls, check) {
			ok = false
		}
	}
	for _, p := range cat.All() {
		for _, e := range cat.Entries {
			if !p.Applicable(e) {
				continue
			}
			each(Case{Prog: p.Name, Entry: e, Mode: "ref"})
			// the other kinds of destination writer: failing programs, cancellation before and
			// during the call, a rejecting processor
			for di, d := range dests[1:] {
				if !run.Thorough() && (di+len(p.Name)+len(e))%2 != 0 {
					continue // quick: two of the four other destination kinds per (program, entry)
				}
				each(Case{Prog: p.Name, Entry: e, Mode: "ref", Dest: d})
				each(Case{Prog: p.Name, Entry: e, Mode: []string{"cancel", "deadline"}[di%2], Dest: d})
				if !p.Fails {
					each(Case{Prog: p.Name, Entry: e, Mode: "cancelmid", K: di, Dest: d})
					each(Case{Prog: p.Name, Entry: e, Mode: "procfail", K: di, Dest: d})
				}
			}
			each(Case{Prog: p.Name, Entry: e, Mode: "cancel"})
			each(Case{Prog: p.Name, Entry: e, Mode: "closedfile"})
			each(Case{Prog: p.Name, Entry: e, Mode: "afterfail", K: 0})
			each(Case{Prog: p.Name, Entry: e, Mode: "afterfail", K: 1, Dest: dests[(len(p.Name)+len(e))%len(dests)]})
			each(Case{Prog: p.Name, Entry: e, Mode: "afterfail", K: 3})
			for _, k := range []int{0, 1, 7, 40} {
				each(Case{Prog: p.Name, Entry: e, Mode: "fullcount", K: k})
			}
			each(Case{Prog: p.Name, Entry: e, Mode: "fullcount", K: 3, Dest: "sw"})
			each(Case{Prog: p.Name, Entry: e, Mode: "deadline", K: 0})
			each(Case{Prog: p.Name, Entry: e, Mode: "deadline", K: 1})
			if p.Fails {
				continue
			}
			// injected failures: every file, start and end
			for f := range p.Files {
				if (e == "string" || e == "byte" || e == "reader") && strings.HasPrefix(f, "layouts/") {
					continue
				}
				if !p.Reachable(f) {
					continue
				}
				each(Case{Prog: p.Name, Entry: e, Mode: "ref", InjectFile: f, InjectEnd: false})
				each(Case{Prog: p.Name, Entry: e, Mode: "ref", InjectFile: f, InjectEnd: true})
			}
			// writer failing at every offset
			var ref bytes.Buffer
			if err := p.Run(context.Background(), e, &ref); err != nil {
				continue // reported by the ref case
			}
			// (deeply nested programs are long and slow: every 53rd offset and the last 20)
			deep := false
			for _, f := range p.Feat {
				deep = deep || f == "deep"
			}
			for k := 0; k <= ref.Len(); k++ {
				if deep && k%53 != 0 && k < ref.Len()-20 {
					continue
				}
				each(Case{Prog: p.Name, Entry: e, Mode: "failat", K: k})
				if (k%5 == 0 && run.Thorough()) || k%11 == 0 || k >= ref.Len()-2 {
					each(Case{Prog: p.Name, Entry: e, Mode: "failat", K: k, Dest: "sw"})
				}
			}
			// transient failures: every single write call failing once; size limits
			cw := &fw.Capture{}
			_ = p.Run(context.Background(), e, cw)
			for k := 0; k < cw.Writes; k++ {
				if deep && k%11 != 0 && k < cw.Writes-5 {
					continue
				}
				each(Case{Prog: p.Name, Entry: e, Mode: "failnth", K: k})
			}
			for _, max := range []int{0, 1, 2, 3, 4, 6, 8, 12, 16, 24, 32, 48, 64, 128} {
				each(Case{Prog: p.Name, Entry: e, Mode: "refuse", K: max})
			}
			each(Case{Prog: p.Name, Entry: e, Mode: "cancelmid", K: 0})
			each(Case{Prog: p.Name, Entry: e, Mode: "cancelmid", K: 1})
			for k := 0; k < 4; k++ {
				each(Case{Prog: p.Name, Entry: e, Mode: "procfail", K: k})
			}
		}
	}
	// the other doors to the same renders: the *Vue methods (no context, no layouts), RenderNodes
	// over loaded nodes, View, Assign key by key, Fill before Load, New(WithFS(..)); and a
	// template SOURCE that fails part-way through RenderReader
	for _, p := range cat.All() {
		var doors []string
		doors = append(doors, cat.VueEntries...)
		doors = append(doors, cat.NodesEntry)
		doors = append(doors, cat.MoreEntries...)
		for di, e := range doors {
			if !p.Applicable(e) {
				continue
			}
			each(Case{Prog: p.Name, Entry: e, Mode: "ref"})
			if !run.Thorough() && (di+len(p.Name))%3 != 0 {
				continue // quick: the failing-writer sweep through a rotating third of the doors per program
			}
			each(Case{Prog: p.Name, Entry: e, Mode: "ref", Dest: dests[1+(len(p.Name)+len(e))%(len(dests)-1)]})
			if p.Fails {
				continue
			}
			var ref bytes.Buffer
			if err := p.Run(context.Background(), e, &ref); err != nil {
				continue // reported by the ref case
			}
			step := run.Pick(13, 2)
			for k := 0; k <= ref.Len(); k++ {
				if deepProg(p) && k%53 != 0 && k < ref.Len()-20 {
					continue
				}
				if k%step == (len(p.Name)+len(e))%step || k >= ref.Len()-2 {
					each(Case{Prog: p.Name, Entry: e, Mode: "failat", K: k, Dest: []string{"", "sw"}[k%2]})
				}
			}
			cw := &fw.Capture{}
			_ = p.Run(context.Background(), e, cw)
			for k := 0; k < cw.Writes; k += run.Pick(5, 1) {
				if deepProg(p) && k%11 != 0 {
					continue
				}
				each(Case{Prog: p.Name, Entry: e, Mode: "failnth", K: k})
			}
			for _, max := range []int{0, 3, 16, 64} {
				each(Case{Prog: p.Name, Entry: e, Mode: "refuse", K: max})
			}
			for _, k := range []int{0, 1, 7, 40} {
				each(Case{Prog: p.Name, Entry: e, Mode: "fullcount", K: k})
			}
			each(Case{Prog: p.Name, Entry: e, Mode: "closedfile"})
			if e != "vue" && e != "frag" && e != cat.NodesEntry {
				each(Case{Prog: p.Name, Entry: e, Mode: "cancel"})
				each(Case{Prog: p.Name, Entry: e, Mode: "deadline", K: len(e)})
			}
		}
		if !p.Fails && !p.FileOnly {
			src := p.Files["page.vuego"]
			step := run.Pick(9, 1)
			if deepProg(p) {
				step = run.Pick(211, 53)
			}
			for k := 0; k < len(src); k++ {
				if k%step == len(p.Name)%step || k < 3 || k >= len(src)-3 {
					each(Case{Prog: p.Name, Entry: "reader", Mode: "badreader", K: k, Dest: dests[k%len(dests)], ErrKind: []string{"", "onebyte"}[k%2]})
				}
			}
		}
	}
	for _, e := range cat.Entries {
		for _, m := range []string{"ref", "cancel", "deadline", "cancelmid"} {
			each(Case{Prog: "plain-text", Entry: e, Mode: m})
		}
		for k := 0; k <= 43; k += 6 {
			each(Case{Prog: "plain-text", Entry: e, Mode: "failat", K: k})
		}
		// the identity of the destination's error must not matter: catalogue pages failing with
		// "peer went away" style errors at a few offsets
		for ki, kind := range fw.ErrKinds[1:] {
			for _, prog := range []string{"plain", "layout-chain", "include-slot"} {
				pp, _ := cat.ByName(prog)
				if pp.Applicable(e) {
					each(Case{Prog: prog, Entry: e, Mode: "failat", K: []int{0, 1, 17, 60}[ki%4], ErrKind: kind})
					each(Case{Prog: prog, Entry: e, Mode: "failat", K: 5 + 3*ki, ErrKind: kind})
				}
			}
		}
		if e == "string" || e == "byte" || e == "reader" {
			each(Case{Prog: "huge-inline", Entry: e, Mode: "ref"})
			// output larger than a 64 KiB buffer, then a failure at the very end: nothing
			// may have reached the destination
			for di, d := range dests {
				each(Case{Prog: "big-inline", Entry: e, Mode: "cancelmid", K: 1, Dest: d})
				each(Case{Prog: "big-inline", Entry: e, Mode: "procfail", K: 1 + 2*(di%2), Dest: d})
			}
			each(Case{Prog: "big-inline", Entry: e, Mode: "cancelmid", K: 0})
			each(Case{Prog: "big-inline", Entry: e, Mode: "ref"})
		}
		if e == "reader" {
			each(Case{Prog: "huge-inline", Entry: e, Mode: "failat", K: 1_200_000})
		}
	}
	if ok {
		rec.Exhaustive(fmt.Sprintf("every catalogue program x Template entry point x {reference, cancelled context, expired deadline, context cancelled during evaluation, rejecting node processor (pre/post, first/last element), injected failure in every file at start/end, writer failing at every byte offset 0..len, every single write call failing once, size-limited writers} (%d cases)", i))
	}
	// generated composition programs (includes, slots, loops, chains) x file entry points x faults
	run.Rapid(t, rec, "generated", func(t *rapid.T) Case {
		g := compose.Gen(t)
		c := Case{Gen: &g, Prog: "generated", Entry: rapid.SampledFrom([]string{"load", "file"}).Draw(t, "entry"),
			Mode: rapid.SampledFrom([]string{"failat", "failat", "failnth", "refuse", "cancel", "deadline", "cancelmid", "procfail", "ref"}).Draw(t, "mode")}
		c.K = rapid.IntRange(0, 1500).Draw(t, "k")
		if c.Mode == "failnth" {
			c.K = rapid.IntRange(0, 200).Draw(t, "kw")
		}
		if c.Mode == "refuse" {
			c.K = rapid.IntRange(0, 64).Draw(t, "km")
		}
		if c.Mode == "failat" && rapid.Bool().Draw(t, "errkind?") {
			c.ErrKind = rapid.SampledFrom(fw.ErrKinds).Draw(t, "errkind")
		}
		return c
	}, classify, check)

	// random combination (keeps the rapid path and shrinking available for seeded changes)
	names := cat.Names()
	run.Rapid(t, rec, "random", func(t *rapid.T) Case {
		c := Case{Prog: rapid.SampledFrom(names).Draw(t, "prog"), Entry: rapid.SampledFrom(cat.Entries).Draw(t, "entry"), Mode: rapid.SampledFrom([]string{"ref", "failat", "cancel", "deadline", "failnth", "refuse", "cancelmid", "procfail", "fullcount", "closedfile", "afterfail"}).Draw(t, "mode")}
		c.K = rapid.IntRange(0, 700).Draw(t, "k")
		c.Dest = rapid.SampledFrom(dests).Draw(t, "dest")
		if (c.Mode == "failat" || c.Mode == "failnth" || c.Mode == "refuse" || c.Mode == "fullcount") && rapid.Bool().Draw(t, "sw") {
			c.Dest = "sw"
		}
		if c.Mode == "failat" && rapid.Bool().Draw(t, "errkind?") {
			c.ErrKind = rapid.SampledFrom(fw.ErrKinds).Draw(t, "errkind")
		}
		return c
	}, classify, check)
}

func TestReplay(t *testing.T) { run.ReplayMain(t, prop, replay) }
