// Package c11 decides C11: every render call returns — no panic, no unbounded recursion.
// Validity predicate: the call returned (output or error), no panic escaped, and the step budgets
// (file opens, bytes written, stack size) were respected. Three generators: mutated / random
// template sources, wrong-typed data in every directive position, include/layout graphs with
// every cycle shape.
package c11

import (
	"context"
	"encoding/json"
	"errors"
	"fmt"
	"net/url"
	"os"
	"regexp"
	"runtime/debug"
	"sort"
	"strings"
	"sync/atomic"
	"testing"
	"time"

	"github.com/titpetric/vuego"
	"pgregory.net/rapid"

	"verif/internal/cat"
	"verif/internal/ev"
	"verif/internal/fw"
	"verif/internal/memfs"
	"verif/internal/run"
	"verif/internal/vals"
)

const prop = "C11"

const openBudget = 500

// hostileBudget: mutated templates may legitimately combine a layout cycle (100 links) with
// loops and include chains (100 deep) - tens of thousands of opens; anything unbounded beyond
// that is caught by this budget or by the per-render time limit.
const hostileBudget = 40000

// hangAfter is the only clock in this check: a render of these tiny template sets (a few
// hundred bytes, at most a 100-deep include chain: < 0.5 s on an idle box) that has not returned
// after this long is reported as non-terminating. It exists for pure CPU loops that neither open
// files nor write output (e.g. a cyclic sibling list walked by the serialiser).
const hangAfter = 90 * time.Second

// hung is set once a case did not return; the spinning goroutine cannot be stopped, so the
// process winds down: later cases are skipped.
var hung atomic.Bool

const byteBudget = 32 << 20

func TestMain(m *testing.M) {
	// runaway recursion must end in a definite, fast "stack overflow" instead of eating memory
	debug.SetMaxStack(128 << 20)
	os.Exit(m.Run())
}

// Case: a file set, an entry point and data (described, or a named special value).
type Case struct {
	Files   map[string]string `json:"files"`
	Entry   string            `json:"entry"` // load | file | string | vue | frag
	Data    map[string]vals.V `json:"data,omitempty"`
	Budget  int               `json:"budget,omitempty"`  // open budget; 0 = openBudget
	Special string            `json:"special,omitempty"` // name of a non-describable value bound to "v" (or used as root with RootIsV)
	RootIsV bool              `json:"root_is_v,omitempty"`
	// Redo: after the first render the SAME engine renders again - with the files changed
	// underneath as named here - and a third time with the original files restored; every one
	// of the three calls has to return.
	Redo string `json:"redo,omitempty"`
	// Engine: "" = engine over the case's files; "nofs" = vuego.New() (no filesystem at all);
	// "nilfs" = vuego.NewFS(nil) / NewVue(nil); "less" = files + the LESS processor; "less-first" =
	// New(WithLessProcessor(), WithFS(..)) (processor set up before the file system is known);
	// "less-bare" = a NewLessProcessor() without file system registered by hand; "less-nofs" =
	// New(WithLessProcessor()) without any file system. Calls in an unusual order (Render without Load,
	// Load of a missing file, ...) are entries of their own: see misuseEntries.
	Engine string `json:"engine,omitempty"`
	// WantErr: the file set contains an include cycle that the page reaches unconditionally:
	// the statement promises an ERROR for it (not output cut off at the depth limit).
	WantErr bool `json:"want_err,omitempty"`
}

// misuseEntries: the Template API called in an order nobody intends; each call has to return.
var misuseEntries = []string{"noload", "noload-base", "noload-assign", "load-missing", "load-empty-name", "load-dir", "file-missing", "load-twice", "noload-file-after"}

// redos: what happens to the files between the first and the second render on one engine.
var redos = []string{"same", "delete-page", "delete-others", "delete-all", "garbage-page", "open-fails", "touch", "empty-page"}

// ---- special values that vals cannot describe

type qtyKey int

type langKey string

type cyc struct {
	Name string
	Next *cyc
	Kids []*cyc
	M    map[string]any
}

// cyclic typed data whose back reference crosses something other than a plain pointer field
type pageV struct {
	Title string
	Meta  metaV // by value
}
type metaV struct {
	Owner *pageV
	Tags  []string
}
type treeV struct {
	Name string
	Kids []nodeV // slice of structs by value
}
type nodeV struct {
	Label  string
	Parent *treeV
}
type ifaceC struct {
	Name string
	Any  any // interface holding the pointer
}
type InnerC struct{ Back *embC }
type embC struct {
	Name   string
	InnerC // embedded by value
}
type mapPtrC struct {
	Name   string
	ByName map[string]*mapPtrC
}
type arrC struct {
	Name string
	Pair [2]*arrC
}

// a struct that embeds a nil pointer: its promoted fields are reachable by name only through it
type BaseE struct {
	CreatedBy string
	ID        int
}
type prodE struct {
	*BaseE
	Title string `json:"title"`
}
type wrapE struct {
	Inner prodE // by value, inside it the nil embedded pointer
	Name  string
}

// Stringers that misbehave when String() is called directly (fmt recovers from these)
type valStringer struct{ s string }

func (v valStringer) String() string { return "V:" + v.s } // value receiver: a nil *valStringer panics

type withPriv struct {
	Name string
	priv string
	in   *withPriv
}

type stringer struct{ s string }

func (s stringer) String() string { return "S:" + s.s }

type panicker struct{}

func (panicker) String() string { panic("String() panics") }

func special(name string) any {
	switch name {
	case "cyclic-ptr":
		n := &cyc{Name: "n"}
		n.Next = n
		return n
	case "cyclic-2":
		a, b := &cyc{Name: "a"}, &cyc{Name: "b"}
		a.Next, b.Next = b, a
		a.Kids = []*cyc{b, a}
		return a
	case "cyclic-map":
		m := map[string]any{"name": "m"}
		m["self"] = m
		return m
	case "cyclic-slice":
		s := make([]any, 1)
		s[0] = s
		return s
	case "cyclic-in-map":
		n := &cyc{Name: "n", M: map[string]any{}}
		n.M["back"] = n
		return n
	case "cyclic-via-value-field":
		p := &pageV{Title: "t"}
		p.Meta = metaV{Owner: p, Tags: []string{"x"}}
		return p
	case "cyclic-via-value-slice":
		t := &treeV{Name: "t"}
		t.Kids = []nodeV{{Label: "k1", Parent: t}, {Label: "k2", Parent: t}}
		return t
	case "cyclic-via-interface":
		n := &ifaceC{Name: "n"}
		n.Any = n
		return n
	case "cyclic-via-embedded":
		e := &embC{Name: "e"}
		e.Back = e
		return e
	case "cyclic-via-map-of-ptr":
		m := &mapPtrC{Name: "m", ByName: map[string]*mapPtrC{}}
		m.ByName["me"] = m
		return m
	case "cyclic-via-array":
		a := &arrC{Name: "a"}
		a.Pair = [2]*arrC{a, a}
		return a
	case "cyclic-value-root":
		// the root itself is passed by value; the cycle closes through a pointer to a copy
		p := &pageV{Title: "t"}
		p.Meta = metaV{Owner: p}
		return *p
	case "embedded-nil-ptr":
		return prodE{Title: "t"}
	case "embedded-nil-ptr-ptr":
		return &prodE{Title: "t"}
	case "slice-of-embedded-nil-ptr":
		return []prodE{{BaseE: &BaseE{CreatedBy: "ann", ID: 1}, Title: "first"}, {Title: "second"}}
	case "map-of-embedded-nil-ptr":
		return map[string]any{"a": prodE{Title: "t"}, "k": &prodE{Title: "u"}, "Inner": wrapE{Name: "w"}}
	case "wrapped-embedded-nil-ptr":
		return wrapE{Name: "w"}
	case "panicking-stringer":
		return panicker{}
	case "nil-url":
		return (*url.URL)(nil)
	case "nil-valrecv-stringer":
		return (*valStringer)(nil)
	case "slice-with-nil-stringer":
		return []*valStringer{{"a"}, nil, {"c"}}
	case "map-with-nil-stringers":
		return map[string]any{"a": (*url.URL)(nil), "k": (*valStringer)(nil), "p": panicker{}, "e": error(nil)}
	case "unexported":
		return withPriv{Name: "n", priv: "p", in: &withPriv{Name: "in"}}
	case "unexported-ptr":
		return &withPriv{Name: "n", priv: "p"}
	case "map-int-keys":
		return map[int]string{1: "a", 2: "b"}
	case "map-uint8-keys":
		return map[uint8]string{0: "z", 1: "a", 255: "m"}
	case "map-uint-keys":
		return map[uint]any{0: "z", 1: map[uint16]int{1: 2}}
	case "map-uint64-keys":
		return map[uint64]string{1: "a", 1 << 63: "big"}
	case "map-uintptr-keys":
		return map[uintptr]string{1: "a"}
	case "map-int8-keys":
		return map[int8]string{-1: "n", 1: "a", 127: "m"}
	case "map-named-string-keys":
		return map[langKey]string{"en": "a", "de": "b", "fr": "c"}
	case "map-named-string-keys-any":
		return map[langKey]any{"en": 1, "de": map[langKey][]int{"x": {1}, "y": {2}}, "": nil}
	case "map-stringer-keys":
		return map[fmt.Stringer]int{stringer{"a"}: 1, stringer{"b"}: 2}
	case "map-named-int-keys":
		return map[qtyKey]string{1: "a", 0: "z"}
	case "map-bool-keys":
		return map[bool]string{true: "t", false: "f"}
	case "map-float-keys":
		return map[float64]string{1: "a", 1.5: "b"}
	case "map-rune-byte-keys":
		return map[string]any{"r": map[rune]string{'1': "one", 1: "ctl"}, "b": map[byte]int{1: 1}, "1": map[uint32]string{1: "x"}}
	case "map-struct-keys":
		return map[struct{ A int }]string{{1}: "a"}
	case "map-any-keys":
		return map[any]any{"a": 1, 2: "b"}
	case "func":
		return func() string { return "f" }
	case "chan":
		return make(chan int)
	case "stringer":
		return stringer{"x"}
	case "typed-nil-ptr":
		return (*cyc)(nil)
	case "typed-nil-map":
		return map[string]any(nil)
	case "typed-nil-slice":
		return []string(nil)
	case "nested-ptr":
		s := "x"
		p := &s
		return &p
	case "array-of-struct":
		return [2]withPriv{{Name: "a"}, {Name: "b"}}
	case "slice-of-nil":
		return []any{nil, nil}
	case "big-uint":
		return ^uint64(0)
	case "complex":
		return complex(1, 2)
	case "bytes":
		return []byte("bytes")
	case "error":
		return fmt.Errorf("an error value")
	case "deep":
		var v any = "leaf"
		for i := 0; i < 200; i++ {
			v = map[string]any{"a": v}
		}
		return v
	}
	return nil
}

// Not in the domain: a map[string]any or []any that contains ITSELF. Printing such a value
// overflows the stack inside the standard library's fmt (as in any Go program); pointer cycles
// between structs - the realistic shape of cyclic data - are covered.
var specials = []string{"cyclic-ptr", "cyclic-2", "cyclic-in-map", "cyclic-via-value-field", "cyclic-via-value-slice", "cyclic-via-interface", "cyclic-via-embedded", "cyclic-via-map-of-ptr", "cyclic-via-array", "cyclic-value-root", "embedded-nil-ptr", "embedded-nil-ptr-ptr", "slice-of-embedded-nil-ptr", "map-of-embedded-nil-ptr", "wrapped-embedded-nil-ptr", "panicking-stringer", "nil-url", "nil-valrecv-stringer", "slice-with-nil-stringer", "map-with-nil-stringers", "unexported", "unexported-ptr", "map-int-keys", "map-uint8-keys", "map-uint-keys", "map-uint64-keys", "map-uintptr-keys", "map-int8-keys", "map-named-int-keys", "map-named-string-keys", "map-named-string-keys-any", "map-stringer-keys", "map-bool-keys", "map-float-keys", "map-rune-byte-keys", "map-struct-keys", "map-any-keys", "func", "chan", "stringer", "typed-nil-ptr", "typed-nil-map", "typed-nil-slice", "nested-ptr", "array-of-struct", "slice-of-nil", "big-uint", "complex", "bytes", "error", "deep"}

func dataOf(c Case) any {
	m := map[string]any{}
	for k, v := range c.Data {
		m[k] = v.Go()
	}
	if c.Special != "" {
		sv := special(c.Special)
		if c.RootIsV {
			return sv
		}
		m["v"] = sv
	} else if c.RootIsV {
		if v, ok := c.Data["v"]; ok {
			return v.Go()
		}
	}
	return m
}

func check(c Case) error {
	if hung.Load() {
		return nil
	}
	done := make(chan error, 1)
	go func() { done <- checkNow(c) }()
	select {
	case err := <-done:
		return err
	case <-time.After(hangAfter):
		hung.Store(true)
		return fmt.Errorf("render did not return within %v (no file opens, no output: a CPU loop) for a %d-byte template set", hangAfter, totalLen(c))
	}
}

func totalLen(c Case) int {
	n := 0
	for _, f := range c.Files {
		n += len(f)
	}
	return n
}

func checkNow(c Case) (err error) {
	run.Inflight(prop, "case", c)
	fsys := memfs.FromMap(c.Files)
	budget := c.Budget
	if budget <= 0 {
		budget = openBudget
	}
	fsys.SetBudget(budget)
	w := &fw.Budget{Limit: byteBudget}
	defer func() {
		if r := recover(); r != nil {
			if s, ok := r.(fw.Sentinel); ok {
				err = fmt.Errorf("render did not stop: more than %d bytes of output (the serialiser is looping)", s.Limit)
				return
			}
			st := string(debug.Stack())
			if len(st) > 2500 {
				st = st[:2500]
			}
			err = fmt.Errorf("panic escaped from the %s entry point: %v\n%s", c.Entry, r, st)
		}
	}()
	data := dataOf(c)
	ctx := context.Background()
	opts := []vuego.LoadOption{vuego.WithFuncs(cat.Funcs()), vuego.WithComponents()}
	var root vuego.Template
	var vue *vuego.Vue
	switch c.Entry {
	case "vue", "frag":
		vue = vuego.NewVue(fsys).Funcs(cat.Funcs())
		switch c.Engine {
		case "":
		case "less":
			vue.RegisterNodeProcessor(vuego.NewLessProcessor(fsys))
		case "less-first", "less-bare":
			// the processor created without a file system of its own
			vue.RegisterNodeProcessor(vuego.NewLessProcessor())
		case "less-nofs":
			vue = vuego.NewVue(nil).Funcs(cat.Funcs()).RegisterNodeProcessor(vuego.NewLessProcessor())
		default:
			vue = vuego.NewVue(nil).Funcs(cat.Funcs())
		}
	default:
		known := c.Entry == "load" || c.Entry == "file" || c.Entry == "string"
		for _, e := range misuseEntries {
			known = known || e == c.Entry
		}
		if !known {
			return fmt.Errorf("unknown entry %q", c.Entry)
		}
		// (engines without a filesystem are built without WithComponents: that option walks the
		// filesystem when the ENGINE is constructed and panics on a nil one - a constructor,
		// not a render entry point, so outside this property)
		switch c.Engine {
		case "nofs":
			root = vuego.New(vuego.WithFuncs(cat.Funcs()))
		case "nilfs":
			root = vuego.NewFS(nil, vuego.WithFuncs(cat.Funcs()), vuego.WithLessProcessor())
		case "less":
			root = vuego.NewFS(fsys, append(opts, vuego.WithLessProcessor())...)
		case "less-first":
			// options in the other order: the processor is set up before the file system is known
			root = vuego.New(vuego.WithLessProcessor(), vuego.WithFS(fsys), vuego.WithFuncs(cat.Funcs()))
		case "less-bare":
			root = vuego.NewFS(fsys, vuego.WithFuncs(cat.Funcs()), vuego.WithProcessor(vuego.NewLessProcessor()))
		case "less-nofs":
			root = vuego.New(vuego.WithFuncs(cat.Funcs()), vuego.WithLessProcessor())
		default:
			root = vuego.NewFS(fsys, opts...)
		}
	}
	var lastErr error
	renderOnce := func() {
		var err error
		defer func() { lastErr = err }()
		switch c.Entry {
		case "load":
			err = root.Load("page.vuego").Fill(data).Render(ctx, w)
		case "file":
			err = root.New().Fill(data).RenderFile(ctx, w, "page.vuego")
		case "string":
			err = root.New().Fill(data).RenderString(ctx, w, c.Files["page.vuego"])
		case "vue":
			err = vue.Render(w, "page.vuego", data)
		case "frag":
			err = vue.RenderFragment(w, "page.vuego", data)
		case "noload":
			err = root.New().Fill(data).Render(ctx, w)
		case "noload-base":
			err = root.Fill(data).Render(ctx, w)
		case "noload-assign":
			err = root.New().Assign("k", "v").Render(ctx, w)
		case "load-missing":
			err = root.Load("nope/missing.vuego").Fill(data).Render(ctx, w)
		case "load-empty-name":
			err = root.Load("").Fill(data).Render(ctx, w)
		case "load-dir":
			err = root.Load("layouts").Fill(data).Render(ctx, w)
		case "file-missing":
			err = root.New().Fill(data).RenderFile(ctx, w, "nope/missing.vuego")
		case "load-twice":
			err = root.Load("nope.vuego").Load("page.vuego").Fill(data).Render(ctx, w)
		case "noload-file-after":
			t := root.New().Fill(data)
			err = t.Render(ctx, w)
			err = t.RenderFile(ctx, w, "page.vuego")
			err = t.Render(ctx, w)
		}
	}
	renderOnce()
	if c.WantErr && lastErr == nil && !fsys.Runaway() {
		return fmt.Errorf("the page reaches an include cycle, but the %s entry point returned nil (and %d bytes of output) instead of an error", c.Entry, w.N)
	}
	if c.Redo != "" {
		later := time.Unix(1_900_000_000, 0)
		switch c.Redo {
		case "delete-page":
			fsys.Remove("page.vuego")
		case "delete-others":
			for name := range c.Files {
				if name != "page.vuego" {
					fsys.Remove(name)
				}
			}
		case "delete-all":
			for name := range c.Files {
				fsys.Remove(name)
			}
		case "garbage-page":
			fsys.Write("page.vuego", "---\nlayout: [unclosed\n---\n<<{{ }}{{ | }}<template include=\"page.vuego\"><p v-for=\"in\" v-if=\")(\">", later)
		case "empty-page":
			fsys.Write("page.vuego", "", later)
		case "open-fails":
			for name := range c.Files {
				fsys.FailOpen(name, errors.New("input/output error"))
			}
		case "touch":
			for name, src := range c.Files {
				fsys.Write(name, src, later)
			}
		}
		renderOnce()
		for name, src := range c.Files {
			fsys.FailOpen(name, nil)
			fsys.Write(name, src, later.Add(time.Hour))
		}
		renderOnce()
	}
	if fsys.Runaway() {
		if fanOutCycle(c.Files) {
			// an unconditional include cycle with fan-out >= 2 (or under a multi-item loop) is
			// bounded by the depth limit only in the sense of 2^100 steps: outside the claim
			return nil
		}
		return fmt.Errorf("recursion is not bounded: more than %d file opens for a %d-file template set", budget, len(c.Files))
	}
	return nil
}

var entries = []string{"load", "file", "string", "vue", "frag"}

// ---------------------------------------------------------------- family 2: wrong-typed data

var positions = []string{
	`<p v-for="x in v">{{ x }}</p>`,
	`<p v-for="(i, x) in v">{{ i }}{{ x }}</p>`,
	`<p v-for="x in v.a">{{ x.b }}</p>`,
	`<p style="a:b" :style="v">x</p>`,
	`<p class="a" :class="v">x</p>`,
	`<p :class="{a: v, b: !v}" :style="{color: v}">x</p>`,
	`<p v-if="v">a</p><p v-else-if="!v">b</p><p v-else>c</p>`,
	`<p v-if="v > 1">a</p><p v-if="v == 'x'">b</p><p v-if="v.a.b">c</p>`,
	`<p v-show="v">x</p><p v-show="!v">y</p>`,
	`<p v-html="v"></p>`,
	`<p v-text="v"></p>`,
	`<p>{{ v }}</p><p title="{{ v }}" :data-x="v" :title="v">x</p>`,
	`<p>{{ v | upper }} {{ v | lower }} {{ v | title }} {{ v | trim }}</p>`,
	`<p>{{ v | len }} {{ len(v) }} {{ v | type }} {{ v | string }} {{ v | int }}</p>`,
	`<p>{{ v | json }}</p>`,
	`<p>{{ v | jsonPretty }}</p>`,
	`<p>{{ v | default("d") }} {{ v | escape }} {{ v | formatTime("2006") }} {{ v | formatDate }}</p>`,
	`<p>{{ "a" | repeat(v) }}</p>`,
	`<p>{{ 1 | add(v) }}</p>`,
	`<p>{{ v | shout }}</p>`,
	`<p>{{ v | isBig }}</p>`,
	`<p>{{ v.a.b }} {{ v[0] }} {{ v.0 }} {{ v['k'] }} {{ v.Name }} {{ v.Next.Next.Name }} {{ v.priv }} {{ v.in.Name }} {{ v.1 }} {{ v.self.self.name }}</p>`,
	// numeric and odd steps into maps with integer / unsigned / bool / float key types
	`<p>{{ v.1 }} {{ v[1] }} {{ v.0 }} {{ v.255 }} {{ v.256 }} {{ v.300 }} {{ v.-1 }} {{ v[-1] }} {{ v.1.1 }} {{ v.r.1 }} {{ v.b.1 }} {{ v.true }} {{ v.9223372036854775808 }} {{ v.18446744073709551616 }} {{ v.1e3 }} {{ v.x }}</p><i v-if="v[1]" :title="v[1]">x</i><b v-for="(k, e) in v">{{ k }}{{ e }}</b>`,
	`<p>{{ v + 1 }} {{ v == 1 }} {{ v ? 'a' : 'b' }} {{ v && true }} {{ v * 2 }} {{ v % 2 }} {{ v < 3 }}</p>`,
	`<template include="c.vuego" :p="v" q="{{ v }}"></template>`,
	`<template :x="v"><p>{{ x }}</p></template><template v-if="v"><p>t</p></template>`,
	`<p>{{ Name }} {{ name }} {{ a }}</p><i v-for="k in Kids">{{ k.Name }}</i>`,
	`<my-comp :p="v"></my-comp>`,
	`<p>{{ v | file }}</p>`,
	`<p v-once>{{ v }}</p><p v-pre>{{ v }}</p>`,
	// unknown functions whose names sort after / before every registered one, one call site per
	// position (the first failing site ends the render)
	`<p>{{ zeta(v) }}</p>`,
	`<p>{{ v | zzzfilter }} {{ aaa(v) }}</p>`,
	`<i v-if="zzz(v)">x</i>`,
	`<i v-if="yes" :title="zeta(v) + 1">x</i>`,
	`<b v-show="zip(v) > 1">y</b>`,
	`<b :class="{k: zzz(v)}" :style="{color: zeta(v)}">y</b>`,
	`<p>{{ zzz(v) + 1 }} {{ 1 + aaa(v) }}</p>`,
	`<p v-for="x in zlist(v)">{{ x }}</p><template include="c.vuego" :p="zeta(v)"></template>`,
	`<p>{{ joinn(2, "a", "b") }} {{ joinn(v, "a") }} {{ joinn(1, v, v) }} {{ v | joinn("x") }} {{ joinn(3) }} {{ sumall("s", 1, 2) }} {{ sumall(v, v) }} {{ sumall("s", v, 1) }} {{ v | sumall }} {{ ctxonly(v) }} {{ v | ctxonly }}</p><i :title="joinn(1, v)" v-if="sumall(v, 1)">x</i>`,
	`<p>{{ v.CreatedBy }} {{ v.ID }} {{ v.title }} {{ v.BaseE }} {{ v.BaseE.CreatedBy }} {{ v.Inner.CreatedBy }} {{ v.a.CreatedBy }} {{ v.k.ID }}</p><i v-for="x in v">{{ x.CreatedBy }} {{ x.title }} {{ x.ID }}</i><b v-if="v.CreatedBy">c</b><u :title="v.ID" v-show="v.Inner.ID">u</u>`,
}

func dataCase(pos string, val vals.V, sp string, rootIsV bool, entry string) Case {
	c := Case{Files: map[string]string{
		"page.vuego":              pos + `<i>end</i>`,
		"c.vuego":                 `<div><b v-for="x in p">{{ x }}</b><i v-if="p">{{ p.a }}</i><u :title="p">{{ q }}</u></div>`,
		"components/MyComp.vuego": `<em :class="p">{{ p }}</em>`,
	}, Entry: entry, Special: sp, RootIsV: rootIsV}
	if sp == "" {
		c.Data = map[string]vals.V{"v": val}
	}
	return c
}

// ---------------------------------------------------------------- family 3: graphs

type edge struct {
	to    string // "", "page", "a", "b"
	place string // plain | if | for | slot | else
}

func includeAt(e edge) string {
	if e.to == "" {
		return ""
	}
	inc := `<template include="` + e.to + `.vuego" :d="d"></template>`
	switch e.place {
	case "if":
		return `<div v-if="yes">` + inc + `</div>`
	case "else":
		return `<div v-if="no">n</div><div v-else>` + inc + `</div>`
	case "for":
		return `<div v-for="o in one">` + inc + `</div>`
	case "slot":
		return `<template include="wrap.vuego"><template v-slot:s>` + inc + `</template></template>`
	case "slotdefault":
		return `<template include="wrap.vuego"><section>` + inc + `</section></template>`
	case "elseif":
		return `<div v-if="no">n</div><div v-else-if="yes">` + inc + `</div><div v-else>e</div>`
	case "ifself":
		// the include tag is itself the chain member
		return `<template v-if="yes" include="` + e.to + `.vuego" :d="d"></template><i v-else>e</i>`
	case "elseifself":
		return `<i v-if="no">n</i><template v-else-if="yes" include="` + e.to + `.vuego" :d="d"></template><i v-else>e</i>`
	case "elseself":
		return `<i v-if="no">n</i><template v-else include="` + e.to + `.vuego" :d="d"></template>`
	case "fallback":
		// in the fallback of a slot nobody fills
		return `<slot name="nobody"><b>fb</b>` + inc + `</slot>`
	case "forself":
		return `<template v-for="o in one" include="` + e.to + `.vuego" :d="d"></template>`
	}
	return inc
}

var places = []string{"plain", "if", "else", "for", "slot", "slotdefault", "elseif", "ifself", "elseifself", "elseself", "fallback", "forself"}

// newPlaces were added later; the quick tier uses them on the page's and a's edge only in part.
var newPlaces = map[string]bool{"elseif": true, "ifself": true, "elseifself": true, "elseself": true, "fallback": true, "forself": true}

func graphCase(pe, ae, be edge, layout string, entry string) Case {
	fm := ""
	files := map[string]string{
		"a.vuego":    `<p>a</p>` + includeAt(ae),
		"b.vuego":    `<p>b</p>` + includeAt(be),
		"wrap.vuego": `<div class="w"><slot name="s"><i>fb</i></slot><slot></slot></div>`,
	}
	switch layout {
	case "self":
		fm = "---\nlayout: l1\n---\n"
		files["layouts/l1.vuego"] = "---\nlayout: l1\n---\n<div v-html=\"content\"></div>"
	case "two-cycle":
		fm = "---\nlayout: l1\n---\n"
		files["layouts/l1.vuego"] = "---\nlayout: l2\n---\n<div v-html=\"content\"></div>"
		files["layouts/l2.vuego"] = "---\nlayout: l1\n---\n<div v-html=\"content\"></div>"
	case "chain":
		fm = "---\nlayout: l1\n---\n"
		files["layouts/l1.vuego"] = "---\nlayout: l2\n---\n<div v-html=\"content\"></div>" + includeAt(edge{"a", "plain"})
		files["layouts/l2.vuego"] = "<main v-html=\"content\"></main>"
	case "page-as-layout":
		fm = "---\nlayout: ../page\n---\n"
	case "base-cycle":
		files["layouts/base.vuego"] = "---\nlayout: base\n---\n<div v-html=\"content\"></div>"
	case "missing":
		fm = "---\nlayout: ghost\n---\n"
	}
	files["page.vuego"] = fm + `<p>page</p>` + includeAt(pe)
	return Case{Files: files, Entry: entry, Data: map[string]vals.V{"yes": vals.Bool(true), "no": vals.Bool(false), "one": vals.List("[]int", vals.Int(1)), "d": vals.Int(1)}}
}

// ---------------------------------------------------------------- family 1: hostile templates

var weird = []string{"", " ", "in", "x in", " in xs", "(a,b,c) in xs", "(,) in xs", "a.b.", ".a", "a[", "a[0", "a[]", "a['", "a | ", "| f", "a || ", "f(", "f(,)", "f(()", "a ? b", "a ? : ", "{{", "}}", "{{ }}", "{a:", "{a:}", "{:}", "{a:b,}", "!", "!!a", "a..b", "1/0", "a % 0", "xs[-1]", "xs[99]", "m.k.k.k", "a | upper | nosuch", "upper()", "len()", "add(1)", "add(1,2,3)", "boom(1)", "a | repeat('x')", "'unclosed", `"unclosed`, "a == ", "== a", "a +", "xs | json | len", "file('nope')", "file(xs)", "jsonFile('page.vuego')", "yamlFile(a)", "a.0.0", "0", "-1", "1e999", "nil", "true", "xs in xs", "x in x in xs", "$", "a\x00b", "日本", "a|b|c|d|e|f", ".", "..", ". > 1", "a | . > 1", "(((((", ")))))", "[[[[", "a[b[c[d]]]", "a ? b ? c : d : e", "not a", "a ?? b", "a?.b", "xs[0:1]", "map(xs, # + 1)", "filter(xs, # > 0)",
	"a | default(')", "a | default(\")", "a | default('a', ')", "upper(')", "a | repeat(', 2)", "a | default('')", "a | default(' )", "a | default(,)", "a | default(()", "'", "\"", "''", "a | '", "f('", "a[']"}

var directives = []string{"v-if", "v-else-if", "v-else", "v-for", "v-show", "v-html", "v-text", "v-once", "v-pre", "v-keep", "v-slot", "v-slot:a", "#a", ":class", ":style", ":title", "v-bind:x", ":required", ":require", "include", "[x]", "[:x]", "[v-if]", ":", "v-", "v-bind:", "#", "name", "slot"}

func genHostile(t *rapid.T) Case {
	base := rapid.SampledFrom([]string{
		`<div><p>{{ a }}</p><ul><li v-for="x in xs">{{ x }}</li></ul></div>`,
		`<template include="c.vuego" :p="a"><template v-slot:s="sp">{{ sp.q }}</template><b>d</b></template>`,
		`<template include="c.vuego"><template v-html="a"></template><template v-html="b"></template></template>`,
		`<ul><li v-for="x in xs"><template v-html="a"></template><template include="c.vuego" :p="x"><i v-text="x"></i></template></li></ul>`,
		`<p v-if="a">1</p><p v-else-if="b">2</p><p v-else>3</p>`,
		`<slot name="s" :q="a"><i>fb</i></slot><slot></slot>`,
		`<template :x="a"><p :class="{k: x}" style="a:b" :style="{c: x}">{{ x | upper }}</p></template>`,
		`<table><tr v-for="(i, r) in xs"><td v-text="r"></td><td v-html="a"></td></tr></table>`,
		`<my-comp :p="xs"><p>{{ a }}</p></my-comp>`,
		`<html><head><title>{{ a }}</title></head><body><p>{{ b }}</p></body></html>`,
	}).Draw(t, "base")
	src := base
	nm := rapid.IntRange(1, 6).Draw(t, "nmut")
	for i := 0; i < nm; i++ {
		switch rapid.IntRange(0, 7).Draw(t, "mut") {
		case 0: // add a directive with a weird expression to some element
			d := rapid.SampledFrom(directives).Draw(t, "dir")
			e := rapid.SampledFrom(weird).Draw(t, "expr")
			e = strings.ReplaceAll(strings.ReplaceAll(e, `"`, "&quot;"), "\x00", "")
			idx := nthIndex(src, ">", rapid.IntRange(0, 8).Draw(t, "at"))
			if idx > 0 && src[idx-1] != '/' && src[idx-1] != '-' {
				src = src[:idx] + " " + d + `="` + e + `"` + src[idx:]
			}
		case 1: // put a weird expression into a mustache
			e := rapid.SampledFrom(weird).Draw(t, "mexpr")
			src = strings.Replace(src, "{{ a }}", "{{ "+e+" }}", 1)
		case 2: // unbalance
			src = strings.Replace(src, "}}", rapid.SampledFrom([]string{"}", "", "}}}", "}} {{"}).Draw(t, "unb"), 1)
		case 3: // delete a span of bytes
			if len(src) > 4 {
				a := rapid.IntRange(0, len(src)-2).Draw(t, "da")
				b := rapid.IntRange(a, min(len(src), a+12)).Draw(t, "db")
				src = src[:a] + src[b:]
			}
		case 4: // duplicate a span
			if len(src) > 4 {
				a := rapid.IntRange(0, len(src)-2).Draw(t, "ua")
				b := rapid.IntRange(a, min(len(src), a+30)).Draw(t, "ub")
				src = src[:b] + src[a:b] + src[b:]
			}
		case 5: // deep nesting
			n := rapid.SampledFrom([]int{5, 50, 200}).Draw(t, "deep")
			tag := rapid.SampledFrom([]string{"div", "template", "span", "slot"}).Draw(t, "deeptag")
			src = strings.Repeat("<"+tag+` v-if="yes">`, n) + src + strings.Repeat("</"+tag+">", n)
		case 6: // random bytes
			src += rapid.StringOfN(rapid.RuneFrom([]rune("<>/={}\"' :-vabif#[]|().!&;\n")), 1, 30, -1).Draw(t, "rnd")
		case 7: // stray chain members / doubled slots
			src += rapid.SampledFrom([]string{`<p v-else>x</p>`, `<p v-else-if="a">x</p>`, `<slot></slot><i>z</i><slot></slot>`, `<slot name="s"></slot><slot name="s"></slot>`, `<template include="page.vuego"></template>`, `<template include=""></template>`, `<template include="../x"></template>`, `<template v-for="x in xs" include="c.vuego"></template>`}).Draw(t, "stray")
		}
	}
	fm := rapid.SampledFrom([]string{"", "", "---\na: 1\n---\n", "---\nlayout: base\n---\n", "---\n: : :\n---\n", "---\nlayout: [1,2]\n---\n", "---\nxs: {a: 1}\n---\n", "---\n---\n", "---\nlayout: page\n---\n"}).Draw(t, "fm")
	c := Case{Files: map[string]string{
		"page.vuego":              fm + src,
		"c.vuego":                 rapid.SampledFrom([]string{`<div><slot name="s" :q="p"></slot><slot></slot><slot></slot></div>`, `<template :required="p"><p>{{ p }}</p></template>`, `<template include="c.vuego"></template>`, base}).Draw(t, "comp"),
		"components/MyComp.vuego": `<em><slot></slot>{{ p }}</em>`,
		"layouts/base.vuego":      rapid.SampledFrom([]string{`<html><body v-html="content"></body></html>`, `<slot name="s"></slot><div v-html="content"></div>`, "---\nlayout: base\n---\n<p>{{ content }}</p>"}).Draw(t, "lay"),
	}, Entry: rapid.SampledFrom(entries).Draw(t, "entry"), Budget: hostileBudget,
		Data: map[string]vals.V{"a": vals.Str("A"), "b": vals.Int(0), "yes": vals.Bool(true), "xs": vals.List("[]any", vals.Int(1), vals.Str("two"), vals.Map(map[string]vals.V{"k": vals.Str("v")}))}}
	if rapid.IntRange(0, 3).Draw(t, "redo?") == 0 {
		c.Redo = rapid.SampledFrom(redos).Draw(t, "redo")
	}
	return c
}

var includeRe = regexp.MustCompile(`include="([^"]*)"|<(my-comp)\b`)

// fanOutCycle reports whether some file that can reach itself through includes contains more
// than one include (or an include below a v-for): the number of evaluated includes can then
// grow exponentially with the depth limit.
func fanOutCycle(files map[string]string) bool {
	edges := map[string][]string{}
	multi := map[string]bool{}
	for name, src := range files {
		ms := includeRe.FindAllStringSubmatch(src, -1)
		for _, m := range ms {
			to := m[1]
			if m[2] != "" {
				to = "components/MyComp.vuego"
			}
			edges[name] = append(edges[name], to)
		}
		if len(ms) > 1 || (len(ms) == 1 && strings.Contains(src, "v-for")) {
			multi[name] = true
		}
	}
	var reach func(from, target string, seen map[string]bool) bool
	reach = func(from, target string, seen map[string]bool) bool {
		for _, to := range edges[from] {
			if to == target {
				return true
			}
			if !seen[to] {
				seen[to] = true
				if reach(to, target, seen) {
					return true
				}
			}
		}
		return false
	}
	for name := range files {
		if reach(name, name, map[string]bool{}) {
			// on a cycle: exponential if any file reachable on the way multiplies
			for other := range files {
				if multi[other] && (other == name || (reach(name, other, map[string]bool{}) && reach(other, name, map[string]bool{}))) {
					return true
				}
			}
		}
	}
	return false
}

// trickySets: small file sets in which content can refer back to itself.
var trickySets = []map[string]string{
	// slot content passed up through a layout that contains a <slot> of the same name
	{"page.vuego": "---\nlayout: lay\n---\n<template #side><slot name=\"side\"><i>fb</i></slot></template><p>page</p>",
		"layouts/lay.vuego": `<html><body><aside><slot name="side">none</slot></aside><div v-html="content"></div></body></html>`},
	{"page.vuego": "<template #side><p>s</p><slot name=\"side\"></slot><slot></slot></template><p>page</p>",
		"layouts/base.vuego": `<div><slot name="side"></slot><slot name="side"></slot><main v-html="content"></main></div>`},
	// component slot content that contains the same slot, default and named, nested twice
	{"page.vuego": `<template include="c.vuego"><template v-slot:s><slot name="s"><slot name="s"></slot></slot></template><slot></slot></template>`,
		"c.vuego": `<div><slot name="s"></slot><slot></slot><slot name="s"></slot></div>`},
	// the same template v-html / include / element given to a slot that is used several times
	{"page.vuego": `<template include="c.vuego"><template v-html="a"></template></template>`,
		"c.vuego": `<div><slot></slot><slot></slot><i v-for="x in xs"><slot></slot></i></div>`},
	{"page.vuego": `<template include="c.vuego"><template include="d.vuego" :p="a"></template><template v-if="yes"><b>{{ a }}</b></template></template>`,
		"c.vuego": `<div><slot></slot><hr><slot></slot></div>`, "d.vuego": `<template v-html="p"></template>`},
	// a component that passes its own slot on to itself through another component
	{"page.vuego": `<template include="c.vuego"><p>x</p></template>`,
		"c.vuego": `<template include="d.vuego"><slot></slot></template>`, "d.vuego": `<section><slot></slot><template include="e.vuego"><slot></slot></template></section>`, "e.vuego": `<em><slot></slot></em>`},
	// layout whose content includes the page again
	{"page.vuego": "---\nlayout: lay\n---\n<p>page</p>", "layouts/lay.vuego": `<div v-html="content"></div><template include="page.vuego"></template>`},
	// v-for over a template that v-htmls, inside a parent, with an include of a looping component
	{"page.vuego": `<ul><template v-for="x in xs" v-html="a"></template><li v-for="x in xs"><template include="c.vuego" :xs="xs"></template></li></ul>`,
		"c.vuego": `<b v-for="y in xs"><template v-html="y"></template></b>`},
}

func nthIndex(s, sub string, n int) int {
	idx := -1
	for i := 0; i <= n; i++ {
		j := strings.Index(s[idx+1:], sub)
		if j < 0 {
			return idx
		}
		idx += 1 + j
	}
	return idx
}

func classify(c Case) (bool, []string) {
	cls := []string{"entry=" + c.Entry}
	page := c.Files["page.vuego"]
	reaches := strings.Contains(page, "{{") || strings.Contains(page, "v-") || strings.Contains(page, `="`) || strings.Contains(page, "include")
	if c.Special != "" {
		cls = append(cls, "special-data")
		if strings.HasPrefix(c.Special, "cyclic") {
			cls = append(cls, "cyclic-data")
		}
	}
	if c.RootIsV {
		cls = append(cls, "value-as-root-data")
	}
	if c.Redo != "" {
		cls = append(cls, "redo="+c.Redo)
	}
	if strings.Contains(c.Special, "embedded-nil") {
		cls = append(cls, "embedded-nil-pointer")
	}
	if strings.Contains(page, "layout:") {
		cls = append(cls, "has-layout")
	}
	if strings.Contains(page, "include=") {
		cls = append(cls, "has-include")
	}
	if strings.Contains(page, "<slot") {
		cls = append(cls, "has-slot")
	}
	return reaches, cls
}

func replay(kind string, raw json.RawMessage) error { return run.Decode(raw, check) }

func TestProp(t *testing.T) {
	rec := ev.New(prop)
	defer run.Finish(t, rec)
	run.Witnesses(rec, prop, replay)
	shard, shards := run.Shard()
	i := 0
	ok := true
	stopped := map[string]bool{} // a family stops at its first failure: a broken limit must not turn the run into a timeout
	each := func(kind string, c Case, extra ...string) {
		i++
		if i%shards != shard || stopped[kind] {
			return
		}
		nt, cls := classify(c)
		if !run.Each(rec, kind, c, nt, append(cls, extra...), check) {
			ok = false
			stopped[kind] = true
		}
	}

	// family 2: every value kind (and every special value) in every directive position
	all := append(vals.Scalars(), vals.Containers()...)
	all = append(all, vals.V{K: "mapint", M: map[string]vals.V{"1": vals.Str("a")}}, vals.V{K: "outer", M: map[string]vals.V{"Deep": vals.Str("d"), "Top": vals.Str("t")}}, vals.V{K: "[]rec", L: []vals.V{{K: "rec", M: map[string]vals.V{"Name": vals.Str("r")}}}}, vals.V{K: "func"}, vals.V{K: "chan"})
	for pi, pos := range positions {
		for vi, v := range all {
			each("data", dataCase(pos, v, "", false, entries[(pi+vi)%len(entries)]), "family=wrong-typed-data")
		}
		for si, sp := range specials {
			each("data", dataCase(pos, vals.V{}, sp, false, entries[(pi+si)%len(entries)]), "family=wrong-typed-data")
		}
	}
	// values as the ROOT data (Fill(v) / Render(..., v))
	rootTpl := `<p>{{ Name }} {{ name }} {{ Next.Name }} {{ a }} {{ self.name }} {{ priv }} {{ CreatedBy }} {{ ID }} {{ Inner.CreatedBy }}</p><i v-for="k in Kids">{{ k.Name }}</i><b v-if="Name == 'n'">{{ Name + '!' }}</b>`
	for _, e := range entries {
		for _, v := range all {
			c := dataCase(rootTpl, v, "", true, e)
			each("data", c, "family=wrong-typed-data")
		}
		for _, sp := range specials {
			each("data", dataCase(rootTpl, vals.V{}, sp, true, e), "family=wrong-typed-data")
		}
	}
	if ok {
		rec.Exhaustive(fmt.Sprintf("%d directive positions x %d value kinds (+%d special values incl. cyclic data), and every value as root data x %d entry points", len(positions), len(all), len(specials), len(entries)))
	}

	// family 3: include/layout graphs with every cycle shape (one include edge per file)
	targets := []string{"", "page", "a", "b"}
	var edges []edge
	for _, to := range targets {
		if to == "" {
			edges = append(edges, edge{})
			continue
		}
		for _, pl := range places {
			edges = append(edges, edge{to, pl})
		}
	}
	layouts := []string{"", "self", "two-cycle", "chain", "page-as-layout", "base-cycle", "missing"}
	gi := 0
	okG := true
	for _, pe := range edges {
		for _, ae := range edges {
			for _, be := range edges {
				// quick tier: restrict b's placement variety; thorough: full cross product
				if !run.Thorough() && be.to != "" && be.place != "plain" && be.place != "for" {
					continue
				}
				if !run.Thorough() && newPlaces[ae.place] && pe.place != "plain" && !newPlaces[pe.place] {
					continue
				}
				gi++
				lay := layouts[gi%len(layouts)]
				ent := []string{"load", "file", "vue", "string"}[gi%4]
				i++
				if i%shards != shard || !okG {
					continue
				}
				c := graphCase(pe, ae, be, lay, ent)
				_, cls := classify(c)
				cyc := reachesCycle(pe, ae, be)
				c.WantErr = cyc
				cls = append(cls, "family=graph")
				if cyc {
					cls = append(cls, "include-cycle")
				}
				if lay == "self" || lay == "two-cycle" || lay == "base-cycle" || lay == "page-as-layout" {
					cls = append(cls, "layout-cycle")
				}
				if !run.Each(rec, "graph", c, true, cls, check) {
					okG = false
				}
			}
		}
	}
	if okG {
		rec.Exhaustive(fmt.Sprintf("include graphs over {page,a,b} with one include edge per file x %d placements (%d graphs), layout shapes rotating over %v", len(places), gi, layouts))
	}

	// hand-written self-referential shapes (slots, layouts, template v-html), every entry point
	for _, files := range trickySets {
		for _, e := range entries {
			c := Case{Files: files, Entry: e, Data: map[string]vals.V{"a": vals.Str("<b>A</b>"), "b": vals.Int(0), "yes": vals.Bool(true), "xs": vals.List("[]any", vals.Int(1), vals.Str("two"))}}
			each("tricky", c, "family=tricky")
		}
	}

	// family 4: one engine renders, the files change underneath, it renders again, the files
	// come back, it renders a third time - every catalogue program x entry point x change
	ri := 0
	for _, p := range cat.All() {
		for _, e := range entries {
			for _, rd := range redos {
				ri++
				if !run.Thorough() && ri%3 != 0 {
					continue
				}
				c := Case{Files: p.Files, Entry: e, Redo: rd, Data: map[string]vals.V{"who": vals.Str("w"), "items": vals.List("[]any", vals.Int(1), vals.Str("two")), "yes": vals.Bool(true)}}
				each("redo", c, "family=redo")
			}
		}
	}

	// family 5: the API called in an unusual order, on engines with files, without a filesystem
	// and over a nil filesystem
	misuseFiles := []map[string]string{
		{"page.vuego": `<p>{{ who }}</p>`},
		{"page.vuego": "---\nlayout: base\n---\n<p>{{ who }}</p>", "layouts/base.vuego": `<html><body><div v-html="content"></div></body></html>`},
		{"layouts/base.vuego": `<html><body><div v-html="content"></div></body></html>`},
		{},
	}
	for _, files := range misuseFiles {
		for _, eng := range []string{"", "nofs", "nilfs"} {
			for _, e := range append(append([]string(nil), misuseEntries...), entries...) {
				c := Case{Files: files, Entry: e, Engine: eng, Data: map[string]vals.V{"who": vals.Str("w"), "layout": vals.Str("base")}}
				each("misuse", c, "family=api-misuse", "engine="+map[string]string{"": "files", "nofs": "none", "nilfs": "nil"}[eng])
				c.Data = nil
				each("misuse", c, "family=api-misuse", "no-data")
			}
		}
	}

	// family 5b: style blocks for the LESS processor - imports of files that exist, are missing,
	// import themselves or each other, malformed blocks - on engines whose processor was given
	// the file system, was set up before it, or never got one
	lessBlocks := []string{
		"\n.a {\n  color: red;\n}\n",
		"\n@import \"theme.less\";\n.a {\n  color: @c;\n}\n",
		"\n@import \"missing.less\";\n.a {\n  color: red;\n}\n",
		"\n@import \"self.less\";\n.a {\n  color: red;\n}\n",
		"\n@import \"one.less\";\n.a {\n  color: red;\n}\n",
		"\n@import \"../outside.less\";\n@import \"/abs.less\";\n.a {\n  color: red;\n}\n",
		"\n.a {\n  color: @undefined;\n  .nomixin();\n}\n",
		"\n.a {\n  color: red;\n",
		"\n.loop(@n) when (@n > 0) {\n  .w-@{n} {\n    width: @n;\n  }\n  .loop(@n - 1);\n}\n.loop(3);\n",
		"",
	}
	for bi, block := range lessBlocks {
		files := map[string]string{
			"page.vuego": "<div>\n<style type=\"text/css+less\">" + block + "</style>\n<p>{{ who }}</p>\n</div>",
			"theme.less": "@c: #336699;\n",
			"self.less":  "@import \"self.less\";\n@s: 1px;\n",
			"one.less":   "@import \"two.less\";\n@one: 1px;\n",
			"two.less":   "@import \"one.less\";\n@two: 2px;\n",
		}
		for _, eng := range []string{"less", "less-first", "less-bare", "less-nofs"} {
			for _, e := range entries {
				if eng == "less-nofs" && e != "string" {
					continue
				}
				c := Case{Files: files, Entry: e, Engine: eng, Data: map[string]vals.V{"who": vals.Str("w")}}
				each("less", c, "family=less-processor", "engine="+eng, fmt.Sprintf("block=%d", bi))
			}
		}
	}

	// family 6: file spellings at the edges of what the loader parses: front matter only, no
	// final newline, CRLF, byte-order mark, empty and blank files - as the page, as an included
	// component and as a layout
	spellings := []string{"", "\n", " ", "---", "---\n", "---\n---", "---\n---\n", "---\ntitle: Hello\n---", "---\r\ntitle: Hello\r\n---", "---\r\ntitle: Hello\r\n---\r\n", "---\r\n---\r\n<p>x</p>", "---\ntitle: Hello\n---<p>x</p>", "---\ntitle: Hello\n--- \n<p>x</p>", "\xef\xbb\xbf---\ntitle: Hello\n---\n<p>{{ title }}</p>", "\xef\xbb\xbf<p>x</p>", "----\ntitle: x\n----\n<p>x</p>", "---\n- a\n- b\n---\n<p>x</p>", "---\ntitle: [unclosed\n---\n<p>x</p>", "---\n---\n---\n---", "<p>no newline at the end</p>", "\r\n\r\n<p>x</p>\r\n", "---\nlayout: base\n---", "\x00", "---\n\x00\n---\n"}
	for wi, wsrc := range spellings {
		for role := 0; role < 3; role++ {
			files := map[string]string{"page.vuego": `<p>page {{ title }}</p><template include="c.vuego"></template>`, "c.vuego": `<i>c</i>`, "layouts/base.vuego": `<html><body><div v-html="content"></div></body></html>`}
			switch role {
			case 0:
				files["page.vuego"] = wsrc
			case 1:
				files["c.vuego"] = wsrc
			case 2:
				files["layouts/base.vuego"] = wsrc
			}
			c := Case{Files: files, Entry: entries[(wi+role)%len(entries)], Data: map[string]vals.V{"title": vals.Str("t")}}
			each("spelling", c, "family=file-spelling", []string{"as-page", "as-component", "as-layout"}[role])
			c.Entry = entries[(wi+role+2)%len(entries)]
			each("spelling", c, "family=file-spelling")
		}
	}

	// family 1: mutated / hostile template sources
	run.Rapid(t, rec, "hostile", genHostile, func(c Case) (bool, []string) {
		nt, cls := classify(c)
		return nt, append(cls, "family=hostile-template")
	}, check)
}

func reachesCycle(pe, ae, be edge) bool {
	next := map[string]string{"page": pe.to, "a": ae.to, "b": be.to}
	seen := map[string]bool{}
	cur := "page"
	for cur != "" {
		if seen[cur] {
			return true
		}
		seen[cur] = true
		cur = next[cur]
	}
	return false
}

func TestReplay(t *testing.T) { run.ReplayMain(t, prop, replay) }

// FuzzRender: native coverage-guided fuzzing of raw template bytes (thorough tier).
func FuzzRender(f *testing.F) {
	for _, p := range cat.All() {
		names := make([]string, 0, len(p.Files))
		for n := range p.Files {
			names = append(names, n)
		}
		sort.Strings(names)
		for _, n := range names {
			f.Add(p.Files[n], uint8(0))
		}
	}
	for _, w := range weird {
		f.Add(`<p v-if="`+w+`" :x="`+w+`" v-for="`+w+`">{{ `+w+` }}</p>`, uint8(1))
	}
	rec := ev.New(prop)
	f.Fuzz(func(t *testing.T, src string, sel uint8) {
		c := Case{Files: map[string]string{
			"page.vuego":              src,
			"c.vuego":                 `<div><slot name="s" :q="p"></slot><slot></slot></div>`,
			"components/MyComp.vuego": `<em><slot></slot>{{ p }}</em>`,
			"layouts/base.vuego":      `<html><body v-html="content"></body></html>`,
		}, Entry: entries[int(sel)%len(entries)], Budget: hostileBudget,
			Data: map[string]vals.V{"a": vals.Str("A"), "b": vals.Int(0), "yes": vals.Bool(true), "xs": vals.List("[]any", vals.Int(1), vals.Str("two"))}}
		if err := run.Safe(func() error { return check(c) }); err != nil {
			rec.Fail("fuzz", c, err)
			rec.Finish()
			t.Fatalf("%v", err)
		}
	})
}
