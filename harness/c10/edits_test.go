package c10

import (
	"fmt"
	"io/fs"
	"sort"
	"strings"
	"time"

	"pgregory.net/rapid"

	"verif/internal/cat"
)

// File edits between renders. The statement makes the CURRENT template files an input of the
// call, so a history may replace a program's files between two renders on the long-lived
// engine; the render must then equal what a fresh engine renders from the files as they are
// now. Edits move the modification time forwards or BACKWARDS (a rollback, a restore that
// preserves times).
//
// Deliberately outside what is generated and asserted (C15's statement excludes it, and it is
// an open C15 finding): a write that gives a file an mtime under which the same history already
// wrote OTHER content (the equal-mtime edit, also in its "away and back" form). By
// construction every write of a history uses an mtime no other revision of that program used.
// theme.yml and data/*.yml are read once at construction by design and are never edited.

const mtimeBase = 1000 // memfs.FromMap writes every file with mtime Unix(1000)

// revise returns revision rev of program p: every .vuego file gets one more front-matter key
// (when it has front-matter) and a marker element at the end of its body. Revision 0 is p.
func revise(p cat.Program, rev int) cat.Program {
	if rev == 0 {
		return p
	}
	q := p
	q.Files = make(map[string]string, len(p.Files))
	for f, src := range p.Files {
		if strings.HasSuffix(f, ".less") {
			// an imported LESS file: other values, the importing page keeps its style block
			q.Files[f] = strings.ReplaceAll(strings.ReplaceAll(src, "red", lessColours[rev%len(lessColours)]), "2px", fmt.Sprintf("%dpx", 3+rev))
			continue
		}
		if !strings.HasSuffix(f, ".vuego") {
			q.Files[f] = src
			continue
		}
		if strings.HasPrefix(src, "---\n") {
			src = fmt.Sprintf("---\nrevn: r%d\n", rev) + src[4:]
		}
		q.Files[f] = src + fmt.Sprintf(`<u data-rev="%d">rev %d {{ revn }}</u>`, rev, rev)
	}
	return q
}

var lessColours = []string{"red", "blue", "green", "teal", "navy", "gold", "plum", "gray", "pink", "lime"}

func editable(f string) bool { return strings.HasSuffix(f, ".vuego") || strings.HasSuffix(f, ".less") }

// ---- overlays: files that are created and deleted between renders

const (
	overlayBase  = `<section data-l="base-overlay">OB {{ who }}<div v-html="content"></div></section>`
	overlayLocal = `<aside data-l="local-overlay">OL {{ who }}<div v-html="content"></div></aside>`
)

// pageLayout returns the layout named by the page's front-matter, or "".
func pageLayout(p cat.Program) string {
	src := p.Files["page.vuego"]
	if !strings.HasPrefix(src, "---\n") {
		return ""
	}
	end := strings.Index(src[4:], "\n---")
	if end < 0 {
		return ""
	}
	for _, line := range strings.Split(src[4:4+end], "\n") {
		if strings.HasPrefix(line, "layout: ") {
			return strings.TrimSpace(strings.TrimPrefix(line, "layout: "))
		}
	}
	return ""
}

// overlayFiles lists the files overlay extra adds to p; ok is false when extra is not defined
// for p (the default layout exists already, the page names no layout, ...).
func overlayFiles(p cat.Program, extra string) (map[string]string, bool) {
	out := map[string]string{}
	if extra == "" {
		return out, true
	}
	for _, part := range strings.Split(extra, "+") {
		switch part {
		case "base":
			if _, has := p.Files["layouts/base.vuego"]; has || p.Files["page.vuego"] == "" {
				return nil, false
			}
			out["layouts/base.vuego"] = overlayBase
		case "local":
			name := pageLayout(p)
			if name == "" || strings.ContainsAny(name, "/.") {
				return nil, false
			}
			if _, has := p.Files[name+".vuego"]; has {
				return nil, false
			}
			out[name+".vuego"] = overlayLocal
		default:
			return nil, false
		}
	}
	return out, true
}

func overlayOK(p cat.Program, extra string) bool {
	_, ok := overlayFiles(p, extra)
	return ok
}

// withExtra is p with the overlay's files present (for the fresh-engine reference).
func withExtra(p cat.Program, extra string) (cat.Program, error) {
	if extra == "" {
		return p, nil
	}
	add, ok := overlayFiles(p, extra)
	if !ok {
		return p, fmt.Errorf("overlay %q is not defined for program %s (malformed case)", extra, p.Name)
	}
	q := p
	q.Files = make(map[string]string, len(p.Files)+len(add))
	for f, src := range p.Files {
		q.Files[f] = src
	}
	for f, src := range add {
		q.Files[f] = src
	}
	return q, nil
}

// setExtra creates / deletes the overlay files on the seat's filesystem. An overlay file always
// has the same content and the same mtime, so its reappearance is never an equal-mtime edit.
func (s *seat) setExtra(extra string) (string, error) {
	if extra == s.extra {
		return "", nil
	}
	if s.fs == nil {
		return "", fmt.Errorf("created / deleted files are only defined for programs on an engine of their own (malformed case)")
	}
	want, ok := overlayFiles(s.base, extra)
	if !ok {
		return "", fmt.Errorf("overlay %q is not defined for program %s (malformed case)", extra, s.base.Name)
	}
	have, _ := overlayFiles(s.base, s.extra)
	var did []string
	for f := range have {
		if _, keep := want[f]; !keep {
			s.fs.Remove(f)
			did = append(did, "deleted "+f)
		}
	}
	for f, src := range want {
		if _, had := have[f]; !had {
			s.fs.Write(f, src, time.Unix(mtimeBase, 0))
			did = append(did, "created "+f)
		}
	}
	sort.Strings(did)
	s.extra = extra
	s.loaded = nil
	return strings.Join(did, ", "), nil
}

// setRev brings the seat's filesystem to (rev, mt); it reports what it did.
func (s *seat) setRev(rev, mt int) (string, error) {
	if rev == s.rev && mt == s.mt {
		return "", nil
	}
	if s.fs == nil {
		return "", fmt.Errorf("file edits are only defined for programs on an engine of their own (malformed case)")
	}
	q := revise(s.base, rev)
	for f, src := range q.Files {
		if editable(f) {
			s.fs.Write(f, src, time.Unix(int64(mtimeBase+mt), 0))
		}
	}
	what := fmt.Sprintf("files rewritten: revision %d -> %d, mtime %+d -> %+d", s.rev, rev, s.mt, mt)
	s.p, s.nodes, s.rev, s.mt = q, nil, rev, mt
	s.loaded = nil // a kept LOADED template is a snapshot of Load time: the caller loads again
	return what, nil
}

// denyFiles makes the page ("page") or every .vuego file ("all") of p on fsys fail to open
// and to stat with err; err == nil makes them accessible again.
func denyFiles(fsys interface{ FailOpen(string, error) }, p cat.Program, deny string, err error) {
	for f, src := range p.Files {
		if src == overlayBase || src == overlayLocal {
			continue // created / deleted overlay files are never made unreadable
		}
		if strings.HasSuffix(f, ".vuego") && (deny == "all" || (deny == "page" && f == "page.vuego")) {
			fsys.FailOpen(f, err)
		}
	}
}

// setDeny switches the accessibility of the seat's files.
func (s *seat) setDeny(deny string) (string, error) {
	if deny == s.deny {
		return "", nil
	}
	if deny != "" && deny != "page" && deny != "all" {
		return "", fmt.Errorf("unknown deny %q (malformed case)", deny)
	}
	if s.fs == nil {
		return "", fmt.Errorf("unreadable files are only defined for programs on an engine of their own (malformed case)")
	}
	denyFiles(s.fs, s.base, "all", nil)
	denyFiles(s.fs, s.base, deny, fs.ErrPermission)
	what := fmt.Sprintf("template files unreadable (permission error): %q -> %q", s.deny, deny)
	s.deny = deny
	s.loaded = nil
	return what, nil
}

// editAllowed rejects the region that is not asserted: an mtime that an earlier write of the
// same program used for another revision (step 0 of every program starts from revision 0 at +0).
func editAllowed(c Case, i int, mtimes map[string]map[int]int) error {
	st := c.Steps[i]
	if st.Rev == 0 && st.Mt == 0 && st.Deny == "" && mtimes[st.Prog] == nil {
		mtimes[st.Prog] = map[int]int{0: 0}
		return nil
	}
	if st.Rev < 0 || st.Rev > 9 || st.Mt < -500 || st.Mt > 500 {
		return fmt.Errorf("step %d: revision / mtime out of range (malformed case)", i+1)
	}
	if (c.Shared || c.Join || c.Mode == "probe") && (st.Rev != 0 || st.Mt != 0 || st.Deny != "" || st.Extra != "") {
		return fmt.Errorf("step %d: file edits are not defined for shared / joined / probe cases (malformed case)", i+1)
	}
	if mtimes[st.Prog] == nil {
		mtimes[st.Prog] = map[int]int{0: 0}
	}
	if rev, used := mtimes[st.Prog][st.Mt]; used && rev != st.Rev {
		return fmt.Errorf("step %d: mtime %+d already carried revision %d of %s: equal-mtime edits are not asserted (malformed case)", i+1, st.Mt, rev, st.Prog)
	}
	mtimes[st.Prog][st.Mt] = st.Rev
	return nil
}

func usesTemplateCache(entry string) bool {
	return entry == "load" || entry == "file" || entry == eAssign || entry == "vue"
}

// editClasses labels step i of the (expanded) case.
func editClasses(c Case, i int, set map[string]bool) {
	st := c.Steps[i]
	prevRev, prevMt, maxMt := 0, 0, 0
	prevDeny, rendered := "", false
	for _, o := range c.Steps[:i] {
		if o.Prog == st.Prog {
			prevDeny, rendered = o.Deny, true
			prevRev, prevMt = o.Rev, o.Mt
			if o.Mt > maxMt {
				maxMt = o.Mt
			}
		}
	}
	prevExtra := ""
	for _, o := range c.Steps[:i] {
		if o.Prog == st.Prog {
			prevExtra = o.Extra
		}
	}
	if st.Extra != prevExtra {
		for _, part := range []string{"base", "local"} {
			was, is := strings.Contains(prevExtra, part), strings.Contains(st.Extra, part)
			switch {
			case is && !was && rendered:
				set["edit:"+part+"-layout-created-after-render"] = true
			case is && !was:
				set["edit:"+part+"-layout-present-from-start"] = true
			case was && !is:
				set["edit:"+part+"-layout-deleted"] = true
			}
		}
		if st.Entry == "load" || st.Entry == "file" || st.Entry == eAssign {
			set["edit:layout-file-change-then-template-entry"] = true
		}
	}
	if st.Deny != prevDeny {
		switch {
		case st.Deny == "":
			set["edit:files-readable-again"] = true
		case rendered:
			set["edit:"+st.Deny+"-unreadable-after-render"] = true
			if usesTemplateCache(st.Entry) {
				set["edit:unreadable-then-cached-entry"] = true
			}
		default:
			set["edit:"+st.Deny+"-unreadable-from-start"] = true
		}
	}
	if st.Rev == prevRev && st.Mt == prevMt {
		return
	}
	set["edit"] = true
	switch {
	case st.Rev == prevRev:
		set["edit:touch-same-content"] = true
	case st.Mt > prevMt:
		set["edit:mtime-forward"] = true
	default:
		set["edit:mtime-backward"] = true
		if st.Mt < 0 {
			set["edit:older-than-the-original"] = true
		}
		if usesTemplateCache(st.Entry) {
			set["edit:mtime-backward-then-cached-entry"] = true
		}
	}
	if st.Mt < maxMt && st.Rev != prevRev {
		set["edit:older-than-a-version-rendered-before"] = true
	}
	if st.Rev == 0 && prevRev != 0 {
		set["edit:rollback-to-original-content"] = true
	}
}

// genEdits: 1..2 programs on engines of their own; 3..8 steps, each optionally preceded by a
// rewrite of the program's files to another (or the same) revision with an mtime drawn from a
// permutation of offsets, so that no mtime is ever used twice.
func genEdits(t *rapid.T) Case {
	pool := programPool()
	np := rapid.IntRange(1, 2).Draw(t, "programs")
	type state struct {
		p       cat.Program
		offsets []int
		next    int
		rev, mt int
	}
	sts := make([]*state, np)
	for i := range sts {
		sts[i] = &state{p: named[namedIndex[rapid.SampledFrom(pool).Draw(t, "prog")]],
			offsets: rapid.Permutation([]int{-4, -3, -2, -1, 1, 2, 3, 4, 5, -5}).Draw(t, "mtimes")}
	}
	if np == 2 && sts[0].p.Name == sts[1].p.Name {
		sts = sts[:1]
	}
	n := rapid.IntRange(3, 8).Draw(t, "steps")
	var steps []Step
	for i := 0; i < n; i++ {
		s := sts[rapid.IntRange(0, len(sts)-1).Draw(t, "which")]
		if i > 0 && s.next < len(s.offsets) && rapid.IntRange(0, 2).Draw(t, "edit") > 0 {
			if rapid.IntRange(0, 5).Draw(t, "touch") > 0 {
				s.rev = rapid.SampledFrom([]int{0, 1, 2, 3}).Draw(t, "rev")
			}
			s.mt = s.offsets[s.next]
			s.next++
		}
		st := genStep(t, s.p)
		if rapid.IntRange(0, 2).Draw(t, "cached-entry") > 0 {
			var ce []string
			for _, e := range entriesOf(s.p) {
				if usesTemplateCache(e) {
					ce = append(ce, e)
				}
			}
			st.Entry = rapid.SampledFrom(ce).Draw(t, "centry")
			if st.Fail != "" && !failApplies(st.Entry, st.Fail) {
				st.Fail = "ctx"
			}
		}
		if st.K > 3 {
			st.K = 3
		}
		st.Rev, st.Mt = s.rev, s.mt
		if rapid.IntRange(0, 2).Draw(t, "extra") == 0 {
			var defined []string
			for _, ex := range []string{"base", "local", "base+local"} {
				if overlayOK(s.p, ex) {
					defined = append(defined, ex)
				}
			}
			if len(defined) > 0 {
				st.Extra = rapid.SampledFrom(defined).Draw(t, "overlay")
			}
		}
		if rapid.IntRange(0, 4).Draw(t, "deny") == 0 {
			st.Deny = rapid.SampledFrom([]string{"page", "page", "all"}).Draw(t, "which-denied")
		}
		steps = append(steps, st)
	}
	return Case{Mode: "history", Recheck: true, Steps: steps}
}
