package c10

import (
	"context"
	"fmt"
	"time"

	"verif/internal/cat"
	"verif/internal/fw"
)

// The after-failure dimension: what a failed or aborted call leaves behind - in the process-wide
// pools, on the engine, on a kept Template object - must not reach the next call. A step with
// Fail set makes, right before each of its renders and on the same goroutine, a call that
// fails, through the SAME entry on the SAME engine and (for the keep-* entries) the SAME
// Template object. The failing call is not judged here (that a failing call writes nothing and
// reports its error is C12's subject); the render after it must meet the fresh-engine
// reference byte for byte, like any other.

var failKinds = []string{"ctx", "deadline", "writer", "stale"}

// lateFailure is appended to the program's own body: literal text and a successful mustache
// first, then a registered function that returns an error.
const lateFailure = `<p data-late="1">late {{ who }} and {{ who | boom }} never</p>`

// failApplies: "stale" needs an entry that takes the body inline (a file entry would have to
// rewrite the page file and write it back, i.e. an equal-mtime edit).
func failApplies(entry, fail string) bool {
	switch fail {
	case "ctx", "deadline", "writer":
		return true
	case "stale":
		switch entry {
		case "string", "byte", "reader", eKeepString, eKeepReader, eKeepNew:
			return true
		}
	}
	return false
}

func failingCall(s *seat, p cat.Program, st Step) error {
	if !failApplies(st.Entry, st.Fail) {
		return fmt.Errorf("failing call %q is not defined for entry %s (malformed case)", st.Fail, st.Entry)
	}
	o := callOpts{}
	d := goData(p, st.Var)
	switch st.Fail {
	case "ctx":
		ctx, cancel := context.WithCancel(context.Background())
		cancel()
		o.ctx = ctx
	case "deadline":
		// a deadline in the distant past: expired whatever the clock says
		ctx, cancel := context.WithDeadline(context.Background(), time.Unix(1, 0))
		defer cancel()
		o.ctx = ctx
	case "writer":
		o.sink = &fw.FailAt{K: 0}
	case "stale":
		o.body = p.Files["page.vuego"] + lateFailure
		if !isKeep(st.Entry) {
			d = goData(p, vStale) // the kept Template keeps the data it was filled with
		}
	}
	// the outcome of the failing call is deliberately not looked at (a panic still surfaces
	// through run.Safe)
	_, err := s.callOpt(st.Entry, d, st.Var, o)
	return err
}
