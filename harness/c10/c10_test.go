// Package c10 decides C10: the bytes produced by a render are a function of the current
// template files and the data passed to that call alone.
//
// A case is a HISTORY (pure data): a sequence of <= 10 steps {program, entry point, K renders in
// a row, data variant} executed in ONE long-lived world. The world holds, per program, one root
// template (vuego.NewFS) and one *vuego.Vue created once at the start of the history and reused
// by every later step of that program, so that everything global (sync.Pool of scope maps and
// string builders, the global path cache) and everything per engine (template cache, compiled
// expression cache) is shared by the interleaved programs. In "shared" histories all programs
// whose file sets can be merged additionally live on ONE engine over ONE filesystem.
//
// Oracle (differential, named by the statement: "on a fresh or a long-used engine, before or
// after any other renders, successful or failed"):
//
//	(i)   bytes and error-ness of every call == bytes and error-ness of the same program, entry
//	      and data on a completely fresh engine over a fresh filesystem, rendered alone. The
//	      reference of every registered (program, entry, variant) is computed once, before any
//	      history ran, re-computed after every history for the steps it used, and re-computed
//	      for the whole table at the end of the run;
//	(ii)  K renders in a row are byte-identical to the first;
//	(iii) the caller's data is unchanged: the map is built once per step, used for all K calls
//	      and compared (reflect.DeepEqual, follows nested maps/slices/pointers) after every call
//	      against a second copy built from the same description;
//	(iv)  no value of one program is visible in another: the canary values of program A never
//	      occur in the output (or error text) of a program B != A;
//	(v)   rendering does not modify the loaded templates: P, Q, P gives the first P again
//	      (implied by (i)); for (*Vue).RenderNodes the caller's own parsed nodes are serialised
//	      before and after the call and must be identical.
//
// A dedicated nondeterminism probe renders every program with unordered-collection hazards
// (several bound attributes, style + :style, style + v-show, class objects) 30 times on one
// engine and on 30 fresh engines and requires a single distinct byte string. Detection of
// map-order dependence is probabilistic, a report is never a false alarm.
//
// Deliberately not asserted:
//   - WHAT the bytes are (attribute order, whitespace, escaping, precedence of front-matter):
//     only that they are the same bytes every time. Those are other properties' subjects.
//   - error texts are not compared (only error-ness, the bytes written by a failed call, and
//     that no foreign canary occurs in the text).
//   - the ORDER in which a v-for over a map visits the keys (documented as unspecified); that it
//     is the same order every time is asserted (x-map-loops; known finding while it is open).
//   - that a program marked Fails fails (C12's subject); error-ness is compared with the fresh run.
//   - there is no wall clock and no RNG in the check; v-once bookkeeping ids are internal, if
//     they (or anything time/random seeded) reached the output, (i)/(ii) report it.
package c10

import (
	"bytes"
	"context"
	"encoding/json"
	"fmt"
	"io"
	"io/fs"
	"reflect"
	"sort"
	"strings"
	"sync"
	"testing"
	"time"

	"github.com/titpetric/vuego"
	"golang.org/x/net/html"
	"golang.org/x/net/html/atom"
	"pgregory.net/rapid"

	"verif/internal/cat"
	"verif/internal/compose"
	"verif/internal/ev"
	"verif/internal/memfs"
	"verif/internal/run"
	"verif/internal/vals"
)

const prop = "C10"

// Step renders one program through one entry point K times in a row with data variant Var.
type Step struct {
	Prog  string `json:"prog"`
	Entry string `json:"entry"`
	K     int    `json:"k,omitempty"`   // renders in a row; 0 means 1
	Var   int    `json:"var,omitempty"` // data variant 0..7 (see variant())
	// Rev / Mt: the revision of the program's template files the step renders and the mtime
	// (seconds relative to the initial one) they carry. When (Rev, Mt) differs from what the
	// program's long-lived filesystem holds, every .vuego file of the program is written in
	// that revision with that mtime before the step renders (see edits_test.go).
	Rev int `json:"rev,omitempty"`
	Mt  int `json:"mt,omitempty"`
	// Deny: while this step renders, "page" = the program's page file, "all" = every .vuego
	// file of the program cannot be opened or stat'ed (fs.ErrPermission, i.e. NOT not-exist);
	// a later step without Deny finds the files readable again.
	Deny string `json:"deny,omitempty"`
	// Extra: files that EXIST only while steps name them - "base" (a default layout
	// layouts/base.vuego for a program that has none), "local" (a layout file next to the page
	// for a page whose front-matter names a layout), "base+local". A step that does not name
	// an overlay finds its files deleted again.
	Extra string `json:"extra,omitempty"`
	// Fail: the after-failure dimension. Before every render of this step a FAILING call is made
	// through the same entry on the same engine / Template object: "ctx" (already cancelled
	// context), "deadline" (expired deadline), "writer" (destination writer that fails at once),
	// "stale" (inline entries: the program's own body with a failure injected late, rendered
	// with the same names bound to recognisably stale values). The failing call itself is not
	// judged; the render that follows must meet the usual expectation.
	Fail string `json:"fail,omitempty"`
	// Other: OTHER engines in the process as hidden state. Before every render of this step an
	// unrelated engine with another option set is created and used once: "default" (default
	// functions only), "builtins" (registered functions named like expression built-ins),
	// "components", "less", "markdown" (markdown.New), "all" (each of them).
	Other string `json:"other,omitempty"`
}

// Case is a history. Mode "history" (default), "probe" (Steps[0] rendered K times on one
// engine and on K fresh engines) or "rebase" (the whole reference table is re-computed on
// fresh engines and compared).
type Case struct {
	Mode   string `json:"mode,omitempty"`
	Shared bool   `json:"shared,omitempty"` // mergeable programs share one engine and one filesystem
	// Recheck: after the history, every (program, entry, variant) it used is rendered on yet
	// another fresh engine and compared with the reference computed before the history.
	Recheck bool          `json:"recheck,omitempty"`
	Defs    []cat.Program `json:"defs,omitempty"` // programs defined by the case itself (generated ones, replays)
	Steps   []Step        `json:"steps,omitempty"`
	// Gen: generated composition programs (verif/internal/compose), available to the steps as
	// gen0, gen1, ... Join: the programs defined by the case live on ONE engine over the union
	// of their files when that union is conflict-free (see joinable), else on engines of their own.
	// Md: mode "markdown" - documents rendered in sequence by one markdown renderer (md_test.go)
	Md []MdStep `json:"md,omitempty"`

	Gen  []compose.Case `json:"gen,omitempty"`
	Join bool           `json:"join,omitempty"`

	joined bool // decided by check before the history runs
}

func (s Step) k() int {
	if s.K < 1 {
		return 1
	}
	if s.K > 64 {
		return 64
	}
	return s.K
}

// ---- running one call

type result struct {
	out    []byte
	failed bool
	errTxt string
}

type engine struct {
	root vuego.Template
	vue  *vuego.Vue
}

// rootOf creates the root template. cat.Program.Engine knows the option "components"; the
// local options "less" (vuego.WithLessProcessor) and "proc" (vuego.WithProcessor(stamp{}), an
// in-place attribute-editing node processor) and "onelayer" (the filesystem presented through a
// vuego.OverlayFS) are added here.
func rootOf(opts cat.Program, fsys fs.FS) vuego.Template {
	less, proc, builtinNamed := false, false, false
	for _, o := range opts.Opts {
		switch o {
		case "less":
			less = true
		case "proc":
			proc = true
		case "twolayer":
			// site over theme over defaults: NESTED overlays in which every template file exists
			// in all three layers; the upper one is the program's (editable) filesystem, the two
			// below hold fixed other versions with the initial mtime
			if m, ok := fsys.(*memfs.FS); ok {
				// (their mtimes are far from anything the upper layer ever carries: a file that
				// shows through while the upper copy is unreadable is never an equal-mtime edit)
				mid, low := memfs.New(), memfs.New()
				for f := range opts.Files {
					if strings.HasSuffix(f, ".vuego") {
						mid.Write(f, `<s data-layer="mid">MID-LAYER {{ who }}</s>`, time.Unix(400, 0))
						low.Write(f, `<s data-layer="low">LOW-LAYER {{ who }}</s>`, time.Unix(200, 0))
					}
				}
				low.Write("only-in-lowest.txt", "x", time.Unix(200, 0))
				fsys = vuego.NewOverlayFS(m, vuego.NewOverlayFS(mid, low))
			}
		case "builtin-funcs":
			builtinNamed = true
		case "onelayer":
			// the files behind a vuego.OverlayFS of two layers in which every directory of the
			// program exists in ONE layer only (the other layer holds a single unrelated file)
			if m, ok := fsys.(*memfs.FS); ok {
				fsys = vuego.NewOverlayFS(m, memfs.FromMap(map[string]string{"lower-layer-only.txt": "x"}))
			}
		}
	}
	if !less && !proc && !builtinNamed {
		return opts.Engine(fsys)
	}
	mounted := fsys
	if m, ok := fsys.(*memfs.FS); ok {
		mounted = opts.Mount(m)
	}
	lo := []vuego.LoadOption{vuego.WithFuncs(cat.Funcs())}
	for _, o := range opts.Opts {
		if o == "components" {
			lo = append(lo, vuego.WithComponents())
		}
	}
	if builtinNamed {
		lo = append(lo, vuego.WithFuncs(builtinNamedFuncs()))
	}
	if less {
		lo = append(lo, vuego.WithLessProcessor())
	}
	if proc {
		lo = append(lo, vuego.WithProcessor(stamp{}))
	}
	return vuego.NewFS(mounted, lo...)
}

func newEngine(opts cat.Program, fsys fs.FS) *engine {
	return &engine{root: rootOf(opts, fsys), vue: opts.NewVue(fsys)}
}

func usesVue(entry string) bool { return entry == "vue" || entry == "frag" || entry == eNodes }

// newEngineFor creates what the given entries need: the root template, the *Vue, or both.
func newEngineFor(opts cat.Program, fsys fs.FS, entries []string) *engine {
	e := &engine{}
	for _, en := range entries {
		if usesVue(en) && e.vue == nil {
			e.vue = opts.NewVue(fsys)
		}
		if !usesVue(en) && e.root == nil {
			e.root = rootOf(opts, fsys)
		}
	}
	return e
}

// seat is a program's place in a world: its engine, the name of its page file there, and the
// nodes the "caller" parsed once for RenderNodes.
type seat struct {
	p     cat.Program
	eng   *engine
	page  string
	nodes []*html.Node

	// for file edits: the filesystem of an engine of the program's own, the unrevised program
	// and what the filesystem currently holds
	// long-lived Template values for the keep-* entries, one per data variant, and the data
	// each was filled with
	keep     map[int]vuego.Template
	keepData map[int]map[string]any
	loaded   map[int]vuego.Template

	fs      *memfs.FS
	base    cat.Program
	rev, mt int
	deny    string
	extra   string
}

func parseBody(body string) []*html.Node {
	ctxNode := &html.Node{Type: html.ElementNode, Data: "body", DataAtom: atom.Body}
	nodes, err := html.ParseFragment(strings.NewReader(body), ctxNode)
	if err != nil {
		return nil
	}
	return nodes
}

func serialise(nodes []*html.Node) string {
	var sb strings.Builder
	for _, nd := range nodes {
		_ = html.Render(&sb, nd)
		sb.WriteByte('\n')
	}
	return sb.String()
}

// call renders the seat's program through entry with data d (built by the caller).
// kept returns the seat's long-lived Template value for data variant v (created with dm at the
// first call) and verifies that the data it was filled with is still what was passed then.
func (s *seat) kept(v int, dm map[string]any) (vuego.Template, error) {
	if s.keep == nil {
		s.keep, s.keepData = map[int]vuego.Template{}, map[int]map[string]any{}
	}
	if t, ok := s.keep[v]; ok {
		if want := goData(s.base0(), v); !reflect.DeepEqual(s.keepData[v], want) {
			return nil, fmt.Errorf("the data the long-lived Template was filled with was modified by a render: %s", dataDiff(s.keepData[v], want))
		}
		return t, nil
	}
	var d any = dm
	if dm == nil {
		d = nil
	}
	t := s.eng.root.New().Fill(d)
	s.keep[v], s.keepData[v] = t, dm
	return t, nil
}

// base0 is the unrevised program of the seat (seats without edits have no base set).
func (s *seat) base0() cat.Program {
	if s.base.Name != "" {
		return s.base
	}
	return s.p
}

func (s *seat) call(entry string, dm map[string]any) (result, error) {
	return s.callVar(entry, dm, 0)
}

// callVar: v names the data variant dm was built for (needed by the keep-* entries only).
func (s *seat) callVar(entry string, dm map[string]any, v int) (result, error) {
	return s.callOpt(entry, dm, v, callOpts{})
}

// callOpts vary a call for the after-failure dimension: another context, a destination writer
// that fails, another inline body.
type callOpts struct {
	ctx  context.Context
	sink io.Writer // when set, the call writes here instead of into the result
	body string    // when set, the inline entries render this body
}

func (s *seat) callOpt(entry string, dm map[string]any, v int, o callOpts) (result, error) {
	var d any = dm
	if dm == nil {
		d = nil // "no data": an untyped nil, not a nil map
	}
	var out bytes.Buffer
	var buf io.Writer = &out
	if o.sink != nil {
		buf = o.sink
	}
	ctx := o.ctx
	if ctx == nil {
		ctx = context.Background()
	}
	body := s.p.Files["page.vuego"]
	if o.body != "" {
		body = o.body
	}
	var err error
	switch entry {
	case "load":
		err = s.eng.root.Load(s.page).Fill(d).Render(ctx, buf)
	case "file":
		err = s.eng.root.New().Fill(d).RenderFile(ctx, buf, s.page)
	case "string":
		err = s.eng.root.New().Fill(d).RenderString(ctx, buf, body)
	case "byte":
		err = s.eng.root.New().Fill(d).RenderByte(ctx, buf, []byte(body))
	case "reader":
		err = s.eng.root.New().Fill(d).RenderReader(ctx, buf, strings.NewReader(body))
	case eKeepLoaded:
		// a kept LOADED template: tpl := root.Load(page).Fill(data) once, tpl.Render every time
		if s.loaded == nil {
			s.loaded = map[int]vuego.Template{}
		}
		tpl, ok := s.loaded[v]
		if !ok {
			tpl = s.eng.root.Load(s.page).Fill(d)
			s.loaded[v] = tpl
		}
		err = tpl.Render(ctx, buf)
	case eKeepString, eKeepReader, eKeepNew, eKeepLoad:
		keep, kerr := s.kept(v, dm)
		if kerr != nil {
			return result{}, kerr
		}
		switch entry {
		case eKeepString:
			err = keep.RenderString(ctx, buf, body)
		case eKeepReader:
			err = keep.RenderReader(ctx, buf, strings.NewReader(body))
		case eKeepNew:
			err = keep.New().RenderString(ctx, buf, body)
		case eKeepLoad:
			err = keep.Load(s.page).Render(ctx, buf)
		}
	case eAssign:
		t := s.eng.root.Load(s.page)
		keys := make([]string, 0, len(dm))
		for k := range dm {
			keys = append(keys, k)
		}
		sort.Strings(keys)
		for _, k := range keys {
			t = t.Assign(k, dm[k])
		}
		err = t.Render(ctx, buf)
	case "vue":
		err = s.eng.vue.Render(buf, s.page, d)
	case "frag":
		err = s.eng.vue.RenderFragment(buf, s.page, d)
	case eNodes:
		if s.nodes == nil {
			s.nodes = parseBody(body)
		}
		before := serialise(s.nodes)
		err = s.eng.vue.RenderNodes(buf, s.nodes, d)
		if after := serialise(s.nodes); after != before {
			return result{}, fmt.Errorf("RenderNodes modified the nodes the caller passed in (the loaded template): before %q after %q", clip(before), clip(after))
		}
	default:
		return result{}, fmt.Errorf("unknown entry %q", entry)
	}
	r := result{out: out.Bytes(), failed: err != nil}
	if err != nil {
		r.errTxt = err.Error()
	}
	return r, nil
}

// fresh renders program p alone: new filesystem, new engine, new data.
func fresh(p cat.Program, entry string, v int) (result, error) {
	return freshDeny(p, entry, v, "")
}

// freshDeny: the same with the files made unreadable BEFORE the engine is created.
func freshDeny(p cat.Program, entry string, v int, deny string) (result, error) {
	fsys := p.FS()
	denyFiles(fsys, p, deny, fs.ErrPermission)
	st := &seat{p: p, page: "page.vuego", eng: newEngineFor(p, fsys, []string{entry})}
	return st.callVar(entry, goData(p, v), v)
}

// ---- reference table: (program, entry, variant) rendered alone on a fresh engine

type refKey struct {
	prog, entry string
	v           int
	rev         int
	deny        string
	extra       string
}

var (
	refMu  sync.Mutex
	refTab = map[refKey]result{}
)

// reference returns the table entry of a registered program, computing it on first use (the
// whole table is filled by TestProp before the first history; a replayed case fills what it
// needs before its history starts).
func reference(p cat.Program, entry string, v int) (result, error) {
	k := refKey{p.Name, entry, v, 0, "", ""}
	refMu.Lock()
	defer refMu.Unlock()
	if r, ok := refTab[k]; ok {
		return r, nil
	}
	r, err := fresh(p, entry, v)
	if err != nil {
		return r, err
	}
	// the reference itself must be free of other programs' values (it is computed in a process
	// in which other references were rendered before)
	for _, a := range foreign(Case{}, p) {
		cn := a[strings.Index(a, "=")+1:]
		if bytes.Contains(r.out, []byte(cn)) || strings.Contains(r.errTxt, cn) {
			return r, fmt.Errorf("rendered alone on a fresh engine, the result contains %q, a value that only program %s was ever given: out %q err %q", cn, a[:strings.Index(a, "=")], clip(string(r.out)), clip(r.errTxt))
		}
	}
	if err := absolute(p, v, r); err != nil {
		return r, fmt.Errorf("rendered alone on a fresh engine: %w", err)
	}
	refTab[k] = r
	return r, nil
}

// variantsOf lists the data variants of p: all eight for a program with data; a program
// without data has only "empty map" (its variant 0) and "nil".
func variantsOf(p cat.Program) []int {
	if len(p.Data) == 0 {
		return []int{0, vNil}
	}
	return []int{0, 1, 2, vEmpty, vNil, vJSON, vStringly, vSwapped}
}

func fillTable() error {
	for _, p := range named {
		for _, e := range allEntries {
			if !applicable(p, e) {
				continue
			}
			for _, v := range variantsOf(p) {
				if _, err := reference(p, e, v); err != nil {
					return fmt.Errorf("reference %s/%s/v%d: %w", p.Name, e, v, err)
				}
			}
		}
	}
	return nil
}

// ---- worlds

// mergeable: the program can live on the shared engine (its page under <name>.vuego at the
// root of one filesystem): no layout/config files, no engine options, and every
// other file either new or identical to what is already there.
func mergeInto(files map[string]string, p cat.Program) bool {
	// (front-matter pages without a layout live on the shared engine too: what their Load leaves
	// behind on the long-lived renderer is seen by the pages loaded after them)
	if len(p.Opts) > 0 || usesLayout(p) {
		return false
	}
	for f, src := range p.Files {
		if f == "page.vuego" {
			continue
		}
		if strings.HasPrefix(f, "data/") || strings.HasPrefix(f, "layouts/") || f == "theme.yml" {
			return false
		}
		if have, ok := files[f]; ok && have != src {
			return false
		}
	}
	if _, clash := files[p.Name+".vuego"]; clash {
		return false
	}
	for f, src := range p.Files {
		if f == "page.vuego" {
			files[p.Name+".vuego"] = src
		} else {
			files[f] = src
		}
	}
	return true
}

var (
	sharedOnce  sync.Once
	sharedNames map[string]bool // registered programs that behave on the merged filesystem as alone
)

// sharedSet decides once which registered programs live on the shared engine: those whose
// files merge and which, on a FRESH engine over the merged filesystem, give exactly the
// reference result through every entry (so that a difference seen later in a history cannot
// be an artefact of the merged file set).
func sharedSet() map[string]bool {
	sharedOnce.Do(func() {
		sharedNames = map[string]bool{}
		files := map[string]string{}
		var cand []cat.Program
		for _, p := range named {
			if mergeInto(files, p) {
				cand = append(cand, p)
			}
		}
		for _, p := range cand {
			ok := true
			for _, e := range allEntries {
				if !applicable(p, e) {
					continue
				}
				ref, err := reference(p, e, 0)
				if err != nil {
					ok = false
					break
				}
				st := &seat{p: p, page: p.Name + ".vuego", eng: newEngine(cat.Program{}, memfs.FromMap(files))}
				got, err := st.call(e, goData(p, 0))
				if err != nil || got.failed != ref.failed || !bytes.Equal(got.out, ref.out) {
					ok = false
					break
				}
			}
			if ok {
				sharedNames[p.Name] = true
			}
		}
	})
	return sharedNames
}

type world struct {
	seats map[string]*seat
}

// newWorld creates, in order of first appearance, the long-lived engines of every program the
// history uses.
func newWorld(c Case) (*world, error) {
	w := &world{seats: map[string]*seat{}}
	var shared *engine
	if c.Shared {
		files := map[string]string{}
		ok := sharedSet()
		for _, p := range named {
			if ok[p.Name] {
				mergeInto(files, p)
			}
		}
		inShared := map[string]bool{}
		for n := range ok {
			inShared[n] = true
		}
		for _, p := range c.Defs {
			if _, reg := namedIndex[p.Name]; !reg && mergeInto(files, p) {
				inShared[p.Name] = true
			}
		}
		shared = newEngine(cat.Program{}, memfs.FromMap(files))
		for _, st := range c.Steps {
			if inShared[st.Prog] && w.seats[st.Prog] == nil {
				p, _ := lookup(c, st.Prog)
				w.seats[st.Prog] = &seat{p: p, eng: shared, page: p.Name + ".vuego"}
			}
		}
	}
	if c.joined {
		// the programs defined by the case on one engine over the union of their files
		files, opts, _ := joinFiles(c.Defs)
		var entries []string
		for _, st := range c.Steps {
			if _, isDef := lookupDef(c, st.Prog); isDef {
				entries = append(entries, st.Entry)
			}
		}
		eng := newEngineFor(cat.Program{Opts: opts}, memfs.FromMap(files), entries)
		for _, st := range c.Steps {
			if p, isDef := lookupDef(c, st.Prog); isDef && w.seats[st.Prog] == nil {
				w.seats[st.Prog] = &seat{p: p, eng: eng, page: p.Name + ".vuego"}
			}
		}
	}
	for _, st := range c.Steps {
		if w.seats[st.Prog] != nil {
			continue
		}
		p, ok := lookup(c, st.Prog)
		if !ok {
			return nil, fmt.Errorf("unknown program %q", st.Prog)
		}
		// the program's long-lived root template and/or *Vue, whichever its steps use
		var entries []string
		for _, other := range c.Steps {
			if other.Prog == st.Prog {
				entries = append(entries, other.Entry)
			}
		}
		fsys := p.FS()
		w.seats[st.Prog] = &seat{p: p, base: p, fs: fsys, eng: newEngineFor(p, fsys, entries), page: "page.vuego"}
	}
	return w, nil
}

// ---- the check

func clip(s string) string {
	if len(s) > 300 {
		return s[:300] + "…"
	}
	return s
}

// firstDiff describes where two byte strings part.
func firstDiff(a, b []byte) string {
	i := 0
	for i < len(a) && i < len(b) && a[i] == b[i] {
		i++
	}
	lo := i - 40
	if lo < 0 {
		lo = 0
	}
	seg := func(x []byte) string {
		hi := i + 60
		if hi > len(x) {
			hi = len(x)
		}
		if lo > len(x) {
			return ""
		}
		return string(x[lo:hi])
	}
	return fmt.Sprintf("first difference at byte %d (lengths %d vs %d): …%q vs …%q", i, len(a), len(b), seg(a), seg(b))
}

// foreign lists the canaries of every other program of the case's universe that do not occur
// anywhere in p's own files or data (so their presence in p's output cannot be legitimate).
func foreign(c Case, p cat.Program) []string {
	if len(c.Defs) == 0 {
		foreignMu.Lock()
		defer foreignMu.Unlock()
		if out, ok := foreignTab[p.Name]; ok {
			return out
		}
		out := foreignOf(c, p)
		foreignTab[p.Name] = out
		return out
	}
	return foreignOf(c, p)
}

var (
	foreignMu  sync.Mutex
	foreignTab = map[string][]string{}
)

func foreignOf(c Case, p cat.Program) []string {
	own := strings.Builder{}
	for _, src := range p.Files {
		own.WriteString(src)
		own.WriteByte(0)
	}
	for _, v := range p.Data {
		own.WriteString(v.String())
		own.WriteByte(0)
	}
	mine := own.String()
	var out []string
	add := func(q cat.Program) {
		if q.Name == p.Name {
			return
		}
		for _, cn := range canaries(q) {
			if !strings.Contains(mine, cn) {
				out = append(out, q.Name+"="+cn)
			}
		}
	}
	for _, q := range c.Defs {
		add(q)
	}
	for _, q := range named {
		if _, shadowed := lookupDef(c, q.Name); !shadowed {
			add(q)
		}
	}
	return out
}

func lookupDef(c Case, name string) (cat.Program, bool) {
	for _, p := range c.Defs {
		if p.Name == name {
			return p, true
		}
	}
	return cat.Program{}, false
}

func dataDiff(got, want map[string]any) string {
	keys := map[string]bool{}
	for k := range got {
		keys[k] = true
	}
	for k := range want {
		keys[k] = true
	}
	var ks []string
	for k := range keys {
		ks = append(ks, k)
	}
	sort.Strings(ks)
	var out []string
	for _, k := range ks {
		g, gok := got[k]
		w, wok := want[k]
		switch {
		case !wok:
			out = append(out, fmt.Sprintf("key %q appeared (= %#v)", k, g))
		case !gok:
			out = append(out, fmt.Sprintf("key %q disappeared", k))
		case !reflect.DeepEqual(g, w):
			out = append(out, fmt.Sprintf("key %q changed from %#v to %#v", k, w, g))
		}
	}
	return strings.Join(out, "; ")
}

// judge applies the per-call oracles.
func judge(c Case, p cat.Program, where string, got, ref result, refName string, d map[string]any, v int, alien []string) error {
	if got.failed != ref.failed {
		return fmt.Errorf("%s: returned error=%v (%s) but %s returned error=%v (%s)", where, got.failed, clip(got.errTxt), refName, ref.failed, clip(ref.errTxt))
	}
	if !bytes.Equal(got.out, ref.out) {
		return fmt.Errorf("%s: bytes differ from %s: %s", where, refName, firstDiff(got.out, ref.out))
	}
	if err := absolute(p, v, got); err != nil {
		return fmt.Errorf("%s: %w", where, err)
	}
	if want := goData(p, v); !reflect.DeepEqual(d, want) {
		return fmt.Errorf("%s: the caller's data was modified by the render: %s", where, dataDiff(d, want))
	}
	for _, a := range alien {
		cn := a[strings.Index(a, "=")+1:]
		if bytes.Contains(got.out, []byte(cn)) {
			return fmt.Errorf("%s: output contains %q, a value that only program %s was ever given: %q", where, cn, a[:strings.Index(a, "=")], clip(string(got.out)))
		}
		if strings.Contains(got.errTxt, cn) {
			return fmt.Errorf("%s: error text contains %q, a value that only program %s was ever given: %q", where, cn, a[:strings.Index(a, "=")], clip(got.errTxt))
		}
	}
	return nil
}

func refFor(c Case, defRefs map[refKey]result, p cat.Program, entry string, v int) (result, error) {
	return refForRev(c, defRefs, p, entry, v, 0, "", "")
}

// refForRev: p is already the revised program when rev != 0 (revisions are never in the table).
func refForRev(c Case, defRefs map[refKey]result, p cat.Program, entry string, v, rev int, deny, extra string) (result, error) {
	if _, inline := lookupDef(c, p.Name); inline || rev != 0 || deny != "" || extra != "" {
		k := refKey{p.Name, entry, v, rev, deny, extra}
		if r, ok := defRefs[k]; ok {
			return r, nil
		}
		r, err := freshDeny(p, entry, v, deny)
		if err == nil {
			defRefs[k] = r
		}
		return r, err
	}
	return reference(p, entry, v)
}

func check(c Case) error {
	for _, g := range c.Gen {
		if compose.TooLarge(g) {
			return nil // expands to megabytes of output: outside this family's budget
		}
	}
	switch c.Mode {
	case "rebase":
		return rebase()
	case "markdown":
		return checkMarkdown(c)
	case "", "history", "probe":
	default:
		return fmt.Errorf("unknown mode %q", c.Mode)
	}
	if len(c.Steps) == 0 {
		return nil
	}
	c = c.full()
	// resolve, and compute every reference BEFORE anything of this history runs
	defRefs := map[refKey]result{}
	type plan struct {
		p     cat.Program
		ref   result
		alien []string
	}
	plans := make([]plan, len(c.Steps))
	mtimes := map[string]map[int]int{} // program -> mtime -> revision written with it
	for i, st := range c.Steps {
		p, ok := lookup(c, st.Prog)
		if !ok {
			return fmt.Errorf("step %d: unknown program %q", i, st.Prog)
		}
		if !applicable(p, st.Entry) {
			return fmt.Errorf("step %d: entry %q is not applicable to program %s (malformed case)", i, st.Entry, st.Prog)
		}
		if st.Var < 0 || st.Var >= nVariants {
			return fmt.Errorf("step %d: unknown data variant %d", i, st.Var)
		}
		if err := editAllowed(c, i, mtimes); err != nil {
			return err
		}
		p, err := withExtra(revise(p, st.Rev), st.Extra)
		if err != nil {
			return fmt.Errorf("step %d: %w", i+1, err)
		}
		ref, err := refForRev(c, defRefs, p, st.Entry, st.Var, st.Rev, st.Deny, st.Extra)
		if err != nil {
			return fmt.Errorf("step %d (%s/%s rev %d) alone on a fresh engine: %w", i, st.Prog, st.Entry, st.Rev, err)
		}
		plans[i] = plan{p: p, ref: ref, alien: foreign(c, p)}
	}
	if c.Shared {
		sharedSet()
	}
	c.joined = joinable(c, func(p cat.Program, entry string, v int) (result, error) { return refFor(c, defRefs, p, entry, v) })

	if c.Mode == "probe" {
		st, pl := c.Steps[0], plans[0]
		w, err := newWorld(Case{Defs: c.Defs, Steps: c.Steps[:1], Shared: c.Shared})
		if err != nil {
			return err
		}
		distinct := map[string]int{}
		d := goData(pl.p, st.Var)
		for r := 0; r < st.k(); r++ {
			where := fmt.Sprintf("probe %s/%s/v%d render %d of %d on one engine", st.Prog, st.Entry, st.Var, r+1, st.k())
			got, err := w.seats[st.Prog].callVar(st.Entry, d, st.Var)
			if err != nil {
				return fmt.Errorf("%s: %w", where, err)
			}
			distinct[string(got.out)]++
			if err := judge(c, pl.p, where, got, pl.ref, "the same program rendered alone on a fresh engine", d, st.Var, pl.alien); err != nil {
				return fmt.Errorf("%w [%d distinct byte strings so far]", err, len(distinct))
			}
		}
		for r := 0; r < st.k(); r++ {
			where := fmt.Sprintf("probe %s/%s/v%d fresh engine %d of %d", st.Prog, st.Entry, st.Var, r+1, st.k())
			got, err := fresh(pl.p, st.Entry, st.Var)
			if err != nil {
				return fmt.Errorf("%s: %w", where, err)
			}
			distinct[string(got.out)]++
			if err := judge(c, pl.p, where, got, pl.ref, "the first fresh engine", goData(pl.p, st.Var), st.Var, pl.alien); err != nil {
				return fmt.Errorf("%w [%d distinct byte strings so far]", err, len(distinct))
			}
		}
		if len(distinct) != 1 {
			return fmt.Errorf("probe %s/%s: %d distinct byte strings from identical inputs", st.Prog, st.Entry, len(distinct))
		}
		return nil
	}

	w, err := newWorld(c)
	if err != nil {
		return err
	}
	for i, st := range c.Steps {
		pl := plans[i]
		d := goData(pl.p, st.Var) // built once per step, used for all K calls
		edited, err := w.seats[st.Prog].setRev(st.Rev, st.Mt)
		if err != nil {
			return fmt.Errorf("step %d: %w", i+1, err)
		}
		if extra, err := w.seats[st.Prog].setExtra(st.Extra); err != nil {
			return fmt.Errorf("step %d: %w", i+1, err)
		} else if extra != "" {
			edited = strings.TrimPrefix(edited+"; "+extra, "; ")
		}
		denied, err := w.seats[st.Prog].setDeny(st.Deny)
		if err != nil {
			return fmt.Errorf("step %d: %w", i+1, err)
		}
		if denied != "" {
			edited = strings.TrimPrefix(edited+"; "+denied, "; ")
		}
		for r := 0; r < st.k(); r++ {
			where := fmt.Sprintf("step %d of %d (%s/%s/v%d), render %d of %d", i+1, len(c.Steps), st.Prog, st.Entry, st.Var, r+1, st.k())
			if edited != "" {
				where += " [" + edited + "]"
			}
			if i > 0 {
				where += fmt.Sprintf(", after %s/%s", c.Steps[i-1].Prog, c.Steps[i-1].Entry)
			}
			if st.Other != "" {
				if err := bystander(st.Other); err != nil {
					return fmt.Errorf("%s: %w", where, err)
				}
				where += " [after another engine was created and used: " + st.Other + "]"
			}
			if st.Fail != "" {
				if err := failingCall(w.seats[st.Prog], pl.p, st); err != nil {
					return fmt.Errorf("%s: %w", where, err)
				}
				where += " [after a failed call: " + st.Fail + "]"
			}
			got, err := w.seats[st.Prog].callVar(st.Entry, d, st.Var)
			if err != nil {
				return fmt.Errorf("%s: %w", where, err)
			}
			if err := judge(c, pl.p, where, got, pl.ref, "the same program rendered alone on a fresh engine", d, st.Var, pl.alien); err != nil {
				return err
			}
		}
	}
	// a fresh engine after the history must still give what a fresh engine gave before it
	seen := map[refKey]bool{}
	for i, st := range c.Steps {
		if !c.Recheck {
			break
		}
		k := refKey{st.Prog, st.Entry, st.Var, st.Rev, st.Deny, st.Extra}
		if seen[k] {
			continue
		}
		seen[k] = true
		pl := plans[i]
		got, err := freshDeny(pl.p, st.Entry, st.Var, st.Deny)
		where := fmt.Sprintf("%s/%s/v%d on a fresh engine AFTER the history", st.Prog, st.Entry, st.Var)
		if err != nil {
			return fmt.Errorf("%s: %w", where, err)
		}
		if err := judge(c, pl.p, where, got, pl.ref, "a fresh engine before the history", goData(pl.p, st.Var), st.Var, pl.alien); err != nil {
			return err
		}
	}
	return nil
}

// rebase re-computes the whole reference table on fresh engines and compares.
func rebase() error {
	if err := fillTable(); err != nil {
		return err
	}
	for _, p := range named {
		alien := foreign(Case{}, p)
		for _, e := range allEntries {
			if !applicable(p, e) {
				continue
			}
			for _, v := range variantsOf(p) {
				ref, _ := reference(p, e, v)
				got, err := fresh(p, e, v)
				where := fmt.Sprintf("%s/%s/v%d on a fresh engine at the end of the run", p.Name, e, v)
				if err != nil {
					return fmt.Errorf("%s: %w", where, err)
				}
				if err := judge(Case{}, p, where, got, ref, "a fresh engine before any history ran", goData(p, v), v, alien); err != nil {
					return err
				}
			}
		}
	}
	return nil
}

// ---- classification

func classify(c Case) (bool, []string) {
	c = c.full()
	mode := c.Mode
	if mode == "" {
		mode = "history"
	}
	set := map[string]bool{"mode=" + mode: true}
	if mode == "rebase" {
		return true, []string{"mode=rebase"}
	}
	if mode == "markdown" {
		nt := mdClasses(c, set)
		out := make([]string, 0, len(set))
		for k := range set {
			out = append(out, k)
		}
		sort.Strings(out)
		return nt, out
	}
	set[fmt.Sprintf("len=%d", len(c.Steps))] = true
	if c.Shared {
		set["shared-engine"] = true
	}
	nontrivial := false
	type occ struct {
		idx        int
		entry      string
		v          int
		otherSince bool
	}
	last := map[string]*occ{}
	failedBefore := false
	for i, st := range c.Steps {
		p, ok := lookup(c, st.Prog)
		if !ok {
			continue
		}
		set["entry="+st.Entry] = true
		if isKeep(st.Entry) {
			set["long-lived-template-value"] = true
		}
		if _, inline := lookupDef(c, st.Prog); inline && st.Prog == "gen" {
			set["generated-program"] = true
			for _, el := range strings.Split(p.Files["page.vuego"], "<p ")[1:] {
				el = el[:strings.Index(el, ">")]
				hasStatic, hasBound, hasShow := strings.Contains(el, ` style="`) || strings.HasPrefix(el, `style="`), strings.Contains(el, `:style="`), strings.Contains(el, `v-show="`)
				switch {
				case hasStatic && hasBound && hasShow:
					set["gen:style+:style+v-show"] = true
				case hasStatic && hasBound:
					set["gen:style+:style"] = true
				case hasStatic && hasShow:
					set["gen:style+v-show"] = true
				case hasBound && hasShow:
					set["gen::style+v-show"] = true
				}
				if strings.Contains(el, `:style="{`) {
					set["gen::style-object"] = true
				}
				if strings.Contains(el, `:class="{`) {
					set["gen::class-object"] = true
				}
				if strings.Contains(el, `class="s t"`) && strings.Contains(el, `:class="`) {
					set["gen:class+:class"] = true
				}
				nb := strings.Count(el, `" :`) + strings.Count(el, `" v-bind:`)
				if strings.HasPrefix(el, ":") {
					nb++
				}
				if nb >= 4 {
					set["gen:bound-attrs>=4"] = true
				} else {
					set["gen:bound-attrs<4"] = true
				}
				for i := 0; i < 7; i++ {
					if strings.Contains(el, fmt.Sprintf(`="s%d"`, i)) {
						set["gen:static-twin-of-bound"] = true
						break
					}
				}
			}
			if strings.Contains(p.Files["page.vuego"], `v-for="r in rows"`) {
				set["gen:inside-v-for"] = true
			}
		}
		for _, f := range p.Feat {
			set["feat="+f] = true
		}
		if st.k() > 1 {
			set["k>1"] = true
		}
		if st.k() >= 20 {
			set["k>=20"] = true
		}
		editClasses(c, i, set)
		if st.Other != "" {
			set["other-engine:"+st.Other] = true
		}
		if st.Fail != "" {
			set["after-failure:"+st.Fail] = true
			if isKeep(st.Entry) {
				set["after-failure-on-kept-template"] = true
			}
		}
		if st.Var != 0 {
			set["data-variant"] = true
		}
		switch st.Var {
		case vEmpty:
			set["data=empty-map"] = true
		case vNil:
			set["data=nil"] = true
		case vJSON, vStringly, vSwapped:
			set["data=retyped"] = true
		}
		if isHazard(p) {
			set["hazard-program"] = true
			if st.k() > 1 || mode == "probe" {
				set["hazard-program-repeated"] = true
				nontrivial = true
			}
		}
		if failedBefore {
			set["render-after-failed-render"] = true
		}
		if p.Fails {
			set["failing-program"] = true
			failedBefore = true
		}
		for name, o := range last {
			if name != st.Prog {
				o.otherSince = true
			}
		}
		if o := last[st.Prog]; o != nil {
			if o.otherSince {
				set["repeat-after-other-program"] = true
				nontrivial = true
			}
			if o.entry != st.Entry {
				set["same-program-other-entry"] = true
			}
			if o.v != st.Var {
				set["same-program-other-data"] = true
				nontrivial = true
			}
		}
		last[st.Prog] = &occ{idx: i, entry: st.Entry, v: st.Var}
	}
	if len(last) > 1 {
		set[fmt.Sprintf("programs=%d", len(last))] = true
	}
	if len(c.Gen) > 0 {
		// composition family: non-trivial = the program has an include or a slot and is rendered
		// at least twice on the engine
		renders := 0
		for _, st := range c.Steps {
			if st.Prog == "gen0" {
				renders += st.k()
			}
		}
		nontrivial = composeClasses(c, set) && renders >= 2
	}
	out := make([]string, 0, len(set))
	for k := range set {
		out = append(out, k)
	}
	sort.Strings(out)
	return nontrivial, out
}

// ---- generators

// weighted program list: hazard programs, probes and failing programs are drawn more often.
func programPool() []string {
	var out []string
	for _, p := range named {
		w := 2
		switch {
		case isHazard(p):
			w = 4
		case hasFeat(p, "leak-probe"), hasFeat(p, "fm-collision"), hasFeat(p, "front-matter"):
			w = 4
		case p.Fails:
			w = 2
		}
		for i := 0; i < w; i++ {
			out = append(out, p.Name)
		}
	}
	return out
}

// entriesOf lists every entry applicable to p: the nine base entries and the keep-* entries.
func entriesOf(p cat.Program) []string {
	out := baseEntriesOf(p)
	for _, e := range keepEntries {
		if applicable(p, e) {
			out = append(out, e)
		}
	}
	return out
}

func baseEntriesOf(p cat.Program) []string {
	var out []string
	for _, e := range allEntries {
		if applicable(p, e) {
			out = append(out, e)
		}
	}
	return out
}

func genStep(t *rapid.T, p cat.Program) Step {
	st := Step{Prog: p.Name}
	st.Entry = rapid.SampledFrom(entriesOf(p)).Draw(t, "entry")
	st.K = rapid.SampledFrom([]int{1, 1, 1, 1, 2, 3, 5, 20}).Draw(t, "k")
	if len(p.Data) > 0 {
		st.Var = rapid.SampledFrom([]int{0, 0, 0, 1, 2, 1, 2, vEmpty, vNil, vJSON, vStringly, vSwapped, vJSON, vStringly}).Draw(t, "var")
	} else if rapid.IntRange(0, 3).Draw(t, "nil-data") == 0 {
		st.Var = vNil
	}
	if rapid.IntRange(0, 4).Draw(t, "other-engine") == 0 {
		st.Other = rapid.SampledFrom(otherKinds).Draw(t, "other")
	}
	if rapid.IntRange(0, 3).Draw(t, "after-failure") == 0 {
		var kinds []string
		for _, f := range failKinds {
			if failApplies(st.Entry, f) {
				kinds = append(kinds, f)
			}
		}
		st.Fail = rapid.SampledFrom(kinds).Draw(t, "fail")
		if st.K > 3 {
			st.K = 3
		}
	}
	return st
}

// genHistory: a palette of 1..4 programs, then 1..10 steps over the palette (so programs
// recur after other programs), every step with its own entry, K and data variant.
func genHistory(t *rapid.T) Case {
	pool := programPool()
	np := rapid.IntRange(1, 4).Draw(t, "palette")
	pal := make([]cat.Program, np)
	for i := range pal {
		pal[i] = named[namedIndex[rapid.SampledFrom(pool).Draw(t, "prog")]]
	}
	steps := rapid.SliceOfN(rapid.Custom(func(t *rapid.T) Step {
		return genStep(t, pal[rapid.IntRange(0, np-1).Draw(t, "which")])
	}), 1, 10).Draw(t, "steps")
	return Case{Mode: "history", Shared: rapid.Bool().Draw(t, "shared"), Recheck: true, Steps: steps}
}

var (
	attrNames  = []string{"a", "b", "c", "d", "e", "title", "id", "href", "lang", "data-x", "data-y", "data-z"}
	attrExprs  = []string{"who", "num", "flag", "size", "col", "url", "num + 1", "who | upper", "r"}
	styleProps = []string{"color", "margin", "top", "left", "display", "font-size", "padding-top", "z-index"}
	styleCamel = map[string]string{"font-size": "fontSize", "padding-top": "paddingTop", "z-index": "zIndex"}
	styleVals  = []string{"red", "0", "1px", "2em", "none", "12px", "blue"}
	classConds = []string{"flag", "!flag", "num > 3", "num < 3", "who", "off"}
)

// genElement builds one element with the unordered-collection hazards: 2..7 bound attributes
// in a drawn order (some with a static twin before or after), optional static style and/or
// :style (object literal or string) and/or v-show, optional static class and/or :class.
func genElement(t *rapid.T, idx int, sty *[]string) string {
	names := rapid.Permutation(attrNames).Draw(t, "names")
	nb := rapid.IntRange(2, 7).Draw(t, "bound")
	var attrs []string
	for i := 0; i < nb; i++ {
		ex := rapid.SampledFrom(attrExprs).Draw(t, "expr")
		bound := fmt.Sprintf(`:%s="%s"`, names[i], ex)
		switch rapid.IntRange(0, 5).Draw(t, "twin") {
		case 0:
			attrs = append(attrs, fmt.Sprintf(`%s="s%d"`, names[i], i), bound)
		case 1:
			attrs = append(attrs, bound, fmt.Sprintf(`%s="s%d"`, names[i], i))
		default:
			attrs = append(attrs, bound)
		}
	}
	decls := func(label string, lo, hi int) []string {
		props := rapid.Permutation(styleProps).Draw(t, label+"-props")
		k := rapid.IntRange(lo, hi).Draw(t, label+"-n")
		out := make([]string, k)
		for i := 0; i < k; i++ {
			out[i] = props[i] + ":" + rapid.SampledFrom(styleVals).Draw(t, label+"-val")
		}
		return out
	}
	if rapid.IntRange(0, 3).Draw(t, "static-style") > 0 {
		attrs = append(attrs, fmt.Sprintf(`style="%s"`, strings.Join(decls("st", 1, 6), ";")))
	}
	switch rapid.IntRange(0, 3).Draw(t, "bound-style") {
	case 1: // object literal
		ds := decls("ob", 1, 5)
		var items []string
		for _, dcl := range ds {
			kv := strings.SplitN(dcl, ":", 2)
			key := kv[0]
			if cm, ok := styleCamel[key]; ok {
				key = cm
			}
			items = append(items, fmt.Sprintf("%s: '%s'", key, kv[1]))
		}
		attrs = append(attrs, fmt.Sprintf(`:style="{%s}"`, strings.Join(items, ", ")))
	case 2: // string from data
		*sty = append(*sty, strings.Join(decls("sv", 1, 5), ";"))
		attrs = append(attrs, fmt.Sprintf(`:style="sty%d"`, len(*sty)-1))
	}
	if rapid.IntRange(0, 2).Draw(t, "v-show") == 0 {
		attrs = append(attrs, fmt.Sprintf(`v-show="%s"`, rapid.SampledFrom([]string{"off", "flag", "!flag", "r"}).Draw(t, "show")))
	}
	if rapid.Bool().Draw(t, "static-class") {
		attrs = append(attrs, `class="s t"`)
	}
	switch rapid.IntRange(0, 3).Draw(t, "bound-class") {
	case 1:
		nk := rapid.IntRange(2, 6).Draw(t, "class-keys")
		var items []string
		for i := 0; i < nk; i++ {
			items = append(items, fmt.Sprintf("c%d: %s", i, rapid.SampledFrom(classConds).Draw(t, "cond")))
		}
		attrs = append(attrs, fmt.Sprintf(`:class="{%s}"`, strings.Join(items, ", ")))
	case 2:
		attrs = append(attrs, `:class="cls"`)
	}
	// the drawn attribute groups are shuffled as a whole: source order is part of the input
	order := rapid.Permutation(attrs).Draw(t, "order")
	return fmt.Sprintf(`<p %s>e%d {{ who }}</p>`, strings.Join(order, " "), idx)
}

// genHazard: a generated program with 1..3 hazard elements (optionally inside a v-for over a
// slice), defined inline in the case, rendered repeatedly, then after another program, then
// again with other data and with the first data; or probed.
func genHazard(t *rapid.T) Case {
	var sty []string
	ne := rapid.IntRange(1, 3).Draw(t, "elements")
	var body strings.Builder
	for i := 0; i < ne; i++ {
		el := genElement(t, i, &sty)
		if rapid.IntRange(0, 3).Draw(t, "in-loop") == 0 {
			el = `<div v-for="r in rows">` + el + `</div>`
		}
		body.WriteString(el)
	}
	body.WriteString(end)
	data := map[string]vals.V{"who": s("genWHO"), "num": n(5), "flag": b(true), "off": b(false), "size": s("12px"), "col": s("blue"),
		"url": s("/u/1"), "cls": s("k1 k2"), "rows": strs("gr1", "gr2")}
	for i, x := range sty {
		data[fmt.Sprintf("sty%d", i)] = s(x)
	}
	p := cat.Program{Name: "gen", Canary: "genWHO", Feat: []string{hazard, "generated"}, Files: map[string]string{"page.vuego": body.String()}, Data: data}
	c := Case{Defs: []cat.Program{p}}
	entry := rapid.SampledFrom(entriesOf(p)).Draw(t, "entry")
	if rapid.IntRange(0, 2).Draw(t, "probe") == 0 {
		c.Mode = "probe"
		c.Steps = []Step{{Prog: "gen", Entry: entry, K: 30}}
		return c
	}
	c.Mode = "history"
	c.Recheck = true
	c.Shared = rapid.Bool().Draw(t, "shared")
	other := named[namedIndex[rapid.SampledFrom(programPool()).Draw(t, "other")]]
	c.Steps = []Step{
		{Prog: "gen", Entry: entry, K: rapid.SampledFrom([]int{2, 5, 10, 20}).Draw(t, "k")},
		genStep(t, other),
		{Prog: "gen", Entry: rapid.SampledFrom(entriesOf(p)).Draw(t, "entry2"), K: 2, Var: rapid.IntRange(0, nVariants-1).Draw(t, "var")},
		{Prog: "gen", Entry: entry, K: 2},
	}
	return c
}

// ---- test entry points

func replay(kind string, raw json.RawMessage) error { return run.Decode(raw, check) }

type combo struct {
	p     cat.Program
	entry string
}

func combos() []combo {
	var out []combo
	for _, p := range named {
		for _, e := range baseEntriesOf(p) {
			out = append(out, combo{p, e})
		}
	}
	return out
}

func TestProp(t *testing.T) {
	rec := ev.New(prop)
	defer run.Finish(t, rec)

	// the reference table is computed first, before any history runs
	if err := fillTable(); err != nil {
		rec.Fail("reference", Case{Mode: "rebase"}, err)
		return
	}
	if run.First() {
		rec.Count("reference-renders-on-fresh-engines", len(refTab))
	}
	if run.First() {
		rec.Note("shared engine holds %d of %d registered programs", len(sharedSet()), len(named))
	}

	run.Witnesses(rec, prop, replay)
	if mapOrderOpen && run.First() {
		// loop sources cut down to one key while the finding is open (see loopMap / yamlMap)
		for i := 0; i < mapsCut; i++ {
			rec.Excluded(fMapOrder)
		}
	}
	shard, shards := run.Shard()
	i := 0
	ok := true
	each := func(kind string, c Case) {
		i++
		if i%shards != shard {
			return
		}
		nt, cls := classify(c)
		if !run.Each(rec, kind, c, nt, cls, check) {
			ok = false
		}
	}

	// nondeterminism probe: every hazard program x entry, 30 renders on one engine + 30 fresh engines
	cs := combos()
	for _, cb := range cs {
		if hasFeat(cb.p, "many-engines") {
			// determinism ACROSS engines: 40 fresh engines over identical files (and 40 renders on
			// one) must all give the same bytes
			each("probe", Case{Mode: "probe", Steps: []Step{{Prog: cb.p.Name, Entry: cb.entry, K: 40}}})
		}
		if isHazard(cb.p) {
			for v := 0; v < 3 && (v == 0 || len(cb.p.Data) > 0); v++ {
				each("probe", Case{Mode: "probe", Steps: []Step{{Prog: cb.p.Name, Entry: cb.entry, K: 30, Var: v}}})
			}
		}
	}
	// data variants of every (program, entry) on one engine
	for _, cb := range cs {
		st := func(v, k int) Step { return Step{Prog: cb.p.Name, Entry: cb.entry, Var: v, K: k} }
		if len(cb.p.Data) > 0 {
			each("variants", Case{Steps: []Step{st(0, 2), st(1, 1), st(0, 1), st(2, 2), st(1, 1), st(0, 1)}})
			// with data, with an empty map, with no data at all - repeated and interleaved
			each("variants", Case{Steps: []Step{st(vEmpty, 3), st(0, 1), st(vNil, 3), st(1, 1), st(vEmpty, 1), st(vNil, 1), st(0, 1)}})
			each("variants", Case{Steps: []Step{st(0, 1), st(vNil, 2), st(2, 1), st(vEmpty, 2), st(0, 1)}})
			// same expression texts, retyped operands: every typing is once the FIRST the engine
			// sees (what it would specialise a compiled expression for), followed by all others
			ring := []int{0, vJSON, vStringly, vSwapped}
			for r := range ring {
				var steps []Step
				for j := 0; j <= len(ring); j++ {
					steps = append(steps, st(ring[(r+j)%len(ring)], 1))
				}
				each("retyped", Case{Steps: steps})
			}
		} else {
			each("variants", Case{Steps: []Step{st(vNil, 3), st(0, 2), st(vNil, 1), st(0, 1)}})
		}
	}
	// ONE long-lived Template value per program: inline renders directly on it (twice in a row),
	// then children derived from it (New, Load without Fill), then inline again; the same with a
	// second Template value filled with other data in between
	for _, p := range named {
		st := func(e string, v, k int) Step { return Step{Prog: p.Name, Entry: e, Var: v, K: k} }
		if applicable(p, eKeepString) {
			each("kept", Case{Steps: []Step{st(eKeepString, 0, 2), st(eKeepNew, 0, 1), st(eKeepLoad, 0, 1), st(eKeepReader, 0, 2), st(eKeepString, 0, 1), st("string", 0, 1)}})
			if len(p.Data) > 0 {
				each("kept", Case{Steps: []Step{st(eKeepReader, 0, 1), st(eKeepString, 1, 2), st(eKeepNew, 1, 1), st(eKeepString, 0, 1), st(eKeepLoad, 1, 1), st(eKeepNew, 0, 1)}})
				each("kept", Case{Shared: sharedSet()[p.Name], Steps: []Step{st(eKeepNew, 0, 1), st(eKeepString, 0, 3), st(eKeepNew, 0, 1), st(eKeepLoad, 0, 2)}})
			}
		} else {
			each("kept", Case{Steps: []Step{st(eKeepLoad, 0, 2), st("load", 0, 1), st(eKeepLoad, 0, 1)}})
		}
	}
	// markdown: all ordered pairs of documents as A, B, A (x2) on one renderer, through
	// RenderBytes and through Load + Render
	for _, a := range mdNames {
		for _, bb := range mdNames {
			for _, via := range []string{"bytes", "load"} {
				each("markdown-pairs", Case{Mode: "markdown", Md: []MdStep{{Doc: a, Via: via}, {Doc: bb, Via: via}, {Doc: a, Via: via, K: 2}, {Doc: bb, Via: "bytes"}}})
			}
		}
	}
	// other engines in the process: every program x one entry (rotating), a render, then one after
	// each kind of unrelated engine was created and used, then all of them
	for pi, p := range named {
		es := entriesOf(p)
		for k := 0; k < 2; k++ {
			e := es[(pi+k*3)%len(es)]
			st := func(other string) Step { return Step{Prog: p.Name, Entry: e, Other: other} }
			each("other-engines", Case{Steps: []Step{st(""), st("default"), st("builtins"), st("markdown"), st("components"), st("less"), st("all"), st("")}})
		}
	}
	// after-failure: before the render, a failing call through the same entry on the same engine /
	// Template object - cancelled context, expired deadline, failing writer, the program's own
	// body failing late with stale values
	for _, p := range named {
		for _, e := range entriesOf(p) {
			st := func(fail string, k int) Step { return Step{Prog: p.Name, Entry: e, Fail: fail, K: k} }
			steps := []Step{st("", 1), st("ctx", 2), st("writer", 1), st("deadline", 1)}
			if failApplies(e, "stale") {
				steps = append(steps, st("stale", 2))
			}
			each("after-failure", Case{Steps: append(steps, st("", 1))})
		}
	}
	// file edits between renders on one engine: forward, then twice BACKWARDS in mtime (the
	// second time older than the original), then forward again; never an mtime used before
	// (through the entries that read the page from the filesystem; the others are drawn by the
	// rapid family "edits")
	for _, cb := range cs {
		if !usesTemplateCache(cb.entry) && cb.entry != "frag" {
			continue
		}
		st := func(rev, mt, k int) Step { return Step{Prog: cb.p.Name, Entry: cb.entry, Rev: rev, Mt: mt, K: k} }
		each("edits-core", Case{Steps: []Step{st(0, 0, 1), st(1, 2, 1), st(2, 1, 1), st(0, -1, 1), st(1, 3, 2)}})
		// the page (then every template file) becomes unreadable with a permission error after
		// it was rendered, and readable again
		// files are CREATED and DELETED between renders: a default layout appears after a render
		// that had none, disappears, reappears; the same for a layout next to the page
		ex := func(extra string, k int) Step { return Step{Prog: cb.p.Name, Entry: cb.entry, Extra: extra, K: k} }
		tplEntry := cb.entry == "load" || cb.entry == "file" || cb.entry == eAssign // the entries that apply layouts
		if tplEntry && overlayOK(cb.p, "base") {
			each("edits-core", Case{Steps: []Step{ex("", 1), ex("base", 2), ex("", 1), ex("base", 1), ex("", 1)}})
		}
		if tplEntry && overlayOK(cb.p, "local") {
			each("edits-core", Case{Steps: []Step{ex("", 1), ex("local", 2), ex("", 1), ex("local", 1)}})
			each("edits-core", Case{Steps: []Step{ex("local", 1), ex("", 2), ex("local", 1)}})
		}
		if tplEntry && overlayOK(cb.p, "base+local") {
			each("edits-core", Case{Steps: []Step{ex("base", 1), ex("base+local", 1), ex("local", 1), ex("", 1), ex("base+local", 1)}})
		}
		dn := func(deny string, k int) Step { return Step{Prog: cb.p.Name, Entry: cb.entry, Deny: deny, K: k} }
		each("edits-core", Case{Steps: []Step{dn("", 2), dn("page", 2), dn("", 1), dn("all", 1), dn("", 1)}})
	}
	// exhaustive core: all ordered pairs of (program, entry). For every A the other
	// combinations are visited four per history: A, B1, A, B2, A, B3, A, B4, A - every B is
	// rendered right after A and A right after every B, all on long-lived engines.
	pairHistories := func(kind string, list []combo, shared bool, keep func(ai, chunk int) bool) {
		// In the quick tier RenderString and RenderByte are represented by RenderReader on both
		// sides (template_render.go: each is a one-line delegation to the next); thorough keeps
		// the full square.
		others := list
		if !run.Thorough() {
			others = nil
			for _, cb := range list {
				if cb.entry != "string" && cb.entry != "byte" {
					others = append(others, cb)
				}
			}
		}
		for ai, a := range list {
			if !run.Thorough() && (a.entry == "string" || a.entry == "byte") {
				continue // quick: represented by reader on the A side as well
			}
			for lo := 0; lo < len(others); lo += 4 {
				if !keep(ai, lo/4) {
					continue
				}
				sa := Step{Prog: a.p.Name, Entry: a.entry}
				steps := []Step{sa}
				for bi := lo; bi < lo+4 && bi < len(others); bi++ {
					steps = append(steps, Step{Prog: others[bi].p.Name, Entry: others[bi].entry}, sa)
				}
				each(kind, Case{Shared: shared, Steps: steps})
			}
		}
	}
	// (of a family of twin programs - same template text, other blanks or other value types -
	// one member takes part here: on engines of their own, twins are ordinary programs; all
	// members meet each other on the shared engine below)
	var core []combo
	famSeen := map[string]string{}
	for _, cb := range cs {
		fam := ""
		switch {
		case hasFeat(cb.p, "near-twin"):
			fam = "near-twin"
		case hasFeat(cb.p, "arithmetic"):
			fam = "num-twin"
		case hasFeat(cb.p, "retype-twin"):
			fam = "retype-twin"
		case hasFeat(cb.p, "row-twin"):
			fam = "row-twin"
		case hasFeat(cb.p, "print-twin"):
			fam = "print-twin"
		}
		if fam != "" {
			if first, ok := famSeen[fam]; ok && first != cb.p.Name {
				continue
			}
			famSeen[fam] = cb.p.Name
		}
		core = append(core, cb)
	}
	// thorough: the full square. quick: with 70+ programs the square no longer fits the quick
	// budget; every third chunk is taken, rotating with A, so that every ordered pair of PROGRAMS
	// still meets through several entry pairs and every (program, entry) is A for a third of the Bs.
	pairHistories("pairs", core, false, func(ai, chunk int) bool { return run.Thorough() || (ai+chunk)%3 == 0 })
	// the same with one engine and one filesystem for all programs that can share them
	// (thorough: all ordered pairs; quick: every third chunk, rotating with A)
	sh := sharedSet()
	var scs []combo
	for _, cb := range cs {
		if sh[cb.p.Name] {
			scs = append(scs, cb)
		}
	}
	pairHistories("pairs-shared", scs, true, func(ai, chunk int) bool { return run.Thorough() || (ai+chunk)%3 == 0 })
	// near-twin programs on the shared engine, exhaustively in both tiers: every ordered pair of
	// twins x every pair of entries as A, B, A (the first render on the engine is A's)
	// pages with front-matter and pages that READ the same key names, on one long-lived renderer:
	// F (Load + Fill / RenderFile / Load + Assign), then R loaded WITHOUT Fill (Assign of its own
	// keys only, or no data at all), then F again; and the other way round
	var fmPages, readers []combo
	for _, cb := range scs {
		tpl := cb.entry == "load" || cb.entry == "file" || cb.entry == eAssign
		if tpl && hasFeat(cb.p, "front-matter") && strings.HasPrefix(cb.p.Files["page.vuego"], "---\n") {
			fmPages = append(fmPages, cb)
		}
		if cb.entry == eAssign && hasFeat(cb.p, "leak-probe") {
			readers = append(readers, cb)
		}
	}
	for _, f := range fmPages {
		for _, r := range readers {
			for _, rv := range []int{0, vNil} {
				sf := Step{Prog: f.p.Name, Entry: f.entry}
				sr := Step{Prog: r.p.Name, Entry: r.entry, Var: rv}
				each("fm-shared", Case{Shared: true, Steps: []Step{sf, sr, sf, sr}})
				each("fm-shared", Case{Shared: true, Steps: []Step{sr, sf, sr}})
			}
		}
	}
	for _, family := range []string{"near-twin", "retype-twin", "row-twin", "print-twin"} {
		var twins []combo
		for _, cb := range scs {
			if hasFeat(cb.p, family) {
				twins = append(twins, cb)
			}
		}
		for _, a := range twins {
			for _, bb := range twins {
				// twins meet through the per-engine caches: both entries on the root template's
				// engine or both on the *Vue (cross pairs are covered by pairs-shared)
				if a.p.Name == bb.p.Name || usesVue(a.entry) != usesVue(bb.entry) {
					continue
				}
				sa := Step{Prog: a.p.Name, Entry: a.entry}
				each("twins-shared", Case{Shared: true, Steps: []Step{sa, {Prog: bb.p.Name, Entry: bb.entry}, sa}})
			}
		}
	}
	if ok && run.Thorough() {
		rec.Exhaustive(fmt.Sprintf("all ordered pairs (A, B) of %d applicable (program, entry) combinations (one member per twin family; quick: without the entries string/byte, which delegate to reader) of %d programs as history A, B, A on long-lived engines; all ordered pairs of twin-family members x entry pairs on the shared engine; every (program, entry) with every value typing first on the engine followed by the others; every hazard program x entry x data variant probed 30+30 times; every (program, entry) through the data variants 0,1,0,2,1,0 on one engine", len(core), len(named)))
	} else if ok {
		rec.Exhaustive(fmt.Sprintf("kinds probe, variants, retyped, kept, edits-core, fm-shared, twins-shared ran to completion over %d programs; the pair core is exhaustive in the thorough tier only (quick: every third chunk)", len(named)))
	}

	run.Rapid(t, rec, "history", genHistory, classify, check)
	run.Rapid(t, rec, "hazard", genHazard, classify, check)
	run.Rapid(t, rec, "compose", genCompose, classify, check)
	run.Rapid(t, rec, "edits", genEdits, classify, check)
	run.Rapid(t, rec, "markdown", genMarkdown, classify, check)

	// the whole table once more, on fresh engines, after everything else ran
	if run.First() {
		c := Case{Mode: "rebase"}
		nt, cls := classify(c)
		run.Each(rec, "rebase", c, nt, cls, check)
	}
}

func TestReplay(t *testing.T) { run.ReplayMain(t, prop, replay) }
