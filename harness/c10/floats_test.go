package c10

import (
	"fmt"
	"reflect"
	"regexp"
	"strings"

	"verif/internal/cat"
	"verif/internal/vals"
)

// ---- print twins: numbers that are EQUAL under == (and as map keys) but PRINT differently
//
// One template text prints z, t, h, g and the items of l in text ({{ }}) and through v-text;
// per program the same names hold numbers that compare equal yet have other printed forms:
// float64 0 / float64 -0 / float32 -0 ("0" vs "-0"), float64 0.1 / float32 0.1 / the float64
// with float32(0.1)'s exact value ("0.1" vs "0.1" vs "0.10000000149011612"), float64 3 / int 3 /
// int64 3, float64 16777217 / float32 16777217 (rounds to 1.6777216e+07) / int 16777217; the
// lists hold the equal values side by side, in different orders per program, so they also meet
// within ONE render. Anything in the process that remembers a printed form (or a converted
// value) under a key that treats these as the same gives one the text of the other - also on
// a brand-new engine, so these programs carry an ABSOLUTE expectation computed from the value
// description with fmt (what {{ }} and v-text print for a number: docs, "printed with fmt"),
// never from vuego, for the data variants that keep the number types (0..2).
func printTwin(name, canary string, z, t, h, g, l vals.V) cat.Program {
	page := `<p>[{{ z }}|{{ t }}|{{ h }}|{{ g }}]</p><p><u v-text="z"></u><u v-text="t"></u><u v-text="h"></u><u v-text="g"></u></p>` +
		`<ul><li v-for="e in l">[{{ e }}]<u v-text="e"></u></li></ul><p>[{{ z }}|{{ h }}]</p><i>{{ who }}</i>` + end
	return cat.Program{Name: name, Canary: canary, Feat: []string{"print-twin", "v-text", "v-for"},
		Files: map[string]string{"page.vuego": page},
		Data:  map[string]vals.V{"who": s(canary), "z": z, "t": t, "h": h, "g": g, "l": l}}
}

func printTwins() []cat.Program {
	f64 := func(x string) vals.V { return vals.Num("float64", x) }
	f32 := func(x string) vals.V { return vals.Num("float32", x) }
	i64 := func(x string) vals.V { return vals.Num("int64", x) }
	return []cat.Program{
		printTwin("x-print-a", "xpaWHO", f64("0"), f64("0.1"), f64("3"), f64("16777217"),
			anys(f64("0"), f64("-0"), f64("0.1"), f32("0.1"), n(3), f64("3"), f32("0"), f32("-0"), f64("-0"), f64("0"))),
		printTwin("x-print-b", "xpbWHO", f64("-0"), f32("0.1"), n(3), f32("16777217"),
			anys(f64("-0"), f64("0"), f32("0.1"), f64("0.1"), f64("3"), i64("3"), f32("-0"), f64("0.10000000149011612"), f64("2.5"), f64("-2.5"))),
		printTwin("x-print-c", "xpcWHO", f32("-0"), f64("0.10000000149011612"), i64("3"), n(16777217),
			vals.V{K: "[]float64", L: []vals.V{{S: "-0"}, {S: "0"}, {S: "-0"}, {S: "3"}, {S: "0.1"}, {S: "1e21"}, {S: "-1e-7"}}}),
	}
}

var uToken = regexp.MustCompile(`<u>\s*([^<]*?)\s*</u>`)

// absolutePrint: every number prints as fmt prints that Go value, whatever was printed before.
func absolutePrint(p cat.Program, v int, r result) error {
	if !hasFeat(p, "print-twin") || v > 2 || r.failed {
		return nil
	}
	text := func(key string) string { return fmt.Sprint(variant(p.Data[key], v).Go()) }
	var items []string
	if lv := reflect.ValueOf(variant(p.Data["l"], v).Go()); lv.IsValid() && lv.Kind() == reflect.Slice {
		for i := 0; i < lv.Len(); i++ {
			items = append(items, fmt.Sprint(lv.Index(i).Interface()))
		}
	}
	wantB := []string{"[" + text("z") + "|" + text("t") + "|" + text("h") + "|" + text("g") + "]"}
	wantU := []string{text("z"), text("t"), text("h"), text("g")}
	for _, it := range items {
		wantB = append(wantB, "["+it+"]")
		wantU = append(wantU, it)
	}
	wantB = append(wantB, "["+text("z")+"|"+text("h")+"]")
	gotB := rowToken.FindAllString(string(r.out), -1)
	if strings.Join(gotB, " ") != strings.Join(wantB, " ") {
		return fmt.Errorf("numbers of %s printed in text as %v, fmt prints the values passed as %v", p.Name, gotB, wantB)
	}
	var gotU []string
	for _, mm := range uToken.FindAllStringSubmatch(string(r.out), -1) {
		gotU = append(gotU, mm[1])
	}
	if strings.Join(gotU, " ") != strings.Join(wantU, " ") {
		return fmt.Errorf("numbers of %s printed through v-text as %v, fmt prints the values passed as %v", p.Name, gotU, wantU)
	}
	return nil
}
