package c10

import (
	"bytes"
	"fmt"
	"strings"

	"pgregory.net/rapid"

	"verif/internal/cat"
	"verif/internal/compose"
	"verif/internal/memfs"
)

// Family "compose": generated composition programs (verif/internal/compose: pages and
// components with loops, v-if chains, includes, shorthand tags, slots, scoped slots) as program
// source. The compose.Case is embedded in the case (pure data); check() turns it into programs
// gen0, gen1 defined by the case. One long-lived engine renders gen0 three or more times through
// the entry points it supports, interleaved with one render of a second program: gen1 on the
// SAME engine and filesystem when the two file sets can be united (Join), otherwise gen0 itself
// with perturbed data. Every render must equal the fresh-engine render of the same files, data
// and entry: evaluation that writes into a cached DOM or into shared nodes (a v-else stripped
// from a source node, evaluated attributes written back into the cached tag) shows on the
// second render on the same engine.

func walkNodes(ns []compose.Node, f func(n compose.Node)) {
	for _, n := range ns {
		f(n)
		walkNodes(n.Kids, f)
		for _, sp := range n.Supply {
			walkNodes(sp.Kids, f)
		}
	}
}

func walkCase(g compose.Case, f func(n compose.Node)) {
	walkNodes(g.Page, f)
	for _, cp := range g.Comps {
		walkNodes(cp.Body, f)
	}
}

func usesShorthand(g compose.Case) bool {
	short := false
	walkCase(g, func(n compose.Node) {
		if n.Kind == compose.KInc && n.Short {
			short = true
		}
	})
	return short
}

// genProgram is program i of the case. A program that uses no shorthand tag does not need the
// components option and can therefore also be rendered through the *Vue methods.
func genProgram(g compose.Case, i int) cat.Program {
	p := g.Program(fmt.Sprintf("gen%d", i))
	if !usesShorthand(g) {
		p.Opts = nil
	}
	return p
}

// full returns the case with the embedded generated programs added to Defs.
func (c Case) full() Case {
	if len(c.Gen) == 0 {
		return c
	}
	out := c
	out.Defs = append([]cat.Program(nil), c.Defs...)
	for i, g := range c.Gen {
		out.Defs = append(out.Defs, genProgram(g, i))
	}
	return out
}

// joinFiles unites the file sets of the programs defined by the case: every page under
// <name>.vuego, every other file once. ok is false when two programs have different files
// under one name.
func joinFiles(ps []cat.Program) (map[string]string, []string, bool) {
	files := map[string]string{}
	optSet := map[string]bool{}
	var opts []string
	for _, p := range ps {
		for f, src := range p.Files {
			if f == "page.vuego" {
				f = p.Name + ".vuego"
			}
			if have, dup := files[f]; dup && have != src {
				return nil, nil, false
			}
			files[f] = src
		}
		for _, o := range p.Opts {
			if !optSet[o] {
				optSet[o] = true
				opts = append(opts, o)
			}
		}
	}
	return files, opts, true
}

// joinable decides, before the history runs, whether the programs defined by the case live on
// one engine: their files unite without conflict and a FRESH engine over the united filesystem
// gives every program's reference result through the entries the history uses.
func joinable(c Case, ref func(p cat.Program, entry string, v int) (result, error)) bool {
	if !c.Join || len(c.Defs) < 2 {
		return false
	}
	files, opts, ok := joinFiles(c.Defs)
	if !ok {
		return false
	}
	for _, st := range c.Steps {
		p, isDef := lookupDef(c, st.Prog)
		if !isDef {
			continue
		}
		want, err := ref(p, st.Entry, st.Var)
		if err != nil {
			return false
		}
		seatOn := &seat{p: p, page: p.Name + ".vuego", eng: newEngineFor(cat.Program{Opts: opts}, memfs.FromMap(files), []string{st.Entry})}
		got, err := seatOn.callVar(st.Entry, goData(p, st.Var), st.Var)
		if err != nil || got.failed != want.failed || !bytes.Equal(got.out, want.out) {
			return false
		}
	}
	return true
}

// renameComps gives the components of g other file names (and shorthand tags), so that g can
// share a filesystem with another generated program.
func renameComps(g compose.Case, suffix string) compose.Case {
	out := g
	out.Comps = append([]compose.Comp(nil), g.Comps...)
	for i := range out.Comps {
		out.Comps[i].Name += suffix
	}
	return out
}

func genCompose(t *rapid.T) Case {
	g0 := compose.Gen(t)
	c := Case{Mode: "history", Recheck: true, Gen: []compose.Case{g0}}
	p0 := genProgram(g0, 0)
	es := entriesOf(p0)
	// the entries that go through the engine's template cache (the cached DOM is what in-place
	// evaluation would damage) frame the history; the middle ones are drawn from all entries
	var cached []string
	for _, e := range es {
		if e == "load" || e == "file" || e == eAssign || e == "vue" {
			cached = append(cached, e)
		}
	}
	entry := func(label string) string { return rapid.SampledFrom(es).Draw(t, label) }
	e1, e2, e3 := rapid.SampledFrom(cached).Draw(t, "e1"), entry("e2"), rapid.SampledFrom(cached).Draw(t, "e3")
	var second Step
	if rapid.Bool().Draw(t, "second-program") {
		g1 := renameComps(compose.Gen(t), "B")
		c.Gen = append(c.Gen, g1)
		c.Join = true
		p1 := genProgram(g1, 1)
		second = Step{Prog: "gen1", Entry: rapid.SampledFrom(entriesOf(p1)).Draw(t, "e-second")}
	} else {
		// the same program with perturbed data: bools flipped and lists reversed (1), strings
		// changed and lists shortened (2), or nothing bound at all (empty map)
		second = Step{Prog: "gen0", Entry: entry("e-second"), Var: rapid.SampledFrom([]int{1, 2, vEmpty}).Draw(t, "perturb")}
	}
	c.Steps = []Step{{Prog: "gen0", Entry: e1}, {Prog: "gen0", Entry: e2}, second, {Prog: "gen0", Entry: e3}, {Prog: "gen0", Entry: e1, K: rapid.SampledFrom([]int{1, 2}).Draw(t, "k")}}
	return c
}

// composeClasses labels the generated programs of a case.
func composeClasses(c Case, set map[string]bool) (structured bool) {
	for _, g := range c.Gen {
		walkCase(g, func(n compose.Node) {
			switch n.Kind {
			case compose.KInc:
				set["compose:include"] = true
				structured = true
				if n.Short {
					set["compose:shorthand-tag"] = true
				}
				if len(n.Props) > 0 {
					set["compose:include-props"] = true
				}
				if len(n.Kids) > 0 {
					set["compose:default-slot-content"] = true
				}
				for _, sp := range n.Supply {
					set["compose:slot-template"] = true
					if sp.Var != "" || len(sp.Destr) > 0 {
						set["compose:scoped-slot"] = true
					}
				}
				if n.For != nil {
					set["compose:include-in-v-for"] = true
				}
				if n.If != "" || n.ElseIf != "" || n.Else {
					set["compose:include-in-chain"] = true
				}
			case compose.KSlot:
				set["compose:slot"] = true
				structured = true
				if len(n.Kids) > 0 {
					set["compose:slot-fallback"] = true
				}
			}
			if n.For != nil {
				set["compose:v-for"] = true
			}
			if n.ElseIf != "" || n.Else {
				set["compose:v-if-chain"] = true
			}
			if n.Show != "" {
				set["compose:v-show"] = true
			}
			for _, a := range n.Attrs {
				if a.Mode != "static" {
					set["compose:bound-or-interpolated-attr"] = true
				}
			}
		})
		for _, cp := range g.Comps {
			if cp.Root {
				set["compose:template-root-component"] = true
			}
			if len(cp.FM) > 0 {
				set["compose:component-front-matter"] = true
			}
		}
	}
	if len(c.Gen) > 1 {
		set["compose:two-programs"] = true
		if _, _, ok := joinFiles(c.Defs); ok && c.Join {
			set["compose:two-programs-files-unite"] = true
		}
	} else if len(c.Gen) == 1 {
		set["compose:perturbed-data"] = true
	}
	for _, st := range c.Steps {
		if strings.HasPrefix(st.Prog, "gen") && usesVue(st.Entry) {
			set["compose:vue-entry"] = true
		}
	}
	return structured
}
