package c10

import (
	"bytes"
	"context"
	"fmt"
	"sort"
	"strings"

	"github.com/titpetric/vuego"
	"github.com/titpetric/vuego/markdown"

	"verif/internal/memfs"
)

// Other engines in the process. What an engine renders is a function of its own templates and
// data; engines created elsewhere in the process - with other registered functions, other
// options, by the markdown package - are no input of the call.

var otherKinds = []string{"default", "builtins", "components", "less", "markdown", "all"}

// builtinNamedFuncs: template functions of the APPLICATION whose names are those of built-ins of
// the expression library, with meanings of their own (recognisable results).
func builtinNamedFuncs() vuego.FuncMap {
	sorted := func(l []any) []string {
		out := make([]string, len(l))
		for i, x := range l {
			out[i] = fmt.Sprint(x)
		}
		sort.Strings(out)
		return out
	}
	return vuego.FuncMap{
		"first":  func(l []any) string { s := sorted(l); return "F:" + s[0] },        // alphabetically first
		"last":   func(l []any) string { s := sorted(l); return "L:" + s[len(s)-1] }, // alphabetically last
		"max":    func(l []any) string { return fmt.Sprintf("MAX%d", len(l)) },       // not a number
		"min":    func(l []any) string { return fmt.Sprintf("MIN%d", len(l)) },
		"sum":    func(l []any) string { return "SUM:" + strings.Join(sorted(l), "+") },    // concatenation
		"join":   func(l []any) string { return "<" + strings.Join(sorted(l), "|") + ">" }, // one argument
		"keys":   func(l []any) string { return fmt.Sprintf("K%d", len(l)) },
		"values": func(l []any) string { return fmt.Sprintf("V%d", len(l)) },
		"abs":    func(s string) string { return "ABS(" + s + ")" },
		"trim":   func(s string) string { return "[" + s + "]" },
	}
}

// bystander creates an unrelated engine of the given kind and renders once with it.
func bystander(kind string) error {
	if kind == "all" {
		for _, k := range otherKinds[:len(otherKinds)-1] {
			if err := bystander(k); err != nil {
				return err
			}
		}
		return nil
	}
	files := map[string]string{
		"page.vuego":                `<p v-if="len(xs) > 1" :title="n | upper">{{ n }} {{ len(xs) }}</p><other-tag :n="n"></other-tag>`,
		"components/OtherTag.vuego": `<em>{{ n }}</em>`,
		"vars.less":                 "@c: red;\n",
		"doc.md":                    "# Title\n\ntext *em*\n",
	}
	data := map[string]any{"n": "bystander", "xs": []any{"b", "a", "c"}}
	fsys := memfs.FromMap(files)
	var buf bytes.Buffer
	ctx := context.Background()
	switch kind {
	case "default":
		return vuego.NewFS(fsys).Load("page.vuego").Fill(data).Render(ctx, &buf)
	case "builtins":
		fm := vuego.FuncMap{}
		for _, name := range []string{"first", "last", "max", "min", "sum", "join", "keys", "values", "filter", "map", "count", "upper"} {
			name := name
			fm[name] = func(v any) string { return "other-" + name }
		}
		tpl := vuego.NewFS(fsys, vuego.WithFuncs(fm))
		return tpl.New().Fill(data).RenderString(ctx, &buf, `<p v-if="first(xs) == 'other-first'" :title="max(xs)">{{ sum(xs) }} {{ join(xs) }}</p><i v-else>{{ last(xs) }}</i>`)
	case "components":
		return vuego.NewFS(fsys, vuego.WithComponents()).Load("page.vuego").Fill(data).Render(ctx, &buf)
	case "less":
		tpl := vuego.NewFS(fsys, vuego.WithLessProcessor())
		return tpl.New().Fill(data).RenderString(ctx, &buf, "<style type=\"text/css+less\">@import \"vars.less\"; .a { color: @c; }</style><p>{{ n }}</p>")
	case "markdown":
		doc, err := markdown.New(fsys).Load("doc.md")
		if err != nil {
			return nil // the bystander's own trouble is not this check's subject
		}
		_ = doc.Render(&buf)
		return nil
	}
	return fmt.Errorf("unknown other-engine kind %q (malformed case)", kind)
}
