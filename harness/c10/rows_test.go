package c10

import (
	"fmt"
	"regexp"
	"strconv"
	"strings"

	"golang.org/x/net/html"

	"github.com/titpetric/vuego"

	"verif/internal/cat"
	"verif/internal/vals"
)

// ---- same-named struct types
//
// rowsA / rowsB / rowsC each declare their OWN local type row: three different Go types with
// the same printed name (c10.row) and permuted JSON-tagged fields. Programs x-rows-a/b/c pass
// them as loop sources; the template addresses the fields by tag name (r.id, r.name, r.note).
// Anything in the process that identifies a struct type by its printed name would give one
// type the field layout of another - also on a brand-new engine, so the fresh-engine reference
// would be wrong in the same way. These programs therefore carry an ABSOLUTE expectation,
// computed from the value description with fmt and never from vuego: the i-th loop item prints
// [<id>=<name>/<note>] (docs: a path step resolves a struct field by its name or its JSON tag).

const (
	kRowsA = "c10:rowsA" // []row,  row{Name, ID, Note}
	kRowsB = "c10:rowsB" // []row,  row{ID, Name, Note}
	kRowsC = "c10:rowsC" // []*row, row{Note, Extra, ID, Name}
)

type rowDesc struct {
	id         int
	name, note string
}

func rowDescs(v vals.V) []rowDesc {
	out := make([]rowDesc, len(v.L))
	for i, e := range v.L {
		out[i].id, _ = strconv.Atoi(e.M["id"].S)
		out[i].name = e.M["name"].S
		out[i].note = e.M["note"].S
	}
	return out
}

func rowsA(ds []rowDesc) any {
	type row struct {
		Name string `json:"name"`
		ID   int    `json:"id"`
		Note string `json:"note,omitempty"`
	}
	out := make([]row, len(ds))
	for i, d := range ds {
		out[i] = row{Name: d.name, ID: d.id, Note: d.note}
	}
	return out
}

func rowsB(ds []rowDesc) any {
	type row struct {
		ID   int    `json:"id"`
		Note string `json:"note,omitempty"`
		Name string `json:"name"`
	}
	out := make([]row, len(ds))
	for i, d := range ds {
		out[i] = row{ID: d.id, Name: d.name, Note: d.note}
	}
	return out
}

func rowsC(ds []rowDesc) any {
	type row struct {
		Note  string `json:"note,omitempty"`
		Extra bool   `json:"extra"`
		ID    int    `json:"id"`
		Name  string `json:"name"`
	}
	out := make([]*row, len(ds))
	for i, d := range ds {
		out[i] = &row{ID: d.id, Name: d.name, Note: d.note, Extra: i%2 == 0}
	}
	return out
}

const kMapSI = "c10:mapsi" // map[string]int

// map kinds with other key types; the keys are described as "<type>:<text>" (i int, s string,
// b bool, f float64), the values are strings
const (
	kMapAny   = "c10:anymap"   // map[any]any
	kMapFloat = "c10:floatmap" // map[float64]string
	kMapBool  = "c10:boolmap"  // map[bool]string
	kMapID    = "c10:idmap"    // map[rowID]string   (named integer key type)
	kMapCode  = "c10:codemap"  // map[rowCode]string (named string key type)
)

type rowID int
type rowCode string

func typedKey(k string) any {
	if len(k) < 2 || k[1] != ':' {
		return k
	}
	switch k[0] {
	case 'i':
		n, _ := strconv.Atoi(k[2:])
		return n
	case 'b':
		return k[2:] == "true"
	case 'f':
		f, _ := strconv.ParseFloat(k[2:], 64)
		return f
	}
	return k[2:]
}

// localGo builds the values of the local kinds; ok is false for every other kind.
func localGo(v vals.V) (any, bool) {
	switch v.K {
	case kMapAny:
		out := make(map[any]any, len(v.M))
		for k, e := range v.M {
			out[typedKey(k)] = e.S
		}
		return out, true
	case kMapFloat:
		out := make(map[float64]string, len(v.M))
		for k, e := range v.M {
			f, _ := typedKey(k).(float64)
			out[f] = e.S
		}
		return out, true
	case kMapBool:
		out := make(map[bool]string, len(v.M))
		for k, e := range v.M {
			bk, _ := typedKey(k).(bool)
			out[bk] = e.S
		}
		return out, true
	case kMapID:
		out := make(map[rowID]string, len(v.M))
		for k, e := range v.M {
			n, _ := typedKey(k).(int)
			out[rowID(n)] = e.S
		}
		return out, true
	case kMapCode:
		out := make(map[rowCode]string, len(v.M))
		for k, e := range v.M {
			out[rowCode(fmt.Sprint(typedKey(k)))] = e.S
		}
		return out, true
	case kMapSI:
		out := make(map[string]int, len(v.M))
		for k, e := range v.M {
			out[k], _ = strconv.Atoi(e.S)
		}
		return out, true
	case kRowsA:
		return rowsA(rowDescs(v)), true
	case kRowsB:
		return rowsB(rowDescs(v)), true
	case kRowsC:
		return rowsC(rowDescs(v)), true
	}
	return nil, false
}

func rowsVal(kind string, ds ...rowDesc) vals.V {
	l := make([]vals.V, len(ds))
	for i, d := range ds {
		l[i] = vals.Map(map[string]vals.V{"id": n(d.id), "name": s(d.name), "note": s(d.note)})
	}
	return vals.V{K: kind, L: l}
}

func rowTwin(name, canary, kind string, ds ...rowDesc) cat.Program {
	page := `<ul><li v-for="r in rows" :data-id="r.id" :title="r.name">[{{ r.id }}={{ r.name }}/{{ r.note }}]<b v-if="r.id > 1">big</b></li></ul>` +
		`<p v-for="(i, r) in rows">{{ i }}:{{ r.name }}:{{ r.id }}</p><i>{{ who }}</i>` + end
	return cat.Program{Name: name, Canary: canary, Feat: []string{"row-twin", "struct", "v-for"},
		Files: map[string]string{"page.vuego": page},
		Data:  map[string]vals.V{"who": s(canary), "rows": rowsVal(kind, ds...)}}
}

var rowToken = regexp.MustCompile(`\[[^\]\[]*\]`)

// unicodeKeys: keys that differ only in a format character (ZWNJ, ZWSP, soft hyphen, BOM inside),
// a combining mark vs the precomposed letter, letter case beyond ASCII, NBSP vs blank-free.
var unicodeKeys = []string{
	"می\u200cروم", "میروم", // ZWNJ
	"ab\u200bcd", "abcd", "ab\u00adcd", // ZWSP, soft hyphen
	"caf\u00e9", "cafe\u0301", // precomposed / combining
	"\u0130d", "id", "\u0131d", // dotted / dotless i
	"stra\u00dfe", "strasse",
	"x\ufeffy", "xy", // BOM inside
	"r\u200fl", "rl", // direction mark
}

func unicodeProgram() cat.Program {
	labels := map[string]vals.V{}
	var cells []string
	for i, k := range unicodeKeys {
		labels[k] = s(fmt.Sprintf("u%d", i))
		cells = append(cells, "{{ labels."+k+" }}")
	}
	// every path twice, the second time in reverse order (so each twin is once the first resolved)
	var rev []string
	for i := len(cells) - 1; i >= 0; i-- {
		rev = append(rev, cells[i])
	}
	page := "<p>[" + strings.Join(cells, "|") + "]</p><p>[" + strings.Join(rev, "|") + "]</p><i>{{ who }}</i>" + end
	return cat.Program{Name: "x-unicode-paths", Canary: "xupWHO", Feat: []string{"unicode-paths", "paths", "many-engines"},
		Files: map[string]string{"page.vuego": page},
		Data: map[string]vals.V{"who": s("xupWHO"), "labels": m(labels),
			// top-level keys the engine might "normalise" in the caller's map
			"\ufeffbom": s("bom-first"), "na\u200cme": s("zwnj"), "nb\u00a0sp": s("nbsp"), "e\u0301": s("combining"), "\u00e9": s("precomposed"),
			"nested": m(map[string]vals.V{"\ufeffinner": s("ib"), "in\u200bner": anys(s("l1"), m(map[string]vals.V{"\ufeffdeep": s("d")}))})}}
}

// absoluteUnicode: the bracketed lists print the values of the keys exactly as spelt.
func absoluteUnicode(p cat.Program, v int, r result) error {
	if !hasFeat(p, "unicode-paths") || v > 2 || r.failed {
		return nil
	}
	lab := variant(p.Data["labels"], v).M
	var fwd, rev []string
	for _, k := range unicodeKeys {
		fwd = append(fwd, lab[k].S)
	}
	for i := len(fwd) - 1; i >= 0; i-- {
		rev = append(rev, fwd[i])
	}
	want := []string{"[" + strings.Join(fwd, "|") + "]", "[" + strings.Join(rev, "|") + "]"}
	got := rowToken.FindAllString(string(r.out), -1)
	if strings.Join(got, " ") != strings.Join(want, " ") {
		return fmt.Errorf("paths that differ only in a format character / combining mark / non-ASCII case printed %v, the values of the keys as spelt are %v", got, want)
	}
	return nil
}

// absolute checks the expectation that does not come from vuego (row-twin programs, the data
// variants that keep the field types: 0..2).
func absolute(p cat.Program, v int, r result) error {
	if err := absoluteUnicode(p, v, r); err != nil {
		return err
	}
	if err := absolutePrint(p, v, r); err != nil {
		return err
	}
	if !hasFeat(p, "row-twin") || v > 2 || r.failed {
		return nil
	}
	var want []string
	for _, d := range rowDescs(variant(p.Data["rows"], v)) {
		want = append(want, fmt.Sprintf("[%d=%s/%s]", d.id, d.name, d.note))
	}
	got := rowToken.FindAllString(string(r.out), -1)
	if strings.Join(got, " ") != strings.Join(want, " ") {
		return fmt.Errorf("the loop over rows of %s (fields addressed by JSON tag) printed %v, the values passed are %v", p.Name, got, want)
	}
	return nil
}

// ---- a node processor that edits attribute values in place

// stamp is a NodeProcessor whose PreProcess appends a version to every src / href value by
// writing into the existing attribute (Attr[i].Val = ...): not idempotent, so a template DOM
// that is shared between renders shows ?v=42?v=42 on the second render.
type stamp struct{}

func (stamp) New() vuego.NodeProcessor { return stamp{} }

func (stamp) PreProcess(nodes []*html.Node) error {
	var walk func(n *html.Node)
	walk = func(n *html.Node) {
		if n.Type == html.ElementNode {
			for i := range n.Attr {
				if n.Attr[i].Key == "src" || n.Attr[i].Key == "href" || n.Attr[i].Key == "data-stamp" {
					n.Attr[i].Val += "?v=42"
				}
			}
		}
		for c := n.FirstChild; c != nil; c = c.NextSibling {
			walk(c)
		}
	}
	for _, n := range nodes {
		walk(n)
	}
	return nil
}

func (stamp) PostProcess(nodes []*html.Node) error { return nil }
