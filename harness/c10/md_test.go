package c10

import (
	"bytes"
	"fmt"

	"github.com/titpetric/vuego/markdown"
	"pgregory.net/rapid"

	"verif/internal/memfs"
)

// Markdown as a subject of "a function of the inputs only": ONE long-lived markdown.New renderer
// renders a SEQUENCE of documents (mode "markdown"); every output must equal, byte for byte,
// what a fresh renderer gives for that document alone. The documents use the spellings that
// CommonMark treats as equivalent - inline links and reference-style links / images - with the
// SAME labels bound to different targets in different documents, labels a document does not
// define, collapsed and shortcut references, the same heading texts (ids), tables and lists.

// MdStep renders one document of the catalogue through RenderBytes ("bytes") or Load + Render
// ("load"), K times in a row.
type MdStep struct {
	Doc string `json:"doc"`
	Via string `json:"via,omitempty"`
	K   int    `json:"k,omitempty"`
}

var mdDocs = map[string]string{
	"first":     "# Guide\n\nStart at the [home page][home] or read the [docs].\n\n![logo][img]\n\n[home]: /first/ \"First site\"\n[docs]: /first/docs\n[img]: /first/logo.png \"First logo\"\n",
	"second":    "# Guide\n\nBack to the [home page][home].\n\nSee the [docs] and [docs][] for more, ![logo][img].\n\n[home]: /second/ \"Second site\"\n[docs]: /second/docs\n[img]: /second/logo.svg\n",
	"inline":    "# Guide\n\nBack to the [home page](/inline/ \"Inline site\"), see the [docs](/inline/docs) and ![logo](/inline/logo.png \"t\").\n",
	"undefined": "# Other\n\nNo definitions here: [home page][home], [docs], [docs][], ![logo][img] and [missing].\n",
	"case":      "## Guide\n\nLabels are case-insensitive: [x][HOME] [y][Docs].\n\n[Home]: /case/home\n[DOCS]: /case/docs 'Case docs'\n",
	"redefine":  "Twice in one document: [a][home].\n\n[home]: /redef/one\n[home]: /redef/two\n",
	"table":     "# Guide\n\n| a | b |\n|---|---|\n| [home] | ~~x~~ |\n\n- [ ] todo [docs]\n- [x] done\n\n[home]: /table/home\n",
	"plain":     "Just *text* with `code` and a line\nbreak.\n\n1. one\n2. two\n",
	"fm":        "---\ntitle: With front matter\nhome: /fm/\n---\n# Guide\n\n[home page][home]\n\n[home]: /fm/home \"FM\"\n",
	"autolink":  "# Links\n\n<https://example.org/auto> and https://example.org/bare and [docs]\n\n[docs]: <https://example.org/docs> (paren title)\n",
}

var mdNames = []string{"first", "second", "inline", "undefined", "case", "redefine", "table", "plain", "fm", "autolink"}

func mdFS() *memfs.FS {
	files := map[string]string{}
	for n, src := range mdDocs {
		files[n+".md"] = src
	}
	return memfs.FromMap(files)
}

func mdRender(m *markdown.Markdown, st MdStep) (string, error) {
	src, ok := mdDocs[st.Doc]
	if !ok {
		return "", fmt.Errorf("unknown document %q (malformed case)", st.Doc)
	}
	var buf bytes.Buffer
	switch st.Via {
	case "", "bytes":
		if err := m.RenderBytes(&buf, []byte(src)); err != nil {
			return "ERROR: " + err.Error(), nil
		}
	case "load":
		doc, err := m.Load(st.Doc + ".md")
		if err != nil {
			return "ERROR: " + err.Error(), nil
		}
		if err := doc.Render(&buf); err != nil {
			return "ERROR: " + err.Error(), nil
		}
	default:
		return "", fmt.Errorf("unknown via %q (malformed case)", st.Via)
	}
	return buf.String(), nil
}

func checkMarkdown(c Case) error {
	// references first: each document alone on a fresh renderer
	refs := make([]string, len(c.Md))
	for i, st := range c.Md {
		r, err := mdRender(markdown.New(mdFS()), st)
		if err != nil {
			return err
		}
		refs[i] = r
	}
	used := markdown.New(mdFS())
	for i, st := range c.Md {
		k := st.K
		if k < 1 {
			k = 1
		}
		for r := 0; r < k; r++ {
			got, err := mdRender(used, st)
			if err != nil {
				return err
			}
			if got != refs[i] {
				where := fmt.Sprintf("markdown step %d of %d (%s via %s), render %d of %d on one long-lived markdown renderer", i+1, len(c.Md), st.Doc, st.Via, r+1, k)
				if i > 0 {
					where += ", after " + c.Md[i-1].Doc
				}
				return fmt.Errorf("%s: bytes differ from a fresh renderer: %s", where, firstDiff([]byte(got), []byte(refs[i])))
			}
		}
	}
	// a fresh renderer after the sequence still gives the same
	for i, st := range c.Md {
		got, err := mdRender(markdown.New(mdFS()), st)
		if err != nil {
			return err
		}
		if got != refs[i] {
			return fmt.Errorf("markdown %s on a fresh renderer AFTER the sequence differs from a fresh renderer before it: %s", st.Doc, firstDiff([]byte(got), []byte(refs[i])))
		}
	}
	return nil
}

func genMarkdown(t *rapid.T) Case {
	steps := rapid.SliceOfN(rapid.Custom(func(t *rapid.T) MdStep {
		return MdStep{Doc: rapid.SampledFrom(mdNames).Draw(t, "doc"), Via: rapid.SampledFrom([]string{"bytes", "bytes", "load"}).Draw(t, "via"), K: rapid.SampledFrom([]int{1, 1, 2}).Draw(t, "k")}
	}), 2, 8).Draw(t, "docs")
	return Case{Mode: "markdown", Md: steps}
}

func mdClasses(c Case, set map[string]bool) bool {
	seen := map[string]bool{}
	nontrivial := false
	for _, st := range c.Md {
		set["md:doc="+st.Doc] = true
		via := st.Via
		if via == "" {
			via = "bytes"
		}
		set["md:via="+via] = true
		if len(seen) > 0 && !seen[st.Doc] || len(seen) > 1 {
			nontrivial = true // a document rendered after a DIFFERENT one
		}
		seen[st.Doc] = true
	}
	set[fmt.Sprintf("md:len=%d", len(c.Md))] = true
	return nontrivial
}
