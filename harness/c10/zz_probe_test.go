package c10

import (
	"fmt"
	"testing"
	"time"
)

func TestZZCount(t *testing.T) {
	cs := combos()
	fmt.Println("combos", len(cs), "named", len(named))
	_ = fillTable()
	fmt.Println("table", len(refTab), "shared", len(sharedSet()))
	t0 := time.Now()
	n := 0
	for _, a := range cs[:20] {
		for _, bb := range cs {
			_ = check(Case{Steps: []Step{{Prog: a.p.Name, Entry: a.entry}, {Prog: bb.p.Name, Entry: bb.entry}, {Prog: a.p.Name, Entry: a.entry}}})
			n++
		}
	}
	fmt.Println("pairs", n, time.Since(t0), time.Since(t0)/time.Duration(n))
	t0 = time.Now()
	for i := 0; i < 2000; i++ {
		_, _ = fresh(cs[0].p, cs[0].entry, 0)
	}
	fmt.Println("fresh", time.Since(t0)/2000)
	st := &seat{p: cs[0].p, page: "page.vuego", eng: newEngine(cs[0].p, cs[0].p.FS())}
	t0 = time.Now()
	for i := 0; i < 2000; i++ {
		_, _ = st.call(cs[0].entry, goData(cs[0].p, 0))
	}
	fmt.Println("call", time.Since(t0)/2000)
	t0 = time.Now()
	for i := 0; i < 2000; i++ {
		_ = foreign(Case{}, cs[0].p)
	}
	fmt.Println("foreign", time.Since(t0)/2000)
	t0 = time.Now()
	for i := 0; i < 2000; i++ {
		_ = newEngine(cs[0].p, cs[0].p.FS())
	}
	fmt.Println("newEngine", time.Since(t0)/2000)
}
