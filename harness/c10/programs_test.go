package c10

import (
	"regexp"
	"sort"
	"strconv"
	"strings"
	"sync"

	"verif/internal/cat"
	"verif/internal/kf"
	"verif/internal/vals"
)

// Local programs (same format as verif/internal/cat). They add what the shared catalogue does
// not stress: several bound attributes on one element, style + :style merging, style + v-show,
// object class bindings, nested caller data handed around as props, front-matter that collides
// with the caller's keys (also through *Vue.Render / RenderFragment), <template> attributes
// that write into the scope, engine-level config data, v-html / v-text, failures raised deep
// inside nested scopes, and two "probe" programs that read names which only OTHER programs
// bind in a scope (loop variables, include props, slot props): on a correct engine they print
// nothing for those names.
//
// v-for over maps: see x-map-loops (which order the keys are visited in is unspecified and not
// asserted; that identical inputs give identical bytes is).

const end = `<i data-m="end">END</i>`

func s(x string) vals.V { return vals.Str(x) }
func n(x int) vals.V    { return vals.Int(x) }
func b(x bool) vals.V   { return vals.Bool(x) }

func strs(items ...string) vals.V {
	l := make([]vals.V, len(items))
	for i, it := range items {
		l[i] = vals.Str(it)
	}
	return vals.V{K: "[]string", L: l}
}

func anys(items ...vals.V) vals.V { return vals.V{K: "[]any", L: items} }

func m(kv map[string]vals.V) vals.V { return vals.Map(kv) }

// hazard marks the programs with unordered-collection hazards (several bound attributes,
// style merges, class objects): the subjects of the nondeterminism probe.
const hazard = "hazard"

// twin builds a near-twin program whose string literals hold the blank run sp.
func twin(name, canary, sp string) cat.Program {
	ny := "'New" + sp + "York'"
	sep := "'" + sp + "'"
	page := `<p>{{ city == ` + ny + ` ? 'match' : 'nomatch' }} [{{ a + ` + sep + ` + b }}] {{ who }} {{ sep == ` + sep + ` ? 'sep1' : 'sepN' }}</p>` +
		`<b v-if="city == ` + ny + `">in</b><b v-else>out</b><i v-show="sep == ` + sep + `">shown</i>` +
		`<em v-if="city != ` + ny + `">other</em><em v-else-if="a + ` + sep + ` + b == 'left right'">joined1</em><em v-else>joinedN</em>` +
		`<a :title="a + ` + sep + ` + b" :data-c="city == ` + ny + `" :data-j="who + ` + sep + ` + city">t</a>` +
		`<p :class="{hit: city == ` + ny + `, miss: city != ` + ny + `, one: sep == ` + sep + `}" :style="{content: a + ` + sep + ` + b, quotes: city == ` + ny + `}">c</p>` +
		`<ul><li v-for="r in rows" :data-k="r + ` + sep + ` + a"><span v-if="r == ` + ny + `">eq</span><span v-else>ne</span>{{ r + ` + sep + ` + b }}</li></ul>` + end
	return cat.Program{Name: name, Canary: canary, Feat: []string{"near-twin", "expr"},
		Files: map[string]string{"page.vuego": page},
		Data: map[string]vals.V{"who": s(canary), "city": s("New York"), "a": s("left"), "b": s("right"), "sep": s(" "),
			"rows": strs("New York", "New  York", "x")}}
}

// retypeTwin: one template text, the values of n, sv, l and u differently typed per program.
func retypeTwin(name, canary string, nv, sv, lv, uv vals.V) cat.Program {
	page := `<p v-if="n == 1">one</p><p v-else-if="n != 1 && n != '1'">other</p><p v-else>text-one</p><i v-show="n == 1" style="a:1">shown</i>` +
		`<span :class="{ on: u.Flag == true, named: u.Name == 'ann', one: n == 1 }" :style="{ width: n == 1 ? '1px' : '2px', color: sv == 'x' ? 'red' : 'blue' }">{{ u.Name }}</span>` +
		`<b>{{ n == 1 }}|{{ n != 1 }}|{{ u.Name == 'ann' ? 'A' : 'B' }}|{{ sv == 'x' }}|{{ sv == 7 }}|{{ u.Flag == true ? 'f1' : 'f0' }}|{{ len(l) > 1 }}|{{ n == sv }}</b>` +
		`<a :data-n="n == 1" :data-s="sv == 'x' ? 'sx' : 'sy'" :data-u="u.Flag == true" :title="who">t</a>` +
		`<ul><li v-for="e in l" :data-e="e == n"><em v-if="e == n">eq</em><em v-else-if="e == 2">two</em><em v-else>ne</em><u v-show="e == 1">one</u></li></ul>` + end
	return cat.Program{Name: name, Canary: canary, Feat: []string{"retype-twin", "expr"},
		Files: map[string]string{"page.vuego": page},
		Data:  map[string]vals.V{"who": s(canary), "n": nv, "sv": sv, "l": lv, "u": uv}}
}

// numTwin: arithmetic and ordering on numbers of one Go type per program.
func numTwin(name, canary, kind string) cat.Program {
	num := func(x string) vals.V { return vals.Num(kind, x) }
	page := `<p v-if="n + 1 == 3">three</p><p v-else-if="n > 2">big</p><p v-else>small</p><i v-show="n * 2 > 3">shown</i>` +
		`<span :class="{ pos: n > 0, two: n == 2, sum: n + k == 5 }" :style="{ width: n + 1, height: n * k }">{{ n }}</span>` +
		`<b>{{ n + 1 }}|{{ n * 2 }}|{{ n - 1 }}|{{ n > 1 }}|{{ n >= 2 && k <= 3 }}|{{ n + k }}|{{ n == 2 ? 'two' : 'not' }}|{{ n < k }}</b>` +
		`<a :data-a="n + 1" :data-b="n * k" :data-c="n > k" :title="who">t</a>` +
		`<ul><li v-for="e in l" :data-e="e + n"><em v-if="e > n">gt</em><em v-else-if="e == n">eq</em><em v-else>lt</em>{{ e * 2 }}</li></ul>` + end
	return cat.Program{Name: name, Canary: canary, Feat: []string{"retype-twin", "expr", "arithmetic"},
		Files: map[string]string{"page.vuego": page},
		Data:  map[string]vals.V{"who": s(canary), "n": num("2"), "k": num("3"), "l": anys(num("1"), num("2"), num("3"))}}
}

// ---- loops over maps

// fMapOrder: Stack.ForEach walks a map in Go's random iteration order, so a v-for over a map
// with two or more keys renders its instances in an order that changes from render to render.
// While the finding is open, the loop sources of the registered programs are cut down to ONE
// key (the first in sorted order); every cut is counted.
const fMapOrder = "C10-map-iteration-order-random"

var (
	mapOrderOpen = kf.Load().Open(fMapOrder)
	mapsCut      int
)

// loopMap describes a map that a program loops over (kind: map, mapss, mapint, c10:mapsi).
func loopMap(kind string, entries map[string]vals.V) vals.V {
	if mapOrderOpen && len(entries) > 1 {
		keys := make([]string, 0, len(entries))
		for k := range entries {
			keys = append(keys, k)
		}
		sort.Strings(keys)
		entries = map[string]vals.V{keys[0]: entries[keys[0]]}
		mapsCut++
	}
	return vals.V{K: kind, M: entries}
}

// yamlMap writes a front-matter mapping "name:\n  k: v\n ..." (pairs in the order given; cut
// down to the first pair while the finding is open).
func yamlMap(name string, kv ...string) string {
	if mapOrderOpen && len(kv) > 2 {
		kv = kv[:2]
		mapsCut++
	}
	out := name + ":\n"
	for i := 0; i+1 < len(kv); i += 2 {
		out += "  " + kv[i] + ": " + kv[i+1] + "\n"
	}
	return out
}

func local() []cat.Program {
	ps := []cat.Program{
		{Name: "x-multi-bound", Canary: "xmbWHO", Feat: []string{hazard, "multi-bound"},
			Files: map[string]string{"page.vuego": `<p :a="who" :b="num" :c="flag" :d="who" :e="size" :f="col" :g="num + 1" :h="who | upper">x</p>` +
				`<a class="s" :href="url" :title="who" :id="ident" :class="cls" :data-n="num" rel="r" :rel="who" :target="col">l</a>` +
				`<input type="text" :value="who" :name="ident" :disabled="flag" :placeholder="size" :data-a="num" :data-b="col" :data-c="url">` + end},
			Data: map[string]vals.V{"who": s("xmbWHO"), "num": n(5), "flag": b(true), "size": s("12px"), "col": s("blue"), "url": s("/u/1"), "ident": s("id7"), "cls": s("k1 k2")}},

		{Name: "x-style-merge", Canary: "xsmWHO", Feat: []string{hazard, "style-merge"},
			Files: map[string]string{"page.vuego": `<p style="color:red;margin:0;top:1px;left:2px" :style="{fontSize: size, color: col, paddingTop: pad}" :title="who">x</p>` +
				`<p style="a:1;b:2;c:3;d:4;e:5" :style="sty">y</p>` +
				`<p style="z:0;y:1;x:2;w:3;v:4;u:5" :style="{x: size, t: col, s: pad, y: size}">z</p>` + end},
			Data: map[string]vals.V{"who": s("xsmWHO"), "size": s("12px"), "col": s("blue"), "pad": s("3em"), "sty": s("c:9;f:6;g:7;a:8")}},

		{Name: "x-style-show", Canary: "xssWHO", Feat: []string{hazard, "style-show"},
			Files: map[string]string{"page.vuego": `<p style="color:red;margin:0;top:1px;left:2px" v-show="off" :title="who">h</p>` +
				`<p style="a:1;b:2;c:3;d:4" :style="sty" v-show="off">z</p>` +
				`<p v-show="on" style="x:1;y:2;w:3">v</p><p v-show="off">bare</p>` +
				`<ul><li v-for="r in rows" style="m:1;n:2;o:3;p:4" v-show="r.on" :data-n="r.n" :data-name="r.name">{{ r.name }}</li></ul>` + end},
			Data: map[string]vals.V{"who": s("xssWHO"), "off": b(false), "on": b(true), "sty": s("e:5;b:9;f:6"),
				"rows": anys(m(map[string]vals.V{"name": s("ss1"), "n": n(1), "on": b(false)}), m(map[string]vals.V{"name": s("ss2"), "n": n(2), "on": b(true)}), m(map[string]vals.V{"name": s("ss3"), "n": n(3), "on": b(false)}))}},

		{Name: "x-class-object", Canary: "xcoWHO", Feat: []string{hazard, "class-object"},
			Files: map[string]string{"page.vuego": `<p class="s t" :class="{on: flag, off: !flag, big: num > 3, small: num < 3, named: who}" :title="who">x</p>` +
				`<p :class="{a: flag, b: flag, c: flag, d: flag, e: flag, f: flag}" :data-x="{k1: who, k2: num}" :style="{top: size, left: size, color: col}">y</p>` +
				`<p class="only" :class="cls" :data-q="who">q</p>` +
				// map-typed values: whatever their text form is, it must be the same every time
				`<p :class="cmap" :data-m="smap" :title="cmap">m {{ cmap }} {{ smap | json }}</p>` + end},
			Data: map[string]vals.V{"who": s("xcoWHO"), "flag": b(true), "num": n(5), "size": s("1px"), "col": s("red"), "cls": s("k1 k2"),
				"cmap": m(map[string]vals.V{"a": b(true), "b": b(false), "c": b(true), "d": n(1), "e": s("x")}),
				"smap": {K: "mapss", M: map[string]vals.V{"top": s("1px"), "left": s("2px"), "color": s("red"), "margin": s("0")}}}},

		{Name: "x-nested-data", Canary: "xndWHO", Feat: []string{"nested-data", "include", "v-for"},
			Files: map[string]string{
				"page.vuego": `<h1>{{ user.name }}</h1><ul><li v-for="(i, role) in user.roles" :data-i="i" :data-role="role.name">` +
					`<template include="components/role.vuego" :role="role" :user="user" :tags="user.tags" label="L {{ role.name }}"></template></li></ul>` +
					`<template include="components/json.vuego" data='{"a":[1,2,3],"b":{"c":"d"}}' :list="user.tags"></template>` +
					`<p v-for="t in user.tags">{{ t }} of {{ len(user.tags) }}</p><p>{{ user.addr.city }} {{ user.roles[1].perms[0] }} {{ matrix[1][0] }}</p>` + end,
				"components/role.vuego": `<span :title="role.name" :data-user="user.name">{{ label }}: {{ role.name }} of {{ user.name }} [{{ role.perms[0] }}] <b v-for="t in tags">{{ t }}</b></span>`,
				"components/json.vuego": `<em>{{ data.b.c }} {{ data.a[2] }} {{ len(list) }}</em>`,
			},
			Data: map[string]vals.V{
				"user": m(map[string]vals.V{"name": s("xndWHO"), "tags": strs("nt1", "nt2", "nt3"),
					"addr":  m(map[string]vals.V{"city": s("ndCity"), "zip": s("Z1")}),
					"roles": anys(m(map[string]vals.V{"name": s("admin"), "perms": strs("rw", "x")}), m(map[string]vals.V{"name": s("guest"), "perms": strs("r")}))}),
				"matrix": anys(anys(n(1), n(2)), anys(n(3), n(4))),
			}},

		// front-matter (page AND component) collides with the caller's keys; renderable through
		// *Vue.Render / RenderFragment as well (no layout involved)
		{Name: "x-fm-collide", FileOnly: true, Canary: "xfcWHO", Feat: []string{"front-matter", "fm-collision", "nested-data"},
			Files: map[string]string{
				"page.vuego": "---\nwho: fromFM\nnum: 7\nuser:\n  name: fmName\nlist:\n  - f1\n  - f2\nfmonly: FMO\n---\n" +
					`<p>{{ who }} {{ num }} {{ user.name }} {{ user.extra }} {{ other }} {{ fmonly }}</p><i v-for="it in list">{{ it }}</i>` +
					`<template include="components/fmc.vuego" :who="other"></template>` + end,
				"components/fmc.vuego": "---\nwho: compFM\nother: compOther\n---\n" + `<b>{{ who }} {{ other }} {{ num }}</b>`,
			},
			Data: map[string]vals.V{"who": s("xfcWHO"), "num": n(1), "other": s("keepMe"), "list": strs("c1", "c2", "c3"),
				"user": m(map[string]vals.V{"name": s("callerName"), "extra": s("callerExtra")})}},

		// <template> attributes write into the scope they are evaluated in (at top level: the root scope)
		{Name: "x-template-vars", Canary: "xtvWHO", Feat: []string{"template-vars", "v-for"},
			Files: map[string]string{"page.vuego": `<template :printed="0" label="lbl {{ who }}"><template v-for="item in items" v-if="item.on" :printed="printed+1">` +
				`{{ printed > 1 ? ", " : "" }}{{ item.name }}</template><p>{{ label }}</p></template>` +
				`<template :total="len(items)" who2="static"><p>{{ total }} {{ who2 }} {{ who }}</p></template><p>[{{ total }}|{{ printed }}|{{ who2 }}]</p>` + end},
			Data: map[string]vals.V{"who": s("xtvWHO"), "items": anys(m(map[string]vals.V{"name": s("tv1"), "on": b(true)}), m(map[string]vals.V{"name": s("tv2"), "on": b(false)}), m(map[string]vals.V{"name": s("tv3"), "on": b(true)}))}},

		{Name: "x-config-data", Canary: "xcdWHO", Feat: []string{"config-data"},
			Files: map[string]string{
				"page.vuego":    `<p>{{ site.name }} {{ site.menu[1] }} {{ theme }} {{ who }}</p><i v-for="mi in site.menu" :title="site.name">{{ mi }}</i>` + end,
				"theme.yml":     "theme: dark\nsite:\n  name: fromTheme\n",
				"data/site.yml": "site:\n  name: cfgName\n  menu:\n    - m1\n    - m2\n",
			},
			Data: map[string]vals.V{"who": s("xcdWHO")}},

		{Name: "x-vhtml", Canary: "xvhWHO", Feat: []string{"v-html", "v-text"},
			Files: map[string]string{"page.vuego": `<div v-html="markup" class="h" :title="who"><b>old</b></div><p v-text="who | upper"><i>old</i></p>` +
				`<ul><li v-for="r in rows" v-html="r"></li></ul><span v-text="num">0</span>` +
				// v-html / v-text together with v-show and a static style: the element is deep-cloned and its style rewritten
				`<div v-html="markup" style="color:red;top:0" v-show="flag" :title="who"></div><p v-text="who" style="a:1;b:2" v-show="flag" class="t"></p>` +
				`<ol><li v-for="c in cells" v-html="c.h" style="m:1;n:2" v-show="c.on" :data-h="c.h"></li></ol>` +
				// the same with 3, 5 and 6 attributes (spare capacity in the parsed attribute slice: appends stay in place)
				`<div v-html="markup" style="color:red;top:0" v-show="flag"></div><p v-text="who" style="a:1;b:2" v-show="flag"></p>` +
				`<div v-html="markup" style="left:0" v-show="flag" class="c5" id="i5"></div><p id="i6" v-text="who" class="c6" lang="en" style="a:6" v-show="flag"></p>` +
				`<ol><li v-for="c in cells" v-text="c.h" style="m:3" v-show="c.on"></li></ol>` + end},
			Data: map[string]vals.V{"who": s("xvhWHO"), "num": n(3), "flag": b(true), "markup": s("<b>bold xvh</b><i>it</i>"), "rows": strs("<u>u1</u>", "plain", "<s>s3</s>"),
				"cells": anys(m(map[string]vals.V{"h": s("<b>c1</b>"), "on": b(true)}), m(map[string]vals.V{"h": s("c2"), "on": b(false)}), m(map[string]vals.V{"h": s("<i>c3</i>"), "on": b(true)}))}},

		// reads names that only other programs bind in a scope; own data binds none of them
		{Name: "x-leak-probe", Canary: "xlpWHO", Feat: []string{"leak-probe", "include", "slot", "v-for"},
			Files: map[string]string{
				"page.vuego": `<ul><li v-for="x in xs" :data-r="r" :data-title="title">{{ r }}{{ i }}{{ h }}{{ title }}{{ count }}{{ v }}{{ label }}{{ n }}{{ it }}{{ t }}{{ k }}{{ item }}{{ role }}{{ kind }}{{ r.name }}{{ role.name }}[{{ x }}]</li></ul>` +
					`<b v-if="r">leak-r</b><b v-if="count">leak-count</b><b v-if="item">leak-item</b>` +
					// top-level data keys of other programs (visible only if an engine keeps a caller's data)
					`<p :data-num="num" :data-user="user.name">{{ num }}{{ flag }}{{ size }}{{ col }}{{ user.name }}{{ rows }}{{ markup }}{{ items }}{{ cls }}{{ sty }}{{ url }}{{ extra }}{{ rec.Name }}{{ grid }}{{ matrix }}</p><b v-if="num">leak-num</b>` +
					// key names that other pages define in their FRONT-MATTER
					`<p :data-h="heading" :data-f="fmonly">{{ heading }}{{ fmonly }}{{ n }}{{ box.k }}{{ nested.k }}{{ list }}{{ items }}{{ revn }}{{ kind }}{{ title }}</p><b v-if="heading">leak-heading</b><b v-if="fmonly">leak-fmonly</b><b v-if="nested">leak-nested</b>` +
					`<template include="components/probe.vuego"><template v-slot:head="sp"><h6>{{ sp.label }}{{ h.label }}{{ r }}{{ title }}</h6></template><p>{{ r }}{{ count }}{{ role.name }}(slot {{ who }})</p></template>` +
					`<template include="components/probe.vuego"></template>` + end,
				"components/probe.vuego": `<div>{{ r }}{{ title }}{{ count }}{{ kind }}{{ label }}{{ user.name }}{{ role.name }}{{ v }}{{ data.b.c }}<slot name="head" :label="who">dh</slot><slot>{{ h.label }}{{ item }}ds</slot></div>`,
			},
			Data: map[string]vals.V{"who": s("xlpWHO"), "xs": strs("x1", "x2", "x3")}},

		// the same through shorthand-free string templates only, inside nested loops
		{Name: "x-leak-probe-loop", Canary: "xllWHO", Feat: []string{"leak-probe", "v-for"},
			Files: map[string]string{"page.vuego": `<div v-for="(a, row) in grid"><span v-for="(c, cell) in row" :data-i="i" :data-x="x">{{ a }}{{ c }}={{ cell }}{{ r }}{{ item }}{{ role }}{{ t }}{{ it }}{{ mi }}{{ x }}</span>{{ c }}{{ cell }}</div><p>{{ a }}{{ row }}{{ who }}</p>` + end},
			Data:  map[string]vals.V{"who": s("xllWHO"), "grid": anys(strs("g1", "g2"), strs("g3"), strs("g4", "g5", "g6"))}},

		// components that carry per-render state in every place evaluation might write to, included
		// twice with different props and once per loop iteration: if a component's DOM were shared
		// between uses (cached and evaluated in place), a later use - in this render or the next
		// one with other data - would show an earlier use's values.
		{Name: "x-comp-state", Canary: "xcsWHO", Feat: []string{"component-state", "include", "v-html", "v-show", "v-once", "v-for"},
			Files: map[string]string{
				"page.vuego": `<section><template include="components/xcs-box.vuego" :body="body1" :label="who" :on="flag" :pad="pad"></template>` +
					`<template include="components/xcs-box.vuego" :body="body2" label="second {{ who }}" :on="!flag" :pad="pad"></template>` +
					`<ul><li v-for="r in rows"><template include="components/xcs-box.vuego" :body="r.h" :label="r.name" :on="r.on" :pad="pad"></template></li></ul>` +
					`<template include="components/xcs-wrap.vuego" :body="body2" :label="who"></template>` +
					`<template include="components/xcs-req.vuego" :body="body1" :label="pad"></template><template include="components/xcs-req.vuego" :body="body2" :label="who"></template></section>` + end,
				"components/xcs-box.vuego": `<div class="box" :class="{hot: on, cold: !on}" style="margin:0;top:1px" :style="{paddingTop: pad}" v-show="on" :title="label" :data-b="body">` +
					`<template v-html="body"></template><span v-html="body" style="a:1;b:2" v-show="on" class="s" :class="label"></span>` +
					`<p v-text="label" :title="label" style="c:3" v-show="!on"></p><em title="t {{ label }}" :data-on="on">{{ label }} / {{ pad }}</em>` +
					`<style v-once>.xcs{}</style><b v-if="on" :id="label">on {{ label }}</b><b v-else :id="pad">off {{ label }}</b>` +
					`<template include="components/xcs-inner.vuego" :v="label" t="t {{ label }}" :flag="on"></template>` +
					`<template :seen="label" note="n {{ label }}"><i>{{ seen }} {{ note }}</i></template></div>`,
				"components/xcs-inner.vuego": `<small :title="t" :class="{f: flag}" v-show="flag">{{ v }} {{ t }}</small>`,
				// a component whose root element is itself an include with props
				"components/xcs-wrap.vuego": `<template include="components/xcs-inner.vuego" :v="label" t="w {{ label }}" :flag="body"></template>`,
				// a component whose root is a <template> with :required, attributes and v-html children
				"components/xcs-req.vuego": `<template :required="body,label" kind="k {{ label }}" :twice="label + label"><h5 :title="kind">{{ twice }}</h5><template v-html="body"></template><u v-text="kind"></u></template>`,
			},
			Data: map[string]vals.V{"who": s("xcsWHO"), "body1": s("<b>xcs-one</b>"), "body2": s("<i>xcs-two</i>"), "flag": b(true), "pad": s("3px"),
				"rows": anys(m(map[string]vals.V{"h": s("<u>r1</u>"), "name": s("row1"), "on": b(true)}), m(map[string]vals.V{"h": s("r2"), "name": s("row2"), "on": b(false)}))}},
		// the same idea with registered shorthand tags inside the component (needs WithComponents)
		{Name: "x-comp-state-sh", Opts: []string{"components"}, Canary: "xchWHO", Feat: []string{"component-state", "shorthand", "include"},
			Files: map[string]string{
				"page.vuego": `<div><xch-card :label="who" :body="body" :on="flag"></xch-card><xch-card label="two {{ who }}" :body="who" :on="!flag"></xch-card>` +
					`<p v-for="r in rows"><xch-card :label="r" :body="body" :on="flag"></xch-card></p></div>` + end,
				"components/XchCard.vuego": `<article :title="label" :class="{on: on}" style="x:1" v-show="on"><xch-leaf :v="label" t="t {{ label }}"></xch-leaf><template v-html="body"></template><span v-text="label"></span></article>`,
				"components/XchLeaf.vuego": `<small :title="t">{{ v }}</small>`,
			},
			Data: map[string]vals.V{"who": s("xchWHO"), "body": s("<b>xch</b>"), "flag": b(true), "rows": strs("c1", "c2")}},

		// page front-matter read and REWRITTEN by root-level <template> assignments (also propagated
		// out of a top-level v-for); through *Vue.Render the front-matter comes from the engine's
		// cache. Rendered with data, with an empty map and with nil.
		{Name: "x-fm-rootvars", FileOnly: true, Canary: "xfrWHO", Feat: []string{"front-matter", "template-vars", "fm-rootvars"},
			Files: map[string]string{
				"page.vuego": "---\nheading: Welcome\nn: 0\nitems:\n  - a\n  - b\nbox:\n  k: v0\n---\n" +
					`<h1>{{ heading }} / {{ n }} / {{ who }} / {{ box.k }}</h1>` +
					`<template heading="Details" :n="n + 1" :who="heading"><h2>{{ heading }} / {{ n }} / {{ who }}</h2></template>` +
					`<template v-for="it in items" :n="n + 1">{{ it }}:{{ n }} </template><p>{{ heading }} / {{ n }} / {{ who }}</p>` +
					`<template :items="n" box="flat"><p>{{ items }} {{ box }}</p></template>` + end,
			},
			Data: map[string]vals.V{"who": s("xfrWHO"), "n": n(40), "extra": s("e")}},
		// the same without front-matter: root-level assignments over config data (theme.yml / data/*.yml)
		{Name: "x-cfg-rootvars", Canary: "xcrWHO", Feat: []string{"config-data", "template-vars"},
			Files: map[string]string{
				"page.vuego":   `<h1>{{ heading }} / {{ n }} / {{ who }}</h1><template heading="Details" :n="n + 1"><h2>{{ heading }} / {{ n }}</h2></template><p>{{ heading }} / {{ n }}</p>` + end,
				"data/xcr.yml": "heading: Welcome\nn: 0\n",
			},
			Data: map[string]vals.V{"who": s("xcrWHO")}},

		// wide scopes: an include tag with 14 props (plus the component's front-matter keys in the
		// same scope), a component with 10 front-matter keys, and a loop body whose <template>
		// sets 10 names into the iteration scope - scopes with many names that are popped and
		// handed back to the process-wide pool. All values are recognisable (…WHO).
		{Name: "x-wide-include", Canary: "xwpWHO", Feat: []string{"wide-scope", "include", "front-matter", "template-vars"},
			Files: map[string]string{
				"page.vuego": `<form><p>{{ who }}</p><ul><li v-for="r in rows"><template t1="t1-xwtWHO" t2="b" t3="c" t4="d" t5="e" t6="f" t7="g" t8="h" t9="i" :t10="tok"><b>{{ t1 }} {{ t10 }} {{ r }}</b></template></li></ul>` +
					`<template include="components/xwi-fm.vuego" :wsecret="tok" wcls="fm-xwfWHO"></template>` +
					`<template include="components/xwi-field.vuego" id="f-token-xwiWHO" name="token-xwnWHO" kind="password-xwkWHO" :wlabel="lab" wcls="wide-xwcWHO" wplaceholder="paste-xwhWHO" whint="private-xwvWHO" wauto="off" wsize="40" wtab="3" wextra="x" wmore="y" :wsecret="tok" :wowner="own"></template></form>` + end,
				"components/xwi-field.vuego": "---\nwfm1: one-xw1WHO\nwfm2: two\n---\n" + `<label class="{{ wcls }}" for="{{ id }}">{{ wlabel }} {{ wfm1 }}</label>`,
				"components/xwi-fm.vuego":    "---\nk1: k1-xk1WHO\nk2: b\nk3: c\nk4: d\nk5: e\nk6: f\nk7: g\nk8: h\nk9: i\nk10: j\n---\n" + `<span class="{{ wcls }}">{{ k1 }} {{ k10 }}</span>`,
			},
			Data: map[string]vals.V{"who": s("xwpWHO"), "tok": s("S3CR3T-xwsWHO"), "own": s("alice-xwoWHO"), "lab": s("API-xwlWHO"), "rows": strs("w1", "w2")}},
		// readers: open pooled scopes (nested loops: two at once; a scoped and a default slot) and
		// read names that are undefined for them but are names of the wide scopes above
		{Name: "x-reader-nested", Canary: "xrnWHO", Feat: []string{"leak-probe", "wide-scope-reader", "v-for", "slot"},
			Files: map[string]string{
				"page.vuego": `<ul><li v-for="g in groups" :data-s="wsecret" :data-c="wcls"><b v-for="x in g.items" :title="wowner">{{ g.name }}/{{ x }}|{{ wsecret }}|{{ wowner }}|{{ wlabel }}|{{ wcls }}|{{ whint }}|{{ id }}|{{ name }}|{{ kind }}|{{ wfm1 }}|{{ k1 }}|{{ k10 }}|{{ t1 }}|{{ t10 }}</b><i v-if="wsecret">leak</i><i v-if="k1">leak-k</i><i v-if="t1">leak-t</i></li></ul>` +
					`<p v-for="y in flat">{{ y }}|{{ wsecret }}|{{ wowner }}|{{ wcls }}|{{ id }}|{{ k1 }}|{{ t1 }}</p>` +
					`<template include="components/xrn-box.vuego"><template v-slot:head="sp"><h6>{{ sp.x }}|{{ wsecret }}|{{ wowner }}|{{ k1 }}</h6></template><p>{{ who }}|{{ wsecret }}|{{ wlabel }}|{{ t10 }}|{{ id }}</p></template>` + end,
				"components/xrn-box.vuego": `<div><slot name="head" :x="who">h</slot><slot>d</slot><em v-for="z in flat">{{ z }}{{ wsecret }}{{ wcls }}{{ k1 }}</em></div>`,
			},
			Data: map[string]vals.V{"who": s("xrnWHO"), "flat": strs("f1", "f2"),
				"groups": anys(m(map[string]vals.V{"name": s("g1"), "items": strs("a", "b")}), m(map[string]vals.V{"name": s("g2"), "items": strs("c")}))}},

		// a page that names a layout kept under layouts/ (a layout file next to the page, when one
		// is created, takes precedence)
		{Name: "x-layout-named", FileOnly: true, Canary: "xlnWHO", Feat: []string{"layout", "front-matter"},
			Files: map[string]string{
				"page.vuego":         "---\nlayout: side\ntitle: T-xln\n---\n" + `<article>{{ title }} {{ who }}</article>`,
				"layouts/side.vuego": `<main data-l="side">{{ title }}<div v-html="content"></div></main>` + end,
			},
			Data: map[string]vals.V{"who": s("xlnWHO")}},
		// LESS: a style block that @imports a file of variables (engine option "less" =
		// vuego.WithLessProcessor); revisions change the imported file
		{Name: "x-less-import", Opts: []string{"less"}, Canary: "xleWHO", Feat: []string{"less", "less-import"},
			Files: map[string]string{
				"page.vuego":      "<style type=\"text/css+less\">\n@import \"theme/vars.less\";\n.box {\n  color: @brand;\n  .in { margin: @gap * 2; }\n}\n</style>\n" + `<p class="box" :title="who">{{ who }}</p><style type="text/css+less">@c: red; .plain { color: @c; }</style>` + end,
				"theme/vars.less": "@brand: red;\n@gap: 2px;\n",
			},
			Data: map[string]vals.V{"who": s("xleWHO")}},

		// same-named struct types with permuted tagged fields (see rows_test.go)
		rowTwin("x-rows-a", "xraWHO", kRowsA, rowDesc{7, "ann", "na"}, rowDesc{8, "bob", ""}, rowDesc{1, "cy", "nc"}),
		rowTwin("x-rows-b", "xrbWHO", kRowsB, rowDesc{1, "alpha", ""}, rowDesc{2, "beta", "nb"}),
		rowTwin("x-rows-c", "xrcWHO", kRowsC, rowDesc{3, "gamma", "ng"}, rowDesc{0, "delta", "nd"}, rowDesc{5, "eps", ""}),
		// a registered node processor that edits attribute values in place (engine option "proc")
		{Name: "x-proc-stamp", Opts: []string{"proc"}, Canary: "xpsWHO", Feat: []string{"processor", "include", "v-for"},
			Files: map[string]string{
				"page.vuego": `<header><img src="/img/logo.png" alt="logo"><a href="/home" :title="who">home</a><a :href="link" data-stamp="s">bound</a></header>` +
					`<ul><li v-for="r in rows"><img src="/img/row.png" :alt="r"><a href="/row" class="k" id="x" lang="en">{{ r }}</a></li></ul>` +
					`<p v-if="flag"><img src="/img/if.png"></p><p v-else><img src="/img/else.png"></p><template include="components/xps-foot.vuego" :who="who"></template>` + end,
				"components/xps-foot.vuego": `<footer><a href="/foot" :title="who">foot {{ who }}</a><img src="/img/foot.png"></footer>`,
			},
			Data: map[string]vals.V{"who": s("xpsWHO"), "link": s("/bound"), "flag": b(true), "rows": strs("p1", "p2")}},
		{Name: "x-proc-stamp-layout", FileOnly: true, Opts: []string{"proc"}, Canary: "xplWHO", Feat: []string{"processor", "layout", "front-matter"},
			Files: map[string]string{
				"page.vuego":          "---\nlayout: shell\ntitle: T-xpl\n---\n" + `<article><img src="/img/page.png"><a href="/page">{{ who }}</a></article>`,
				"layouts/shell.vuego": `<main><img src="/img/shell.png" alt="s"><a href="/shell" :title="title">{{ title }}</a><div v-html="content"></div></main>` + end,
			},
			Data: map[string]vals.V{"who": s("xplWHO")}},

		// inline bodies that READ root-scope names and then WRITE them: a <template> assignment at
		// the top level and a counter propagated out of a top-level v-for. Rendered inline on a
		// long-lived Template value, what one render writes must not be there for the next one.
		{Name: "x-inline-rootvars", Canary: "xirWHO", Feat: []string{"template-vars", "inline-rootvars", "v-for"},
			Files: map[string]string{"page.vuego": `<h1>{{ heading }} / {{ n }} / {{ seen }} / {{ who }}</h1><template heading="Details" :n="n + 1" seen="yes"><h2>{{ heading }} / {{ n }}</h2></template>` +
				`<template v-for="it in items" :n="n + 1">{{ it }}:{{ n }} </template><p>{{ heading }} / {{ n }} / {{ seen }}</p><template :extra="who"></template>` + end},
			Data: map[string]vals.V{"who": s("xirWHO"), "heading": s("Welcome"), "n": n(0), "items": strs("a", "b", "c")}},
		// the reader of those names, without any of them in its own data
		{Name: "x-inline-reader", Canary: "xiqWHO", Feat: []string{"leak-probe", "inline-rootvars"},
			Files: map[string]string{"page.vuego": `<p :data-n="n" :data-seen="seen">{{ heading }}|{{ n }}|{{ seen }}|{{ extra }}|{{ total }}|{{ printed }}|{{ who2 }}|{{ label }}|{{ who }}</p><b v-if="seen">leak-seen</b><b v-if="extra">leak-extra</b>` + end},
			Data:  map[string]vals.V{"who": s("xiqWHO")}},

		// HTML comments where they decide the layout of the serialised output although they are
		// never written: next to an element's only text, as an only child, between top-level nodes
		// of the page and of components, inside loops, chains and slot content
		{Name: "x-comments", Canary: "xcmWHO", Feat: []string{"comments", "include", "v-for", "slot"},
			Files: map[string]string{
				"page.vuego": `<!-- head --><ul><li><!-- c -->Milk</li><li>Eggs<!-- tail --></li><li><!-- only --></li><li>{{ who }}<!-- after mustache --></li>` +
					`<li v-for="r in rows"><!-- in loop -->{{ r }}</li><li v-if="flag"><!-- in if -->yes</li><li v-else>no<!-- in else --></li></ul><!-- between -->` +
					`<p :title="who"><!-- lead -->{{ who }}</p><!-- a --><!-- b --><div><!-- only child --></div><span>x</span><!-- c -->` + "\n" +
					`<template include="components/xcm-item.vuego" :label="who"><!-- slot content comment -->inner {{ who }}</template><!-- between includes -->` +
					`<template include="components/xcm-item.vuego" label="second"></template><!-- before end -->` + end + `<!-- trailing -->`,
				"components/xcm-item.vuego": `<!-- component head --><b><!-- c -->{{ label }}</b><!-- mid --> <i>{{ label }}<!-- t --></i>` + "\n" + `<!-- before slot --><em><slot><!-- fallback comment -->fb</slot></em><!-- component tail -->` + "\n",
			},
			Data: map[string]vals.V{"who": s("xcmWHO"), "flag": b(true), "rows": strs("Tea", "Rice")}},
		{Name: "x-comments-layout", FileOnly: true, Canary: "xclWHO", Feat: []string{"comments", "layout", "front-matter"},
			Files: map[string]string{
				"page.vuego":          "---\nlayout: frame\n---\n" + `<!-- page head --><article><!-- c -->{{ who }}</article><!-- page tail -->`,
				"layouts/frame.vuego": `<!-- layout head --><main><h1><!-- c -->Title</h1><!-- before content --><div v-html="content"></div><p>{{ who }}<!-- t --></p></main><!-- layout tail -->` + end,
			},
			Data: map[string]vals.V{"who": s("xclWHO")}},
		// node-list components (several top-level nodes separated by whitespace-only text, a
		// trailing newline, a comment between them) included inside <pre>, where every blank is
		// output: twice per page, in a loop, and across renders
		{Name: "x-pre-nodelist", Canary: "xpnWHO", Feat: []string{"pre", "node-list-component", "include", "v-for"},
			Files: map[string]string{
				"page.vuego": `<pre><template include="components/xpn-kw.vuego" :kw="k1" :name="who"></template></pre>` +
					`<pre>lead <template include="components/xpn-kw.vuego" :kw="k2" name="second"></template>tail</pre>` +
					`<pre><template v-for="r in rows" include="components/xpn-kw.vuego" :kw="r" :name="who"></template></pre>` +
					`<pre><template include="components/xpn-sep.vuego" :kw="k1" :name="who"></template>|<template include="components/xpn-sep.vuego" :kw="k2" :name="who"></template></pre>` +
					`<div><template include="components/xpn-kw.vuego" :kw="k1" :name="who"></template></div>` + end,
				"components/xpn-kw.vuego":  "<span>{{ kw }}</span> <span>{{ name }}</span>\n",
				"components/xpn-sep.vuego": "\n  <b>{{ kw }}</b><!-- sep --> \t<i>{{ name }}</i>  \n\n<u>{{ kw }}</u>\n",
			},
			Data: map[string]vals.V{"who": s("xpnWHO"), "k1": s("func"), "k2": s("var"), "rows": strs("if", "for")}},

		// overlay storage: data/ and components/ exist in ONE layer only and hold files that
		// collide - four YAML files defining the same keys, two component files mapping to the same
		// shorthand tag: which one wins must not vary from engine to engine
		{Name: "x-overlay-data", Opts: []string{"onelayer"}, Canary: "xodWHO", Feat: []string{"many-engines", "config-data", "overlay"},
			Files: map[string]string{
				"page.vuego":    `<p>{{ site.name }} | {{ brand }} | {{ only_a }} | {{ only_z }} | {{ theme }} | {{ who }}</p><i v-for="mi in menu">{{ mi }}</i>` + end,
				"theme.yml":     "theme: dark\nbrand: from-theme\n",
				"data/a.yml":    "site:\n  name: from-a\nbrand: brand-a\nonly_a: A\nmenu:\n  - a1\n  - a2\n",
				"data/m.yaml":   "site:\n  name: from-m\nbrand: brand-m\nmenu:\n  - m1\n",
				"data/site.yml": "site:\n  name: from-site\nbrand: brand-site\n",
				"data/z.yml":    "site:\n  name: from-z\nbrand: brand-z\nonly_z: Z\nmenu:\n  - z1\n  - z2\n  - z3\n",
				"data/b.yml":    "brand: brand-b\nsite:\n  name: from-b\n",
				"data/k.yml":    "brand: brand-k\nmenu:\n  - k1\n",
			},
			Data: map[string]vals.V{"who": s("xodWHO")}},
		{Name: "x-overlay-comps", Opts: []string{"onelayer", "components"}, Canary: "xocWHO", Feat: []string{"many-engines", "shorthand", "overlay"},
			Files: map[string]string{
				"page.vuego":                     `<div><xob-badge :label="who"></xob-badge><xob-card-item label="two"></xob-card-item><xob-badge label="again"></xob-badge></div>` + end,
				"components/XobBadge.vuego":      `<span class="flat">flat {{ label }}</span>`,
				"components/xob/Badge.vuego":     `<span class="nested">nested {{ label }}</span>`,
				"components/xobBadge.vuego":      `<span class="lower">lower {{ label }}</span>`,
				"components/XobCardItem.vuego":   `<b>card-item {{ label }}</b>`,
				"components/xob/CardItem.vuego":  `<b>xob/card-item {{ label }}</b>`,
				"components/xob/card/Item.vuego": `<b>xob/card/item {{ label }}</b>`,
			},
			Data: map[string]vals.V{"who": s("xocWHO")}},

		// v-for over MAPS with 2..6 keys: map[string]any, map[string]string, map[string]int,
		// map[int]string, a map of maps, a map passed on as a prop, a map from front-matter; plain
		// and (i, v) forms (i is the position). The same inputs must give the same bytes.
		{Name: "x-map-loops", Canary: "xmlWHO", Feat: []string{"map-loop", "many-engines", "v-for", "include"},
			Files: map[string]string{
				"page.vuego": `<ul><li v-for="v in m" :title="v">{{ v }}</li></ul><ol><li v-for="(i, v) in ms">{{ i }}={{ v }}</li></ol>` +
					`<p v-for="x in mi">{{ x }}</p><p v-for="(i, t) in im" :data-i="i">{{ t }}</p>` +
					`<div v-for="inner in nested"><b v-for="x in inner">{{ x }}</b></div><em v-for="v in two">{{ v }}</em>` +
					`<template include="components/xml-list.vuego" :items="m" :labels="ms"></template><span v-for="v in m" v-if="v">{{ v }}</span>` + end,
				"components/xml-list.vuego": "---\n" + yamlMap("fm", "ka", "fa", "kb", "fb", "kc", "fc") + "---\n" + `<dl><dt v-for="(i, it) in items">{{ i }}:{{ it }}</dt><dd v-for="l in labels">{{ l }}</dd><dd v-for="f in fm">{{ f }}</dd></dl>`,
			},
			Data: map[string]vals.V{"who": s("xmlWHO"),
				"m":   loopMap("map", map[string]vals.V{"k1": s("v1-xmlWHO"), "k2": n(2), "k3": s("v3"), "k4": b(true), "k5": s("v5"), "k6": s("v6")}),
				"ms":  loopMap("mapss", map[string]vals.V{"a": s("A"), "b": s("B"), "c": s("C"), "d": s("D")}),
				"mi":  loopMap(kMapSI, map[string]vals.V{"one": n(1), "two": n(2), "three": n(3)}),
				"im":  loopMap("mapint", map[string]vals.V{"10": s("ten"), "2": s("two"), "33": s("thirty-three"), "4": s("four"), "5": s("five")}),
				"two": loopMap("map", map[string]vals.V{"x": s("X"), "y": s("Y")}),
				"nested": loopMap("map", map[string]vals.V{
					"n1": loopMap("map", map[string]vals.V{"p": s("n1p"), "q": s("n1q")}),
					"n2": loopMap("mapss", map[string]vals.V{"r": s("n2r"), "s": s("n2s"), "t": s("n2t")})})}},
		{Name: "x-map-loops-layout", FileOnly: true, Canary: "xmyWHO", Feat: []string{"map-loop", "many-engines", "layout", "front-matter"},
			Files: map[string]string{
				"page.vuego":         "---\nlayout: maps\n" + yamlMap("nav", "home", "/", "docs", "/docs", "blog", "/blog") + "---\n" + `<article><a v-for="href in nav" :href="href">{{ href }}</a><i v-for="v in m">{{ v }}</i></article>`,
				"layouts/maps.vuego": "---\n" + yamlMap("foot", "l", "left", "r", "right") + "---\n" + `<main><nav><a v-for="(i, href) in nav" :href="href">{{ i }}</a></nav><div v-html="content"></div><footer><b v-for="f in foot">{{ f }}</b><u v-for="v in m">{{ v }}</u></footer></main>` + end,
			},
			Data: map[string]vals.V{"who": s("xmyWHO"), "m": loopMap("mapss", map[string]vals.V{"a": s("A"), "b": s("B"), "c": s("C")})}},

		// overlay storage with the SAME template files in several layers (nested overlays: site over
		// theme over defaults); the edits of the histories rewrite the upper copies
		{Name: "x-twolayer", Opts: []string{"twolayer"}, Canary: "xtlWHO", Feat: []string{"overlay", "layers", "include"},
			Files: map[string]string{
				"page.vuego":                `<p>site page {{ who }}</p><template include="components/xtl-part.vuego" :n="who"></template>` + end,
				"components/xtl-part.vuego": `<b>site part {{ n }}</b>`,
			},
			Data: map[string]vals.V{"who": s("xtlWHO")}},
		{Name: "x-twolayer-layout", FileOnly: true, Opts: []string{"twolayer"}, Canary: "xtyWHO", Feat: []string{"overlay", "layers", "layout", "front-matter"},
			Files: map[string]string{
				"page.vuego":         "---\nlayout: site\ntitle: T-xty\n---\n" + `<article>{{ title }} {{ who }}</article>`,
				"layouts/site.vuego": `<main>{{ title }}<div v-html="content"></div></main>` + end,
			},
			Data: map[string]vals.V{"who": s("xtyWHO")}},
		// registered functions named like built-ins of the expression library, used in v-if,
		// v-else-if, v-show, bound attributes, :class objects, v-for bodies and {{ }}
		{Name: "x-builtin-named", Opts: []string{"builtin-funcs"}, Canary: "xbnWHO", Feat: []string{"builtin-named-funcs", "expr", "func"},
			Files: map[string]string{"page.vuego": `<p v-if="first(items) == 'F:alpha'">first ok {{ first(items) }}</p><p v-else>first other {{ first(items) }}</p>` +
				`<p v-if="max(items) == 'MAX3'" :title="max(items)" :data-sum="sum(items)">max ok {{ max(items) }} {{ min(items) }}</p><p v-else-if="last(items) == 'L:gamma'">last {{ last(items) }}</p><p v-else>none</p>` +
				`<i v-show="join(items) == '<alpha|beta|gamma>'" :class="{ joined: join(items) == '<alpha|beta|gamma>', keyed: keys(items) == 'K3' }">{{ join(items) }} {{ keys(items) }} {{ values(items) }}</i>` +
				`<ul><li v-for="it in items" :data-a="abs(it)"><b v-if="trim(it) == '[beta]'">{{ trim(it) }}</b><em v-else>{{ abs(it) }}</em></li></ul><u>{{ who }} {{ sum(items) }}</u>` + end},
			Data: map[string]vals.V{"who": s("xbnWHO"), "items": anys(s("beta"), s("alpha"), s("gamma"))}},

		// loops over maps of EVERY key kind and over the other spellings of the same data: map[any]any
		// with int / string / bool / mixed keys, map[float64], map[bool], maps of named key types,
		// arrays next to slices, YAML front-matter and a data file with plain numeric, date-like,
		// boolean and mixed keys, flow and block mappings, quoted and plain keys
		{Name: "x-map-keykinds", FileOnly: true, Canary: "xmkWHO", Feat: []string{"map-loop", "map-key-kinds", "many-engines", "front-matter", "config-data"},
			Files: map[string]string{
				"page.vuego": "---\nyears:\n  2014: y14\n  2009: y09\n  2021: y21\n  1999: y99\n  2003: y03\ndates:\n  2024-01-02: d2\n  2023-12-31: d31\n  2024-01-01: d1\n" +
					"flags:\n  true: yes-value\n  false: no-value\nmixed:\n  1: one\n  two: zwei\n  3.5: float\n  true: bool\n  10: ten\nflow: {b: fb, a: fa, c: fc, 7: f7, 3: f3}\n" +
					"quoted:\n  \"2014\": q14\n  \"2009\": q09\n  \"1999\": q99\nlistflow: [l3, l1, l2]\nlistblock:\n  - b3\n  - b1\n---\n" +
					`<ul><li v-for="y in years">{{ y }}</li></ul><ul><li v-for="(i, d) in dates">{{ i }}:{{ d }}</li></ul><p v-for="f in flags">{{ f }}</p><p v-for="x in mixed">{{ x }}</p>` +
					`<i v-for="x in flow">{{ x }}</i><b v-for="q in quoted">{{ q }}</b><u v-for="l in listflow">{{ l }}</u><u v-for="l in listblock">{{ l }}</u>` +
					`<ol><li v-for="v in anyint">{{ v }}</li></ol><ol><li v-for="v in anystr">{{ v }}</li></ol><ol><li v-for="v in anybool">{{ v }}</li></ol><ol><li v-for="v in anymixed">{{ v }}</li></ol>` +
					`<dl><dt v-for="v in floats">{{ v }}</dt><dd v-for="v in bools">{{ v }}</dd><dt v-for="v in ids">{{ v }}</dt><dd v-for="v in codes">{{ v }}</dd></dl>` +
					`<em v-for="a in arr">{{ a }}</em><em v-for="a in arr2">{{ a }}</em><s v-for="c in cfgyears">{{ c }}</s><s v-for="c in cfgflags">{{ c }}</s><p>{{ who }}</p>` + end,
				"data/keys.yml": "cfgyears:\n  2014: c14\n  2009: c09\n  2021: c21\n  1999: c99\ncfgflags:\n  yes: cy\n  no: cn\n  true: ct\n",
			},
			Data: map[string]vals.V{"who": s("xmkWHO"),
				"anyint":   loopMap(kMapAny, map[string]vals.V{"i:2014": s("a14"), "i:2009": s("a09"), "i:2021": s("a21"), "i:7": s("a7"), "i:-3": s("a-3")}),
				"anystr":   loopMap(kMapAny, map[string]vals.V{"s:pear": s("sp"), "s:apple": s("sa"), "s:fig": s("sf"), "s:Zed": s("sz")}),
				"anybool":  loopMap(kMapAny, map[string]vals.V{"b:true": s("bt"), "b:false": s("bf")}),
				"anymixed": loopMap(kMapAny, map[string]vals.V{"i:1": s("m1"), "s:two": s("m2"), "f:3.5": s("m35"), "b:true": s("mt"), "i:10": s("m10"), "s:1": s("ms1"), "s:true": s("mst")}),
				"floats":   loopMap(kMapFloat, map[string]vals.V{"f:1.5": s("f15"), "f:-2": s("f-2"), "f:10": s("f10"), "f:0.25": s("f025")}),
				"bools":    loopMap(kMapBool, map[string]vals.V{"b:true": s("T"), "b:false": s("F")}),
				"ids":      loopMap(kMapID, map[string]vals.V{"i:30": s("id30"), "i:4": s("id4"), "i:100": s("id100")}),
				"codes":    loopMap(kMapCode, map[string]vals.V{"s:zz": s("czz"), "s:aa": s("caa"), "s:mm": s("cmm")}),
				"arr":      vals.List("[3]int", n(3), n(1), n(2)),
				"arr2":     vals.List("[2]string", s("x2"), s("x1"))}},

		// text beyond ASCII: see unicodeProgram (rows_test.go)
		unicodeProgram(),

		// retype twins: DIFFERENT files with the SAME template text (so the same expression texts)
		// whose data gives the same names differently typed values; on the shared engine they meet
		// in both orders. Only expressions that are valid for every typing are used here.
		retypeTwin("x-retype-int", "xriWHO", n(1), s("x"), vals.V{K: "[]int", L: []vals.V{n(1), n(2)}}, vals.V{K: "*rec", M: map[string]vals.V{"Name": s("ann"), "Flag": b(true)}}),
		retypeTwin("x-retype-float", "xrfWHO", vals.Num("float64", "1"), s("x"), anys(vals.Num("float64", "1"), vals.Num("float64", "2")), m(map[string]vals.V{"Name": s("ann"), "Flag": b(true)})),
		retypeTwin("x-retype-str", "xrsWHO", s("1"), n(7), strs("1", "2"), vals.V{K: "mapss", M: map[string]vals.V{"Name": s("ann"), "Flag": s("true")}}),
		retypeTwin("x-retype-misc", "xrmWHO", b(true), vals.Nil(), anys(b(true), vals.Nil(), s("1")), vals.V{K: "rec", M: map[string]vals.V{"Name": s("bob"), "Flag": b(false)}}),
		// numeric retyping with arithmetic (valid for every numeric type)
		numTwin("x-num-int", "xniWHO", "int"), numTwin("x-num-float", "xnfWHO", "float64"), numTwin("x-num-int64", "xnlWHO", "int64"), numTwin("x-num-uint8", "xnuWHO", "uint8"),

		// near-twin programs: the same template text except for the number of blanks INSIDE string
		// literals of expressions ({{ }}, v-if, v-show, :attr, :class / :style objects). On one engine
		// (shared histories) they meet in both orders; anything that identifies expressions more
		// coarsely than by their exact text (a normalised cache key) gives one of them the other's result.
		twin("x-twin-a", "xtaWHO", " "),
		twin("x-twin-b", "xtbWHO", "  "),
		twin("x-twin-c", "xtcWHO", "   "),

		// ---- failing programs
		{Name: "x-fail-deep", Fails: true, Canary: "xfdWHO", Feat: []string{"fail", "include", "slot", "loop"},
			Files: map[string]string{
				"page.vuego": `<p>before {{ who }}</p><ul><li v-for="(i, r) in rows" :a="r.name" :b="i" :c="who"><template include="c.vuego" :title="r.name" :count="i"><p>{{ r.name }} <b v-if="i > 0">{{ r.name | boom }}</b></p></template></li></ul>`,
				"c.vuego":    `<div :data-t="title"><slot>empty</slot><span>{{ count }}</span></div>`,
			},
			Data: map[string]vals.V{"who": s("xfdWHO"), "rows": anys(m(map[string]vals.V{"name": s("fd1")}), m(map[string]vals.V{"name": s("fd2")}), m(map[string]vals.V{"name": s("fd3")}))}},
		// the failure strikes in the middle of a text node / attribute value, after part of it was produced
		{Name: "x-fail-mid-text", Fails: true, Canary: "xfmWHO", Feat: []string{"fail", "mid-text"},
			Files: map[string]string{"page.vuego": `<p>ok {{ who }}</p><p>prefix {{ who }} and {{ num }} then {{ who | boom }} suffix</p><p>after</p>`},
			Data:  map[string]vals.V{"who": s("xfmWHO"), "num": n(8)}},
		{Name: "x-fail-mid-attr", Fails: true, Canary: "xfaWHO", Feat: []string{"fail", "mid-attr"},
			Files: map[string]string{"page.vuego": `<p title="t {{ who }} / {{ num }} / {{ who | boom }} end" :a="who">x {{ who }}</p>`},
			Data:  map[string]vals.V{"who": s("xfaWHO"), "num": n(9)}},
		{Name: "x-fail-bound-late", Fails: true, Canary: "xfbWHO", Feat: []string{"fail", "bound", hazard},
			Files: map[string]string{"page.vuego": `<p :a="who" :b="num" style="x:1;y:2" :style="sty" :c="who | upper">ok</p><p :a="who" :b="num" :z="who | nosuchfilter">bad</p>`},
			Data:  map[string]vals.V{"who": s("xfbWHO"), "num": n(2), "sty": s("y:3;z:4")}},
	}
	// print twins: numbers equal under == that print differently (see floats_test.go)
	ps = append(ps, printTwins()...)
	return ps
}

// ---- registry

var (
	named      []cat.Program // catalogue followed by the local programs
	namedIndex = map[string]int{}
)

func init() {
	named = append(named, cat.All()...)
	named = append(named, local()...)
	for i, p := range named {
		if _, dup := namedIndex[p.Name]; dup {
			panic("c10: duplicate program name " + p.Name)
		}
		namedIndex[p.Name] = i
	}
}

// lookup resolves a program name: programs defined inline in the case first, then the registry.
func lookup(c Case, name string) (cat.Program, bool) {
	for _, p := range c.Defs {
		if p.Name == name {
			return p, true
		}
	}
	if i, ok := namedIndex[name]; ok {
		return named[i], true
	}
	return cat.Program{}, false
}

func hasFeat(p cat.Program, f string) bool {
	for _, x := range p.Feat {
		if x == f {
			return true
		}
	}
	return false
}

func isHazard(p cat.Program) bool {
	return hasFeat(p, hazard) || hasFeat(p, "multi-bound") || hasFeat(p, "style") || hasFeat(p, "class")
}

var whoToken = regexp.MustCompile(`[A-Za-z0-9_-]+WHO\b`)

// canaries returns the values that only program p was given: the declared canary, every string
// leaf of the data description that ends in "WHO", and every …WHO literal in its template files.
func canaries(p cat.Program) []string {
	// registered programs never change: computed once
	if i, ok := namedIndex[p.Name]; ok && len(named[i].Files) == len(p.Files) && named[i].Files["page.vuego"] == p.Files["page.vuego"] {
		canaryMu.Lock()
		defer canaryMu.Unlock()
		if out, ok := canaryTab[p.Name]; ok {
			return out
		}
		out := canariesOf(p)
		canaryTab[p.Name] = out
		return out
	}
	return canariesOf(p)
}

var (
	canaryMu  sync.Mutex
	canaryTab = map[string][]string{}
)

func canariesOf(p cat.Program) []string {
	set := map[string]bool{}
	if p.Canary != "" {
		set[p.Canary] = true
	}
	var walk func(v vals.V)
	walk = func(v vals.V) {
		if v.K == "string" && strings.HasSuffix(v.S, "WHO") {
			set[v.S] = true
		}
		for _, e := range v.L {
			walk(e)
		}
		for _, e := range v.M {
			walk(e)
		}
	}
	for _, v := range p.Data {
		walk(v)
	}
	// recognisable literals written in the template files themselves
	for _, src := range p.Files {
		for _, tok := range whoToken.FindAllString(src, -1) {
			set[tok] = true
		}
	}
	out := make([]string, 0, len(set))
	for k := range set {
		out = append(out, k)
	}
	sort.Strings(out)
	return out
}

// ---- entry points

const (
	eNodes  = "nodes"  // (*Vue).RenderNodes on nodes parsed by the caller
	eAssign = "assign" // root.Load(page), one Assign per data key (sorted), Render: no Fill
)

var allEntries = []string{"load", "file", "string", "byte", "reader", "vue", "frag", eNodes, eAssign}

// Entries on ONE long-lived Template VALUE per (program, data variant): keep = root.New().Fill(d)
// is created at the first such call of the seat and then used for every later one - inline
// renders directly on it, and children derived from it AFTER those renders:
//
//	keep-string  keep.RenderString(body)          keep-reader  keep.RenderReader(body)
//	keep-new     keep.New().RenderString(body)    keep-load    keep.Load(page).Render()   (no Fill)
const (
	eKeepString = "keep-string"
	eKeepReader = "keep-reader"
	eKeepNew    = "keep-new"
	eKeepLoad   = "keep-load"
	eKeepLoaded = "keep-loaded" // tpl := root.Load(page).Fill(data) ONCE; tpl.Render() every time
)

var keepEntries = []string{eKeepString, eKeepReader, eKeepNew, eKeepLoad, eKeepLoaded}

func isKeep(entry string) bool { return strings.HasPrefix(entry, "keep-") }

func usesLayout(p cat.Program) bool {
	for f, src := range p.Files {
		if strings.HasPrefix(f, "layouts/") {
			return true
		}
		if strings.HasPrefix(src, "---\n") && strings.Contains(src, "\nlayout:") {
			return true
		}
	}
	return false
}

// applicable reports whether program p is run through entry. The Template entries follow the
// catalogue's rule. The *Vue methods know front-matter but not layouts, so (unlike the
// catalogue's conservative rule) front-matter programs without a layout are run through them:
// that is the path on which front-matter meets the caller's own map.
func applicable(p cat.Program, entry string) bool {
	switch entry {
	case "vue", "frag":
		return len(p.Opts) == 0 && !usesLayout(p)
	case eNodes:
		return !p.FileOnly && len(p.Opts) == 0
	case eAssign, eKeepLoad, eKeepLoaded:
		return true
	case eKeepString, eKeepReader, eKeepNew:
		return !p.FileOnly
	}
	return p.Applicable(entry)
}

// ---- data variants: the same program is rendered with different data on the same engine, so
// that state that survives a render (evaluated attributes written back into a cached DOM, a
// stale scope, a cached result) becomes visible.

// Variants 0..2 transform the described values; variant 3 is an EMPTY map and variant 4 is NO
// data at all (nil is passed to Fill / Render / RenderFragment / RenderNodes): the paths on
// which an engine might hand one of its own maps (cached front-matter, config data) to the
// render as root scope.
//
// Variants 5..7 RETYPE the values and keep (the text of) their content: the same expression
// text then meets a differently typed operand on the same engine.
//
//	5 "as decoded from JSON": int -> float64, []string / []int -> []any, map[string]string and
//	  structs -> map[string]any
//	6 "stringly": int, float and bool -> their decimal / true|false text
//	7 "swapped": string -> nil, int -> bool (non-zero), bool -> int (1 / 0)
const (
	nVariants = 9
	vEmpty    = 3
	vNil      = 4
	vJSON     = 5
	vStringly = 6
	vSwapped  = 7
	// vStale is used by failing calls only (after-failure dimension): the same names bound to
	// recognisably stale values (strings + "-STALE", integers + 1000)
	vStale = 8
)

var retypeVariants = []int{vJSON, vStringly, vSwapped}

// retype implements variants 5..7.
func retype(v vals.V, k int) vals.V {
	out := vals.V{K: v.K, S: v.S}
	switch k {
	case vJSON:
		switch v.K {
		case "int":
			out.K = "float64"
		case "[]string", "[]int", "[]rec":
			out.K = "[]any"
		case "mapss", "rec", "*rec":
			out.K = "map"
		}
	case vStringly:
		switch v.K {
		case "int", "float64", "bool":
			out.K = "string"
		case "[]string", "[]int":
			out.K = "[]any"
		case "rec", "*rec", "[]rec":
			return v // struct fields keep their Go types
		}
	case vSwapped:
		switch v.K {
		case "string":
			return vals.Nil()
		case "int":
			return vals.Bool(v.S != "0")
		case "bool":
			if v.S == "true" {
				return vals.Int(1)
			}
			return vals.Int(0)
		case "[]string", "[]int":
			out.K = "[]any"
		case "mapss":
			out.K = "map"
		case "rec", "*rec", "[]rec":
			return v
		}
	}
	if v.L != nil {
		out.L = make([]vals.V, len(v.L))
		for i, e := range v.L {
			if e.K == "" { // element of a typed slice: described by S only
				e.K = map[string]string{"[]string": "string", "[]int": "int"}[v.K]
			}
			out.L[i] = retype(e, k)
		}
	}
	if v.M != nil {
		out.M = make(map[string]vals.V, len(v.M))
		for key, e := range v.M {
			out.M[key] = retype(e, k)
		}
	}
	return out
}

func variant(v vals.V, k int) vals.V {
	if k == 0 {
		return v
	}
	if k >= vJSON && k != vStale {
		return retype(v, k)
	}
	out := vals.V{K: v.K, S: v.S}
	switch v.K {
	case "string":
		if k == vStale {
			out.S = v.S + "-STALE"
		} else if k == 1 {
			out.S = v.S + "-v1"
		} else {
			out.S = "v2-" + v.S
		}
	case "int":
		i, _ := strconv.Atoi(v.S)
		if k == vStale {
			out.S = strconv.Itoa(i + 1000)
		} else if k == 1 {
			out.S = strconv.Itoa(i + 1)
		} else {
			out.S = strconv.Itoa(i*2 + 10)
		}
	case "bool":
		if k == 1 {
			out.S = strconv.FormatBool(v.S != "true")
		}
	}
	if v.L != nil {
		l := make([]vals.V, 0, len(v.L))
		for _, e := range v.L {
			l = append(l, variant(e, k))
		}
		if k == 1 {
			for i, j := 0, len(l)-1; i < j; i, j = i+1, j-1 {
				l[i], l[j] = l[j], l[i]
			}
		} else if k == 2 && len(l) > 1 {
			l = l[1:]
		}
		out.L = l
	}
	if v.M != nil {
		out.M = make(map[string]vals.V, len(v.M))
		for key, e := range v.M {
			out.M[key] = variant(e, k)
		}
	}
	return out
}

// goData builds the typed data map of program p in variant k (a fresh value every call).
func goData(p cat.Program, k int) map[string]any {
	switch k {
	case vEmpty:
		return map[string]any{}
	case vNil:
		return nil
	}
	out := map[string]any{}
	for key, v := range p.Data {
		vv := variant(v, k)
		if g, local := localGo(vv); local {
			out[key] = g
		} else {
			out[key] = vv.Go()
		}
	}
	return out
}
