package c13

import "strings"

// structEnv: the root data is a typed Go struct (passed to Fill as the data itself) whose
// fields carry JSON tags and in which ONE *User is reachable under two field names (author,
// editor) and twice inside a slice (team[0], team[2]) - ordinary shared data, not a cycle.
// The model environment is the equivalent tree of maps keyed by the JSON tags.

const structEnv = 4

type User struct {
	Name   string   `json:"name"`
	Age    int      `json:"age"`
	Active bool     `json:"active"`
	Score  float64  `json:"score"`
	Tags   []string `json:"tags"`
}

type Page struct {
	Headline string  `json:"headline"`
	Total    int     `json:"total"`
	Ready    bool    `json:"ready"`
	Ratio    float64 `json:"ratio"`
	Code     string  `json:"code"`
	Slug     string  `json:"slug"`
	Off      bool    `json:"off"`
	Author   *User   `json:"author"`
	Editor   *User   `json:"editor"` // the same pointer as Author
	Owner    *User   `json:"owner"`
	Team     []*User `json:"team"` // shared, other, shared
}

func structData() any {
	shared := &User{Name: "Ann", Age: 30, Active: true, Score: 1.25, Tags: []string{"x", "y"}}
	other := &User{Name: "bob", Age: 0, Active: false, Score: 0.5, Tags: []string{"z", ""}}
	return Page{Headline: "Hello", Total: 3, Ready: true, Ratio: 2.5, Code: "42", Slug: "deep",
		Author: shared, Editor: shared, Owner: other, Team: []*User{shared, other, shared}}
}

func structModel() map[string]any {
	user := func(name string, age int, active bool, score float64, tags ...string) map[string]any {
		return map[string]any{"name": name, "age": age, "active": active, "score": score, "tags": tags}
	}
	shared := func() map[string]any { return user("Ann", 30, true, 1.25, "x", "y") }
	other := func() map[string]any { return user("bob", 0, false, 0.5, "z", "") }
	return map[string]any{"headline": "Hello", "total": 3, "ready": true, "ratio": 2.5, "code": "42", "slug": "deep", "off": false,
		"author": shared(), "editor": shared(), "owner": other(),
		"team": []map[string]any{shared(), other(), shared()}}
}

// dataOf returns what the engine is filled with for environment id (model is the model map).
func dataOf(id int, model map[string]any) any {
	if id == structEnv {
		return structData()
	}
	return model
}

// catalog is the typed path catalogue the expression generator draws from.
type catalog struct {
	ints, floats, strings, bools, lists, maps []string
	nonzeroInts, nonzeroFloats                []string
	nonneg                                    string   // an int path that is >= 0
	numstr, lowstr, frac                      []string // decimal text / lower-case text / fractional float
}

var baseCat = &catalog{ints: intPaths, floats: floatPaths, strings: stringPaths, bools: boolPaths, lists: listPaths, maps: mapPaths,
	nonzeroInts: nonzeroIntPaths, nonzeroFloats: nonzeroFloatPaths, nonneg: "xs[2]",
	numstr: append([]string{"num"}, zeroLedStrs...), lowstr: []string{"m.inner.s", "st.In.S", "us[1].name"}, frac: []string{"f", "m.rate"}}

var structCat = &catalog{
	ints:        []string{"total", "author.age", "editor.age", "owner.age", "team[0].age", "team[1].age", "team[2].age"},
	floats:      []string{"ratio", "author.score", "editor.score", "owner.score", "team[2].score"},
	strings:     []string{"headline", "code", "slug", "author.name", "editor.name", "owner.name", "team[0].name", "team[2].name", "author.tags[0]", "editor.tags[1]", "owner.tags[1]", "team[2].tags[0]"},
	bools:       []string{"ready", "off", "author.active", "editor.active", "owner.active", "team[1].active", "team[2].active"},
	lists:       []string{"author.tags", "editor.tags", "team", "team[2].tags"},
	maps:        []string{"editor.tags"}, // no plain map in struct data: a list stands in for len(...)
	nonzeroInts: []string{"total", "author.age", "editor.age", "team[2].age"}, nonzeroFloats: []string{"ratio", "editor.score"}, nonneg: "editor.age",
	numstr: []string{"code"}, lowstr: []string{"slug", "owner.name"}, frac: []string{"ratio", "editor.score", "author.score"}}

// structCatalog is structCat without the paths through slice elements while
// C13-tagged-field-of-slice-element is open (they stay as bare-path cases in the enumeration).
func (g *gen) structCatalog() *catalog {
	if !g.open[fTagEl] {
		return structCat
	}
	g.excluded(fTagEl)
	keep := func(l []string) []string {
		var out []string
		for _, x := range l {
			if !strings.HasPrefix(x, "team[") {
				out = append(out, x)
			}
		}
		return out
	}
	c := *structCat
	c.ints, c.floats, c.strings, c.bools, c.lists = keep(c.ints), keep(c.floats), keep(c.strings), keep(c.bools), keep(c.lists)
	c.nonzeroInts = keep(c.nonzeroInts)
	return &c
}

// enumStruct: every struct path alone, and operator / call / ternary shapes over both names of
// the shared pointer (first and later reference) and over both slice positions.
func (g *gen) enumStruct() []Case {
	var out []Case
	add := func(e Expr) {
		ec := e
		if c, ok := g.finishExpr(Case{Fam: "expr", Env: structEnv, E: &ec}); ok {
			out = append(out, c)
		}
	}
	for _, l := range [][]string{structCat.ints, structCat.floats, structCat.strings, structCat.bools} {
		for _, x := range l {
			add(p(x))
		}
	}
	fs := func(x string) Expr { return ls(x, "s") }
	whos := []string{"author", "editor", "owner", "team[0]", "team[1]", "team[2]"}
	pairs := [][2]string{{"author", "editor"}, {"editor", "author"}, {"team[0]", "team[2]"}, {"author", "team[2]"}, {"editor", "owner"}}
	if g.open[fTagEl] {
		whos, pairs = whos[:3], [][2]string{pairs[0], pairs[1], pairs[4]}
		g.excluded(fTagEl)
	}
	for _, who := range whos {
		age, name, act, score, tags := p(who+".age"), p(who+".name"), p(who+".active"), p(who+".score"), p(who+".tags")
		for _, e := range []Expr{
			bin("+", age, li("1")), bin("*", age, li("2")), bin(">", age, li("18")), bin("==", age, li("30")), bin("-", p("total"), age),
			bin("==", name, fs("Ann")), bin("!=", name, ls("bob", "d")), bin("+", name, ls("x", "d")), bin("<", name, fs("m")),
			{K: "tern", A: []Expr{bin("==", name, fs("Ann")), fs("Y"), fs("N")}}, {K: "tern", A: []Expr{act, name, fs("inactive")}},
			bin("&&", act, p("ready")), bin("||", act, p("off")), {K: "not", A: []Expr{act}}, bin("==", act, lb("true")),
			bin("*", score, lf("2.0")), bin("<", score, p("ratio")), bin("+", age, score),
			call("upper", name), call("add", age, li("1")), call("isBig", age), call("len", tags), call("len", name), call("half", score), call("string", age),
			bin("==", call("upper", name), ls("ANN", "d")), bin(">", call("len", tags), li("1")),
			bin("==", p(who+".tags[0]"), fs("x")), bin("+", p(who+".tags[0]"), p(who+".tags[1]")),
		} {
			add(e)
		}
		out = append(out, g.negCase(structEnv, who+".age"), g.negCase(structEnv, who+".name"))
	}
	// the two references side by side
	for _, pr := range pairs {
		a, b := pr[0], pr[1]
		add(bin("==", p(a+".name"), p(b+".name")))
		add(bin("+", p(a+".age"), p(b+".age")))
		add(bin("&&", p(a+".active"), p(b+".active")))
		add(Expr{K: "tern", A: []Expr{bin(">=", p(a+".age"), p(b+".age")), p(a + ".name"), p(b + ".name")}})
		add(call("add", p(a+".age"), p(b+".age")))
	}
	return out
}
