package c13

// Zero values in every position. A zero (0, 0.0, false, the zero of a sized or named numeric
// kind) is a VALUE: it prints as "0" / "false" wherever a value is printed - {{ }}, {{ }} inside
// a static attribute, v-text - and is falsy wherever a verdict is taken (v-if, v-else-if,
// v-show, bound attribute omitted). The dimension: every zero-valued path of the environment,
// literal zeros, and operator expressions whose RESULT is zero / false although no operand is
// (`a - a`, `a * z`, `a - 7`, `a < a`, `t && off`, ternaries yielding a zero), each next to a
// non-zero sibling of the same shape, in all positions of the package plus v-text; v-text and
// {{ }} of the same expression must show the same text (the positions-agree step of checkValue).
//
// Truthiness of zeros of sized kinds / time.Duration is not documented: those are compared in
// the value-printing positions only.

import "strconv"

func (g *gen) enumZeros() []Case {
	var out []Case
	all := append(append([]string{}, allExprPos...), posVText)
	printing := []string{posInterp, posSAttr, posVText}
	add := func(env int, e Expr, pos []string) {
		ec := e
		fam := "expr"
		if e.K == "path" {
			fam = "path"
		}
		// the open-finding regions of finishExpr concern `!` and calls; neither occurs here
		out = append(out, Case{Fam: fam, Env: env, E: &ec, Pos: pos})
	}
	for env := 0; env < nEnvs; env++ {
		m := envOf(env)
		// paths: every int / float / bool path of the catalogue whose value is a zero in this
		// environment, and one non-zero sibling per type
		for _, l := range [][]string{intPaths, floatPaths, boolPaths} {
			sib := false
			for _, x := range l {
				v, ok := resolve(m, x)
				if !ok {
					continue
				}
				if !truthy(v) {
					add(env, p(x), all)
				} else if !sib {
					sib = true
					add(env, p(x), all)
				}
			}
		}
		add(env, p("negz"), printing)
		for _, x := range []string{"z8", "z16", "z32", "z64", "zu", "zu8", "zu64", "zf32", "zdur"} {
			add(env, p(x), printing)
		}
		// a bare literal as the WHOLE expression (int, float, bool, quoted string; zeros and
		// non-zeros) in the value positions. Open finding fBareLit: {{ 5 }} and title="{{ 5 }}"
		// print nothing (a whole expression without operators is looked up as a variable path);
		// while it is open only the bound attribute is asserted.
		litPos := valuePos
		if g.open[fBareLit] {
			litPos = []string{posBound}
		}
		for _, e := range []Expr{li("0"), li("5"), lf("0.0"), lf("2.5"), lb("false"), lb("true"), ls("x", "s"), ls("x y", "d"), ls("", "s")} {
			if g.open[fBareLit] {
				g.excluded(fBareLit)
			}
			add(env, e, litPos)
		}
		// results that are zero although no operand is
		av, _ := m["a"].(int)
		for _, e := range []Expr{
			bin("-", p("a"), p("a")), bin("-", p("a"), li(strconv.Itoa(av))), bin("-", p("a"), li(strconv.Itoa(av-1))),
			bin("*", p("a"), p("z")), bin("*", p("a"), li("0")), bin("+", p("z"), p("z")), bin("+", p("z"), li("0")), bin("+", p("z"), li("1")),
			bin("-", p("f"), p("f")), bin("*", p("f"), p("zf")), bin("+", p("zf"), p("zf")), bin("*", p("f"), li("0")),
			bin("%", p("a"), p("a")), bin("%", p("a"), li("1")),
			bin("<", p("a"), p("a")), bin("!=", p("a"), p("a")), bin("==", p("a"), p("z")), bin(">", p("z"), p("a")), bin("==", p("z"), li("0")),
			bin("&&", p("t"), p("off")), bin("||", p("off"), p("off")), bin("&&", p("off"), p("t")),
			{K: "tern", A: []Expr{p("off"), li("1"), li("0")}}, {K: "tern", A: []Expr{p("t"), p("z"), p("a")}},
			{K: "tern", A: []Expr{p("off"), p("a"), p("zf")}}, {K: "tern", A: []Expr{p("off"), p("t"), p("off")}},
			{K: "paren", A: []Expr{bin("-", p("a"), p("a"))}},
		} {
			if _, err := eval(e, m); err == nil {
				add(env, e, all)
			}
		}
	}
	return out
}
