package c13

// The reference model: a typed environment, a path walker, an expression tree with its
// textual form and an evaluator with ordinary semantics. Nothing here calls vuego.

import (
	"fmt"
	"math"
	"reflect"
	"strconv"
	"strings"
	"time"
)

// ---------------------------------------------------------------- environment

// Inner / Rec are the struct-shaped data (fields addressed by their Go names).
type Inner struct {
	X int
	S string
}

// Tag prints through its String method.
type Tag struct {
	Key string
	N   int
}

func (t Tag) String() string { return "#" + t.Key + ":" + strconv.Itoa(t.N) }

type Rec struct {
	Name  string
	Age   int
	Ok    bool
	Score float64
	In    Inner
}

const nEnvs = 3

// values of sp, sp2, spl, spt per environment
var blanks = [nEnvs][4]string{
	{"a b", "a  b", " a b", "a b "},
	{"a  b", "a b", "  a b", "a b  "},
	{"a b", "a   b", " a  b", "a  b "},
}

// shadowable root variables by type, the lists that rebind them, and the lists with nil elements
var (
	scopeVars  = map[string]string{"a": "int", "b": "int", "z": "int", "n": "int", "f": "float", "g": "float", "zf": "float", "s": "string", "h": "string", "e": "string", "t": "bool", "u": "bool"}
	scopeLists = map[string][]string{"int": {"Lint", "Lint1"}, "float": {"Lflt"}, "string": {"Lstr"}, "bool": {"Lbool"}}
	nilLists   = map[string][]string{"int": {"Lin", "Lnil"}, "float": {"Lnil"}, "string": {"Lsn", "Lnil"}, "bool": {"Lbn", "Lnil"}}
)

// ownPaths are whole-expression paths in vuego's own syntax that the expression library would
// read differently (a hyphen as a subtraction) or not at all (a numeric dot step). They are
// never operands, only the whole expression. dotIndex: only the agreement between positions is
// asserted for a numeric dot step (docs write items[0]).
var ownPaths = []string{
	"cta-text", "zero-count", "empty-label", "is-on",
	"m.first-name", "m.item-count", "m.sub-map.deep-key", "m.sub-map.n", `m["first-name"]`, `m['item-count']`, `m["sub-map"].n`, `m["sub-map"]["deep-key"]`, `m['sub-map'].deep-key`,
	"rows[0].b-c", "rows[1].b-c", "rows[1].id",
	"xs.0", "xs.2", "ss.1", "bs.0", "bs.1", "us.0.admin", "us.1.name", "us.0.age", "rs.0.Ok", "rows.0.b-c", "rows.1.b-c", "rows.1.id", "fs.0",
}

func dotIndex(path string) bool {
	for _, st := range strings.Split(path, ".")[1:] {
		if st != "" && st[0] >= '0' && st[0] <= '9' {
			return true
		}
	}
	return false
}

// boundaryPaths: values at the edges of the integer and float ranges (never operands of
// arithmetic; passed to functions and printed)
var boundaryPaths = []string{"umax", "u63", "imax", "imin", "u32", "fbig", "negz"}

// text beyond ASCII
var (
	nonASCIIPaths = []string{"nz", "nj", "ni", "nq", "nm", "nc", `errs['città']`, `errs["ключ"]`, `errs['東']`}
	nonASCIILits  = []string{"Zoë", "東京", "İstanbul", "straße", "😀x", "e\u0301t", "Zürich", "é", "ß", "ключ"}
)

var (
	blankPaths  = []string{"sp", "sp2", "spl", "spt"}
	blankLits   = []string{"a b", "a  b", "a   b", " a b", "  a b", "a b ", "a b  ", " a  b", "a  b ", "a\tb"}
	zeroLedStrs = []string{"z10", "z08", "z007", "z0s"} // "010" "08" "007" "0": decimal text
	badNumPaths = []string{"hx", "und", "b11", "o7", "lsp", "isp", "e"}
	badNumLits  = []string{"0x10", "1_000", "0b11", "0o7", " 42", "4 2", ""}
)

// fnEnv is a fourth environment (family A only): environment 0 plus variables whose NAMES are
// those of template functions (docs/syntax.md itself uses `title` as its example variable).
// A variable shadows the function of the same name, so calling f(...) where the data binds f
// is unspecified: in this environment the functions named in fnVars are never called.
const fnEnv = 3

var fnVars = map[string]any{
	"title": "Hello", "type": "post", "default": "fb", "lower": "",
	"len": 3, "string": 12, "int": 0,
	"json": []int{4, 5, 6}, "file": []string{"p", "q"},
	// named like built-ins of the expression library (which are functions only where called)
	"first": true, "last": false, "max": 9, "min": 0, "abs": 2, "keys": []string{"k1", "k2"}, "values": "vals", "filter": "flt",
}

var (
	fnIntPaths    = []string{"len", "string", "int", "json[0]", "json[2]", "max", "min", "abs"}
	fnStringPaths = []string{"title", "type", "default", "lower", "file[1]", "values", "filter", "keys[0]"}
	fnListPaths   = []string{"json", "file", "keys"}
	fnBoolPaths   = []string{"first", "last"}
)

// envOf builds environment id. Every environment has the same shape and the same static
// types per path; only the values differ (signs, zeros, empties, truthiness).
func envOf(id int) map[string]any {
	m := envOf0(id)
	if id != structEnv {
		for k, v := range ptrData(id % nEnvs) { // pointer-typed data (ptr_test.go)
			m[k] = v
		}
	}
	return m
}

func envOf0(id int) map[string]any {
	type row struct {
		a, b, z, n, k, x, age, inx, uage int
		f, g, zf, rate, score            float64
		s, h, e, num, name, deep, who    string
		t, u, ok, sok, adm               bool
		xs                               []int
		fs                               []float64
		ss                               []string
	}
	rows := []row{
		{7, 3, 0, -4, 5, 9, 30, 4, 41, 2.5, 0.5, 0, 1.25, 8.5, "abc", "Hello", "", "42", "bob", "deep", "ann", true, false, true, true, false, []int{10, 20, 30}, []float64{1.5, 0.25}, []string{"p", "q"}},
		{2, 11, 0, -1, 0, 16, 1, 0, 18, 0.75, 4, 0, -1.5, 0, "zed", "abc", "", "7", "Al", "mid", "x", false, true, false, false, true, []int{0, 5, 1}, []float64{0, 3}, []string{"kk", ""}},
		{12, 12, 0, -9, 33, 1, 64, 12, 0, 10.5, 10.5, 0, 0.5, 2.75, "Mixed", "mixed", "", "100", "carol", "", "bo", true, true, false, true, true, []int{3, 3, 4}, []float64{2, 2}, []string{"a1", "a1"}},
	}
	if id == structEnv {
		return structModel()
	}
	if id == fnEnv {
		m := envOf0(0)
		for k, v := range fnVars {
			m[k] = v
		}
		return m
	}
	r := rows[id%nEnvs]
	return map[string]any{
		"a": r.a, "b": r.b, "z": r.z, "n": r.n,
		"f": r.f, "g": r.g, "zf": r.zf,
		"s": r.s, "h": r.h, "e": r.e, "num": r.num, "bad": "bad", "pad": "  hi  ",
		// strings with single, double and edge blanks (two spellings of a literal that differ only
		// in blanks must evaluate differently against them)
		"sp": blanks[id%nEnvs][0], "sp2": blanks[id%nEnvs][1], "spl": blanks[id%nEnvs][2], "spt": blanks[id%nEnvs][3],
		// lists iterated by the shadowing scopes (elements rebind a root variable of that type)
		"Lint": []any{0, 9, -2}, "Lint1": []any{5}, "Lflt": []any{0.0, 3.25}, "Lstr": []any{"", "zq", "a b"}, "Lbool": []any{false, true},
		"Lsn": []any{"zq", nil, "c"}, "Lin": []any{7, nil}, "Lbn": []any{true, nil}, "Lnil": []any{nil},
		// decimal texts with leading zeros, and texts that are not decimal numbers
		"z10": "010", "z08": "08", "z007": "007", "z0s": "0",
		"hx": "0x10", "und": "1_000", "b11": "0b11", "o7": "0o7", "lsp": " 42", "isp": "4 2",
		"t": r.t, "u": r.u, "off": false,
		// zero values of the sized / named numeric kinds (zero_test.go): a zero is a value, not absent
		"z8": int8(0), "z16": int16(0), "z32": int32(0), "z64": int64(0), "zu": uint(0), "zu8": uint8(0), "zu64": uint64(0),
		"zf32": float32(0), "zdur": time.Duration(0),
		"big": int64(1234567),
		// a value with a String method (printed through it, whatever way the data is delivered)
		"sv": Tag{Key: "k" + r.who, N: r.k},
		// text beyond ASCII: 2-, 3- and 4-byte characters, dotted capital I, sharp s, a combining mark
		"nz": []string{"Zoë", "東京", "İstanbul"}[id%nEnvs], "nj": "東京", "ni": "İstanbul", "nq": "straße", "nm": "😀x", "nc": "e\u0301t",
		// magnitude boundaries
		"umax": uint64(math.MaxUint64), "u63": uint64(1) << 63, "imax": int64(math.MaxInt64), "imin": int64(math.MinInt64), "u32": uint32(math.MaxUint32),
		"fbig": 1e21, "negz": math.Copysign(0, -1),
		// index / key variables for computed steps: xs[ix], m[kk]
		"ix": []int{1, 0, 1}[id%nEnvs], "kk": "name", "kx": "k", "kb": "ok",
		"m": map[string]any{"k": r.k, "name": r.name, "ok": r.ok, "rate": r.rate,
			"inner": map[string]any{"x": r.x, "s": r.deep},
			// hyphenated keys (only vuego's own path walker reads m.first-name as a path)
			"first-name": r.who, "item-count": r.z + r.k, "sub-map": map[string]any{"deep-key": r.deep, "n": r.inx}},
		// map keys that need a quoted bracket step: form-field style names, dots, blanks, quotes
		"errs": map[string]any{"user[email]": r.name, "tags[]": r.deep, "a.b": r.s, "two words": r.who, "it's": r.h, "città": "Zürich", "ключ": r.who, "東": "é" + r.name, `say "hi"`: "q" + r.num, "[": r.e, "]": "close",
			"item[0][id]": r.k, "ok[]": r.ok,
			"sub[x]": map[string]any{"n": r.x, "s": r.deep, "k.e-y": r.who}},
		// hyphenated root names (docs/components.md: {{ cta-text }}), truthy and falsy
		"cta-text": r.name, "zero-count": r.inx, "empty-label": r.deep, "is-on": r.adm,
		"rows": []map[string]any{{"b-c": r.who, "id": r.uage}, {"b-c": r.deep, "id": r.inx}},
		"xs":   r.xs, "fs": r.fs, "ss": r.ss, "bs": []bool{r.sok, !r.sok},
		"st": Rec{Name: r.who, Age: r.age, Ok: r.sok, Score: r.score, In: Inner{X: r.inx, S: r.deep + "in"}},
		"us": []map[string]any{
			{"name": r.name + "0", "age": r.uage, "admin": r.adm},
			{"name": "ub", "age": r.uage + 1, "admin": !r.adm},
		},
		"rs": []Rec{{Name: "r0", Age: r.age + 2, Ok: !r.sok, Score: r.score + 0.5}},
	}
}

// typed catalogue of the paths (the static type of each is the same in every environment)
var (
	intPaths    = []string{"a", "b", "z", "n", "m.k", `m["k"]`, `m['k']`, "m.inner.x", `m["inner"].x`, "xs[0]", "xs[2]", "st.Age", "st.In.X", "us[0].age", "us[1].age", "rs[0].Age", "sv.N", "xs[ix]", "m[kx]", "us[ix].age", `errs['item[0][id]']`, `errs["item[0][id]"]`, `errs['sub[x]'].n`, `errs["sub[x]"]["n"]`}
	floatPaths  = []string{"f", "g", "zf", "m.rate", `m['rate']`, "fs[0]", "fs[1]", "st.Score", "rs[0].Score"}
	stringPaths = []string{"s", "h", "e", "num", "m.name", `m["name"]`, `m['name']`, "m.inner.s", "ss[0]", "ss[1]", "st.Name", "st.In.S", "us[0].name", "us[1].name", "rs[0].Name", "sv.Key", "nz", "nj", "ni", "nq", "nm", "nc", `errs['città']`, `errs["ключ"]`, `errs['東']`, "sp", "sp2", "spl", "spt", "ss[ix]", "m[kk]", "us[ix].name",
		`errs['user[email]']`, `errs["user[email]"]`, `errs['tags[]']`, `errs["tags[]"]`, `errs['a.b']`, `errs["a.b"]`, `errs['two words']`, `errs["it's"]`, `errs['say "hi"']`, `errs['[']`, `errs["]"]`, `errs['sub[x]'].s`, `errs["sub[x]"]['k.e-y']`, `errs['sub[x]']["s"]`}
	boolPaths = []string{"t", "u", "off", "m.ok", `m["ok"]`, "bs[0]", "bs[1]", "st.Ok", "us[0].admin", "us[1].admin", "rs[0].Ok", "bs[ix]", "m[kb]", `errs['ok[]']`, `errs["ok[]"]`}
	listPaths = []string{"xs", "ss", "fs", "bs"}
	mapPaths  = []string{"m", "m.inner", "us[0]", `errs['sub[x]']`, `errs["sub[x]"]`}
	// never zero in any environment (divisors)
	nonzeroIntPaths   = []string{"a", "b", "n", "m.inner.x", "us[1].age"}
	nonzeroFloatPaths = []string{"f", "g"}
	envNames          = []string{"a", "b", "z", "n", "f", "g", "zf", "s", "h", "e", "num", "bad", "pad", "sp", "sp2", "spl", "spt", "z10", "z08", "z007", "z0s", "hx", "und", "b11", "o7", "lsp", "isp", "t", "u", "off", "big", "m", "xs", "fs", "ss", "bs", "st", "us", "rs"}
)

// resolve walks a path of the forms a.b, xs[1], m["k"], m['k'] over the environment.
func resolve(env map[string]any, path string) (any, bool) {
	var steps []string
	i := 0
	id := func() string {
		j := i
		for j < len(path) && (path[j] == '_' || path[j] == '-' || path[j] >= '0' && path[j] <= '9' || path[j] >= 'a' && path[j] <= 'z' || path[j] >= 'A' && path[j] <= 'Z') {
			j++
		}
		s := path[i:j]
		i = j
		return s
	}
	steps = append(steps, id())
	for i < len(path) {
		switch path[i] {
		case '.':
			i++
			steps = append(steps, id())
		case '[':
			if i+1 < len(path) && (path[i+1] == '"' || path[i+1] == '\'') {
				// quoted key: everything up to the closing quote, verbatim (it may contain ] [ . and blanks)
				k := strings.IndexByte(path[i+2:], path[i+1])
				if k < 0 || i+2+k+1 >= len(path) || path[i+2+k+1] != ']' {
					return nil, false
				}
				steps = append(steps, path[i+2:i+2+k])
				i += 2 + k + 2
				continue
			}
			j := strings.IndexByte(path[i:], ']')
			if j < 0 {
				return nil, false
			}
			in := path[i+1 : i+j]
			if in != "" && (in[0] < '0' || in[0] > '9') {
				// computed step: items[i], m[key] - the value of the variable is the index / key
				v, ok := resolve(env, in)
				if !ok {
					return nil, false
				}
				in = fmt.Sprint(v)
			}
			steps = append(steps, in)
			i += j + 1
		default:
			return nil, false
		}
	}
	var cur any = env
	for _, st := range steps {
		if st == "" {
			return nil, false
		}
		rv := reflect.ValueOf(cur)
		switch rv.Kind() {
		case reflect.Map:
			v := rv.MapIndex(reflect.ValueOf(st))
			if !v.IsValid() {
				return nil, false
			}
			cur = v.Interface()
		case reflect.Slice:
			n, err := strconv.Atoi(st)
			if err != nil || n < 0 || n >= rv.Len() {
				return nil, false
			}
			cur = rv.Index(n).Interface()
		case reflect.Struct:
			f := rv.FieldByName(st)
			if !f.IsValid() {
				return nil, false
			}
			cur = f.Interface()
		default:
			return nil, false
		}
	}
	return cur, true
}

// ---------------------------------------------------------------- expression trees

// Expr is a typed expression tree (pure data).
//
//	K: path | int | float | str | bool | bin | not | tern | call | paren
//	V: path text / literal text (str: the content) / operator / function name
//	Q: quote style of a str literal: "d" (double) or "s" (single)
type Expr struct {
	K string `json:"k"`
	V string `json:"v,omitempty"`
	Q string `json:"q,omitempty"`
	A []Expr `json:"a,omitempty"`
}

func quote(content, q string) string {
	if q == "s" {
		return "'" + content + "'"
	}
	return `"` + content + `"`
}

// precedence levels shared by C, Go, JavaScript and expr-lang wherever they agree; where
// they do not (comparison operators chained with each other) the printer parenthesises.
func prec(e Expr) int {
	switch e.K {
	case "tern":
		return 1
	case "bin":
		switch e.V {
		case "||":
			return 2
		case "&&":
			return 3
		case "==", "!=", "<", "<=", ">", ">=":
			return 4
		case "+", "-":
			return 5
		default:
			return 6
		}
	case "not":
		return 7
	}
	return 9
}

// Text prints the expression: binary operators with single surrounding spaces (as in every
// documented example), minimal parentheses, explicit "paren" nodes for redundant ones.
func (e Expr) Text() string { return e.text(&speller{}) }

// WideText is the same expression with every blank outside string literals doubled; it must
// mean the same.
func (e Expr) WideText() string { return e.text(&speller{mode: "wide"}) }

// Spelled prints the same tree with another spacing (see spellings).
func (e Expr) Spelled(mode string) string { return e.text(&speller{mode: mode}) }

// spellings of the blanks OUTSIDE string literals; the tree and so the value are the same.
//
//	""      single blanks (the documented style)
//	wide    every blank doubled
//	tight   no blank around == != <= >= && || ? : and after commas
//	tabs    tabs instead of / next to the blanks
//	mixed   tight on one side, blank on the other, alternating
//
// The arithmetic operators and < > always keep one plain blank on each side: vuego documents
// that they are only operators when surrounded by spaces (a-b and a/b are paths).
var spellings = []string{"", "wide", "tight", "tabs", "mixed"}

type speller struct {
	mode   string
	n      int    // alternation counter of the mixed mode
	strict int    // the first strict == / != operators are written === / !==
	keys   string // "s" / "d": every .name step of a path is written ['name'] / ["name"]
}

// bracketKeys rewrites the .name steps of a path as quoted bracket steps: a.b -> a['b'].
func bracketKeys(path, style string) string {
	q := "'"
	if style == "d" {
		q = `"`
	}
	var sb strings.Builder
	inQuote := byte(0)
	for i := 0; i < len(path); i++ {
		c := path[i]
		switch {
		case inQuote != 0:
			if c == inQuote {
				inQuote = 0
			}
			sb.WriteByte(c)
		case c == '\'' || c == '"':
			inQuote = c
			sb.WriteByte(c)
		case c == '.':
			j := i + 1
			for j < len(path) && (path[j] == '_' || path[j] >= '0' && path[j] <= '9' || path[j] >= 'a' && path[j] <= 'z' || path[j] >= 'A' && path[j] <= 'Z') {
				j++
			}
			if j == i+1 || j < len(path) && path[j] == '-' || path[i+1] >= '0' && path[i+1] <= '9' {
				return path // hyphenated or numeric dot steps are vuego's own syntax: left alone
			}
			sb.WriteString("[" + q + path[i+1:j] + q + "]")
			i = j - 1
		default:
			sb.WriteByte(c)
		}
	}
	return sb.String()
}

// around returns the text before and after a token of kind arith | sym | tern | comma.
func (s *speller) around(kind string) (string, string) {
	switch s.mode {
	case "wide":
		if kind == "comma" {
			return "", "  "
		}
		return "  ", "  "
	case "tight":
		if kind == "arith" {
			return " ", " "
		}
		return "", ""
	case "tabs":
		switch kind {
		case "arith":
			return "\t ", " \t"
		case "comma":
			return "", "\t"
		}
		return "\t", "\t"
	case "mixed":
		s.n++
		switch kind {
		case "arith":
			if s.n%2 == 0 {
				return "  ", " "
			}
			return " ", "  "
		case "comma":
			if s.n%2 == 0 {
				return "", ""
			}
			return " ", " "
		}
		if s.n%2 == 0 {
			return "", " "
		}
		return " ", ""
	}
	if kind == "comma" {
		return "", " "
	}
	return " ", " "
}

func (e Expr) text(sp *speller) string {
	switch e.K {
	case "path":
		if sp.keys != "" {
			return bracketKeys(e.V, sp.keys)
		}
		return e.V
	case "int", "float", "bool":
		return e.V
	case "str":
		return quote(e.V, e.Q)
	case "paren":
		return "(" + e.A[0].text(sp) + ")"
	case "not":
		in := e.A[0]
		if prec(in) < 9 {
			return "!(" + in.text(sp) + ")"
		}
		return "!" + in.text(sp)
	case "call":
		out := e.V + "("
		for i, a := range e.A {
			if i > 0 {
				l, r := sp.around("comma")
				out += l + "," + r
			}
			out += a.text(sp)
		}
		return out + ")"
	case "tern":
		p := func(x Expr) string {
			if x.K == "tern" {
				return "(" + x.text(sp) + ")"
			}
			return x.text(sp)
		}
		c := p(e.A[0])
		ql, qr := sp.around("tern")
		x := p(e.A[1])
		cl, cr := sp.around("tern")
		return c + ql + "?" + qr + x + cl + ":" + cr + p(e.A[2])
	case "bin":
		me := prec(e)
		l, r := e.A[0], e.A[1]
		ls := l.text(sp)
		kind := "sym"
		switch e.V {
		case "+", "-", "*", "/", "%", "<", ">":
			kind = "arith"
		}
		bl, br := sp.around(kind)
		rs := r.text(sp)
		// left-associative: the right operand needs parentheses at equal precedence;
		// comparisons are never chained bare (languages disagree on their relative precedence)
		if prec(l) < me || (me == 4 && prec(l) == 4) {
			ls = "(" + ls + ")"
		}
		if prec(r) <= me {
			rs = "(" + rs + ")"
		}
		op := e.V
		if (op == "==" || op == "!=") && sp.strict > 0 {
			sp.strict--
			op += "=" // === and !== mean == and !=
		}
		return ls + bl + op + br + rs
	}
	return "?" + e.K
}

// blankTwin changes the whitespace INSIDE every string literal (a single blank is doubled,
// any longer run or a tab becomes one blank): a different expression with the same tokens.
func blankTwin(e Expr) (Expr, bool) {
	out, changed := e, false
	if e.K == "str" {
		var sb strings.Builder
		for i := 0; i < len(e.V); {
			if e.V[i] != ' ' && e.V[i] != '\t' {
				sb.WriteByte(e.V[i])
				i++
				continue
			}
			j := i
			for j < len(e.V) && (e.V[j] == ' ' || e.V[j] == '\t') {
				j++
			}
			if e.V[i:j] == " " {
				sb.WriteString("  ")
			} else {
				sb.WriteString(" ")
			}
			changed = true
			i = j
		}
		out.V = sb.String()
	}
	out.A = nil
	for _, a := range e.A {
		t, c := blankTwin(a)
		out.A = append(out.A, t)
		changed = changed || c
	}
	return out, changed
}

// unknown is the value of anything computed from `/` (7/2 has two conventional answers).
type unknown struct{}

func isNum(v any) bool {
	switch v.(type) {
	case int, float64:
		return true
	}
	return false
}

func toF(v any) float64 {
	if i, ok := v.(int); ok {
		return float64(i)
	}
	return v.(float64)
}

// truthy implements the documented notion: 0, false, "" and nil are falsy.
func truthy(v any) bool {
	switch x := v.(type) {
	case nil:
		return false
	case bool:
		return x
	case int:
		return x != 0
	case int64:
		return x != 0
	case uint:
		return x != 0
	case uint64:
		return x != 0
	case uint32:
		return x != 0
	case float64:
		return x != 0
	case string:
		return x != ""
	}
	return true
}

// eval evaluates e over env with ordinary semantics. An error means the tree is ill-typed,
// which is a bug of the generator (reported as such by the check).
func eval(e Expr, env map[string]any) (any, error) {
	switch e.K {
	case "path":
		v, ok := resolve(env, e.V)
		if !ok {
			return nil, fmt.Errorf("path %q does not resolve", e.V)
		}
		return v, nil
	case "int":
		n, err := strconv.Atoi(e.V)
		return n, err
	case "float":
		f, err := strconv.ParseFloat(e.V, 64)
		return f, err
	case "str":
		return e.V, nil
	case "bool":
		return e.V == "true", nil
	case "paren":
		return eval(e.A[0], env)
	case "not":
		v, err := eval(e.A[0], env)
		if err != nil {
			return nil, err
		}
		if _, u := v.(unknown); u {
			return v, nil
		}
		b, ok := v.(bool)
		if !ok {
			return nil, fmt.Errorf("! applied to %T", v)
		}
		return !b, nil
	case "tern":
		c, err := eval(e.A[0], env)
		if err != nil {
			return nil, err
		}
		x, err := eval(e.A[1], env)
		if err != nil {
			return nil, err
		}
		y, err := eval(e.A[2], env)
		if err != nil {
			return nil, err
		}
		if _, u := c.(unknown); u {
			return c, nil
		}
		b, ok := c.(bool)
		if !ok {
			return nil, fmt.Errorf("ternary condition is %T", c)
		}
		if b {
			return x, nil
		}
		return y, nil
	case "call":
		var args []any
		for _, a := range e.A {
			v, err := eval(a, env)
			if err != nil {
				return nil, err
			}
			args = append(args, v)
		}
		f, ok := funcs[e.V]
		if !ok {
			return nil, fmt.Errorf("no model for function %q", e.V)
		}
		v, st, err := f.apply(args)
		if st != convOK || err != nil {
			return nil, fmt.Errorf("call %s: status %d err %v", e.Text(), st, err)
		}
		return v, nil
	case "bin":
		l, err := eval(e.A[0], env)
		if err != nil {
			return nil, err
		}
		r, err := eval(e.A[1], env)
		if err != nil {
			return nil, err
		}
		_, lu := l.(unknown)
		_, ru := r.(unknown)
		if lu || ru {
			return unknown{}, nil
		}
		return binop(e.V, l, r)
	}
	return nil, fmt.Errorf("bad node kind %q", e.K)
}

func binop(op string, l, r any) (any, error) {
	bad := fmt.Errorf("%T %s %T is not in the typed grammar", l, op, r)
	switch op {
	case "&&", "||":
		a, ok1 := l.(bool)
		b, ok2 := r.(bool)
		if !ok1 || !ok2 {
			return nil, bad
		}
		if op == "&&" {
			return a && b, nil
		}
		return a || b, nil
	case "+", "-", "*", "%", "/":
		if ls, ok := l.(string); ok && op == "+" {
			rs, ok := r.(string)
			if !ok {
				return nil, bad
			}
			return ls + rs, nil
		}
		if !isNum(l) || !isNum(r) {
			return nil, bad
		}
		if op == "/" {
			if toF(r) == 0 {
				return nil, fmt.Errorf("division by zero generated")
			}
			return unknown{}, nil
		}
		li, lok := l.(int)
		ri, rok := r.(int)
		if lok && rok {
			switch op {
			case "+":
				return li + ri, nil
			case "-":
				return li - ri, nil
			case "*":
				return li * ri, nil
			case "%":
				// both operands non-negative, divisor positive: every convention agrees
				if li < 0 || ri <= 0 {
					return nil, fmt.Errorf("%% with operands %d, %d generated", li, ri)
				}
				return li % ri, nil
			}
		}
		if op == "%" {
			return nil, bad
		}
		a, b := toF(l), toF(r)
		switch op {
		case "+":
			return a + b, nil
		case "-":
			return a - b, nil
		default:
			return a * b, nil
		}
	case "==", "!=", "<", "<=", ">", ">=":
		c := 0
		if l == nil || r == nil {
			// nil equals only nil
			if op != "==" && op != "!=" {
				return nil, bad
			}
			return (l == nil && r == nil) == (op == "=="), nil
		}
		switch a := l.(type) {
		case int:
			b, ok := r.(int)
			if !ok {
				return nil, bad
			}
			c = cmp3(a < b, a > b)
		case float64:
			b, ok := r.(float64)
			if !ok {
				return nil, bad
			}
			c = cmp3(a < b, a > b)
		case string:
			b, ok := r.(string)
			if !ok {
				return nil, bad
			}
			c = strings.Compare(a, b)
		case bool:
			b, ok := r.(bool)
			if !ok || (op != "==" && op != "!=") {
				return nil, bad
			}
			if a != b {
				c = 1
			}
		default:
			return nil, bad
		}
		switch op {
		case "==":
			return c == 0, nil
		case "!=":
			return c != 0, nil
		case "<":
			return c < 0, nil
		case "<=":
			return c <= 0, nil
		case ">":
			return c > 0, nil
		default:
			return c >= 0, nil
		}
	}
	return nil, bad
}

func cmp3(lt, gt bool) int {
	if lt {
		return -1
	}
	if gt {
		return 1
	}
	return 0
}

// walk visits every node of e.
func (e Expr) walk(f func(Expr, int)) { e.walkD(f, 0) }
func (e Expr) walkD(f func(Expr, int), d int) {
	f(e, d)
	for _, a := range e.A {
		a.walkD(f, d+1)
	}
}

func (e Expr) depth() int {
	m := 0
	e.walk(func(_ Expr, d int) {
		if d > m {
			m = d
		}
	})
	return m
}
