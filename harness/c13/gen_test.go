package c13

// Generators: typed construction (never rejection). Open known findings narrow the
// (expression, position) region that is generated; each avoided case is counted.

import (
	"fmt"
	"strconv"
	"strings"

	"pgregory.net/rapid"

	"verif/internal/ev"
	"verif/internal/kf"
)

// known-finding ids (see /verif/findings.d/c13.json)
const (
	fCond    = "C13-func-in-condition"                          // funcmap functions are invisible to v-if / v-else-if / v-show
	fNest    = "C13-func-under-operator"                        // funcmap functions cannot be called inside an operator expression
	fErrC    = "C13-func-error-in-condition"                    // failing function call in a condition is swallowed
	fBareLit = "C13-bare-literal-in-mustache-prints-nothing"    // {{ 5 }} / title="{{ 5 }}" print nothing
	fBNeg    = "C13-bare-negation"                              // {{ !x }} / :a="!x" print nothing
	fShowN   = "C13-vshow-negation-nonbool"                     // v-show="!z" hides for falsy non-bool z while v-if="!z" shows
	fQVar    = "C13-quoted-arg-reinterpreted"                   // f("a") passes the value of variable a; " x " -> "x"; "'q'" -> q
	fWhole   = "C13-whole-expression-call-bypasses-evaluator"   // {{ upper(lower(h)) }} prints LOWER(H), {{ max(a, b) }}: function not found
	fPipeIn  = "C13-call-as-pipe-input-swallows-error"          // {{ safe(bad) | upper }} renders empty, {{ add(1) | string }} prints <nil>
	fInnerB  = "C13-registered-builtin-name-nested-in-call"     // isBig(sum(a, 1, b)) with a registered sum does not compile
	fInnerU  = "C13-unknown-function-nested-in-call"            // v-if="upper(nosuch(s))" is silently false
	fArgNm   = "C13-missing-variable-argument-becomes-its-name" // {{ default(nope, 'fb') }} prints nope
	fTagEl   = "C13-tagged-field-of-slice-element"              // team[0].age + 1 fails where team is a slice of structs with JSON tags
	fNegEr   = "C13-func-error-after-leading-negation"          // {{ !t || fail(a) }} prints a value instead of failing
	fBoolN   = "C13-arg-variable-named-like-bool"               // f(t) / f(f): a variable named t or f is read as the literal true / false
)

type gen struct {
	rec  *ev.Rec
	open map[string]bool
	fn   bool // the case under construction uses fnEnv (variables named like functions)
	cat  *catalog
}

// c returns the path catalogue of the environment under construction.
func (g *gen) c() *catalog {
	if g.cat != nil {
		return g.cat
	}
	return baseCat
}

// paths returns the catalogue of typ for the environment under construction: in fnEnv the
// function-named variables are ordinary leaves of their type (and drawn often).
func (g *gen) paths(t *rapid.T, base, fnNamed []string) []string {
	if g.fn && rapid.IntRange(0, 1).Draw(t, "fnnamed") == 0 {
		return fnNamed
	}
	return base
}

func newGen(rec *ev.Rec) *gen {
	f := kf.Load()
	g := &gen{rec: rec, open: map[string]bool{}}
	for _, id := range []string{fCond, fNest, fErrC, fBNeg, fShowN, fQVar, fBoolN, fNegEr, fTagEl, fWhole, fPipeIn, fInnerU, fInnerB, fArgNm, fBareLit} {
		g.open[id] = f.Open(id)
	}
	return g
}

func (g *gen) excluded(id string) {
	if g.rec != nil {
		g.rec.Excluded(id)
	}
}

// ---------------------------------------------------------------- small helpers

func pick[T any](t *rapid.T, label string, xs []T) T {
	return xs[rapid.IntRange(0, len(xs)-1).Draw(t, label)]
}

func without(pos []string, drop ...string) []string {
	var out []string
	for _, p := range pos {
		keep := true
		for _, d := range drop {
			if p == d {
				keep = false
			}
		}
		if keep {
			out = append(out, p)
		}
	}
	return out
}

func isEnvName(s string) bool {
	for _, n := range envNames {
		if n == s {
			return true
		}
	}
	return false
}

var (
	intLits   = []string{"0", "1", "2", "3", "7", "10", "20", "-3"}
	floatLits = []string{"0.5", "1.5", "2.5", "0.25", "2.0", "10.0", "0.0", "1e3", "-3.0"}
	// whole numbers spelled as floats: float64 in every position, never int
	wholeFloatLits = []string{"2.0", "10.0", "1e3", "0.0", "-3.0"}
	// harmless alphanumerics; "s", "a", "h" are also variable names (the quoted literal must
	// still mean the text)
	strLits      = []string{"abc", "x", "Hello", "zz9", "Mid", "bob", "s", "a", "h"}
	posIntLits   = []string{"1", "2", "3", "7", "10"}
	nonzeroFLits = []string{"0.5", "2.0", "2.5"}
)

// ---------------------------------------------------------------- family A: expression trees

func (g *gen) strLit(t *rapid.T, callArg bool) Expr {
	lits := strLits
	if callArg && g.open[fQVar] {
		// region of C13-quoted-arg-resolves-variable: quoted argument whose content names a variable
		var l []string
		for _, s := range strLits {
			if !isEnvName(s) {
				l = append(l, s)
			}
		}
		lits = l
	}
	switch rapid.IntRange(0, 5).Draw(t, "blanklit") {
	case 0:
		lits = blankLits // blanks inside the quotes are part of the text
	case 1:
		lits = nonASCIILits // multi-byte characters
	}
	return Expr{K: "str", V: pick(t, "strlit", lits), Q: pick(t, "quote", []string{"d", "s"})}
}

// argPaths returns the paths usable as a function argument: while C13-arg-variable-named-like-bool
// is open, the variables whose names strconv.ParseBool accepts (t, f) are left out.
func (g *gen) argPaths(paths []string, callArg bool) []string {
	if !callArg || !g.open[fBoolN] {
		return paths
	}
	var out []string
	for _, p := range paths {
		if p != "t" && p != "f" {
			out = append(out, p)
		}
	}
	if len(out) != len(paths) {
		g.excluded(fBoolN)
	}
	return out
}

// argPath substitutes a like-typed variable for t / f in argument position (enumerations).
func (g *gen) argPath(p string) string {
	if g.open[fBoolN] && (p == "t" || p == "f") {
		g.excluded(fBoolN)
		return map[string]string{"t": "m.ok", "f": "m.rate"}[p]
	}
	return p
}

func (g *gen) leaf(t *rapid.T, typ string, litOK, callArg bool) Expr {
	if litOK && rapid.IntRange(0, 9).Draw(t, "leafkind") < 3 {
		switch typ {
		case "int":
			return Expr{K: "int", V: pick(t, "intlit", intLits)}
		case "float":
			return Expr{K: "float", V: pick(t, "floatlit", floatLits)}
		case "string":
			return g.strLit(t, callArg)
		case "bool":
			return Expr{K: "bool", V: pick(t, "boollit", []string{"true", "false"})}
		}
	}
	switch typ {
	case "int":
		return Expr{K: "path", V: pick(t, "ipath", g.paths(t, g.c().ints, fnIntPaths))}
	case "float":
		return Expr{K: "path", V: pick(t, "fpath", g.argPaths(g.c().floats, callArg))}
	case "string":
		return Expr{K: "path", V: pick(t, "spath", g.paths(t, g.c().strings, fnStringPaths))}
	case "list":
		return Expr{K: "path", V: pick(t, "lpath", g.paths(t, g.c().lists, fnListPaths))}
	case "map":
		return Expr{K: "path", V: pick(t, "mpath", g.c().maps)}
	}
	return Expr{K: "path", V: pick(t, "bpath", g.argPaths(g.paths(t, g.c().bools, fnBoolPaths), callArg))}
}

func bin(op string, l, r Expr) Expr { return Expr{K: "bin", V: op, A: []Expr{l, r}} }
func call(f string, a ...Expr) Expr { return Expr{K: "call", V: f, A: a} }

// callsOf lists the function calls producing typ: {name, parameter leaf types…}.
var callsOf = map[string][][]string{
	"int":    {{"abs", "int"}, {"max", "int", "int"}, {"min", "int", "int"}, {"first", "intlist"}, {"last", "intlist"}, {"incp", "*int"}, {"addp", "*int", "int"}, {"len", "list"}, {"len", "string"}, {"len", "map"}, {"int", "numstr"}, {"int", "int"}, {"add", "int", "int"}, {"sum", "int", "int", "int"}},
	"float":  {{"round", "float", "digits"}, {"abs", "float"}, {"half", "float"}, {"scale", "float", "float"}},
	"string": {{"first", "strlist"}, {"last", "strlist"}, {"fmtDate", "*time"}, {"upp", "*string"}, {"pname", "*rec"}, {"typ", "*any"}, {"recname", "recval"}, {"typ", "anyval"}, {"kinds", "anyval", "anyval"}, {"divide", "numval", "numval"}, {"upper", "string"}, {"lower", "string"}, {"trim", "string"}, {"string", "int"}, {"string", "fracfloat"}, {"string", "string"}, {"greet", "string"}, {"ctxup", "string"}, {"title", "lowstr"}, {"pick", "bool", "string", "string"}},
	"bool":   {{"isBig", "int"}, {"neg", "bool"}},
}

// top: the call is the whole expression and so takes the filter path, whose argument handling is
// the region of C13-quoted-arg-reinterpreted and C13-arg-variable-named-like-bool.
func (g *gen) callExpr(t *rapid.T, typ string, nonShared, top bool) Expr {
	var cands [][]string
	for _, c := range callsOf[typ] {
		if _, bound := fnVars[c[0]]; bound && g.fn {
			continue // the data binds this name: calling it is unspecified (the variable shadows the function)
		}
		if g.cat != nil && len(c) > 1 && (strings.HasPrefix(c[1], "*") || c[1] == "recval" || strings.HasSuffix(c[1], "list") && c[1] != "list") {
			continue // the pointer-typed data and the xs / ss lists live in the map environments
		}
		if funcs[c[0]].shared || nonShared {
			cands = append(cands, c)
		}
	}
	if len(cands) == 0 {
		return g.leaf(t, typ, false, false)
	}
	c := pick(t, "callee", cands)
	e := Expr{K: "call", V: c[0]}
	for _, pt := range c[1:] {
		switch pt {
		case "numstr":
			e.A = append(e.A, Expr{K: "path", V: pick(t, "numstr", g.c().numstr)})
		case "fracfloat": // fractional in every environment (the text of 10.0 is ambiguous)
			if rapid.IntRange(0, 2).Draw(t, "fraclit") == 0 {
				e.A = append(e.A, Expr{K: "float", V: pick(t, "fracl", []string{"0.5", "1.5", "2.5", "0.25"})})
			} else {
				e.A = append(e.A, Expr{K: "path", V: pick(t, "fracp", g.argPaths(g.c().frac, top))})
			}
		case "lowstr":
			e.A = append(e.A, Expr{K: "path", V: pick(t, "lowpath", g.c().lowstr)})
		case "recval":
			e.A = append(e.A, p(pick(t, "recval", []string{"st", "rs[0]"})))
		case "digits":
			e.A = append(e.A, Expr{K: "int", V: pick(t, "digits", []string{"0", "1", "2"})})
		case "intlist":
			e.A = append(e.A, p("xs"))
		case "strlist":
			e.A = append(e.A, p("ss"))
		case "*time", "*int", "*string", "*rec":
			e.A = append(e.A, Expr{K: "path", V: pick(t, "ptrpath", ptrPaths[pt])})
		case "anyval", "numval": // type-sensitive functions: literal spellings and typed paths
			e.A = append(e.A, g.anyVal(t, pt == "numval"))
		case "*any": // the type-identity function over any pointer path
			e.A = append(e.A, Expr{K: "path", V: pick(t, "ptrpath", ptrPaths[pick(t, "ptrtype", ptrTypeOrder)])})
		default:
			if rapid.IntRange(0, 3).Draw(t, "nestedcall") == 0 {
				if n, ok := g.nestedArg(t, pt); ok {
					e.A = append(e.A, n) // a call directly inside the call
					continue
				}
			}
			e.A = append(e.A, g.leaf(t, pt, true, top))
		}
	}
	return e
}

// anyVal draws an argument for an `any` parameter of a type-sensitive function: int- and
// float-spelled literals (a whole number spelled 2.0 stays a float64), strings, bools, paths.
func (g *gen) anyVal(t *rapid.T, numeric bool) Expr {
	switch rapid.IntRange(0, 5).Draw(t, "anyval") {
	case 0, 1:
		return Expr{K: "float", V: pick(t, "wholef", wholeFloatLits)}
	case 2:
		return Expr{K: "int", V: pick(t, "ilit", []string{"1", "2", "7", "10", "-3"})}
	case 3:
		return Expr{K: "float", V: pick(t, "fraclit", []string{"0.5", "2.5"})}
	case 4:
		if !numeric {
			if rapid.IntRange(0, 1).Draw(t, "strbool") == 0 {
				return Expr{K: "str", V: pick(t, "plain", []string{"abc", "x1"}), Q: pick(t, "q", []string{"d", "s"})}
			}
			return Expr{K: "bool", V: pick(t, "blit", []string{"true", "false"})}
		}
	}
	if g.cat != nil {
		return Expr{K: "path", V: pick(t, "numpath", append(append([]string{}, g.c().nonzeroInts...), g.c().nonzeroFloats...))}
	}
	return Expr{K: "path", V: pick(t, "numpath", []string{"a", "b", "m.inner.x", "g", "m.rate", "us[1].age"})}
}

// expr builds a tree of static type typ and depth <= d. top marks the root: no bare literal
// there (docs never show one as a whole expression; not asserted), and, while
// C13-func-under-operator is open, the only place for a call of a non-shared function.
func (g *gen) expr(t *rapid.T, env map[string]any, typ string, d int, top bool) Expr {
	if d <= 0 {
		return g.leaf(t, typ, !top, false)
	}
	nonShared := top || !g.open[fNest]
	sub := func(ty string) Expr {
		e := g.expr(t, env, ty, rapid.IntRange(0, d-1).Draw(t, "subdepth"), false)
		if rapid.IntRange(0, 11).Draw(t, "paren") == 0 {
			return Expr{K: "paren", A: []Expr{e}}
		}
		return e
	}
	k := rapid.IntRange(0, 9).Draw(t, "production")
	if k == 0 { // ternary of any type
		return Expr{K: "tern", A: []Expr{sub("bool"), sub(typ), sub(typ)}}
	}
	if k == 1 {
		return g.callExpr(t, typ, nonShared, top)
	}
	switch typ {
	case "int":
		op := pick(t, "iop", []string{"+", "-", "*", "%", "+", "-"})
		l, r := sub("int"), sub("int")
		if op == "%" {
			// every convention agrees only for a non-negative dividend and a positive divisor
			lv, _ := eval(l, env)
			li, ok := lv.(int)
			if !ok || li < 0 {
				l = Expr{K: "path", V: g.c().nonneg} // >= 0 in every environment
			}
			rv, _ := eval(r, env)
			ri, ok := rv.(int)
			if !ok || ri <= 0 {
				r = Expr{K: "int", V: pick(t, "divisor", posIntLits)}
			}
		}
		return bin(op, l, r)
	case "float":
		op := pick(t, "fop", []string{"+", "-", "*", "/", "+", "*"})
		if op == "/" {
			// divisor: a leaf that is non-zero in every environment; the quotient has no single
			// conventional value (7 / 2), so only the agreement between positions is asserted
			var r Expr
			switch rapid.IntRange(0, 3).Draw(t, "divkind") {
			case 0:
				r = Expr{K: "path", V: pick(t, "divpath", g.c().nonzeroInts)}
			case 1:
				r = Expr{K: "path", V: pick(t, "divfpath", g.c().nonzeroFloats)}
			case 2:
				r = Expr{K: "int", V: pick(t, "divlit", posIntLits)}
			default:
				r = Expr{K: "float", V: pick(t, "divflit", nonzeroFLits)}
			}
			return bin(op, sub(pick(t, "numty", []string{"int", "float"})), r)
		}
		lt, rt := "float", "float"
		switch rapid.IntRange(0, 5).Draw(t, "mixed") { // int with float promotes to float
		case 0:
			lt = "int"
		case 1:
			rt = "int"
		}
		return bin(op, sub(lt), sub(rt))
	case "string":
		return bin("+", sub("string"), sub("string"))
	}
	// bool
	switch rapid.IntRange(0, 11).Draw(t, "boolprod") {
	case 11:
		if g.cat == nil {
			// text beyond ASCII on both sides of a comparison
			l := Expr{K: "path", V: pick(t, "napath", nonASCIIPaths)}
			r := Expr{K: "str", V: pick(t, "nalit", nonASCIILits), Q: pick(t, "quote", []string{"d", "s"})}
			if rapid.IntRange(0, 1).Draw(t, "hit") == 0 {
				if v, ok := resolve(env, l.V); ok {
					r.V = v.(string)
				}
			}
			e := bin(pick(t, "beq", []string{"==", "!=", "==", "!="}), l, r)
			if rapid.IntRange(0, 1).Draw(t, "flip") == 0 {
				e.A[0], e.A[1] = e.A[1], e.A[0]
			}
			return e
		}
		return bin(pick(t, "lop", []string{"&&", "||"}), sub("bool"), sub("bool"))
	case 10:
		// a string with blanks against a literal spelled with the same or different blanks
		if g.cat != nil {
			// the blank strings live in the map environments only
			return bin(pick(t, "beq", []string{"==", "!="}), sub("string"), sub("string"))
		}
		l := Expr{K: "path", V: pick(t, "blankpath", blankPaths)}
		r := Expr{K: "str", V: pick(t, "blanklit", blankLits), Q: pick(t, "quote", []string{"d", "s"})}
		if rapid.IntRange(0, 1).Draw(t, "hit") == 0 {
			if v, ok := env[l.V].(string); ok {
				r.V = v // the literal that equals the value
			}
		}
		return bin(pick(t, "beq", []string{"==", "!=", "==", "<="}), l, r)
	case 0, 1:
		return bin(pick(t, "lop", []string{"&&", "||"}), sub("bool"), sub("bool"))
	case 2:
		return Expr{K: "not", A: []Expr{sub("bool")}}
	case 3:
		return bin(pick(t, "beq", []string{"==", "!="}), sub("bool"), sub("bool"))
	default:
		ty := pick(t, "cmpty", []string{"int", "int", "float", "string", "string"})
		return bin(pick(t, "cmp", []string{"==", "!=", "<", "<=", ">", ">="}), sub(ty), sub(ty))
	}
}

// facts about a tree that decide the known-finding regions
func hasOperator(e Expr) bool {
	r := false
	e.walk(func(x Expr, _ int) {
		if x.K == "bin" || x.K == "tern" {
			r = true
		}
	})
	return r
}

func hasNot(e Expr) bool {
	r := false
	e.walk(func(x Expr, _ int) {
		if x.K == "not" {
			r = true
		}
	})
	return r
}

func nonSharedCall(e Expr) (any bool, nested bool) {
	e.walk(func(x Expr, d int) {
		if x.K == "call" && !funcs[x.V].shared {
			any = true
			if d > 0 {
				nested = true
			}
		}
	})
	return
}

func pathCase(envID int, path string) Case {
	e := Expr{K: "path", V: path}
	return Case{Fam: "path", Env: envID, E: &e, Pos: allExprPos}
}

// finishExpr applies the open-finding regions to an expression case: positions are removed
// exactly where a recorded defect shows.
func (g *gen) finishExpr(c Case) (Case, bool) {
	pos := allExprPos
	if g.open[fBNeg] && hasNot(*c.E) && !hasOperator(*c.E) {
		// only `!`, parentheses and one path/call: {{ }} and bound attribute print nothing
		pos = without(pos, valuePos...)
		g.excluded(fBNeg)
	}
	ns, nested := nonSharedCall(*c.E)
	if ns && nested && g.open[fNest] {
		g.excluded(fNest)
		return c, false
	}
	if ns && g.open[fCond] {
		pos = without(pos, condPos...)
		g.excluded(fCond)
	}
	if g.open[fWhole] && wholeCallRegion(*c.E) {
		// the whole expression is one call with a nested call / of a library built-in: the value
		// positions bypass the expression evaluator
		pos = without(pos, valuePos...)
		g.excluded(fWhole)
	}
	if len(pos) == 0 {
		return c, false
	}
	c.Pos = pos
	return c, true
}

func (g *gen) negCase(envID int, path string) Case {
	e := Expr{K: "not", A: []Expr{{K: "path", V: path}}}
	c := Case{Fam: "neg", Env: envID, E: &e, Pos: condPos}
	if g.open[fShowN] {
		if v, _ := resolve(envOf(envID), path); !truthy(v) {
			c.Pos = without(condPos, posShow)
			g.excluded(fShowN)
		}
	}
	return c
}

func (g *gen) genExprCase(t *rapid.T) Case {
	// the replaced default functions change what the model computes: the flag is on while the
	// tree is built (typed construction consults the model) and recorded in the case
	overrideOn = rapid.IntRange(0, 5).Draw(t, "override") == 0
	defer func() { overrideOn = false }()
	c := g.genExprCase0(t)
	c.Override = overrideOn && (c.Fam == "expr" || c.Fam == "pipe")
	if rapid.IntRange(0, 2).Draw(t, "scoped") == 0 {
		c = g.addScope(t, c)
	}
	c = respell(t, c)
	if c.Fam == "expr" && rapid.IntRange(0, 39).Draw(t, "history") == 0 {
		c.History = pick(t, "historyN", []int{300, 300, 520})
	}
	if c.Fam == "expr" && hasRegisteredCall(*c.E) && rapid.IntRange(0, 5).Draw(t, "late") == 0 {
		c.Late = true // the functions are registered after a first evaluation on the same engine
	}
	return afterFailure(t, c)
}

// afterFailure puts a failing render built from the case's own source in front of it.
// equivalents draws documented-equivalent spellings for a value case.
func equivalents(t *rapid.T, c Case) Case {
	if c.Fam != "expr" && c.Fam != "pipe" && c.Fam != "path" && c.Fam != "neg" {
		return c
	}
	if rapid.IntRange(0, 2).Draw(t, "tplspell") == 0 {
		c.Tpl = pick(t, "tpl", tplSpellings[1:])
	}
	if c.E != nil && hasEq(*c.E) && rapid.IntRange(0, 1).Draw(t, "strict") == 0 {
		c.Strict = rapid.IntRange(1, 3).Draw(t, "strictN")
	}
	if c.E != nil && rapid.IntRange(0, 3).Draw(t, "keys") == 0 {
		c.Keys = pick(t, "keystyle", []string{"s", "d"})
	}
	if c.Fam == "pipe" && rapid.IntRange(0, 3).Draw(t, "callform") == 0 {
		c = callForm(c)
	}
	return c
}

// callForm writes a chain as nested calls; an expression, so every position applies.
func callForm(c Case) Case {
	if _, bound := resolve(envOf(c.Env), c.Init); !bound && kf.Load().Open(fArgNm) {
		return c // a missing variable as call argument: region of the open finding
	}
	c.Form = "call"
	if contains(c.Pos, posBound) {
		c.Pos = allExprPos
	}
	return c
}

func hasEq(e Expr) bool {
	r := false
	e.walk(func(x Expr, _ int) {
		if x.K == "bin" && (x.V == "==" || x.V == "!=") {
			r = true
		}
	})
	return r
}

func afterFailure(t *rapid.T, c Case) Case {
	c = equivalents(t, c)
	if (c.Fam == "expr" || c.Fam == "pipe" || c.Fam == "path") && !c.Late && c.Env != structEnv {
		c.Deliver = pick(t, "deliver", []string{"", "", "assign", "fragment"})
	} else if c.Env == structEnv && !c.Late {
		c.Deliver = pick(t, "deliver", []string{"", "fragment"})
	}
	if (c.Fam == "expr" || c.Fam == "pipe") && rapid.IntRange(0, 5).Draw(t, "after") == 0 {
		c.After = pick(t, "afterwhere", []string{"fresh", "same"})
	}
	return c
}

func hasRegisteredCall(e Expr) bool {
	r := false
	e.walk(func(x Expr, _ int) {
		if x.K == "call" {
			if f := funcs[x.V]; f != nil && !f.builtin {
				r = true
			}
		}
	})
	return r
}

func (g *gen) genExprCase0(t *rapid.T) Case {
	if rapid.IntRange(0, 19).Draw(t, "ownpath") == 0 {
		return pathCase(rapid.IntRange(0, nEnvs-1).Draw(t, "env"), pick(t, "ownpath", ownPaths))
	}
	envID := rapid.IntRange(0, structEnv).Draw(t, "env")
	env := envOf(envID)
	g.fn = envID == fnEnv
	if envID == structEnv {
		g.cat = g.structCatalog()
	}
	defer func() { g.fn, g.cat = false, nil }()
	if rapid.IntRange(0, 14).Draw(t, "negfam") == 0 {
		// negation of a non-bool path (documented as v-if="!show"): truthiness negated; only the
		// agreement of the condition positions is asserted
		np := append(append(append([]string{}, g.c().ints...), g.c().strings...), g.c().floats...)
		if g.fn {
			np = append(append([]string{}, fnIntPaths...), fnStringPaths...)
		}
		return g.negCase(envID, pick(t, "negpath", np))
	}
	typ := pick(t, "type", []string{"bool", "bool", "bool", "int", "int", "float", "string", "string"})
	d := pick(t, "depth", []int{0, 1, 1, 2, 2, 2, 3, 3, 3, 3})
	e := g.expr(t, env, typ, d, true)
	if rapid.IntRange(0, 11).Draw(t, "rootparen") == 0 {
		e = Expr{K: "paren", A: []Expr{e}} // (x) as the whole expression
	}
	c, ok := g.finishExpr(Case{Fam: "expr", Env: envID, E: &e})
	if !ok {
		// no position left (e.g. !isBig(a) while both findings are open): use the operand
		in := e
		for in.K == "not" || in.K == "paren" {
			in = in.A[0]
		}
		c, _ = g.finishExpr(Case{Fam: "expr", Env: envID, E: &in})
	}
	return c
}

// ---------------------------------------------------------------- family B: pipes

var pipeInits = []string{
	"a", "b", "z", "n", "m.k", "xs[1]", "st.Age", "us[1].age", "big",
	"f", "g", "zf", "m.rate", "fs[0]", "st.Score",
	"z10", "z08", "z007", "z0s", "sp", "sp2", "spl", "spt",
	`errs['user[email]']`, `errs["tags[]"]`, `errs['a.b']`, `errs['two words']`, `errs["it's"]`, `errs['say "hi"']`, `errs['item[0][id]']`, `errs['sub[x]'].s`, `errs["sub[x]"]["n"]`, `errs['ok[]']`, `errs['sub[x]']`,
	"xs[ix]", "ss[ix]", "m[kk]", "us[ix].name", "m[kb]",
	"umax", "u63", "imax", "imin", "u32", "fbig", "negz", "sv", "rs[0]",
	"nz", "nj", "ni", "nq", "nm", "nc", `errs['città']`, `errs["ключ"]`, `errs['東']`,
	"post.PublishedAt", "pt.at", "ts", "post.Views", "pm.k", `pm['k']`, "ptrs[1]", "pi", "post.Slug", "post.Author", "prec",
	"s", "h", "e", "num", "pad", "m.name", `m["name"]`, `m['name']`, "m.inner.s", "ss[0]", "st.Name", "st.In.S", "us[0].name",
	"t", "u", "m.ok", "bs[0]", "st.Ok",
	"xs", "ss", "fs", "m", "m.inner", "st", "nope",
}

// quoted literal contents by class
var (
	litPlain = []string{"abc", "x1", "Hello", "zz9", "fb", "Zürich", "東京", "é😀", "İß"}
	litVar   = []string{"a", "s", "h", "num", "t"} // also names of variables
	litComma = []string{"a, b", "x,y", "one, two, three"}
	litParen = []string{"(c)", "f(x)", "a) b (c"}
	litSpace = []string{"two words", "a b c"}
	litPad   = []string{" x ", "  lead", "trail "}
	litNum   = []string{"42", "7", "-3", "010", "08", "007", "0"} // decimal text: leading zeros stay decimal
	litUNum  = []string{"42", "7", "010", "08", "007", "0"}
	litFloat = []string{"2.5", "0.25"}
)

func (g *gen) quoted(t *rapid.T, classes ...string) Arg {
	cl := pick(t, "litclass", classes)
	q := pick(t, "q", []string{"d", "s"})
	var v string
	switch cl {
	case "plain":
		v = pick(t, "plain", litPlain)
	case "var":
		if g.open[fQVar] {
			g.excluded(fQVar)
			v = pick(t, "plain", litPlain)
		} else {
			v = pick(t, "var", litVar)
		}
	case "comma":
		v = pick(t, "comma", litComma)
	case "paren":
		v = pick(t, "paren", litParen)
	case "space":
		v = pick(t, "space", litSpace)
	case "pad":
		if g.open[fQVar] {
			g.excluded(fQVar)
			v = pick(t, "space", litSpace)
		} else {
			v = pick(t, "pad", litPad)
		}
	case "otherquote":
		oq := map[string][]string{"d": {"it's", "x'y'", "'q'"}, "s": {`say "hi"`, `"x"y`, `"q"`}}[q]
		if g.open[fQVar] {
			oq = oq[:2] // content wrapped in the other quote style is part of the finding's region
			g.excluded(fQVar)
		}
		v = pick(t, "oq", oq)
	case "num":
		v = pick(t, "num", litNum)
	case "unum":
		v = pick(t, "unum", litUNum)
	case "float":
		v = pick(t, "fnum", litFloat)
	}
	return Arg{K: "str", V: v, Q: q}
}

// argFor draws an argument for a parameter of type pt among the sources whose conversion is
// documented (convert(...) == convOK by construction).
func (g *gen) argFor(t *rapid.T, pt string) Arg {
	switch pt {
	case "string":
		switch rapid.IntRange(0, 9).Draw(t, "ssrc") {
		case 0, 1, 2, 3, 4:
			return g.quoted(t, "plain", "var", "comma", "paren", "space", "pad", "otherquote", "num")
		case 5:
			return Arg{K: "int", V: pick(t, "ilit", intLits)}
		case 6:
			return Arg{K: "float", V: pick(t, "flit", []string{"1.5", "0.25", "2.5"})}
		case 7:
			return Arg{K: "path", V: pick(t, "ipath", g.argPaths([]string{"a", "m.k", "big", "f", "m.rate"}, true))}
		default:
			return Arg{K: "path", V: pick(t, "spath", stringPaths)}
		}
	case "int", "int64":
		switch rapid.IntRange(0, 5).Draw(t, "isrc") {
		case 0, 1:
			return Arg{K: "int", V: pick(t, "ilit", intLits)}
		case 2:
			return g.quoted(t, "num")
		case 3:
			return Arg{K: "path", V: pick(t, "numpath", append([]string{"num", "big"}, zeroLedStrs...))}
		default:
			return Arg{K: "path", V: pick(t, "ipath", intPaths)}
		}
	case "uint":
		switch rapid.IntRange(0, 4).Draw(t, "usrc") {
		case 0:
			return Arg{K: "int", V: pick(t, "ulit", posIntLits)}
		case 1, 2:
			return g.quoted(t, "unum")
		case 3:
			return Arg{K: "path", V: pick(t, "unumpath", append([]string{"num", "big"}, zeroLedStrs...))}
		default:
			return Arg{K: "path", V: pick(t, "upath", []string{"a", "b", "z", "xs[0]", "st.Age"})}
		}
	case "float64":
		switch rapid.IntRange(0, 5).Draw(t, "fsrc") {
		case 0:
			return Arg{K: "float", V: pick(t, "flit", floatLits)}
		case 1:
			return Arg{K: "int", V: pick(t, "ilit", intLits)}
		case 2:
			return g.quoted(t, "float", "num")
		case 3:
			return Arg{K: "path", V: pick(t, "npath", append([]string{"num", "a", "big"}, zeroLedStrs...))}
		default:
			return Arg{K: "path", V: pick(t, "fpath", g.argPaths(floatPaths, true))}
		}
	case "bool":
		if rapid.IntRange(0, 1).Draw(t, "bsrc") == 0 {
			return Arg{K: "bool", V: pick(t, "blit", []string{"true", "false"})}
		}
		return Arg{K: "path", V: pick(t, "bpath", g.argPaths(boolPaths, true))}
	}
	// any: a quoted literal that looks like a number or bool is documented to be "parsed as its
	// natural type", so only plainly textual contents are used here
	switch rapid.IntRange(0, 5).Draw(t, "asrc") {
	case 0, 1:
		return g.quoted(t, "plain", "var", "comma", "space", "otherquote")
	case 2:
		return Arg{K: "int", V: pick(t, "ilit", intLits)}
	case 3:
		return Arg{K: "float", V: pick(t, "flit", append([]string{"1.5", "0.25"}, wholeFloatLits...))}
	case 4:
		return Arg{K: "bool", V: pick(t, "blit", []string{"true", "false"})}
	}
	return Arg{K: "path", V: pick(t, "anypath", g.argPaths([]string{"a", "f", "s", "t", "big", "m.k", "st.Name", "xs[0]"}, true))}
}

// fnNames: sorted names of all modelled functions (filled by the init in funcs_test.go).
var fnNames []string

// candidates lists the functions whose first parameter takes cur by a documented conversion.
func candidates(cur any) []string {
	var out []string
	for _, n := range fnNames {
		f := funcs[n]
		if _, st := convert(cur, f.params[0]); st != convOK {
			continue
		}
		if f.accepts != nil && !f.accepts(cur) {
			continue
		}
		if cur == nil && n != "default" {
			continue // a missing value is only documented together with default(fallback)
		}
		out = append(out, n)
	}
	return out
}

// stage draws one stage applicable to cur and returns it with the value it produces.
func (g *gen) stage(t *rapid.T, env map[string]any, cur any, last bool) (Stage, any) {
	cands := candidates(cur)
	var names []string
	for _, n := range cands {
		if n == "json" && !last {
			continue // JSON text is compared by meaning, so json only ends a chain
		}
		if n == "safe" && cur == "bad" {
			continue
		}
		names = append(names, n)
	}
	name := pick(t, "fn", names)
	f := funcs[name]
	s := Stage{F: name}
	np := len(f.params)
	extra := np - 1
	if f.variadic {
		extra = max(0, np-2) + rapid.IntRange(0, 2).Draw(t, "variadic")
	}
	for i := 0; i < extra; i++ {
		pt := f.params[min(i+1, np-1)]
		a := g.argFor(t, pt)
		if name == "failif" {
			a = Arg{K: pick(t, "fk", []string{"bool", "path"}), V: "false"}
			if a.K == "path" {
				a.V = "off"
			}
		}
		s.A = append(s.A, a)
	}
	args := []any{cur}
	for _, a := range s.A {
		args = append(args, argValue(a, env))
	}
	v, _, _ := f.apply(args)
	return s, v
}

func (g *gen) chain(t *rapid.T, env map[string]any, init string, n int, mayEndJSON bool) ([]Stage, any) {
	cur, _ := resolve(env, init)
	var st []Stage
	for i := 0; i < n; i++ {
		s, v := g.stage(t, env, cur, mayEndJSON && i == n-1)
		st = append(st, s)
		cur = v
		if _, isJSON := v.(jsonText); isJSON {
			break
		}
	}
	return st, cur
}

func pipeCase(envID int, init string, st []Stage, final any) Case {
	c := Case{Fam: "pipe", Env: envID, Init: init, Stages: st, Pos: pipePos}
	if s := fmt.Sprint(final); s == "false" || s == "0" {
		_, isStr := final.(string)
		_, isJSON := final.(jsonText)
		if !isStr && !isJSON {
			return c
		}
		// truthiness of the texts "false"/"0" is not documented: the bound attribute is not asserted
		c.Pos = without(pipePos, posBound)
	}
	return c
}

func (g *gen) genPipeCase(t *rapid.T) Case {
	overrideOn = rapid.IntRange(0, 4).Draw(t, "override") == 0
	defer func() { overrideOn = false }()
	envID := rapid.IntRange(0, nEnvs-1).Draw(t, "env")
	env := envOf(envID)
	init := pick(t, "init", pipeInits)
	n := pick(t, "len", []int{1, 2, 2, 3, 3})
	st, final := g.chain(t, env, init, n, true)
	c := afterFailure(t, respell(t, pipeCase(envID, init, st, final)))
	c.Override = overrideOn
	return c
}

// ---------------------------------------------------------------- family C: errors

var unknownNames = []string{"nosuch", "zzFilter", "missingFn"}

func (g *gen) errPositions(callForm bool) []string {
	if !callForm {
		return pipePos
	}
	// a direct call is also documented for conditions
	if g.open[fErrC] {
		g.excluded(fErrC)
		return pipePos
	}
	return append(append([]string{}, pipePos...), condPos...)
}

// stringSource is an initial path whose value is a plain non-numeric string in every environment
var alphaStringPaths = []string{"s", "h", "m.name", "st.Name", "bad"}

func (g *gen) genErrCase(t *rapid.T) Case {
	envID := rapid.IntRange(0, nEnvs-1).Draw(t, "env")
	env := envOf(envID)
	why := pick(t, "why", []string{"unknown", "arity", "conversion", "returned"})
	callForm := rapid.IntRange(0, 3).Draw(t, "callform") == 0
	c := Case{Fam: "err", Env: envID, Why: why, Call: callForm}

	// a valid prefix (pipe form only), then the failing stage, then possibly one more stage
	init := pick(t, "init", pipeInits[:len(pipeInits)-1])
	var prefix []Stage
	cur, _ := resolve(env, init)
	if !callForm && why != "conversion" {
		prefix, cur = g.chain(t, env, init, rapid.IntRange(0, 2).Draw(t, "prefix"), false)
	}
	var bad Stage
	switch why {
	case "unknown":
		bad = Stage{F: pick(t, "uname", unknownNames)}
		for i := rapid.IntRange(0, 2).Draw(t, "uargs"); i > 0; i-- {
			bad.A = append(bad.A, g.argFor(t, "any"))
		}
	case "arity":
		var names []string
		for _, n := range candidates(cur) {
			if !funcs[n].variadic {
				names = append(names, n)
			}
		}
		f := funcs[pick(t, "afn", names)]
		want := len(f.params) - 1 // besides the piped value
		n := want + 1 + rapid.IntRange(0, 1).Draw(t, "more")
		if want > 0 && rapid.IntRange(0, 1).Draw(t, "fewer") == 0 {
			n = rapid.IntRange(0, want-1).Draw(t, "fewerN")
		}
		bad = Stage{F: f.name}
		for i := 0; i < n; i++ {
			bad.A = append(bad.A, g.argFor(t, f.params[min(i+1, len(f.params)-1)]))
		}
	case "conversion":
		// a container, a non-numeric text or a text that is not a DECIMAL number ("0x10", "1_000",
		// " 42", "") piped or passed into a numeric / bool parameter; the sources are filtered by
		// the model so that only conversions nothing accepts today are required to fail
		numeric := []string{"add", "isBig", "dbl64", "udbl", "half", "scale", "sum", "failif", "ctxadd"}
		f := funcs[pick(t, "cfn", numeric)]
		bad = Stage{F: f.name}
		argBad := len(f.params) > 1 && rapid.IntRange(0, 2).Draw(t, "argbad") == 0
		badFor := func(pt string) []Arg {
			var out []Arg
			for _, p := range append(append(append([]string{"xs", "ss", "fs", "m", "m.inner"}, alphaStringPaths...), badNumPaths...), badNumPaths...) {
				v, _ := resolve(env, p)
				if _, st := convert(v, pt); st == convImpossible {
					out = append(out, Arg{K: "path", V: p})
				}
			}
			for _, l := range badNumLits {
				if _, st := convert(l, pt); st == convImpossible {
					out = append(out, Arg{K: "str", V: l, Q: "d"}, Arg{K: "str", V: l, Q: "s"})
				}
			}
			return out
		}
		if argBad {
			init = pick(t, "okinit", []string{"a", "b", "m.k", "num", "z10"})
		} else {
			var paths []string
			for _, a := range badFor(f.params[0]) {
				if a.K == "path" {
					paths = append(paths, a.V)
				}
			}
			init = pick(t, "badinit", paths)
		}
		for i := 1; i < len(f.params); i++ {
			a := g.argFor(t, f.params[i])
			if f.name == "failif" {
				a = Arg{K: "bool", V: "false"}
			}
			if argBad && i == 1 {
				a = pick(t, "badarg", badFor(f.params[i]))
			}
			bad.A = append(bad.A, a)
		}
	case "returned":
		if rapid.IntRange(0, 1).Draw(t, "which") == 0 {
			// safe(s string) fails for "bad"
			init, prefix = "bad", nil
			if !callForm && rapid.IntRange(0, 1).Draw(t, "viaLower") == 0 {
				prefix = []Stage{{F: "lower"}}
			}
			bad = Stage{F: "safe"}
		} else {
			init, prefix = pick(t, "iinit", []string{"a", "m.k", "num", "xs[1]"}), nil
			bad = Stage{F: "failif", A: []Arg{{K: "bool", V: "true"}}}
			if rapid.IntRange(0, 1).Draw(t, "viaPath") == 0 {
				bad.A = []Arg{{K: "path", V: "bs[" + strconv.Itoa(map[bool]int{true: 0, false: 1}[envOf(envID)["bs"].([]bool)[0]]) + "]"}}
			}
		}
	}
	c.ErrFn = bad.F
	c.Init = init
	if callForm {
		// f(init, args…): the would-be piped value becomes the first argument
		bad.A = append([]Arg{{K: "path", V: init}}, bad.A...)
		c.Init = ""
		c.Stages = []Stage{bad}
	} else {
		c.Stages = append(prefix, bad)
		// what follows the failing stage is never reached: a harmless stage, or a SECOND fault
		// (unknown name, wrong argument count, a function that would return an error)
		switch rapid.IntRange(0, 5).Draw(t, "suffix") {
		case 0:
			c.Stages = append(c.Stages, Stage{F: pick(t, "sfx", []string{"upper", "typ", "string"})})
		case 1, 2:
			c.Stages = append(c.Stages, secondFault(bad.F, rapid.IntRange(0, 9).Draw(t, "fault2")))
		case 3:
			c.Stages = append(c.Stages, Stage{F: pick(t, "sfx", []string{"upper", "lower"})}, secondFault(bad.F, rapid.IntRange(0, 9).Draw(t, "fault2")))
		}
	}
	c.Pos = g.errPositions(callForm)
	if callForm {
		c.Wrap, c.WrapX = wrapFor(env, pick(t, "wrap", []string{"", "", "not", "notparen", "or", "and", "inner", "innerop", "pipein"}), rapid.IntRange(0, 9).Draw(t, "wrapx"))
		c = g.finishErrForm(c, rapid.IntRange(0, 9).Draw(t, "formk"))
		c.Pos = g.wrapPositions(c)
	}
	return c
}

var innerOuters = []string{"upper", "len", "isBig", "greet", "string", "typ"}

// finishErrForm completes the inner / innerop / pipein forms and drops them where an open
// finding covers them (the plain call form is used instead).
func (g *gen) finishErrForm(c Case, k int) Case {
	switch c.Wrap {
	case "inner", "innerop":
		c.WrapX = innerOuters[k%len(innerOuters)]
		if c.WrapX == c.ErrFn {
			c.WrapX = "upper"
		}
		if c.Why == "unknown" && g.open[fInnerU] {
			g.excluded(fInnerU)
			c.Wrap, c.WrapX = "", ""
		}
		if c.ErrFn == "sum" && g.open[fInnerB] {
			// sum is registered AND a predicate built-in of the expression library
			g.excluded(fInnerB)
			c.Wrap, c.WrapX = "", ""
		}
	case "pipein":
		c.Wrap = ""
		if g.open[fPipeIn] {
			g.excluded(fPipeIn)
			return c
		}
		c.Stages = append(c.Stages, Stage{F: []string{"upper", "string", "typ"}[k%3]})
		if k%2 == 0 {
			c.Stages = append(c.Stages, secondFault(c.ErrFn, k))
		}
		c.Pos = pipePos // pipes are documented for {{ }} and attributes
	}
	return c
}

// wrapPositions removes the value positions of `!x || f(…)` / `!x && f(…)` error cases while
// C13-func-error-after-leading-negation is open (conditions still have to fail).
func (g *gen) wrapPositions(c Case) []string {
	if (c.Wrap == "or" || c.Wrap == "and") && g.open[fNegEr] {
		g.excluded(fNegEr)
		return without(c.Pos, valuePos...)
	}
	return c.Pos
}

// secondFault is a stage that would fail itself if it were ever reached (never named like first).
func secondFault(first string, k int) Stage {
	opts := []Stage{{F: "nosuch"}, {F: "zzFilter", A: []Arg{{K: "int", V: "1"}}}, {F: "missingFn"}, {F: "fails"}, {F: "add"}, {F: "greet", A: []Arg{{K: "str", V: "x", Q: "d"}}},
		{F: "failif", A: []Arg{{K: "bool", V: "true"}}}, {F: "isBig", A: []Arg{{K: "int", V: "1"}, {K: "int", V: "2"}}}}
	for i := 0; i < len(opts); i++ {
		if o := opts[(k+i)%len(opts)]; o.F != first {
			return o
		}
	}
	return opts[0]
}

var errWraps = []string{"not", "notparen", "or", "and"}

// wrapFor picks the left operand X of `!X || f(…)` / `!X && f(…)`: a bool path that is true
// (for ||) or false (for &&) in env, so that the failing call is not skipped by a short circuit.
func wrapFor(env map[string]any, wrap string, k int) (string, string) {
	if wrap != "or" && wrap != "and" {
		return wrap, ""
	}
	var xs []string
	for _, p := range boolPaths {
		if v, _ := resolve(env, p); v == (wrap == "or") {
			xs = append(xs, p)
		}
	}
	if len(xs) == 0 {
		return "not", ""
	}
	return wrap, xs[k%len(xs)]
}

// ---------------------------------------------------------------- classification

func classify(c Case) (bool, []string) {
	cls := []string{"fam=" + c.Fam, fmt.Sprintf("env=%d", c.Env)}
	for _, p := range c.Pos {
		cls = append(cls, "pos="+p)
	}
	if c.Tpl != "" {
		cls = append(cls, "template spelling="+c.Tpl)
	}
	if c.Strict > 0 {
		cls = append(cls, fmt.Sprintf("=== / !== written %d times", c.Strict))
	}
	if c.Keys != "" {
		cls = append(cls, "paths with bracket keys a['b'] / a[\"b\"]")
	}
	if c.Form == "call" {
		cls = append(cls, "B:chain written in call form g(f(x, a))")
	}
	if c.After != "" {
		cls = append(cls, "after-failure="+c.After)
	}
	if c.Fam != "err" {
		cls = append(cls, "deliver="+map[string]string{"": "Fill", "assign": "Assign key by key", "fragment": "Vue.RenderFragment"}[c.Deliver])
	}
	if c.Override {
		cls = append(cls, "default functions replaced by registered ones")
	}
	if c.Late {
		cls = append(cls, "A:functions registered after a first evaluation on the same engine")
	}
	if c.History > 0 {
		cls = append(cls, "A:engine history (checked again after hundreds of other expressions)")
	}
	if c.Fam == "expr" || c.Fam == "pipe" {
		sp := c.Spell
		if sp == "" {
			sp = "documented"
		}
		cls = append(cls, "spelling="+sp)
		if c.Fam == "expr" && c.Spell != "" && c.E.K == "tern" && !hasBin(*c.E) {
			cls = append(cls, "A:operator-free ternary respelled")
		}
	}
	if len(c.Scope) > 0 {
		cls = append(cls, fmt.Sprintf("A:scope depth=%d", len(c.Scope)), "A:scope var-type="+scopeVars[c.Scope[0].Var])
		inner := c.Scope[len(c.Scope)-1].List
		if contains([]string{"Lsn", "Lin", "Lbn", "Lnil"}, inner) {
			cls = append(cls, "A:scope inner-nil")
		}
	}
	switch c.Fam {
	case "absent":
		cls = append(cls, "A:absent variable")
		if _, isFn := funcs[c.E.V]; isFn {
			cls = append(cls, "A:absent variable named like a function")
		}
		return true, cls
	case "path":
		cls = append(cls, "A:own-syntax path")
		if dotIndex(c.E.V) {
			cls = append(cls, "A:own-syntax numeric dot step")
		}
		if strings.Contains(c.E.V, "-") {
			cls = append(cls, "A:own-syntax hyphenated key")
		}
		if v, ok := resolve(envOf(c.Env), c.E.V); ok {
			cls = append(cls, fmt.Sprintf("A:own-syntax truthy=%v", truthy(v)))
		}
		return true, cls
	case "neg":
		cls = append(cls, "A:neg-nonbool")
		return true, cls
	case "expr":
		e := *c.E
		root := e.K
		if e.K == "bin" {
			switch e.V {
			case "&&", "||":
				root = "logic"
			case "+", "-", "*", "%", "/":
				root = "arith"
			default:
				root = "cmp"
			}
		}
		cls = append(cls, "A:root="+root, fmt.Sprintf("A:depth=%d", e.depth()))
		seen := map[string]bool{}
		e.walk(func(x Expr, _ int) {
			var k string
			switch x.K {
			case "bin":
				k = "A:op " + x.V
			case "not":
				k = "A:op !"
			case "tern":
				k = "A:op ?:"
			case "paren":
				k = "A:redundant-parens"
			case "call":
				k = "A:call " + x.V
				for _, a := range x.A {
					if a.K == "call" && !seen["A:call nested directly in a call"] {
						seen["A:call nested directly in a call"] = true
						cls = append(cls, "A:call nested directly in a call")
					}
				}
				if f := funcs[x.V]; f != nil && f.exprlib {
					k = "A:call library built-in " + x.V
				}
				if f := funcs[x.V]; f != nil && f.sig {
					k = "S:call-form"
					for _, extra := range sigClasses(f, len(x.A)) {
						if !seen[extra] {
							seen[extra] = true
							cls = append(cls, extra)
						}
					}
				}
			case "str":
				k = "A:strlit-" + map[string]string{"d": "double", "s": "single"}[x.Q]
				for _, r := range x.V {
					if r > 127 && !seen["A:strlit non-ASCII"] {
						seen["A:strlit non-ASCII"] = true
						cls = append(cls, "A:strlit non-ASCII")
					}
				}
				if strings.ContainsAny(x.V, " \t") && !seen["A:strlit-with-blanks"] {
					seen["A:strlit-with-blanks"] = true
					cls = append(cls, "A:strlit-with-blanks")
				}
			case "int", "float", "bool":
				k = "A:lit-" + x.K
			case "path":
				if _, named := fnVars[strings.SplitN(x.V, "[", 2)[0]]; named {
					if !seen["A:path-named-like-function"] {
						seen["A:path-named-like-function"] = true
						cls = append(cls, "A:path-named-like-function")
					}
				}
				switch {
				case c.Env == structEnv:
					k = "A:path-struct-root"
					if strings.HasPrefix(x.V, "editor.") || strings.HasPrefix(x.V, "team[2]") {
						k = "A:path-struct-root second reference to a shared pointer"
					}
				case strings.Contains(x.V, "[ix]") || strings.Contains(x.V, "[k"):
					k = "A:path-computed-step"
				case contains(nonASCIIPaths, x.V):
					k = "A:path to / through non-ASCII text"
				case strings.HasPrefix(x.V, "errs["):
					k = "A:path-quoted-key with ] [ . blank or quote"
				case contains(blankPaths, x.V):
					k = "A:path-string-with-blanks"
				case strings.Contains(x.V, `["`) || strings.Contains(x.V, `['`):
					k = "A:path-bracket-key"
				case strings.Contains(x.V, "["):
					k = "A:path-index"
				case strings.HasPrefix(x.V, "st.") || strings.HasPrefix(x.V, "rs["):
					k = "A:path-struct"
				case strings.Contains(x.V, "."):
					k = "A:path-nested-map"
				default:
					k = "A:path-simple"
				}
			}
			if k != "" && !seen[k] {
				seen[k] = true
				cls = append(cls, k)
			}
		})
		if v, err := eval(e, envOf(c.Env)); err == nil {
			switch x := v.(type) {
			case unknown:
				cls = append(cls, "A:value-unasserted(/)")
			default:
				cls = append(cls, fmt.Sprintf("A:type=%T", x), fmt.Sprintf("A:truthy=%v", truthy(x)))
			}
		}
		return e.K != "path", cls
	case "pipe":
		cls = append(cls, fmt.Sprintf("B:len=%d", len(c.Stages)))
		env := envOf(c.Env)
		cur, _ := resolve(env, c.Init)
		seen := map[string]bool{}
		add := func(k string) {
			if !seen[k] {
				seen[k] = true
				cls = append(cls, k)
			}
		}
		for _, s := range c.Stages {
			f := funcs[s.F]
			if f.sig {
				add("S:pipe-form")
				for _, extra := range sigClasses(f, len(s.A)+1) {
					add(extra)
				}
				cur, _, _ = f.apply(append([]any{cur}, argValues(s.A, env)...))
				continue
			}
			add("B:fn " + s.F)
			args := []any{cur}
			add(fmt.Sprintf("B:pair piped %T->%s", cur, f.params[0]))
			if cs, ok := cur.(string); ok && len(cs) > 1 && cs[0] == '0' && f.params[0] != "string" && f.params[0] != "any" {
				add("B:piped leading-zero text->number")
			}
			for i, a := range s.A {
				v := argValue(a, env)
				args = append(args, v)
				pt := f.params[min(i+1, len(f.params)-1)]
				src := a.K
				if a.K == "path" {
					src = fmt.Sprintf("path(%T)", v)
				}
				if a.K == "str" {
					src = "quoted-" + map[string]string{"d": "double", "s": "single"}[a.Q]
					switch {
					case strings.ContainsAny(a.V, `'"`):
						add("B:lit other-quote")
					case strings.Contains(a.V, ","):
						add("B:lit comma")
					case strings.ContainsAny(a.V, "()"):
						add("B:lit paren")
					case strings.HasPrefix(a.V, " ") || strings.HasSuffix(a.V, " "):
						add("B:lit padded")
					case strings.Contains(a.V, " "):
						add("B:lit inner-space")
					case isEnvName(a.V):
						add("B:lit names-a-variable")
					}
					if _, err := strconv.ParseFloat(a.V, 64); err == nil {
						src += "-numeric"
						if len(a.V) > 1 && a.V[0] == '0' {
							add("B:lit leading-zero")
						}
					}
				}
				add(fmt.Sprintf("B:pair %s->%s", src, pt))
			}
			if f.variadic {
				add(fmt.Sprintf("B:variadic extra-args=%d", len(s.A)-max(0, len(f.params)-2)))
			}
			if f.ctx {
				add("B:leading-context")
			}
			if f.retErr {
				add("B:(T,error)")
			}
			cur, _, _ = f.apply(args)
		}
		return len(c.Stages) >= 2 || len(c.Stages[0].A) > 0, cls
	case "err":
		form := "pipe"
		if c.Call {
			form = "call"
		}
		cls = append(cls, "C:"+c.Why, "C:form="+form, fmt.Sprintf("C:stages=%d", len(c.Stages)))
		if !c.Call {
			for i, st := range c.Stages {
				if st.F == c.ErrFn && i+1 < len(c.Stages) {
					last := c.Stages[len(c.Stages)-1].F
					if f, ok := funcs[last]; !ok {
						cls = append(cls, "C:second fault to the right: unknown function")
					} else if _, stt, _ := f.apply(append([]any{1}, argValues(c.Stages[len(c.Stages)-1].A, envOf(c.Env))...)); stt == convArity || last == "fails" || last == "failif" {
						cls = append(cls, "C:second fault to the right: failing function")
					}
					break
				}
			}
		}
		if c.Wrap != "" {
			cls = append(cls, "C:under "+map[string]string{"not": "!f()", "notparen": "!(f())", "or": "!x || f()", "and": "!x && f()", "inner": "g(f())", "innerop": "g(f()) == lit"}[c.Wrap], "C:"+c.Why+" under operator")
		}
		if c.Call && len(c.Stages) > 1 {
			cls = append(cls, "C:failing call as pipe input")
		}
		if c.Why == "conversion" {
			txt := c.Text()
			for _, b := range append(append([]string{}, badNumPaths[:6]...), badNumLits[:6]...) {
				if strings.Contains(txt, b) {
					cls = append(cls, "C:conversion not-decimal-text")
					break
				}
			}
		}
		return true, cls
	}
	return false, cls
}

func argValues(as []Arg, env map[string]any) []any {
	var out []any
	for _, a := range as {
		out = append(out, argValue(a, env))
	}
	return out
}

// sigClasses labels a call of a signature-product function with nargs arguments.
func sigClasses(f *fnSpec, nargs int) []string {
	nfixed := len(f.params)
	if f.variadic {
		nfixed--
	}
	cls := []string{fmt.Sprintf("S:ctx=%v", f.ctx), fmt.Sprintf("S:fixed=%d", nfixed), fmt.Sprintf("S:variadic=%v", f.variadic), fmt.Sprintf("S:(T,error)=%v", f.retErr)}
	if f.variadic {
		cls = append(cls, fmt.Sprintf("S:variadic-args=%d", nargs-nfixed), "S:variadic-of-"+f.params[nfixed])
		if f.ctx {
			cls = append(cls, "S:ctx+variadic")
		}
	}
	for i := 0; i < nfixed; i++ {
		cls = append(cls, "S:fixed-"+f.params[i])
	}
	return cls
}

func hasBin(e Expr) bool {
	r := false
	e.walk(func(x Expr, _ int) {
		if x.K == "bin" {
			r = true
		}
	})
	return r
}
