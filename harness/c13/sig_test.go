package c13

// The registered-function signature space as a product:
//
//	{no context, *vuego.VueContext first} x {0..2 fixed parameters of differing types out of
//	string, int, float64, bool, any} x {not variadic, variadic of a type different from the last
//	fixed parameter} x {returns value, returns (value, error)}
//
// Every member is built with reflect.MakeFunc and reports what it received:
// "<declared type>:<value>" per argument, joined by commas (so a parameter converted to the
// wrong type, dropped, duplicated or shifted is visible). The model side formats the converted
// arguments the same way: that is the Go-side reference of what the function returns.

import (
	"fmt"
	"reflect"
	"sort"
	"strings"
	"verif/internal/run"

	"github.com/titpetric/vuego"
	"pgregory.net/rapid"
)

var sigTypes = []string{"string", "int", "float64", "bool", "any"}

var sigNames []string // sorted

func goType(pt string) reflect.Type {
	switch pt {
	case "string":
		return reflect.TypeOf("")
	case "int":
		return reflect.TypeOf(0)
	case "float64":
		return reflect.TypeOf(0.0)
	case "bool":
		return reflect.TypeOf(false)
	}
	return reflect.TypeOf((*any)(nil)).Elem()
}

func sigName(ctx bool, fixed []string, variadic string, retErr bool) string {
	n := "sg"
	if ctx {
		n += "C"
	}
	n += "_"
	for _, f := range fixed {
		n += f[:1]
	}
	if variadic != "" {
		n += "_v" + variadic[:1]
	}
	if retErr {
		n += "_E"
	}
	return n
}

func sigFormat(types []string, vals []any) string {
	parts := make([]string, len(vals))
	for i, v := range vals {
		pt := types[min(i, len(types)-1)]
		if pt == "any" {
			pt = fmt.Sprintf("any(%T)", v) // what an untyped parameter received, type included
		}
		parts[i] = fmt.Sprintf("%s:%v", pt, v)
	}
	return "got(" + strings.Join(parts, ",") + ")"
}

func registerSignatures() {
	var fixedLists [][]string
	fixedLists = append(fixedLists, nil)
	for _, a := range sigTypes {
		fixedLists = append(fixedLists, []string{a})
		for _, b := range sigTypes {
			if a != b {
				fixedLists = append(fixedLists, []string{a, b})
			}
		}
	}
	ctxT := reflect.TypeOf((*vuego.VueContext)(nil))
	errT := reflect.TypeOf((*error)(nil)).Elem()
	for _, ctx := range []bool{false, true} {
		for _, fixed := range fixedLists {
			for _, variadic := range append([]string{""}, sigTypes...) {
				if variadic != "" && len(fixed) > 0 && fixed[len(fixed)-1] == variadic {
					continue
				}
				if variadic == "" && len(fixed) == 0 {
					continue // nothing to pass
				}
				for _, retErr := range []bool{false, true} {
					params := append([]string{}, fixed...)
					if variadic != "" {
						params = append(params, variadic)
					}
					var in []reflect.Type
					if ctx {
						in = append(in, ctxT)
					}
					for _, f := range fixed {
						in = append(in, goType(f))
					}
					if variadic != "" {
						in = append(in, reflect.SliceOf(goType(variadic)))
					}
					out := []reflect.Type{goType("string")}
					if retErr {
						out = append(out, errT)
					}
					hasCtx, isVar, wantErr, ptypes := ctx, variadic != "", retErr, params
					impl := reflect.MakeFunc(reflect.FuncOf(in, out, isVar), func(args []reflect.Value) []reflect.Value {
						res := ""
						if hasCtx {
							if args[0].IsNil() {
								res = "NILCTX"
							}
							args = args[1:]
						}
						var vals []any
						for i, a := range args {
							if isVar && i == len(args)-1 {
								for j := 0; j < a.Len(); j++ {
									vals = append(vals, a.Index(j).Interface())
								}
								continue
							}
							vals = append(vals, a.Interface())
						}
						res += sigFormat(ptypes, vals)
						r := []reflect.Value{reflect.ValueOf(res)}
						if wantErr {
							r = append(r, reflect.Zero(errT))
						}
						return r
					}).Interface()
					name := sigName(ctx, fixed, variadic, retErr)
					funcs[name] = &fnSpec{name: name, params: params, variadic: isVar, ctx: ctx, retErr: retErr, sig: true, impl: impl,
						call: func(in []any) (any, error) { return sigFormat(ptypes, in), nil }}
					sigNames = append(sigNames, name)
				}
			}
		}
	}
	sort.Strings(sigNames)
}

// sigSources: argument sources per parameter type whose conversion is documented and whose
// printed form is harmless text (the expected result is also written as a quoted literal).
func (g *gen) sigSources(pt string) []Arg {
	fpath, bpath := g.argPath("f"), g.argPath("t")
	switch pt {
	case "string":
		return []Arg{{K: "path", V: "umax"}, {K: "path", V: "u63"}, {K: "path", V: "imax"}, {K: "path", V: "imin"}, {K: "path", V: "u32"}, {K: "str", V: "abc", Q: "d"}, {K: "str", V: "x1", Q: "s"}, {K: "str", V: "42", Q: "d"}, {K: "path", V: "s"}, {K: "path", V: "m.name"}, {K: "int", V: "7"}, {K: "path", V: "a"}, {K: "float", V: "1.5"}}
	case "int":
		return []Arg{{K: "path", V: "imax"}, {K: "path", V: "imin"}, {K: "path", V: "u32"}, {K: "int", V: "3"}, {K: "int", V: "-3"}, {K: "path", V: "a"}, {K: "path", V: "m.k"}, {K: "str", V: "42", Q: "s"}, {K: "str", V: "010", Q: "d"}, {K: "path", V: "num"}, {K: "path", V: "big"}}
	case "float64":
		return []Arg{{K: "path", V: "fbig"}, {K: "path", V: "negz"}, {K: "path", V: "u32"}, {K: "path", V: "umax"}, {K: "path", V: "imax"}, {K: "float", V: "0.5"}, {K: "path", V: fpath}, {K: "path", V: "m.rate"}, {K: "int", V: "2"}, {K: "path", V: "a"}, {K: "str", V: "2.5", Q: "d"}, {K: "path", V: "num"}}
	case "bool":
		return []Arg{{K: "bool", V: "true"}, {K: "bool", V: "false"}, {K: "path", V: bpath}, {K: "path", V: "u"}, {K: "path", V: "m.ok"}}
	}
	return []Arg{{K: "path", V: "umax"}, {K: "path", V: "u63"}, {K: "path", V: "imax"}, {K: "path", V: "imin"}, {K: "path", V: "u32"}, {K: "path", V: "fbig"}, {K: "path", V: "negz"},
		{K: "str", V: "abc", Q: "s"}, {K: "int", V: "7"}, {K: "float", V: "1.5"}, {K: "float", V: "2.0"}, {K: "float", V: "1e3"}, {K: "bool", V: "true"}, {K: "path", V: "a"}, {K: "path", V: "s"}, {K: "path", V: fpath}, {K: "path", V: "big"}}
}

func argExpr(a Arg) Expr {
	if a.K == "str" {
		return Expr{K: "str", V: a.V, Q: a.Q}
	}
	return Expr{K: a.K, V: a.V}
}

// sigCases builds, for one signature and one choice of arguments, the forms it is called in:
// a direct call (all positions), `call == 'expected'` (the v-if form of the docs, all
// positions) and the pipe form (first argument piped when it is a variable).
func (g *gen) sigCases(envID int, name string, args []Arg) []Case {
	env := envOf(envID)
	var vals []any
	for _, a := range args {
		vals = append(vals, argValue(a, env))
	}
	want, st, err := funcs[name].apply(vals)
	if st != convOK || err != nil {
		return nil
	}
	var out []Case
	c := Expr{K: "call", V: name}
	for _, a := range args {
		c.A = append(c.A, argExpr(a))
	}
	direct := c
	if dc, ok := g.finishExpr(Case{Fam: "expr", Env: envID, E: &direct}); ok {
		out = append(out, dc)
	}
	eq := bin("==", c, Expr{K: "str", V: want.(string), Q: "s"})
	if ec, ok := g.finishExpr(Case{Fam: "expr", Env: envID, E: &eq}); ok {
		out = append(out, ec)
	}
	if len(args) > 0 && args[0].K == "path" {
		out = append(out, pipeCase(envID, args[0].V, []Stage{{F: name, A: append([]Arg{}, args[1:]...)}}, want))
	}
	return out
}

// sigArgs picks arguments for a signature: one per fixed parameter, nvar for the variadic tail;
// k selects the sources deterministically.
func (g *gen) sigArgs(name string, nvar int, k func(n int) int) []Arg {
	f := funcs[name]
	nfixed := len(f.params)
	if f.variadic {
		nfixed--
	}
	var args []Arg
	for i := 0; i < nfixed; i++ {
		src := g.sigSources(f.params[i])
		args = append(args, src[k(len(src))])
	}
	if f.variadic {
		src := g.sigSources(f.params[nfixed])
		for j := 0; j < nvar; j++ {
			args = append(args, src[k(len(src))])
		}
	}
	return args
}

func (g *gen) genSigCase(t *rapid.T) Case {
	envID := rapid.IntRange(0, nEnvs-1).Draw(t, "env")
	name := pick(t, "sig", sigNames)
	nvar := rapid.IntRange(0, 3).Draw(t, "nvar")
	args := g.sigArgs(name, nvar, func(n int) int { return rapid.IntRange(0, n-1).Draw(t, "src") })
	if len(args) == 0 {
		args = g.sigArgs(name, 1, func(n int) int { return rapid.IntRange(0, n-1).Draw(t, "src1") })
	}
	cs := g.sigCases(envID, name, args)
	return cs[rapid.IntRange(0, len(cs)-1).Draw(t, "form")]
}

// enumSigs: every signature x {0, 1, 3 variadic arguments} x every call form, sources rotating.
func (g *gen) enumSigs() []Case {
	var out []Case
	n := 0
	for _, name := range sigNames {
		counts := []int{0}
		if funcs[name].variadic {
			counts = run.Pick([]int{1, 3}, []int{0, 1, 3})
		}
		for _, nvar := range counts {
			n++
			i := n
			args := g.sigArgs(name, nvar, func(m int) int { i++; return (i * 7) % m })
			if len(args) == 0 {
				continue
			}
			out = append(out, g.sigCases(n%nEnvs, name, args)...)
		}
	}
	return out
}
